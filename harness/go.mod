module verifharness

go 1.12

require github.com/knz/shakespeare v0.0.0

replace github.com/knz/shakespeare => /repo
