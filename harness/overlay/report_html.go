package cmd

const reportHTML = `<!DOCTYPE html>
<html lang="en">
<head>
<meta charset="utf-8"/>
<title>shakespeare report</title>
<script src="result.js" type="text/javascript"></script>
<style type='text/css'>
h1,h3,p,ul#refs{text-align: center;}
p,ul#refs{font-family:cursive;font-size: large;}
#artifacts,pre,code{font-family:monospace;font-size:small;}
#artifacts ul{list-style-type:none;margin:0;}
#artifacts a{text-decoration:none;}
pre{overflow:auto;}
#chash{color:red;font-weight:bold;}
.diff{font-style:italic;}
.divider{font-family:serif; margin-top:3em; margin-bottom:3em;}
.divider:before{content:"⊱ ────────────────── {.⋅ ♫ ⋅.} ───────────────── ⊰";}
.result{font-weight:bold;}
.good{color:green;}
.bad{color:blue;}
.kw{font-weight:bold;}
.rn{color:blue;font-style:italic;}
.acn{color:blue;font-style:italic;font-weight:bold;}
.sn{color:darkgreen;font-style:italic;}
.an{color:purple;font-style:italic;}
.ann{color:orange;font-style:italic;}
.sh{color:#444;}
.re{color:green;}
.mod{font-style:italic;}
.centersvg{margin-left: auto; margin-right: auto; max-width: 800px;}
.center{position: absolute;top: 50%;left: 50%;margin-right: -50%;transform: translate(-50%, -50%);}
</style>
<link rel="stylesheet" href="https://shakespeare.thaumogen.net/report.css" />
</head>
<body>
<div class=center id=intro><h1 class=cursive>Please wait...</h1></div>
<div id=main style="display:none">
<h1 id=ttitle>A tale of <span id=title>surprise</span></h1>
<h3 id=tauthors>Written by <span id=authors>the collective</span></h3>
<p>The day was a <span id=date>beautiful day;</span>
on that fateful day, the story began...</p>
<p class="result good" id=resultgood>🎉 Rejoice! This tale ends well.</p>
<p class="result bad" id=resultbad>😭 Avert your eyes! For this tale, alas, does not end well.</p>
<p class=divider></p>
<p>This performance lasted <span id=duration>forever</span>.</p>
<div class=centersvg id=mainsvg></div>
<div id=mayberepeat>
<p class=divider></p>
<p>For your delicate eyes, the last <span id=rduration>moments</span> of the play:</p>
<div class=centersvg id=repeatsvg></div>
</div>
<div id=maybeerror>
<p class=divider></p>
<p>A tragic ending!</p>
<div class=centersvg><pre id=error></pre></div>
</div>
<div id=mayberef>
<p class=divider></p>
<p>Attention! You may want to know:</p>
<ul id=refs></ul>
</div>
<p class=divider></p>
<p>For your curious eyes, the full book for this play:</p>
<div class=centersvg><code id=chash></code><pre id=config></pre></div>
<div id=diffcontainer>
<p>Of note, perhaps ephemeral changes:</p>
<div class="centersvg"><pre class=diff id=diffs></pre></div>
</div>
<p>The script, as was intended:</p>
<div class=centersvg><pre id=script></pre></div>
<p class=divider></p>
<p>For your inquisitive eyes, the artifacts for this play:</p>
<div class=centersvg><div id=artifacts></div></div>
<p class=divider></p>
<p><em><small>A report produced by <a href='https://github.com/knz/shakespeare'>Shakespeare</a>,
<span id=version>unknown version</span></small></em></p>
</div>
<script type="text/javascript">
window.onload = function() {
var eid = function(id) { return document.getElementById(id); };
var icon = "🎉";
var adj = "merry";
if (result.Foul) {
adj = "tragic";
icon = "😭";
}
document.title = icon + " a " + adj + " shakespeare tale";
if (result.Title) {
eid("title").innerText = result.Title;
document.title = icon + " " + result.Title + " — a " + adj + " shakespeare tale";
} else {
eid("ttitle").style.display = 'none';
}
if (result.Authors) {
eid("authors").innerText = result.Authors;
var meta = document.createElement("meta");
meta.name = "author";
meta.content = result.Authors;
document.getElementsByTagName('head')[0].appendChild(meta);
} else {
eid("tauthors").style.display = 'none';
}
if (result.Foul) {
eid("resultgood").style.display = 'none';
} else {
eid("resultbad").style.display = 'none';
}
var extraDur = "";
if (result.Repeat != null && result.Repeat.NumRepeats > 0) {
var r = result.Repeat;
extraDur = ", including " + r.NumRepeats;
extraDur += " iterations of acts " + r.FirstRepeatedAct;
extraDur += "-" + r.LastRepeatedAct;
}
var svg = document.createElement("embed");
svg.src = "plots/plot.svg";
eid("mainsvg").appendChild(svg);
if (result.Repeat != null) {
var r = result.Repeat;
eid("rduration").innerText = r.Duration.toFixed(2) + "s";
svg = document.createElement("embed");
svg.src = "plots/lastplot.svg";
eid("repeatsvg").appendChild(svg);
} else {
eid("mayberepeat").style.display = 'none';
}
if (result.Error) {
eid("error").innerText = result.Error;
} else {
eid("maybeerror").style.display = 'none';
}
if (result.SeeAlso) {
for (var i in result.SeeAlso) {
var ref = result.SeeAlso[i];
var li = document.createElement("li");
if (ref.indexOf("://") >= 0) {
var a = document.createElement("a");
a.href = ref;
var c = document.createElement("code");
c.innerText = ref;
a.appendChild(c);
li.appendChild(a);
} else {
li.innerText = ref;
}
eid("refs").appendChild(li);
}
} else {
eid("mayberef").style.display = 'none';
}
eid("duration").innerText = result.PlayDurationVerbose + extraDur;
eid("date").innerHTML = result.TimestampHTML;
eid("version").innerText = result.Version;
eid("config").innerHTML = result.ConfigHTML;
eid("chash").innerHTML = "code: " + result.ConfigHashHTML;
if (result.Diffs) {
var diffs = "";
for (var i in result.Diffs) {
diffs += result.Diffs[i];
}
eid("diffs").innerHTML = diffs;
} else {
eid("diffcontainer").style.display = 'none';
}
eid("script").innerHTML = result.StepsHTML;
var items = result.Artifacts;
function populateTree(parent, item) {
var d;
if (item.children) {
d = document.createElement("details");
var s = document.createElement("summary");
s.innerText = item.icon + " " + item.text;
d.appendChild(s);
var ul = document.createElement("ul");
for (var i in item.children) {
populateTree(ul, item.children[i]);
}
d.appendChild(ul);
} else {
d = document.createElement("a");
d.href = item.Path;
d.innerText = item.icon + " " + item.text;
}
var li = document.createElement("li");
li.appendChild(d);
parent.appendChild(li);
}
var ultop = document.createElement("ul");
for (var i in items) {
populateTree(ultop, items[i]);
}
eid("artifacts").appendChild(ultop);
eid("intro").style.display = 'none';
eid("main").style.display = 'block';
};
</script>
</body>
</html>
`