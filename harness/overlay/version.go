// Generated for the verification harness (stands in for `go generate`).
package cmd

const versionName = "verif harness build"
