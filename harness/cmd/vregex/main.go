// vregex translates the clause regexps of the configuration parser into the Lean
// abstract syntax of lean/ShkModel/Model/Regex.lean.
//
// It reads the Go SOURCE of REPO/pkg/cmd (non-test files) with go/parser, finds every
//
//	var <name> = compileRe(`<literal>`)
//
// wraps the literal the way func compileRe does (the format string is read off the source of
// compileRe itself), parses it with regexp/syntax under the Perl flags and simplifies it — the
// two steps regexp.Compile performs before generating code — and prints the resulting tree.
// Only translation, no judgement: whatever the tree holds that the Lean syntax cannot express
// makes the program fail (exit 2), nothing is approximated.
//
// It also lists, for every function of the package, the regexp variables its body mentions in
// source order (the dispatch chains of parseCfg / parseRole / parseActors / parseScript /
// parseAudience / parseInterpretation are read off this list).
package main

import (
	"encoding/json"
	"flag"
	"fmt"
	"go/ast"
	"go/parser"
	"go/token"
	"os"
	"path/filepath"
	"regexp/syntax"
	"sort"
	"strconv"
	"strings"
)

type node struct {
	Op     string  `json:"op"`
	Runes  []int   `json:"runes,omitempty"`  // lit
	Ranges [][]int `json:"ranges,omitempty"` // cls
	Greedy bool    `json:"greedy,omitempty"`
	Idx    int     `json:"idx,omitempty"`
	Name   string  `json:"name,omitempty"`
	Subs   []*node `json:"subs,omitempty"`
}

type entry struct {
	Name    string   `json:"name"`
	File    string   `json:"file"`
	Line    int      `json:"line"`
	Source  string   `json:"source"`  // the literal
	Wrapped string   `json:"wrapped"` // what is compiled
	NumCap  int      `json:"numcap"`
	Names   []string `json:"capnames"`
	Tree    *node    `json:"tree"`
	lean    string
}

func die(format string, a ...interface{}) {
	fmt.Fprintf(os.Stderr, "vregex: "+format+"\n", a...)
	os.Exit(2)
}

type translator struct {
	classes  []string       // distinct class tables, rendered
	classIdx map[string]int // rendered -> index
}

func (t *translator) class(rs []rune) (string, [][]int) {
	var parts []string
	var ranges [][]int
	for i := 0; i+1 < len(rs); i += 2 {
		parts = append(parts, fmt.Sprintf("(%d, %d)", rs[i], rs[i+1]))
		ranges = append(ranges, []int{int(rs[i]), int(rs[i+1])})
	}
	s := "[" + strings.Join(parts, ", ") + "]"
	if len(parts) <= 8 {
		return s, ranges
	}
	ix, ok := t.classIdx[s]
	if !ok {
		ix = len(t.classes)
		t.classes = append(t.classes, s)
		t.classIdx[s] = ix
	}
	return fmt.Sprintf("class%d", ix), ranges
}

func runeList(rs []int) string {
	var parts []string
	for _, r := range rs {
		parts = append(parts, strconv.Itoa(r))
	}
	return "[" + strings.Join(parts, ", ") + "]"
}

func leanStr(s string) string {
	var b strings.Builder
	b.WriteByte('"')
	for _, r := range s {
		switch {
		case r == '"':
			b.WriteString("\\\"")
		case r == '\\':
			b.WriteString("\\\\")
		case r == '\n':
			b.WriteString("\\n")
		case r == '\t':
			b.WriteString("\\t")
		case r < 0x20 || r == 0x7f:
			fmt.Fprintf(&b, "\\x%02x", r)
		default:
			b.WriteRune(r)
		}
	}
	b.WriteByte('"')
	return b.String()
}

// tr renders one node; where names the regexp for error messages.
func (t *translator) tr(re *syntax.Regexp, where string) (string, *node) {
	greedy := re.Flags&syntax.NonGreedy == 0
	rep := func(op string) (string, *node) {
		if len(re.Sub) != 1 {
			die("%s: %s with %d operands", where, op, len(re.Sub))
		}
		s, n := t.tr(re.Sub[0], where)
		g := "true"
		if !greedy {
			g = "false"
		}
		return fmt.Sprintf("(.%s %s %s)", op, g, s), &node{Op: op, Greedy: greedy, Subs: []*node{n}}
	}
	nary := func(op string) (string, *node) {
		if len(re.Sub) < 2 {
			die("%s: %s with %d operands", where, op, len(re.Sub))
		}
		var ss []string
		var ns []*node
		for _, sub := range re.Sub {
			s, n := t.tr(sub, where)
			ss = append(ss, s)
			ns = append(ns, n)
		}
		out := ss[len(ss)-1]
		for i := len(ss) - 2; i >= 0; i-- {
			if op == "cat" && ns[i].Op == "lit" {
				// a literal inside a concatenation: its characters are spliced into the
				// right-nested chain (same language, same priorities, no groups involved)
				out = fmt.Sprintf("(Re.strThen %s %s)", runeList(ns[i].Runes), out)
			} else {
				out = fmt.Sprintf("(.%s %s %s)", op, ss[i], out)
			}
		}
		return out, &node{Op: op, Subs: ns}
	}
	switch re.Op {
	case syntax.OpEmptyMatch:
		return ".empty", &node{Op: "empty"}
	case syntax.OpLiteral:
		if re.Flags&syntax.FoldCase != 0 {
			die("%s: case-folded literal %q cannot be expressed", where, string(re.Rune))
		}
		if len(re.Rune) == 0 {
			die("%s: empty literal", where)
		}
		var rs []int
		for _, r := range re.Rune {
			rs = append(rs, int(r))
		}
		return "(Re.str " + runeList(rs) + ")", &node{Op: "lit", Runes: rs}
	case syntax.OpCharClass:
		if len(re.Rune)%2 != 0 {
			die("%s: odd class table", where)
		}
		s, ranges := t.class(re.Rune)
		return "(.cls " + s + ")", &node{Op: "cls", Ranges: ranges}
	case syntax.OpAnyChar:
		return ".any", &node{Op: "any"}
	case syntax.OpAnyCharNotNL:
		return ".anyNoNL", &node{Op: "anyNoNL"}
	case syntax.OpBeginText:
		return ".bot", &node{Op: "bot"}
	case syntax.OpEndText:
		// `$` without (?m) and `\z` are the same assertion in Go (no "before a final newline")
		return ".eot", &node{Op: "eot"}
	case syntax.OpCapture:
		if len(re.Sub) != 1 {
			die("%s: capture with %d operands", where, len(re.Sub))
		}
		s, n := t.tr(re.Sub[0], where)
		nm := "none"
		if re.Name != "" {
			nm = "(some " + leanStr(re.Name) + ")"
		}
		return fmt.Sprintf("(.group %d %s %s)", re.Cap, nm, s), &node{Op: "group", Idx: re.Cap, Name: re.Name, Subs: []*node{n}}
	case syntax.OpStar:
		return rep("star")
	case syntax.OpPlus:
		return rep("plus")
	case syntax.OpQuest:
		return rep("opt")
	case syntax.OpConcat:
		return nary("cat")
	case syntax.OpAlternate:
		return nary("alt")
	}
	die("%s: operator %v (in %s) cannot be expressed in the Lean syntax", where, re.Op, re.String())
	return "", nil
}

func maxCap(n *node) int {
	m := 0
	if n.Op == "group" {
		m = n.Idx
	}
	for _, s := range n.Subs {
		if k := maxCap(s); k > m {
			m = k
		}
	}
	return m
}

func main() {
	repo := flag.String("repo", "/repo", "working tree of shakespeare")
	leanOut := flag.String("lean", "", "Lean file to write")
	jsonOut := flag.String("json", "", "JSON file to write")
	flag.Parse()
	dir := filepath.Join(*repo, "pkg", "cmd")
	fset := token.NewFileSet()
	names, err := filepath.Glob(filepath.Join(dir, "*.go"))
	if err != nil || len(names) == 0 {
		die("no Go files in %s", dir)
	}
	sort.Strings(names)
	var files []*ast.File
	var fnames []string
	for _, n := range names {
		if strings.HasSuffix(n, "_test.go") {
			continue
		}
		f, err := parser.ParseFile(fset, n, nil, parser.ParseComments)
		if err != nil {
			die("%v", err)
		}
		files = append(files, f)
		fnames = append(fnames, filepath.Base(n))
	}

	// the wrapper: the format string inside func compileRe
	wrapper := ""
	for _, f := range files {
		for _, d := range f.Decls {
			fd, ok := d.(*ast.FuncDecl)
			if !ok || fd.Name.Name != "compileRe" || fd.Recv != nil || fd.Body == nil {
				continue
			}
			ast.Inspect(fd.Body, func(n ast.Node) bool {
				if bl, ok := n.(*ast.BasicLit); ok && bl.Kind == token.STRING {
					s, err := strconv.Unquote(bl.Value)
					if err == nil && strings.Count(s, "%s") == 1 && strings.Count(s, "%") == 1 {
						if wrapper != "" && wrapper != s {
							die("compileRe holds two format strings")
						}
						wrapper = s
					}
				}
				return true
			})
		}
	}
	if wrapper == "" {
		die("func compileRe with a single %%s format string not found in %s", dir)
	}

	t := &translator{classIdx: map[string]int{}}
	var entries []*entry
	seen := map[string]bool{}
	for fi, f := range files {
		for _, d := range f.Decls {
			gd, ok := d.(*ast.GenDecl)
			if !ok || gd.Tok != token.VAR {
				continue
			}
			for _, sp := range gd.Specs {
				vs := sp.(*ast.ValueSpec)
				for i, v := range vs.Values {
					call, ok := v.(*ast.CallExpr)
					if !ok {
						continue
					}
					id, ok := call.Fun.(*ast.Ident)
					if !ok || id.Name != "compileRe" {
						continue
					}
					if i >= len(vs.Names) || len(call.Args) != 1 {
						die("%s: unexpected shape of a compileRe declaration", fset.Position(call.Pos()))
					}
					name := vs.Names[i].Name
					bl, ok := call.Args[0].(*ast.BasicLit)
					if !ok || bl.Kind != token.STRING {
						die("%s: argument of compileRe for %s is not a string literal", fset.Position(call.Pos()), name)
					}
					src, err := strconv.Unquote(bl.Value)
					if err != nil {
						die("%s: %v", fset.Position(bl.Pos()), err)
					}
					if seen[name] {
						die("%s declared twice", name)
					}
					seen[name] = true
					wrapped := fmt.Sprintf(wrapper, src)
					re, err := syntax.Parse(wrapped, syntax.Perl)
					if err != nil {
						die("%s: %v", name, err)
					}
					numcap := re.MaxCap()
					capnames := re.CapNames()
					re = re.Simplify()
					lean, tree := t.tr(re, name)
					if maxCap(tree) != numcap {
						die("%s: simplification changed the number of groups (%d -> %d)", name, numcap, maxCap(tree))
					}
					entries = append(entries, &entry{Name: name, File: fnames[fi], Line: fset.Position(call.Pos()).Line,
						Source: src, Wrapped: wrapped, NumCap: numcap, Names: capnames, Tree: tree, lean: lean})
				}
			}
		}
	}
	// any other call of compileRe (inside a function, in a non-var context) would escape the table
	calls := 0
	for _, f := range files {
		ast.Inspect(f, func(n ast.Node) bool {
			if call, ok := n.(*ast.CallExpr); ok {
				if id, ok := call.Fun.(*ast.Ident); ok && id.Name == "compileRe" {
					calls++
				}
			}
			return true
		})
	}
	if calls != len(entries) {
		die("%d calls of compileRe but %d package-level regexp variables", calls, len(entries))
	}
	if len(entries) == 0 {
		die("no clause regexp found")
	}

	// which function mentions which regexp, in source order
	type use struct {
		Func string   `json:"func"`
		Res  []string `json:"res"`
	}
	var uses []use
	for fi, f := range files {
		if strings.HasPrefix(fnames[fi], "verif_") {
			continue
		}
		for _, d := range f.Decls {
			fd, ok := d.(*ast.FuncDecl)
			if !ok || fd.Body == nil {
				continue
			}
			var res []string
			had := map[string]bool{}
			ast.Inspect(fd.Body, func(n ast.Node) bool {
				if id, ok := n.(*ast.Ident); ok && seen[id.Name] && !had[id.Name] {
					had[id.Name] = true
					res = append(res, id.Name)
				}
				return true
			})
			if len(res) > 0 {
				uses = append(uses, use{Func: fd.Name.Name, Res: res})
			}
		}
	}

	var b strings.Builder
	b.WriteString("import ShkModel.Model.Regex\n")
	b.WriteString("/-! GENERATED on every run by harness/cmd/vregex from the Go source of pkg/cmd\n")
	b.WriteString("(every `var x = compileRe(...)`, wrapped as func compileRe does, parsed and simplified by\n")
	b.WriteString("regexp/syntax).  Do not edit. -/\n")
	b.WriteString("namespace Shk.Gen\nopen Shk.Re\n\n")
	fmt.Fprintf(&b, "def wrapper : String := %s\n\n", leanStr(wrapper))
	for i, c := range t.classes {
		fmt.Fprintf(&b, "def class%d : List (Nat × Nat) := %s\n\n", i, c)
	}
	for _, e := range entries {
		fmt.Fprintf(&b, "/-- %s:%d -/\ndef %s : Re :=\n  %s\n", e.File, e.Line, e.Name, e.lean)
		fmt.Fprintf(&b, "def %sSrc : String := %s\n\n", e.Name, leanStr(e.Source))
	}
	b.WriteString("def all : List (String × Re) := [\n")
	for i, e := range entries {
		sep := ","
		if i == len(entries)-1 {
			sep = ""
		}
		fmt.Fprintf(&b, "  (%s, %s)%s\n", leanStr(e.Name), e.Name, sep)
	}
	b.WriteString("]\n\n")
	b.WriteString("def sources : List (String × String) := [\n")
	for i, e := range entries {
		sep := ","
		if i == len(entries)-1 {
			sep = ""
		}
		fmt.Fprintf(&b, "  (%s, %sSrc)%s\n", leanStr(e.Name), e.Name, sep)
	}
	b.WriteString("]\n\n")
	b.WriteString("/-- regexp variables mentioned by each function of pkg/cmd, in source order -/\n")
	b.WriteString("def uses : List (String × List String) := [\n")
	for i, u := range uses {
		var q []string
		for _, r := range u.Res {
			q = append(q, leanStr(r))
		}
		sep := ","
		if i == len(uses)-1 {
			sep = ""
		}
		fmt.Fprintf(&b, "  (%s, [%s])%s\n", leanStr(u.Func), strings.Join(q, ", "), sep)
	}
	b.WriteString("]\n\nend Shk.Gen\n")

	if *leanOut != "" {
		if err := os.WriteFile(*leanOut, []byte(b.String()), 0644); err != nil {
			die("%v", err)
		}
	}
	if *jsonOut != "" {
		js, err := json.MarshalIndent(map[string]interface{}{"wrapper": wrapper, "regexps": entries, "uses": uses}, "", " ")
		if err != nil {
			die("%v", err)
		}
		if err := os.WriteFile(*jsonOut, js, 0644); err != nil {
			die("%v", err)
		}
	}
	if *leanOut == "" && *jsonOut == "" {
		fmt.Print(b.String())
	}
}
