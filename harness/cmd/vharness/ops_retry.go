package main

// C17: pkg/crdb/retry driven through its exported API only (Options, Start, StartWithCtx,
// Next, NextCh, Reset, WithMaxAttempts).  Durations are measured around the calls; the
// orchestrator only ever uses them as lower bounds.

import (
	"context"
	"encoding/json"
	"errors"
	"fmt"
	"sync"
	"sync/atomic"
	"time"

	"github.com/knz/shakespeare/pkg/crdb/retry"
)

type retryOpts struct {
	InitialNs, MaxNs int64
	MultNum, MultDen int64
	RandNum, RandDen int64
	MaxRetries       int
}

func ratio(n, d int64) float64 {
	if d == 0 {
		return 0
	}
	return float64(n) / float64(d)
}

func (o retryOpts) options() retry.Options {
	return retry.Options{
		InitialBackoff:      time.Duration(o.InitialNs),
		MaxBackoff:          time.Duration(o.MaxNs),
		Multiplier:          ratio(o.MultNum, o.MultDen),
		RandomizationFactor: ratio(o.RandNum, o.RandDen),
		MaxRetries:          o.MaxRetries,
	}
}

type retryOp struct {
	K  string // n, nc, nx, h, r, c, x
	Us int64  // nc/nx: the stop fires this many microseconds into the call
}

type retryScript struct {
	Opts           retryOpts
	UseCloser      bool
	StartClosed    bool
	StartCancelled bool
	Ops            []retryOp
}

type retryOpRes struct {
	R      string `json:"r"`                // t, f, cc, ct, cn, a, hang, panic
	Gap    int64  `json:"gap"`              // ns from the call to its return (ct: to the delivery)
	StopAt int64  `json:"stopAt,omitempty"` // nc/nx: ns from the call at which the stop had been issued
	Msg    string `json:"msg,omitempty"`
}

const retryWatchdog = 20 * time.Second

// withWatchdog runs f; false if it did not come back in time.
func withWatchdog(f func()) (ok bool, panicMsg string) {
	done := make(chan string, 1)
	go func() {
		defer func() {
			if r := recover(); r != nil {
				done <- fmt.Sprint("panic: ", r)
			}
		}()
		f()
		done <- ""
	}()
	select {
	case m := <-done:
		return true, m
	case <-time.After(retryWatchdog):
		return false, ""
	}
}

func runRetryScript(sc retryScript) (out []retryOpRes) {
	opts := sc.Opts.options()
	var closer chan struct{}
	var closeOnce sync.Once
	doClose := func() {
		if closer != nil {
			closeOnce.Do(func() { close(closer) })
		}
	}
	if sc.UseCloser {
		closer = make(chan struct{})
		opts.Closer = closer
	}
	ctx, cancel := context.WithCancel(context.Background())
	defer cancel()
	if sc.StartClosed {
		doClose()
	}
	if sc.StartCancelled {
		cancel()
	}
	var r retry.Retry
	if ok, msg := withWatchdog(func() { r = retry.StartWithCtx(ctx, opts) }); !ok || msg != "" {
		return []retryOpRes{{R: "hang", Msg: "StartWithCtx " + msg}}
	}
	for _, op := range sc.Ops {
		var res retryOpRes
		switch op.K {
		case "n", "nc", "nx":
			var b bool
			var gap int64
			stopAt := int64(-1)
			joined := make(chan struct{})
			ok, msg := withWatchdog(func() {
				t0 := time.Now()
				if op.K != "n" {
					go func() {
						defer close(joined)
						time.Sleep(time.Duration(op.Us) * time.Microsecond)
						if op.K == "nc" {
							doClose()
						} else {
							cancel()
						}
						atomic.StoreInt64(&stopAt, int64(time.Since(t0)))
					}()
				} else {
					close(joined)
				}
				b = r.Next()
				gap = int64(time.Since(t0))
			})
			if !ok {
				out = append(out, retryOpRes{R: "hang", Msg: "Next did not return"})
				return out
			}
			if msg != "" {
				out = append(out, retryOpRes{R: "panic", Msg: msg})
				return out
			}
			select {
			case <-joined:
			case <-time.After(retryWatchdog):
			}
			res = retryOpRes{R: "f", Gap: gap, StopAt: atomic.LoadInt64(&stopAt)}
			if b {
				res.R = "t"
			}
		case "h":
			var kind string
			var gap int64
			ok, msg := withWatchdog(func() {
				t0 := time.Now()
				ch := r.NextCh()
				if ch == nil {
					kind = "cn"
					gap = int64(time.Since(t0))
					return
				}
				_, open := <-ch
				gap = int64(time.Since(t0))
				if open {
					kind = "ct"
				} else {
					kind = "cc"
				}
			})
			if !ok {
				out = append(out, retryOpRes{R: "hang", Msg: "NextCh channel never delivered"})
				return out
			}
			if msg != "" {
				out = append(out, retryOpRes{R: "panic", Msg: msg})
				return out
			}
			res = retryOpRes{R: kind, Gap: gap}
		case "r":
			if ok, msg := withWatchdog(func() { r.Reset() }); !ok || msg != "" {
				out = append(out, retryOpRes{R: "hang", Msg: "Reset " + msg})
				return out
			}
			res = retryOpRes{R: "a"}
		case "c":
			doClose()
			res = retryOpRes{R: "a"}
		case "x":
			cancel()
			res = retryOpRes{R: "a"}
		default:
			res = retryOpRes{R: "bad-op"}
		}
		out = append(out, res)
	}
	return out
}

type wmaCase struct {
	Opts           retryOpts
	N              int
	UseCloser      bool
	StartClosed    bool
	StartCancelled bool
	Pattern        []bool // result of the i-th call of fn (true = success); beyond the list: failure
	StopAfterCalls int    // > 0: the stop is issued inside that call of fn
	StopKind       string // "c" closer, "x" context
	HardCap        int    // safety net: cancel the context inside this call, whatever the script says
}

type wmaRes struct {
	Calls     int    `json:"calls"`
	Nil       bool   `json:"nil"`
	Err       string `json:"err"`
	Succeeded bool   `json:"succeeded"`
	Hang      bool   `json:"hang"`
	Panic     string `json:"panic,omitempty"`
	CapHit    bool   `json:"capHit"`
}

func runWMA(c wmaCase) wmaRes {
	opts := c.Opts.options()
	var closer chan struct{}
	var closeOnce sync.Once
	doClose := func() {
		if closer != nil {
			closeOnce.Do(func() { close(closer) })
		}
	}
	if c.UseCloser {
		closer = make(chan struct{})
		opts.Closer = closer
	}
	ctx, cancel := context.WithCancel(context.Background())
	defer cancel()
	if c.StartClosed {
		doClose()
	}
	if c.StartCancelled {
		cancel()
	}
	var res wmaRes
	var mu sync.Mutex
	fn := func() error {
		mu.Lock()
		defer mu.Unlock()
		res.Calls++
		i := res.Calls
		if i-1 < len(c.Pattern) && c.Pattern[i-1] {
			res.Succeeded = true
			return nil
		}
		if c.StopAfterCalls > 0 && i == c.StopAfterCalls {
			if c.StopKind == "c" {
				doClose()
			} else {
				cancel()
			}
		}
		if c.HardCap > 0 && i >= c.HardCap {
			res.CapHit = true
			cancel()
		}
		return errors.New("fn failed")
	}
	var err error
	ok, msg := withWatchdog(func() { err = retry.WithMaxAttempts(ctx, opts, c.N, fn) })
	mu.Lock()
	defer mu.Unlock()
	if !ok {
		res.Hang = true
		cancel()
		return res
	}
	res.Panic = msg
	res.Nil = err == nil
	if err != nil {
		res.Err = err.Error()
	}
	return res
}

func init() {
	register("retryScripts", func(raw json.RawMessage) (interface{}, error) {
		var a struct {
			Scripts  []retryScript
			Parallel int
		}
		if err := json.Unmarshal(raw, &a); err != nil {
			return nil, err
		}
		if a.Parallel <= 0 {
			a.Parallel = 1
		}
		res := make([][]retryOpRes, len(a.Scripts))
		sem := make(chan struct{}, a.Parallel)
		var wg sync.WaitGroup
		for i := range a.Scripts {
			wg.Add(1)
			sem <- struct{}{}
			go func(i int) {
				defer wg.Done()
				defer func() { <-sem }()
				defer func() {
					if r := recover(); r != nil {
						res[i] = []retryOpRes{{R: "panic", Msg: fmt.Sprint(r)}}
					}
				}()
				res[i] = runRetryScript(a.Scripts[i])
			}(i)
		}
		wg.Wait()
		return map[string]interface{}{"res": res}, nil
	})
	register("retryWMA", func(raw json.RawMessage) (interface{}, error) {
		var a struct {
			Cases    []wmaCase
			Parallel int
		}
		if err := json.Unmarshal(raw, &a); err != nil {
			return nil, err
		}
		if a.Parallel <= 0 {
			a.Parallel = 1
		}
		res := make([]wmaRes, len(a.Cases))
		sem := make(chan struct{}, a.Parallel)
		var wg sync.WaitGroup
		for i := range a.Cases {
			wg.Add(1)
			sem <- struct{}{}
			go func(i int) {
				defer wg.Done()
				defer func() { <-sem }()
				res[i] = runWMA(a.Cases[i])
			}(i)
		}
		wg.Wait()
		return map[string]interface{}{"res": res}, nil
	})
}
