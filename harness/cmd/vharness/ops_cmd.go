package main

import (
	"math"
	"encoding/json"

	"github.com/knz/shakespeare/pkg/cmd"
)

func init() {
	register("automata", func(raw json.RawMessage) (interface{}, error) {
		return cmd.VerifAutomata(), nil
	})
	register("parse", func(raw json.RawMessage) (interface{}, error) {
		var a struct{ Args cmd.VerifParseArgs }
		if err := json.Unmarshal(raw, &a); err != nil {
			return nil, err
		}
		return cmd.VerifParse(a.Args), nil
	})
	register("audition", func(raw json.RawMessage) (interface{}, error) {
		var a struct{ Args cmd.VerifAuditArgs }
		if err := json.Unmarshal(raw, &a); err != nil {
			return nil, err
		}
		return cmd.VerifRunAudition(a.Args), nil
	})
	register("combineActs", func(raw json.RawMessage) (interface{}, error) {
		var a struct{ A, B string }
		if err := json.Unmarshal(raw, &a); err != nil {
			return nil, err
		}
		return map[string]string{"res": cmd.VerifCombineActs(a.A, a.B)}, nil
	})
	register("combineStory", func(raw json.RawMessage) (interface{}, error) {
		var a struct{ A, B []string }
		if err := json.Unmarshal(raw, &a); err != nil {
			return nil, err
		}
		return map[string]interface{}{"res": cmd.VerifCombineStoryLines(a.A, a.B)}, nil
	})
	register("validateStory", func(raw json.RawMessage) (interface{}, error) {
		var a struct{ Scenes, Story string }
		if err := json.Unmarshal(raw, &a); err != nil {
			return nil, err
		}
		st, e := cmd.VerifValidateStoryLine(a.Scenes, a.Story)
		return map[string]interface{}{"res": st, "err": e}, nil
	})
	register("preproc", func(raw json.RawMessage) (interface{}, error) {
		var a struct {
			Vars map[string]string
			S    string
		}
		if err := json.Unmarshal(raw, &a); err != nil {
			return nil, err
		}
		r, e := cmd.VerifPreprocReplace(a.Vars, a.S)
		return map[string]interface{}{"res": r, "err": e}, nil
	})
	register("collect", func(raw json.RawMessage) (interface{}, error) {
		var a struct {
			Mode   string
			N      int
			Values []interface{}
		}
		if err := json.Unmarshal(raw, &a); err != nil {
			return nil, err
		}
		// JSON has no NaN: the string "NaN!" stands for it, in and out
		for i, v := range a.Values {
			if sv, ok := v.(string); ok && sv == "NaN!" {
				a.Values[i] = math.NaN()
			}
		}
		r, e := cmd.VerifCollect(a.Mode, a.N, a.Values)
		if r == nil {
			r = []interface{}{}
		}
		for i, v := range r {
			if f, ok := v.(float64); ok && math.IsNaN(f) {
				r[i] = "NaN!"
			}
		}
		return map[string]interface{}{"res": r, "err": e}, nil
	})
	register("func", func(raw json.RawMessage) (interface{}, error) {
		var a struct {
			Name string
			Args []interface{}
		}
		if err := json.Unmarshal(raw, &a); err != nil {
			return nil, err
		}
		r, e := cmd.VerifCallFunction(a.Name, a.Args)
		return map[string]interface{}{"res": r, "err": e}, nil
	})
	register("detect", func(raw json.RawMessage) (interface{}, error) {
		var a struct {
			Args        cmd.VerifParseArgs
			Actor       string
			Lines       []string
			EpochOffset float64
		}
		if err := json.Unmarshal(raw, &a); err != nil {
			return nil, err
		}
		r, e := cmd.VerifDetectSignals(a.Args, a.Actor, a.Lines, a.EpochOffset)
		return map[string]interface{}{"res": r, "err": e}, nil
	})
	register("scripts", func(raw json.RawMessage) (interface{}, error) {
		var a struct {
			Args    cmd.VerifParseArgs
			DataDir string
			SubDir  string
		}
		if err := json.Unmarshal(raw, &a); err != nil {
			return nil, err
		}
		r, e := cmd.VerifScripts(a.Args, a.DataDir, a.SubDir)
		return map[string]interface{}{"res": r, "err": e}, nil
	})
}

func init() {
	register("collectReports", func(raw json.RawMessage) (interface{}, error) {
		var a struct {
			Args      cmd.VerifParseArgs
			Reports   []cmd.VerifReport
			EarlyExit bool
		}
		if err := json.Unmarshal(raw, &a); err != nil {
			return nil, err
		}
		return cmd.VerifCollectReports(a.Args, a.Reports, a.EarlyExit), nil
	})
}

func init() {
	register("runCommand", func(raw json.RawMessage) (interface{}, error) {
		var a struct {
			Script, WorkDir string
			TimeoutMs       int
			Interruptible   bool
			UseTermCh       bool
			Events          []cmd.VerifCmdEvent
			HangLimitMs     int
		}
		if err := json.Unmarshal(raw, &a); err != nil {
			return nil, err
		}
		return cmd.VerifRunCommand(a.Script, a.WorkDir, a.TimeoutMs, a.Interruptible, a.UseTermCh, a.Events, a.HangLimitMs), nil
	})
}
