package main

// Executors for C12/C13: Go's path algebra (the functions prepareDirs is
// written with) and the real prepareDirs / prepareActionCommands run from a
// chosen current directory.

import (
	"encoding/json"
	"errors"
	"os"
	"path/filepath"
	"sync"
	"time"

	"github.com/knz/shakespeare/pkg/cmd"
)

// chdirMu serialises the operations that change the process-wide current directory.
var chdirMu sync.Mutex

func init() {
	// pathops: filepath.Clean on each of Paths, filepath.Join on each pair of Joins.
	register("pathops", func(raw json.RawMessage) (interface{}, error) {
		var a struct {
			Paths []string
			Joins [][2]string
		}
		if err := json.Unmarshal(raw, &a); err != nil {
			return nil, err
		}
		cl := make([]string, len(a.Paths))
		for i, p := range a.Paths {
			cl[i] = filepath.Clean(p)
		}
		jn := make([]string, len(a.Joins))
		for i, p := range a.Joins {
			jn[i] = filepath.Join(p[0], p[1])
		}
		return map[string]interface{}{"clean": cl, "join": jn}, nil
	})

	// prepdirs: chdir to Cwd, run the real prepareDirs with -o = DataDir and run
	// id = SubDir on the given configuration, then look at what is on disk.
	register("prepdirs", func(raw json.RawMessage) (interface{}, error) {
		var a struct {
			Args    cmd.VerifParseArgs
			Cwd     string
			DataDir string
			SubDir  string
		}
		if err := json.Unmarshal(raw, &a); err != nil {
			return nil, err
		}
		type out struct {
			res map[string]interface{}
			err error
		}
		ch := make(chan out, 1)
		go func() {
			defer func() {
				if r := recover(); r != nil {
					ch <- out{res: map[string]interface{}{"panicked": true, "panic": r}}
				}
			}()
			chdirMu.Lock()
			defer chdirMu.Unlock()
			old, err := os.Getwd()
			if err != nil {
				ch <- out{err: err}
				return
			}
			if err := os.Chdir(a.Cwd); err != nil {
				ch <- out{err: err}
				return
			}
			defer os.Chdir(old)
			scripts, e := cmd.VerifScripts(a.Args, a.DataDir, a.SubDir)
			res := map[string]interface{}{"err": e, "scripts": scripts}
			alias := filepath.Join(a.DataDir, "latest")
			if t, err := os.Readlink(alias); err == nil {
				res["linkText"] = t
			} else {
				res["linkErr"] = err.Error()
			}
			if t, err := filepath.EvalSymlinks(alias); err == nil {
				if abs, err := filepath.Abs(t); err == nil {
					res["resolved"] = abs
				}
			} else {
				res["resolveErr"] = err.Error()
			}
			run := a.DataDir
			if a.SubDir != "" && a.SubDir != "." {
				run = filepath.Join(a.DataDir, a.SubDir)
			}
			if abs, err := filepath.Abs(run); err == nil {
				res["absRun"] = abs
				if st, err := os.Stat(abs); err == nil && st.IsDir() {
					res["runIsDir"] = true
				}
			}
			ch <- out{res: res}
		}()
		select {
		case o := <-ch:
			return o.res, o.err
		case <-time.After(20 * time.Second):
			return nil, errors.New("prepdirs: no answer within 20 s")
		}
	})
}
