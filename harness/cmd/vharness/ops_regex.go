package main

// Executor for the clause-regexp correspondence (K-RE of C09).
//
//	rematch   compiles the given expression (the source literal extracted by the translator,
//	          already wrapped the way compileRe wraps it) with the real regexp package and runs
//	          FindStringSubmatchIndex on every line (hex-encoded bytes).  One answer per line:
//	          null when there is no match, else the index pairs (-1 for a group that took no part).
//	          Compiled expressions are cached by text.

import (
	"encoding/hex"
	"encoding/json"
	"fmt"
	"regexp"
	"time"
)

var reCache = map[string]*regexp.Regexp{}

func init() {
	register("rematch", func(raw json.RawMessage) (interface{}, error) {
		var a struct {
			Expr  string // hex of the wrapped expression
			Lines []string
		}
		if err := json.Unmarshal(raw, &a); err != nil {
			return nil, err
		}
		eb, err := hex.DecodeString(a.Expr)
		if err != nil {
			return nil, err
		}
		expr := string(eb)
		re, ok := reCache[expr]
		if !ok {
			re, err = regexp.Compile(expr)
			if err != nil {
				return map[string]interface{}{"compileError": err.Error()}, nil
			}
			reCache[expr] = re
		}
		type answer struct {
			res [][]int
			err string
		}
		ch := make(chan answer, 1)
		go func() {
			defer func() {
				if r := recover(); r != nil {
					ch <- answer{err: fmt.Sprintf("panic: %v", r)}
				}
			}()
			res := make([][]int, len(a.Lines))
			for i, l := range a.Lines {
				lb, err := hex.DecodeString(l)
				if err != nil {
					ch <- answer{err: err.Error()}
					return
				}
				res[i] = re.FindStringSubmatchIndex(string(lb))
			}
			ch <- answer{res: res}
		}()
		select {
		case r := <-ch:
			if r.err != "" {
				return map[string]interface{}{"error": r.err}, nil
			}
			return map[string]interface{}{"res": r.res, "numSubexp": re.NumSubexp(), "names": re.SubexpNames()}, nil
		case <-time.After(20 * time.Second):
			return map[string]interface{}{"error": "timeout"}, nil
		}
	})
}
