package main

// C16 — executors for pkg/crdb/log through its exported API only:
//   logFormat   Entry.Format on given entries (+ Go's broken-down UTC time of each)
//   logDecode   NewEntryDecoder(...).Decode over given bytes until EOF / error
//   logRotate   the real main logger writing to a scratch directory with a chosen
//               LogFileMaxSize (optionally with the GC daemon running), flush, read back
//   logGC       the GC daemon's pass over a fabricated directory with chosen sizes / bound
//
// The log package has process-wide state (log directory, thresholds, the size variables, the
// open log file).  Every op that touches it runs under logMu, through log.ScopeWithoutShowLogs
// (sets the directory, silences stderr) and Scope.Close (flushes, closes the file, unsets the
// directory), and restores LogFileMaxSize / LogFilesCombinedMaxSize before returning.

import (
	"bytes"
	"context"
	"encoding/hex"
	"encoding/json"
	"flag"
	"fmt"
	"io"
	"io/ioutil"
	"math"
	"os"
	"path/filepath"
	"sort"
	"strings"
	"sync"
	"sync/atomic"
	"time"

	"github.com/knz/shakespeare/pkg/crdb/log"
	"github.com/knz/shakespeare/pkg/crdb/log/logflags"
)

var logMu sync.Mutex

type jEntry struct {
	Sev  int64
	Time int64 // Unix nanoseconds
	Gor  int64
	File string // hex
	Line int64
	Msg  string // hex
	// broken-down UTC time of Time, by Go's time package: year, month, day, hour, minute, second, microsecond
	BD []int64 `json:",omitempty"`
}

func unhexS(s string) (string, error) {
	b, err := hex.DecodeString(s)
	return string(b), err
}

func hexS(s string) string { return hex.EncodeToString([]byte(s)) }

func brokenDown(ns int64) []int64 {
	t := time.Unix(0, ns).UTC()
	return []int64{int64(t.Year()), int64(t.Month()), int64(t.Day()), int64(t.Hour()),
		int64(t.Minute()), int64(t.Second()), int64(t.Nanosecond() / 1000)}
}

func (e jEntry) toEntry() (log.Entry, error) {
	f, err := unhexS(e.File)
	if err != nil {
		return log.Entry{}, err
	}
	m, err := unhexS(e.Msg)
	if err != nil {
		return log.Entry{}, err
	}
	return log.Entry{Severity: log.Severity(e.Sev), Time: e.Time, Goroutine: e.Gor, File: f, Line: e.Line, Message: m}, nil
}

func fromEntry(e log.Entry) jEntry {
	return jEntry{Sev: int64(e.Severity), Time: e.Time, Gor: e.Goroutine, File: hexS(e.File), Line: e.Line,
		Msg: hexS(e.Message), BD: brokenDown(e.Time)}
}

// withTimeout runs f in its own goroutine and gives up after d.
func withTimeout(d time.Duration, f func() (interface{}, error)) (interface{}, error) {
	type res struct {
		v   interface{}
		err error
	}
	ch := make(chan res, 1)
	go func() {
		defer func() {
			if r := recover(); r != nil {
				ch <- res{map[string]interface{}{"panicked": true, "panic": fmt.Sprintf("%v", r)}, nil}
			}
		}()
		v, err := f()
		ch <- res{v, err}
	}()
	select {
	case r := <-ch:
		return r.v, r.err
	case <-time.After(d):
		return map[string]interface{}{"timeout": true}, nil
	}
}

func decodeAll(data []byte, max int) ([]jEntry, string) {
	dec := log.NewEntryDecoder(bytes.NewReader(data))
	var out []jEntry
	// one Entry variable for the whole stream, the way callers loop over a decoder: nothing of an
	// entry may show in the next one
	var e log.Entry
	for len(out) < max {
		if err := dec.Decode(&e); err != nil {
			if err == io.EOF {
				return out, ""
			}
			return out, err.Error()
		}
		out = append(out, fromEntry(e))
	}
	return out, "too-many"
}

// shim is the part of testing.T that log.ScopeWithoutShowLogs wants.
type shim struct {
	failed bool
	msgs   []string
}

func (s *shim) Fatal(a ...interface{})            { s.failed = true; panic("log scope: " + fmt.Sprint(a...)) }
func (s *shim) Failed() bool                      { return false }
func (s *shim) Error(a ...interface{})            { s.msgs = append(s.msgs, fmt.Sprint(a...)) }
func (s *shim) Errorf(f string, a ...interface{}) { s.msgs = append(s.msgs, fmt.Sprintf(f, a...)) }
func (s *shim) Name() string                      { return "verifC16" }
func (s *shim) Log(a ...interface{})              {}
func (s *shim) Logf(f string, a ...interface{})   {}

func currentLogDir() string {
	if f := flag.CommandLine.Lookup(logflags.LogDirName); f != nil {
		return f.Value.String()
	}
	return ""
}

// inLogScope runs f with the main logger pointed at a fresh scratch directory and puts every
// global back afterwards.
func inLogScope(f func(dir string) (interface{}, error)) (res interface{}, err error) {
	logMu.Lock()
	defer logMu.Unlock()
	oldMax := atomic.LoadInt64(&log.LogFileMaxSize)
	oldComb := atomic.LoadInt64(&log.LogFilesCombinedMaxSize)
	sh := &shim{}
	sc := log.ScopeWithoutShowLogs(sh)
	defer func() {
		sc.Close(sh)
		atomic.StoreInt64(&log.LogFileMaxSize, oldMax)
		atomic.StoreInt64(&log.LogFilesCombinedMaxSize, oldComb)
		if d := currentLogDir(); d != "" && err == nil {
			err = fmt.Errorf("log directory still set after scope: %s", d)
		}
	}()
	dir := currentLogDir()
	if dir == "" {
		return nil, fmt.Errorf("scope did not set a log directory")
	}
	return f(dir)
}

type jFile struct {
	Name    string
	Stamp   int64 // seconds, from the file name
	Size    int64
	Entries []jFileEntry
	Err     string `json:",omitempty"`
}

type jFileEntry struct {
	User bool   // logged by this op (as opposed to a per-file header entry)
	Sev  int64  // severity
	Msg  string // hex
	Size int    // length of the entry as Entry.Format writes it
}

func fmtSize(e log.Entry) int {
	var b bytes.Buffer
	_ = e.Format(&b)
	return b.Len()
}

const userFileSuffix = "ops_log.go"

// snapshot reads the log directory back through the package's own reader and decoder.
func snapshot() (files []jFile, fetched []jFileEntry, fetchedNow int, ferr string) {
	infos, err := log.ListLogFiles()
	if err != nil {
		return nil, nil, 0, err.Error()
	}
	sort.Slice(infos, func(i, j int) bool { return infos[i].Name < infos[j].Name })
	for _, fi := range infos {
		jf := jFile{Name: fi.Name, Stamp: fi.Details.Time / 1000000000, Size: fi.SizeBytes}
		rd, err := log.GetLogReader(fi.Name, true)
		if err != nil {
			jf.Err = err.Error()
		} else {
			dec := log.NewEntryDecoder(rd)
			for {
				var e log.Entry
				if err := dec.Decode(&e); err != nil {
					if err != io.EOF {
						jf.Err = err.Error()
					}
					break
				}
				jf.Entries = append(jf.Entries, jFileEntry{User: strings.HasSuffix(e.File, userFileSuffix),
					Sev: int64(e.Severity), Msg: hexS(e.Message), Size: fmtSize(e)})
			}
			rd.Close()
		}
		files = append(files, jf)
	}
	// the package's own multi-file reader: newest first; reversed here into logging order
	ents, err := log.FetchEntriesFromFiles(0, math.MaxInt64, math.MaxInt32, nil)
	if err != nil {
		return files, nil, 0, err.Error()
	}
	// the same with "now" as the upper time limit (what a caller asking for "everything so far"
	// would pass): files whose name stamp has been pushed ahead of the clock are not selected
	if entsNow, err := log.FetchEntriesFromFiles(0, time.Now().UnixNano(), math.MaxInt32, nil); err == nil {
		for _, e := range entsNow {
			if strings.HasSuffix(e.File, userFileSuffix) {
				fetchedNow++
			}
		}
	}
	for i := len(ents) - 1; i >= 0; i-- {
		e := ents[i]
		if strings.HasSuffix(e.File, userFileSuffix) {
			fetched = append(fetched, jFileEntry{User: true, Sev: int64(e.Severity), Msg: hexS(e.Message)})
		}
	}
	return files, fetched, fetchedNow, ""
}

func dirNames(dir string) []string {
	infos, _ := ioutil.ReadDir(dir)
	var names []string
	for _, in := range infos {
		if in.Mode().IsRegular() {
			names = append(names, in.Name())
		}
	}
	sort.Strings(names)
	return names
}

// settle polls the directory until its listing has been the same for `quiet`, at most `limit`.
func settle(dir string, quiet, limit time.Duration) []string {
	deadline := time.Now().Add(limit)
	last := dirNames(dir)
	since := time.Now()
	for time.Now().Before(deadline) {
		time.Sleep(2 * time.Millisecond)
		cur := dirNames(dir)
		if strings.Join(cur, "\x00") != strings.Join(last, "\x00") {
			last, since = cur, time.Now()
		} else if time.Since(since) >= quiet {
			break
		}
	}
	return last
}

func init() {
	register("logFormat", func(raw json.RawMessage) (interface{}, error) {
		var a struct{ Entries []jEntry }
		if err := json.Unmarshal(raw, &a); err != nil {
			return nil, err
		}
		return withTimeout(30*time.Second, func() (interface{}, error) {
			type one struct {
				Fmt string
				BD  []int64
			}
			res := make([]one, len(a.Entries))
			for i, je := range a.Entries {
				e, err := je.toEntry()
				if err != nil {
					return nil, err
				}
				var b bytes.Buffer
				if err := e.Format(&b); err != nil {
					return nil, err
				}
				res[i] = one{Fmt: hex.EncodeToString(b.Bytes()), BD: brokenDown(e.Time)}
			}
			return map[string]interface{}{"res": res}, nil
		})
	})

	// logDecode: Data = list of hex byte strings, each decoded independently.
	register("logDecode", func(raw json.RawMessage) (interface{}, error) {
		var a struct{ Data []string }
		if err := json.Unmarshal(raw, &a); err != nil {
			return nil, err
		}
		return withTimeout(60*time.Second, func() (interface{}, error) {
			type one struct {
				Entries []jEntry
				Err     string
			}
			res := make([]one, len(a.Data))
			for i, d := range a.Data {
				b, err := hex.DecodeString(d)
				if err != nil {
					return nil, err
				}
				ents, e := decodeAll(b, 1<<20)
				res[i] = one{Entries: ents, Err: e}
			}
			return map[string]interface{}{"res": res}, nil
		})
	})

	// logRoundtrip: format every entry of every group with Entry.Format, concatenate the group,
	// decode the concatenation.  Returns per group the formatted entries and the decoded list.
	register("logRoundtrip", func(raw json.RawMessage) (interface{}, error) {
		var a struct {
			Groups [][]jEntry
			// Zone != 0: the process pretends to run in the fixed zone UTC+Zone seconds for this call
			// (the file format is defined in UTC whatever the zone of the process)
			Zone int
		}
		if err := json.Unmarshal(raw, &a); err != nil {
			return nil, err
		}
		return withTimeout(120*time.Second, func() (interface{}, error) {
			if a.Zone != 0 {
				old := time.Local
				time.Local = time.FixedZone("verif", a.Zone)
				defer func() { time.Local = old }()
			}
			type one struct {
				Fmt     []string
				BD      [][]int64
				Entries []jEntry
				Err     string
			}
			res := make([]one, len(a.Groups))
			for i, g := range a.Groups {
				var all bytes.Buffer
				for _, je := range g {
					e, err := je.toEntry()
					if err != nil {
						return nil, err
					}
					var b bytes.Buffer
					if err := e.Format(&b); err != nil {
						return nil, err
					}
					res[i].Fmt = append(res[i].Fmt, hex.EncodeToString(b.Bytes()))
					res[i].BD = append(res[i].BD, brokenDown(e.Time))
					all.Write(b.Bytes())
				}
				res[i].Entries, res[i].Err = decodeAll(all.Bytes(), 1<<20)
			}
			return map[string]interface{}{"res": res}, nil
		})
	})

	// logRotate: Ops = [{"K":"log","Sev":1..3,"Msg":hex} | {"K":"read"} | {"K":"sync","Sev":0|1}]; a final read is implied.
	// GC: also run the GC daemon with bound Combined while logging.
	register("logRotate", func(raw json.RawMessage) (interface{}, error) {
		var a struct {
			MaxSize  int64
			GC       bool
			Combined int64
			UserName string
			Ops      []struct {
				K   string
				Sev int
				Msg string
			}
		}
		if err := json.Unmarshal(raw, &a); err != nil {
			return nil, err
		}
		return withTimeout(120*time.Second, func() (interface{}, error) {
			return inLogScope(func(dir string) (interface{}, error) {
				atomic.StoreInt64(&log.LogFileMaxSize, a.MaxSize)
				if a.UserName != "" {
					// the file names carry the user name of the process: try others
					old := log.VerifSetUserName(a.UserName)
					defer log.VerifSetUserName(old)
				}
				ctx := context.Background()
				if a.GC {
					atomic.StoreInt64(&log.LogFilesCombinedMaxSize, a.Combined)
					gctx, cancel := context.WithCancel(ctx)
					defer cancel()
					log.StartGCDaemon(gctx)
				}
				type snap struct {
					After      int // number of log ops before this read
					Files      []jFile
					Fetched    []jFileEntry
					FetchedNow int // user entries FetchEntriesFromFiles returns with endTimestamp = now
					Err        string
				}
				var snaps []snap
				nlogged := 0
				take := func() {
					log.Flush()
					if a.GC {
						settle(dir, 150*time.Millisecond, 5*time.Second)
					}
					fs, fe, fn, e := snapshot()
					snaps = append(snaps, snap{After: nlogged, Files: fs, Fetched: fe, FetchedNow: fn, Err: e})
				}
				for _, op := range a.Ops {
					switch op.K {
					case "log":
						m, err := unhexS(op.Msg)
						if err != nil {
							return nil, err
						}
						switch op.Sev {
						case 2:
							log.Warning(ctx, m)
						case 3:
							log.Error(ctx, m)
						default:
							log.Info(ctx, m)
						}
						nlogged++
					case "read":
						take()
					case "sync":
						// synchronous writes on / off (what shakespeare switches on when a signal arrives)
						log.SetSync(op.Sev != 0)
					}
				}
				take()
				log.SetSync(false)
				return map[string]interface{}{"snaps": snaps}, nil
			})
		})
	})

	// logBig: small, small, one entry of Big bytes, small — flush — then the order of the four messages in the raw bytes
	// of the log files (name order).  An entry larger than the decoder's window cannot be decoded back, and one larger than
	// the logger's write buffer takes another path in bufio: the bytes on disk are what can be checked.
	register("logBig", func(raw json.RawMessage) (interface{}, error) {
		var a struct{ Big int }
		if err := json.Unmarshal(raw, &a); err != nil {
			return nil, err
		}
		return withTimeout(60*time.Second, func() (interface{}, error) {
			return inLogScope(func(dir string) (interface{}, error) {
				atomic.StoreInt64(&log.LogFileMaxSize, 1<<30)
				ctx := context.Background()
				log.Info(ctx, "bigmark-1")
				log.Info(ctx, "bigmark-2")
				log.Info(ctx, "bigmark-3 "+strings.Repeat("z", a.Big))
				log.Info(ctx, "bigmark-4")
				log.Flush()
				var all []byte
				for _, n := range dirNames(dir) {
					st, err := os.Lstat(filepath.Join(dir, n))
					if err != nil || !st.Mode().IsRegular() || !strings.HasSuffix(n, ".log") {
						continue
					}
					b, err := ioutil.ReadFile(filepath.Join(dir, n))
					if err != nil {
						return nil, err
					}
					all = append(all, b...)
				}
				pos := make([]int, 4)
				for i := range pos {
					pos[i] = bytes.Index(all, []byte(fmt.Sprintf("bigmark-%d", i+1)))
				}
				return map[string]interface{}{"pos": pos, "bytes": len(all)}, nil
			})
		})
	})

	// logSecondary: a secondary logger (the kind shakespeare uses for its narrator, spotlight, audit and
	// collector logs) with garbage collection enabled, in the scratch log directory or in a directory of
	// its own: N messages with a small LogFileMaxSize (one file per few messages), flush, wait until the
	// directory is quiet; reports the secondary logger's files, newest first.
	register("logSecondary", func(raw json.RawMessage) (interface{}, error) {
		var a struct {
			MaxSize  int64
			Combined int64
			N        int
			OwnDir   bool
			// Main > 0: the main logger writes that many messages of its own between the secondary's
			Main int
		}
		if err := json.Unmarshal(raw, &a); err != nil {
			return nil, err
		}
		return withTimeout(60*time.Second, func() (interface{}, error) {
			return inLogScope(func(dir string) (interface{}, error) {
				atomic.StoreInt64(&log.LogFileMaxSize, a.MaxSize)
				atomic.StoreInt64(&log.LogFilesCombinedMaxSize, a.Combined)
				ctx := context.Background()
				var dn *log.DirName
				where := dir
				if a.OwnDir {
					where = filepath.Join(dir, "own")
					if err := os.MkdirAll(where, 0755); err != nil {
						return nil, err
					}
					dn = &log.DirName{}
					if err := dn.Set(where); err != nil {
						return nil, err
					}
				}
				l := log.NewSecondaryLogger(ctx, dn, "sec", true /*enableGc*/, false /*forceSyncWrites*/)
				for i := 0; i < a.N; i++ {
					l.Logf(ctx, "secondary message %04d %s", i, strings.Repeat("x", 60))
					if i < a.Main {
						log.Infof(ctx, "main message %04d %s", i, strings.Repeat("y", 60))
					}
					log.Flush()
				}
				settle(where, 300*time.Millisecond, 8*time.Second)
				type fi struct {
					Name string
					Size int64
				}
				var files []fi
				for _, n := range dirNames(where) {
					if strings.Contains(n, "-sec.") && strings.HasSuffix(n, ".log") {
						st, err := os.Lstat(filepath.Join(where, n))
						if err == nil && st.Mode().IsRegular() {
							files = append(files, fi{n, st.Size()})
						}
					}
				}
				sort.Slice(files, func(i, j int) bool { return files[i].Name > files[j].Name })
				// what the MAIN logger reads back: its own messages only
				foreign, own := 0, 0
				if ents, err := log.FetchEntriesFromFiles(0, math.MaxInt64, math.MaxInt32, nil); err == nil {
					for _, e := range ents {
						if strings.Contains(e.Message, "secondary message") {
							foreign++
						}
						if strings.Contains(e.Message, "main message") {
							own++
						}
					}
				}
				return map[string]interface{}{"files": files, "foreignInMain": foreign, "mainRead": own}, nil
			})
		})
	})

	// logGC: fabricate log files (name stamps in seconds, sizes in bytes; Other = files that do
	// not belong to this logger) in a scratch log directory, start the GC daemon with the given
	// bound, wait until the directory is quiet, report what is left.
	register("logGC", func(raw json.RawMessage) (interface{}, error) {
		var a struct {
			Bound int64
			Files []struct {
				Stamp int64
				Size  int64
				Pid   int
			}
			Other []string
		}
		if err := json.Unmarshal(raw, &a); err != nil {
			return nil, err
		}
		return withTimeout(60*time.Second, func() (interface{}, error) {
			return inLogScope(func(dir string) (interface{}, error) {
				prog := strings.Replace(filepath.Base(os.Args[0]), ".", "", -1)
				names := make([]string, len(a.Files))
				chunk := bytes.Repeat([]byte("x"), 1<<16)
				for i, f := range a.Files {
					ts := time.Unix(f.Stamp, 0).UTC().Format(log.FileTimeFormat)
					names[i] = fmt.Sprintf("%s.somehost.someuser.%s.%06d.log", prog, ts, f.Pid)
					fh, err := os.Create(filepath.Join(dir, names[i]))
					if err != nil {
						return nil, err
					}
					for left := f.Size; left > 0; {
						n := int64(len(chunk))
						if left < n {
							n = left
						}
						if _, err := fh.Write(chunk[:n]); err != nil {
							return nil, err
						}
						left -= n
					}
					fh.Close()
				}
				for _, o := range a.Other {
					if err := ioutil.WriteFile(filepath.Join(dir, o), []byte("other\n"), 0644); err != nil {
						return nil, err
					}
				}
				before := dirNames(dir)
				atomic.StoreInt64(&log.LogFilesCombinedMaxSize, a.Bound)
				gctx, cancel := context.WithCancel(context.Background())
				log.StartGCDaemon(gctx)
				left := settle(dir, 300*time.Millisecond, 8*time.Second)
				cancel()
				return map[string]interface{}{"names": names, "before": before, "left": left}, nil
			})
		})
	})
}
