// vharness executes requests of the verification line protocol against
// the real implementation (in-process, built from /repo with -tags verif).
//
// One JSON object per input line, one JSON object per output line.
package main

import (
	"bufio"
	"encoding/json"
	"flag"
	"fmt"
	"os"

	"github.com/knz/shakespeare/pkg/crdb/log/logflags"
)

type request map[string]interface{}

type handler func(req json.RawMessage) (interface{}, error)

var handlers = map[string]handler{}

func register(op string, h handler) { handlers[op] = h }

func main() {
	// Keep the implementation's logging off the terminal.
	if f := flag.CommandLine.Lookup(logflags.LogToStderrName); f != nil {
		_ = f.Value.Set("NONE")
	}
	in := bufio.NewReaderSize(os.Stdin, 1<<20)
	out := bufio.NewWriterSize(os.Stdout, 1<<20)
	defer out.Flush()
	enc := json.NewEncoder(out)
	for {
		line, err := in.ReadBytes('\n')
		if len(line) > 1 {
			var hdr struct{ Op string }
			if jerr := json.Unmarshal(line, &hdr); jerr != nil {
				enc.Encode(map[string]interface{}{"harnessError": "bad json: " + jerr.Error()})
			} else if h, ok := handlers[hdr.Op]; !ok {
				enc.Encode(map[string]interface{}{"harnessError": "unknown op " + hdr.Op})
			} else {
				res, herr := safeCall(h, line)
				if herr != nil {
					enc.Encode(map[string]interface{}{"harnessError": herr.Error()})
				} else if b, merr := json.Marshal(res); merr != nil {
					// e.g. a NaN / ±Inf among the values: JSON cannot carry it; answer all the same
					enc.Encode(map[string]interface{}{"harnessError": "unencodable result: " + merr.Error()})
				} else {
					out.Write(b)
					out.WriteByte('\n')
				}
			}
			out.Flush()
		}
		if err != nil {
			return
		}
	}
}

func safeCall(h handler, line []byte) (res interface{}, err error) {
	defer func() {
		if r := recover(); r != nil {
			res = map[string]interface{}{"panicked": true, "panic": fmt.Sprintf("%v", r)}
			err = nil
		}
	}()
	return h(line)
}
