package main

// Executors for C09 / C20 (configuration reader, preprocessing).
//
//	parseT      VerifParse with a watchdog: a load that does not return within TimeoutMs is
//	            reported as Hung (the goroutine is abandoned; the caller restarts the harness).
//	            The rendered error additionally travels hex-encoded, so that arbitrary bytes of
//	            the input survive JSON.
//	preprocHex  preprocReplace on hex-encoded table and text.
//	gostr       filepath.Join / filepath.Dir / strings.TrimSpace on hex-encoded bytes (the Go
//	            library functions the reader model re-implements).

import (
	"encoding/hex"
	"encoding/json"
	"path/filepath"
	"strings"
	"time"

	"github.com/knz/shakespeare/pkg/cmd"
)

type parseTResult struct {
	cmd.VerifParseResult
	ErrFullHex string
	Hung       bool
	Micros     int64
}

func parseWithWatchdog(a cmd.VerifParseArgs, timeout time.Duration) parseTResult {
	ch := make(chan cmd.VerifParseResult, 1)
	t0 := time.Now()
	go func() {
		ch <- cmd.VerifParse(a)
	}()
	select {
	case r := <-ch:
		return parseTResult{VerifParseResult: r, ErrFullHex: hex.EncodeToString([]byte(r.ErrFull)),
			Micros: time.Since(t0).Microseconds()}
	case <-time.After(timeout):
		return parseTResult{Hung: true, Micros: time.Since(t0).Microseconds()}
	}
}

func init() {
	register("parseT", func(raw json.RawMessage) (interface{}, error) {
		var a struct {
			Args      cmd.VerifParseArgs
			TimeoutMs int
			Slim      bool
		}
		if err := json.Unmarshal(raw, &a); err != nil {
			return nil, err
		}
		if a.TimeoutMs <= 0 {
			a.TimeoutMs = 5000
		}
		r := parseWithWatchdog(a.Args, time.Duration(a.TimeoutMs)*time.Millisecond)
		if a.Slim {
			// the caller only needs the verdict and the diagnostic
			r.Steps, r.Play, r.Story, r.Printed = "", nil, nil, ""
		}
		return r, nil
	})
	register("preprocHex", func(raw json.RawMessage) (interface{}, error) {
		var a struct {
			Vars map[string]string
			S    string
		}
		if err := json.Unmarshal(raw, &a); err != nil {
			return nil, err
		}
		vars := make(map[string]string, len(a.Vars))
		for k, v := range a.Vars {
			kb, err := hex.DecodeString(k)
			if err != nil {
				return nil, err
			}
			vb, err := hex.DecodeString(v)
			if err != nil {
				return nil, err
			}
			vars[string(kb)] = string(vb)
		}
		sb, err := hex.DecodeString(a.S)
		if err != nil {
			return nil, err
		}
		r, e := cmd.VerifPreprocReplace(vars, string(sb))
		return map[string]interface{}{"res": hex.EncodeToString([]byte(r)), "err": e,
			"errHex": hex.EncodeToString([]byte(e))}, nil
	})
	register("gostr", func(raw json.RawMessage) (interface{}, error) {
		var a struct {
			Fn   string
			A, B string
		}
		if err := json.Unmarshal(raw, &a); err != nil {
			return nil, err
		}
		ab, err := hex.DecodeString(a.A)
		if err != nil {
			return nil, err
		}
		bb, err := hex.DecodeString(a.B)
		if err != nil {
			return nil, err
		}
		var r string
		switch a.Fn {
		case "join":
			r = filepath.Join(string(ab), string(bb))
		case "dir":
			r = filepath.Dir(string(ab))
		case "trim":
			r = strings.TrimSpace(string(ab))
		}
		return map[string]interface{}{"res": hex.EncodeToString([]byte(r))}, nil
	})
}

func init() {
	// escapeRead: hex text pieces -> what escapeNl makes of the text, and what the real reader
	// reads back from  Pre+escapeNl(T)+"\n"+Rest
	register("escapeRead", func(raw json.RawMessage) (interface{}, error) {
		var a struct{ Pre, T, Rest string }
		if err := json.Unmarshal(raw, &a); err != nil {
			return nil, err
		}
		pre, err := hex.DecodeString(a.Pre)
		if err != nil {
			return nil, err
		}
		t, err := hex.DecodeString(a.T)
		if err != nil {
			return nil, err
		}
		rest, err := hex.DecodeString(a.Rest)
		if err != nil {
			return nil, err
		}
		esc := cmd.VerifEscapeNl(string(t))
		lines, starts, e := cmd.VerifReadLogicalLines(string(pre) + esc + "\n" + string(rest))
		hl := make([]string, len(lines))
		for i, l := range lines {
			hl[i] = hex.EncodeToString([]byte(l))
		}
		return map[string]interface{}{"esc": hex.EncodeToString([]byte(esc)), "lines": hl, "starts": starts, "err": e}, nil
	})
}

func init() {
	// readLines: the logical lines the real reader makes of a text (hex in, hex out)
	register("readLines", func(raw json.RawMessage) (interface{}, error) {
		var a struct{ Text string }
		if err := json.Unmarshal(raw, &a); err != nil {
			return nil, err
		}
		t, err := hex.DecodeString(a.Text)
		if err != nil {
			return nil, err
		}
		lines, starts, e := cmd.VerifReadLogicalLines(string(t))
		hl := make([]string, len(lines))
		for i, l := range lines {
			hl[i] = hex.EncodeToString([]byte(l))
		}
		return map[string]interface{}{"lines": hl, "starts": starts, "err": e}, nil
	})
}
