package main

import (
	"encoding/json"
	"sync"
	"time"

	"github.com/knz/shakespeare/pkg/crdb/timeutil"
)

func floorDiv(a, b int64) int64 {
	q := a / b
	if (a%b != 0) && ((a < 0) != (b < 0)) {
		q--
	}
	return q
}

func init() {
	register("micros", func(raw json.RawMessage) (interface{}, error) {
		var a struct{ Instants [][2]int64 }
		if err := json.Unmarshal(raw, &a); err != nil {
			return nil, err
		}
		res := make([]int64, len(a.Instants))
		for i, p := range a.Instants {
			res[i] = timeutil.ToUnixMicros(time.Unix(p[0], p[1]))
		}
		return map[string]interface{}{"res": res}, nil
	})
	register("fromMicros", func(raw json.RawMessage) (interface{}, error) {
		var a struct{ Us []int64 }
		if err := json.Unmarshal(raw, &a); err != nil {
			return nil, err
		}
		res := make([][3]int64, len(a.Us))
		for i, u := range a.Us {
			t := timeutil.FromUnixMicros(u)
			res[i] = [3]int64{t.Unix(), int64(t.Nanosecond()), timeutil.ToUnixMicros(t)}
		}
		return map[string]interface{}{"res": res}, nil
	})
	// microsSweep compares ToUnixMicros with the closed form floor((sec*1e9+nsec+500)/1000)
	// (the right-hand side of theorem C18.toUnixMicros_nearest) on every nanosecond offset
	// in [From, To) of second Sec. Returns the first mismatches.
	register("microsSweep", func(raw json.RawMessage) (interface{}, error) {
		var a struct {
			Sec      int64
			From, To int64
			Workers  int
		}
		if err := json.Unmarshal(raw, &a); err != nil {
			return nil, err
		}
		if a.Workers <= 0 {
			a.Workers = 1
		}
		var mu sync.Mutex
		var bad [][3]int64
		var wg sync.WaitGroup
		chunk := (a.To - a.From + int64(a.Workers) - 1) / int64(a.Workers)
		for w := 0; w < a.Workers; w++ {
			lo := a.From + int64(w)*chunk
			hi := lo + chunk
			if hi > a.To {
				hi = a.To
			}
			wg.Add(1)
			go func(lo, hi int64) {
				defer wg.Done()
				for n := lo; n < hi; n++ {
					got := timeutil.ToUnixMicros(time.Unix(a.Sec, n))
					want := floorDiv(a.Sec*1000000000+n+500, 1000)
					if got != want {
						mu.Lock()
						if len(bad) < 5 {
							bad = append(bad, [3]int64{n, got, want})
						}
						mu.Unlock()
						return
					}
				}
			}(lo, hi)
		}
		wg.Wait()
		return map[string]interface{}{"checked": a.To - a.From, "bad": bad}, nil
	})
	// timer runs an operation script on a real timeutil.Timer.
	// Ops: {"K":"reset","Ms":n} {"K":"sleep","Ms":n} {"K":"recv"} {"K":"stop"}
	register("timer", func(raw json.RawMessage) (interface{}, error) {
		var a struct {
			Ops []struct {
				K  string
				Ms int
			}
		}
		if err := json.Unmarshal(raw, &a); err != nil {
			return nil, err
		}
		var out []string
		t := timeutil.NewTimer()
		var lastReset time.Time
		var lastDur time.Duration
		early := false
		for _, op := range a.Ops {
			switch op.K {
			case "reset":
				done := make(chan struct{})
				d := time.Duration(op.Ms) * time.Millisecond
				lastReset = time.Now()
				lastDur = d
				go func() { t.Reset(d); close(done) }()
				select {
				case <-done:
					out = append(out, "ok")
				case <-time.After(2 * time.Second):
					out = append(out, "blocked")
					return map[string]interface{}{"res": out, "early": early}, nil
				}
			case "sleep":
				time.Sleep(time.Duration(op.Ms) * time.Millisecond)
				out = append(out, "ok")
			case "recv":
				select {
				case <-t.C:
					t.Read = true
					if time.Since(lastReset) < lastDur {
						early = true
					}
					out = append(out, "got")
				default:
					out = append(out, "none")
				}
			case "stop":
				if t.Stop() {
					out = append(out, "stopped-true")
				} else {
					out = append(out, "stopped-false")
				}
				t = timeutil.NewTimer()
			}
		}
		t.Stop()
		return map[string]interface{}{"res": out, "early": early}, nil
	})
	// timerEarly: for every duration (microseconds) arm a Timer and block on its channel; reports how long the
	// expiry took (nanoseconds).  Mode 0: a fresh Timer each time; 1: one Timer, re-armed after its expiry was
	// read; 2: one Timer, re-armed while an hour-long expiry is pending.
	register("timerEarly", func(raw json.RawMessage) (interface{}, error) {
		var a struct {
			Mode int
			Us   []int64
		}
		if err := json.Unmarshal(raw, &a); err != nil {
			return nil, err
		}
		took := make([]int64, 0, len(a.Us))
		t := timeutil.NewTimer()
		for _, us := range a.Us {
			d := time.Duration(us) * time.Microsecond
			switch a.Mode {
			case 0:
				t.Stop()
				t = timeutil.NewTimer()
			case 2:
				t.Reset(time.Hour)
			}
			start := time.Now()
			t.Reset(d)
			select {
			case <-t.C:
				t.Read = true
				took = append(took, int64(time.Since(start)))
			case <-time.After(5 * time.Second):
				took = append(took, -1)
			}
		}
		t.Stop()
		return map[string]interface{}{"took": took}, nil
	})
}
