package main

// C15: drive the real stop.Stopper (exported API only) with gated callbacks and record a
// totally ordered log of callbacks and API returns.  Every log entry samples the three
// channels and the semaphore while holding the log mutex (stopped first, then stopper, then
// quiescer, so that "stopped seen closed => stopper seen closed => quiescer seen closed" is a
// statement about the Stopper and not about the sampling).

import (
	"context"
	"encoding/json"
	"fmt"
	"runtime"
	"strconv"
	"strings"
	"sync"
	"sync/atomic"
	"time"

	"github.com/knz/shakespeare/pkg/crdb/stop"
)

type c15call struct {
	id, kind int
	gate     chan struct{}
	gateOnce sync.Once
	returned int32 // 0 no, 1 yes
	ret      int32
	bodyS    int32
	bodyE    int32
	closerN  int32
	cancld   int32
	cancelFn func()
	done     chan struct{} // call goroutine finished
	watch    chan struct{} // ctx watcher finished (wcq/wcs)
}

type c15run struct {
	s           *stop.Stopper
	sem         chan struct{}
	mu          sync.Mutex
	log         []string
	calls       []*c15call
	gateClosers bool
	allOpen     bool
	panics      []string
}

// c15parked reports whether every goroutine of the process other than the caller is parked
// (blocked on a channel, mutex, condition variable, WaitGroup, select, sleep or in a system call),
// i.e. nothing can move until the harness acts again.
func c15parked() bool {
	buf := make([]byte, 1<<16)
	for {
		n := runtime.Stack(buf, true)
		if n < len(buf) {
			buf = buf[:n]
			break
		}
		buf = make([]byte, 2*len(buf))
	}
	first := true
	for _, blk := range strings.Split(string(buf), "\n\n") {
		if !strings.HasPrefix(blk, "goroutine ") {
			continue
		}
		if first { // the caller itself
			first = false
			continue
		}
		hdr := blk
		if i := strings.IndexByte(blk, '\n'); i >= 0 {
			hdr = blk[:i]
		}
		if strings.Contains(hdr, "[running") || strings.Contains(hdr, "[runnable") {
			return false
		}
	}
	return true
}

// c15settle waits until the process is quiescent (seen parked on several consecutive looks).
func c15settle(d time.Duration) bool {
	deadline := time.Now().Add(d)
	streak := 0
	for {
		runtime.Gosched()
		if c15parked() {
			streak++
			if streak >= 3 {
				return true
			}
		} else {
			streak = 0
			if time.Now().After(deadline) {
				return false
			}
		}
	}
}

func c15closed(ch <-chan struct{}) bool {
	select {
	case <-ch:
		return true
	default:
		return false
	}
}

func b01(b bool) string {
	if b {
		return "1"
	}
	return "0"
}

func (r *c15run) logEv(k string, id, c, v int) {
	r.mu.Lock()
	d := c15closed(r.s.IsStopped())
	s := c15closed(r.s.ShouldStop())
	q := c15closed(r.s.ShouldQuiesce())
	n := len(r.sem)
	r.log = append(r.log, k+"."+strconv.Itoa(id)+"."+strconv.Itoa(c)+"."+strconv.Itoa(v)+"."+b01(q)+"."+b01(s)+"."+b01(d)+"."+strconv.Itoa(n))
	r.mu.Unlock()
}

func c15code(err error) int {
	switch err {
	case nil:
		return 0
	case stop.ErrUnavailable:
		return 1
	case stop.ErrThrottled:
		return 2
	}
	return 3
}

func (r *c15run) spawn(kind int) {
	c := &c15call{id: len(r.calls), kind: kind, gate: make(chan struct{}), done: make(chan struct{})}
	r.calls = append(r.calls, c)
	if r.allOpen {
		c.open()
	}
	ctx := context.Background()
	body := func(context.Context) {
		r.logEv("B", c.id, kind, 0)
		atomic.StoreInt32(&c.bodyS, 1)
		<-c.gate
		r.logEv("E", c.id, kind, 0)
		atomic.StoreInt32(&c.bodyE, 1)
	}
	go func() {
		defer close(c.done)
		defer func() {
			if p := recover(); p != nil {
				r.mu.Lock()
				r.panics = append(r.panics, fmt.Sprintf("call %d kind %d: %v", c.id, kind, p))
				r.mu.Unlock()
			}
		}()
		r.logEv("C", c.id, kind, 0)
		code := 0
		switch kind {
		case 0:
			code = c15code(r.s.RunTask(ctx, "c15.task", body))
		case 1:
			code = c15code(r.s.RunAsyncTask(ctx, "c15.atask", body))
		case 2:
			code = c15code(r.s.RunLimitedAsyncTask(ctx, "c15.ltask", r.sem, false, body))
		case 3:
			code = c15code(r.s.RunLimitedAsyncTask(ctx, "c15.ltaskw", r.sem, true, body))
		case 4:
			r.s.RunWorker(ctx, func(context.Context) {
				r.logEv("W", c.id, kind, 0)
				atomic.StoreInt32(&c.bodyS, 1)
				<-c.gate
				r.logEv("X", c.id, kind, 0)
				atomic.StoreInt32(&c.bodyE, 1)
			})
		case 5:
			r.s.AddCloser(stop.CloserFn(func() {
				r.logEv("K", c.id, kind, 0)
				atomic.AddInt32(&c.closerN, 1)
				if r.gateClosers {
					<-c.gate
				}
			}))
		case 6, 7:
			var cctx context.Context
			if kind == 6 {
				cctx, c.cancelFn = r.s.WithCancelOnQuiesce(ctx)
			} else {
				cctx, c.cancelFn = r.s.WithCancelOnStop(ctx)
			}
			c.watch = make(chan struct{})
			go func() {
				defer close(c.watch)
				<-cctx.Done()
				r.logEv("N", c.id, kind, 0)
				atomic.StoreInt32(&c.cancld, 1)
			}()
		case 8:
			r.s.Quiesce(ctx)
		case 9:
			r.s.Stop(ctx)
		case 10:
			r.logEv("F", c.id, kind, 0)
			atomic.StoreInt32(&c.ret, 0)
			atomic.StoreInt32(&c.returned, 1)
			return
		}
		r.logEv("R", c.id, kind, code)
		atomic.StoreInt32(&c.ret, int32(code))
		atomic.StoreInt32(&c.returned, 1)
	}()
}

func (c *c15call) open() { c.gateOnce.Do(func() { close(c.gate) }) }

// obs renders the observable state in the same format as the Lean driver (Driver/C15.lean, `obs`).
func (r *c15run) obs() string {
	var sb strings.Builder
	sb.WriteString(b01(c15closed(r.s.ShouldQuiesce())) + "," + b01(c15closed(r.s.ShouldStop())) + "," +
		b01(c15closed(r.s.IsStopped())) + "," + strconv.Itoa(r.s.NumTasks()) + "," + strconv.Itoa(len(r.sem)))
	for _, c := range r.calls {
		sb.WriteString(";")
		if atomic.LoadInt32(&c.returned) == 1 {
			sb.WriteString(strconv.Itoa(int(atomic.LoadInt32(&c.ret))))
		} else {
			sb.WriteString("b")
		}
		switch {
		case c.kind <= 4:
			if atomic.LoadInt32(&c.bodyE) == 1 {
				sb.WriteString("e")
			} else if atomic.LoadInt32(&c.bodyS) == 1 {
				sb.WriteString("s")
			} else {
				sb.WriteString("-")
			}
		case c.kind == 5:
			sb.WriteString(strconv.Itoa(int(atomic.LoadInt32(&c.closerN))))
		case c.kind == 6 || c.kind == 7:
			if atomic.LoadInt32(&c.cancld) == 1 {
				sb.WriteString("c")
			} else {
				sb.WriteString("o")
			}
		default:
			sb.WriteString("-")
		}
	}
	return sb.String()
}

func c15waitCh(ch <-chan struct{}, d time.Duration) bool {
	select {
	case <-ch:
		return true
	default:
	}
	t := time.NewTimer(d)
	defer t.Stop()
	select {
	case <-ch:
		return true
	case <-t.C:
		return false
	}
}

// pollUntil spins (yielding) and then sleeps in short steps until f() holds or d elapses.
func c15poll(d time.Duration, f func() bool) bool {
	for i := 0; i < 200; i++ {
		if f() {
			return true
		}
		runtime.Gosched()
	}
	deadline := time.Now().Add(d)
	for time.Now().Before(deadline) {
		if f() {
			return true
		}
		time.Sleep(50 * time.Microsecond)
	}
	return f()
}

type c15act struct {
	K    string // call open cancel openall waitq waits waitd yield sleep join fin
	Kind int
	I    int
	N    int
}

func init() {
	register("stopper", func(raw json.RawMessage) (interface{}, error) {
		var a struct {
			Cap         int
			Acts        []c15act
			Expect      []string // settled-sequential mode: expected observation after each act
			GateClosers bool
			WaitUs      int // time-out of waitq/waits/waitd
			SettleMs    int // time-out of reaching an expected observation
		}
		if err := json.Unmarshal(raw, &a); err != nil {
			return nil, err
		}
		if a.WaitUs <= 0 {
			a.WaitUs = 3000
		}
		if a.SettleMs <= 0 {
			a.SettleMs = 2000
		}
		r := &c15run{s: stop.NewStopper(), sem: make(chan struct{}, a.Cap), gateClosers: a.GateClosers}
		var obs []string
		var timeouts []string
		start := time.Now()
		overall := 20 * time.Second
		for k, act := range a.Acts {
			if time.Since(start) > overall {
				timeouts = append(timeouts, "overall")
				break
			}
			switch act.K {
			case "call":
				r.spawn(act.Kind)
			case "open":
				if act.I >= 0 && act.I < len(r.calls) {
					r.calls[act.I].open()
				}
			case "cancel":
				if act.I >= 0 && act.I < len(r.calls) {
					c := r.calls[act.I]
					if c15poll(time.Second, func() bool { return atomic.LoadInt32(&c.returned) == 1 }) && c.cancelFn != nil {
						c.cancelFn()
					} else {
						timeouts = append(timeouts, fmt.Sprintf("cancel %d", act.I))
					}
				}
			case "openall":
				r.allOpen = true
				for _, c := range r.calls {
					c.open()
				}
			case "waitq":
				c15waitCh(r.s.ShouldQuiesce(), time.Duration(a.WaitUs)*time.Microsecond)
			case "waits":
				c15waitCh(r.s.ShouldStop(), time.Duration(a.WaitUs)*time.Microsecond)
			case "waitd":
				c15waitCh(r.s.IsStopped(), time.Duration(a.WaitUs)*time.Microsecond)
			case "yield":
				for i := 0; i <= act.N; i++ {
					runtime.Gosched()
				}
			case "sleep":
				time.Sleep(time.Duration(act.N) * time.Microsecond)
			case "join":
				for _, c := range r.calls {
					if !c15waitCh(c.done, 3*time.Second) {
						timeouts = append(timeouts, fmt.Sprintf("call %d (kind %d) did not return", c.id, c.kind))
					}
				}
				for _, c := range r.calls {
					if c.watch != nil && !c15waitCh(c.watch, 500*time.Millisecond) {
						timeouts = append(timeouts, fmt.Sprintf("context of call %d never cancelled", c.id))
					}
				}
			case "fin":
				r.spawn(10)
				c15waitCh(r.calls[len(r.calls)-1].done, time.Second)
			}
			if k < len(a.Expect) {
				if !c15settle(time.Duration(a.SettleMs) * time.Millisecond) {
					timeouts = append(timeouts, fmt.Sprintf("act %d never settled", k))
				}
				obs = append(obs, r.obs())
			}
		}
		final := ""
		if len(a.Expect) > 0 {
			// anything that still moves after the last expected observation shows up here
			time.Sleep(time.Millisecond)
			c15settle(time.Duration(a.SettleMs) * time.Millisecond)
			final = r.obs()
		}
		r.mu.Lock()
		logCopy := append([]string(nil), r.log...)
		r.mu.Unlock()
		// clean up: open every gate, stop the stopper, give the goroutines a moment
		for _, c := range r.calls {
			c.open()
		}
		stopped := make(chan struct{})
		go func() {
			defer func() { recover() }()
			r.s.Stop(context.Background())
			close(stopped)
		}()
		var hung []int
		if !c15waitCh(stopped, 3*time.Second) {
			hung = append(hung, -1)
		}
		for _, c := range r.calls {
			if !c15waitCh(c.done, time.Second) {
				hung = append(hung, c.id)
			}
		}
		r.mu.Lock()
		panics := append([]string(nil), r.panics...)
		r.mu.Unlock()
		return map[string]interface{}{"log": logCopy, "obs": obs, "final": final, "timeouts": timeouts,
			"hung": hung, "panics": panics}, nil
	})
}
