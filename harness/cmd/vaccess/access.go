package main

import (
	"bufio"
	"fmt"
	"go/token"
	"go/types"
	"os"
	"sort"
	"strings"

	"golang.org/x/tools/go/ssa"
)

// Access is one access fact.
type Access struct {
	Root    string            `json:"root"`
	Fn      string            `json:"fn"`
	Pos     string            `json:"pos"`
	Loc     string            `json:"loc"`
	Write   bool              `json:"write"`
	Atomic  bool              `json:"atomic"`
	Locks   []string          `json:"locks"`
	PreDone bool              `json:"preDone"` // certainly before the root's end signal
	Rel     map[string]string `json:"rel"`     // child root -> pre | mid | post | sep   (absent = sep)
	Via     string            `json:"via"`     // "" | ext:<callee> | reflect
	in      ssa.Instruction
	fn      *ssa.Function
}

type Analysis struct {
	Roots    []*Root   `json:"roots"`
	Accesses []*Access `json:"accesses"`
	Notes    []string  `json:"notes"`
	Funcs    int       `json:"funcs"`
	Enc      *Encoded  `json:"encoded"`
	// stores to an object after its pointer was sent on a channel (see sent.go)
	SentThenWritten []SentWrite `json:"sentThenWritten"`
	// functions that send a parameter on a channel (directly or through a callee): parameter names
	SendSummary map[string][]string `json:"sendSummary"`
}

var fileCache = map[string][]string{}

func srcLineOf(file string, line int) string {
	ls, ok := fileCache[file]
	if !ok {
		f, err := os.Open(file)
		if err == nil {
			sc := bufio.NewScanner(f)
			sc.Buffer(make([]byte, 1<<20), 1<<20)
			for sc.Scan() {
				ls = append(ls, sc.Text())
			}
			f.Close()
		}
		fileCache[file] = ls
	}
	if line >= 1 && line <= len(ls) {
		return ls[line-1]
	}
	return ""
}

// ---------------------------------------------------------------------------
// call edges inside pkg/cmd

type edge struct {
	site   ssa.Instruction
	callee *ssa.Function
}

// callback method names that code outside the package invokes on our values (fmt, sort, pflag, errors, json)
var callbackMethods = map[string]bool{"String": true, "Error": true, "Format": true, "GoString": true,
	"Len": true, "Less": true, "Swap": true, "Set": true, "Type": true, "MarshalJSON": true, "SafeDetails": true, "Cause": true, "Unwrap": true}

func (w *world) buildEdges(sp map[*ssa.Function]*spawner, roots []*Root) map[*ssa.Function][]edge {
	spawnSite := map[ssa.Instruction]bool{}
	for _, r := range roots {
		spawnSite[r.spawn] = true
	}
	wrappers := map[*ssa.Function]bool{}
	for _, s := range sp {
		wrappers[s.wrapper] = true
	}
	edges := map[*ssa.Function][]edge{}
	add := func(f *ssa.Function, site ssa.Instruction, g *ssa.Function) {
		if g == nil || !w.funcs[g] {
			return
		}
		for _, e := range edges[f] {
			if e.site == site && e.callee == g {
				return
			}
		}
		edges[f] = append(edges[f], edge{site, g})
	}
	for f := range w.funcs {
		n := w.cg.Nodes[f]
		if n != nil {
			for _, e := range n.Out {
				in := e.Site.(ssa.Instruction)
				if _, isGo := in.(*ssa.Go); isGo {
					continue
				}
				if wrappers[f] && e.Site.Common().StaticCallee() == nil && !e.Site.Common().IsInvoke() {
					// the wrapper's call of the spawned function: represented by the root's entry
					continue
				}
				add(f, in, e.Callee.Func)
			}
		}
		// functions handed to code outside the package are taken to be called by it synchronously
		for _, b := range f.Blocks {
			for _, in := range b.Instrs {
				switch x := in.(type) {
				case ssa.CallInstruction:
					if _, isGo := in.(*ssa.Go); isGo {
						continue
					}
					c := x.Common()
					callee := c.StaticCallee()
					ext := callee == nil && c.IsInvoke() && !strings.Contains(c.Value.Type().String(), pkgPath+".")
					if callee != nil && !w.funcs[callee] {
						ext = true
					}
					if !ext || isStopperSpawn(c) != "" {
						continue
					}
					for _, a := range c.Args {
						if g := funcOf(a); g != nil {
							add(f, in, g)
						}
					}
				case *ssa.MakeInterface:
					// methods that library code calls through interfaces (fmt.Stringer, error, sort.Interface …)
					ms := w.prog.MethodSets.MethodSet(x.X.Type())
					for i := 0; i < ms.Len(); i++ {
						sel := ms.At(i)
						if callbackMethods[sel.Obj().Name()] {
							add(f, in, w.prog.MethodValue(sel))
						}
					}
				}
			}
		}
	}
	return edges
}

func reachFrom(entries []*ssa.Function, edges map[*ssa.Function][]edge) map[*ssa.Function]bool {
	seen := map[*ssa.Function]bool{}
	var st []*ssa.Function
	for _, e := range entries {
		if e != nil {
			st = append(st, e)
		}
	}
	for len(st) > 0 {
		f := st[len(st)-1]
		st = st[:len(st)-1]
		if seen[f] {
			continue
		}
		seen[f] = true
		for _, e := range edges[f] {
			st = append(st, e.callee)
		}
	}
	return seen
}

// ---------------------------------------------------------------------------
// locations

func namedOf(t types.Type) (string, *types.Struct) {
	if p, ok := t.Underlying().(*types.Pointer); ok {
		t = p.Elem()
	}
	name := ""
	if n, ok := t.(*types.Named); ok {
		name = n.Obj().Name()
		if n.Obj().Pkg() != nil && n.Obj().Pkg().Path() != pkgPath {
			name = n.Obj().Pkg().Name() + "." + name
		}
	}
	st, _ := t.Underlying().(*types.Struct)
	return name, st
}

func typeStr(t types.Type) string {
	return types.TypeString(t, func(p *types.Package) string {
		if p.Path() == pkgPath {
			return ""
		}
		return p.Name()
	})
}

func isSyncType(t types.Type) bool {
	if p, ok := t.Underlying().(*types.Pointer); ok {
		t = p.Elem()
	}
	s := t.String()
	return strings.HasPrefix(s, "sync.") || strings.Contains(s, "crdb/syncutil.") || strings.HasPrefix(s, "sync/atomic.")
}

type locator struct {
	w *world
	// captured local variables: Alloc -> name
	captured map[*ssa.Alloc]string
	// points-to for pointer-typed fields: field loc -> target locs
	fieldPts map[string]map[string]bool
	escCache map[ssa.Value][]ssa.Instruction
	escReach map[ssa.Value]map[ssa.Instruction]bool
}

// structPath names the struct behind pointer value v: a named type, or for anonymous struct fields the path.
func (l *locator) structPath(v ssa.Value) string {
	name, _ := namedOf(v.Type())
	if name != "" {
		return name
	}
	if fa, ok := v.(*ssa.FieldAddr); ok {
		return l.fieldLoc(fa)
	}
	return "struct{" + typeStr(v.Type()) + "}"
}

func (l *locator) fieldLoc(fa *ssa.FieldAddr) string {
	_, st := namedOf(fa.X.Type())
	fld := "?"
	if st != nil {
		fld = st.Field(fa.Field).Name()
	}
	return l.structPath(fa.X) + "." + fld
}

// origin follows a value back to what it denotes as an address or container.
// returns the location name of the memory cell `*v` (v an address) or "" when thread-local / unknown.
func (l *locator) cell(v ssa.Value, depth int) (loc string, shared bool) {
	if depth > 8 {
		return "*" + typeStr(v.Type()), true
	}
	switch x := v.(type) {
	case *ssa.FieldAddr:
		return l.fieldLoc(x), true
	case *ssa.Global:
		if x.Pkg != l.w.pkg {
			return "", false
		}
		return "var " + x.Name(), true
	case *ssa.Alloc:
		if n, ok := l.captured[x]; ok {
			return n, true
		}
		return "", false
	case *ssa.FreeVar:
		if a := l.freeVarAlloc(x); a != nil {
			if n, ok := l.captured[a]; ok {
				return n, true
			}
			return "", false
		}
		return "*freevar " + x.Name() + ":" + typeStr(x.Type()), true
	case *ssa.IndexAddr:
		return l.elems(x.X, depth+1), true
	case *ssa.ChangeType:
		return l.cell(x.X, depth+1)
	case *ssa.Convert:
		return l.cell(x.X, depth+1)
	case *ssa.UnOp:
		if x.Op == token.MUL {
			// pointer loaded from a cell: use the points-to set of that cell when known
			src, sh := l.cell(x.X, depth+1)
			if sh && src != "" {
				if t := l.fieldPts[src]; len(t) == 1 {
					for k := range t {
						return k, true
					}
				}
			}
		}
	case *ssa.Phi:
		// all edges the same cell?
		first := ""
		for i, e := range x.Edges {
			c, sh := l.cell(e, depth+1)
			if !sh {
				c = ""
			}
			if i == 0 {
				first = c
			} else if c != first {
				first = "*"
			}
		}
		if first != "*" && first != "" {
			return first, true
		}
	}
	// pointer of unknown origin: name the cell by its type (sound for typed memory)
	pt, ok := v.Type().Underlying().(*types.Pointer)
	if !ok {
		return "", false
	}
	if name, st := namedOf(pt.Elem()); st != nil && name != "" {
		return name, true // whole struct, caller expands
	}
	return "*" + typeStr(pt.Elem()), true
}

// elems names the element cells of a slice/map/array-pointer value.
func (l *locator) elems(v ssa.Value, depth int) string {
	switch x := v.(type) {
	case *ssa.UnOp:
		if x.Op == token.MUL {
			if c, sh := l.cell(x.X, depth+1); sh && c != "" {
				return c + "[]"
			}
		}
	case *ssa.Slice:
		return l.elems(x.X, depth+1)
	case *ssa.ChangeType:
		return l.elems(x.X, depth+1)
	case *ssa.Alloc, *ssa.FieldAddr, *ssa.Global, *ssa.FreeVar: // pointer to array
		if c, sh := l.cell(v, depth+1); sh && c != "" {
			return c + "[]"
		}
		if _, ok := v.(*ssa.Alloc); ok {
			return ""
		}
	case *ssa.MakeSlice, *ssa.MakeMap:
		return "" // fresh, local until stored (the store's target names it)
	}
	return typeStr(v.Type()) + "[]"
}

func (l *locator) freeVarAlloc(fv *ssa.FreeVar) *ssa.Alloc {
	f := fv.Parent()
	for depth := 0; depth < 6 && f != nil; depth++ {
		idx := -1
		for i, v := range f.FreeVars {
			if v == fv {
				idx = i
			}
		}
		if idx < 0 || f.Parent() == nil {
			return nil
		}
		// find the MakeClosure of f in its parent
		var bind ssa.Value
		for _, b := range f.Parent().Blocks {
			for _, in := range b.Instrs {
				if mc, ok := in.(*ssa.MakeClosure); ok && mc.Fn == f {
					bind = mc.Bindings[idx]
				}
			}
		}
		switch b := bind.(type) {
		case *ssa.Alloc:
			return b
		case *ssa.FreeVar:
			fv = b
			f = f.Parent()
		default:
			return nil
		}
	}
	return nil
}

// findCaptured: local variables (Alloc) bound by reference into some closure.
func (l *locator) findCaptured() {
	l.captured = map[*ssa.Alloc]string{}
	for f := range l.w.funcs {
		for _, b := range f.Blocks {
			for _, in := range b.Instrs {
				mc, ok := in.(*ssa.MakeClosure)
				if !ok || !closureEscapes(mc) {
					// a closure that is only called (or deferred) where it is made runs in the activation that owns
					// the variables it captures: they stay thread-local
					continue
				}
				for _, bd := range mc.Bindings {
					var a *ssa.Alloc
					switch x := bd.(type) {
					case *ssa.Alloc:
						a = x
					case *ssa.FreeVar:
						// a variable of an outer function handed on by the closure in between
						a = l.freeVarAlloc(x)
					}
					if a == nil || isSyncType(a.Type()) {
						continue
					}
					l.captured[a] = "local " + safeFname(a.Parent()) + "." + a.Comment
				}
			}
		}
	}
}

// closureEscapes: can the closure value leave the activation that made it?  It cannot when its only uses are
// being the function called by a plain call or a `defer` in the same function; it does when it is started with
// `go`, passed as an argument (runWorker, runAsyncTask, a consumer …), stored, sent, returned, bound into another
// closure or converted.
func closureEscapes(mc *ssa.MakeClosure) bool {
	refs := mc.Referrers()
	if refs == nil {
		return false
	}
	for _, r := range *refs {
		switch x := r.(type) {
		case *ssa.DebugRef:
		case *ssa.Call:
			if x.Call.Value != ssa.Value(mc) {
				return true
			}
			for _, a := range x.Call.Args {
				if a == ssa.Value(mc) {
					return true
				}
			}
		case *ssa.Defer:
			if x.Call.Value != ssa.Value(mc) {
				return true
			}
			for _, a := range x.Call.Args {
				if a == ssa.Value(mc) {
					return true
				}
			}
		default:
			return true
		}
	}
	return false
}

// findFieldPts: addresses of cells stored into pointer-typed cells (one level).
func (l *locator) findFieldPts() {
	l.fieldPts = map[string]map[string]bool{}
	for f := range l.w.funcs {
		for _, b := range f.Blocks {
			for _, in := range b.Instrs {
				st, ok := in.(*ssa.Store)
				if !ok {
					continue
				}
				if _, isPtr := st.Val.Type().Underlying().(*types.Pointer); !isPtr {
					continue
				}
				dst, sh := l.cell(st.Addr, 0)
				if !sh || dst == "" {
					continue
				}
				var tgt string
				switch v := st.Val.(type) {
				case *ssa.FieldAddr:
					tgt = l.fieldLoc(v)
				case *ssa.Global:
					tgt = "var " + v.Name()
				default:
					tgt = "?"
				}
				if _, isBasic := st.Val.Type().Underlying().(*types.Pointer).Elem().Underlying().(*types.Struct); isBasic {
					continue // pointers to structs are named by type anyway
				}
				if l.fieldPts[dst] == nil {
					l.fieldPts[dst] = map[string]bool{}
				}
				l.fieldPts[dst][tgt] = true
			}
		}
	}
}

// expand: a cell holding one of our structs by value stands for all its fields (recursively);
// structs of other packages (time.Time, bytes.Buffer …) are one opaque cell.
func (l *locator) expand(loc string, t types.Type, out *[]string, depth int) {
	if isSyncType(t) {
		return
	}
	name, st := namedOf(t)
	if _, isPtr := t.Underlying().(*types.Pointer); isPtr || st == nil || depth > 4 || strings.Contains(name, ".") {
		*out = append(*out, loc)
		return
	}
	base := loc
	if name != "" {
		base = name
	}
	for i := 0; i < st.NumFields(); i++ {
		l.expand(base+"."+st.Field(i).Name(), st.Field(i).Type(), out, depth+1)
	}
}

// baseAlloc: the local object an address is derived from (through field / element selections).
func baseAlloc(v ssa.Value) *ssa.Alloc {
	for depth := 0; depth < 10; depth++ {
		switch x := v.(type) {
		case *ssa.Alloc:
			return x
		case *ssa.FieldAddr:
			v = x.X
		case *ssa.IndexAddr:
			v = x.X
		case *ssa.Slice:
			v = x.X
		default:
			return nil
		}
	}
	return nil
}

// escapes: the instructions through which a local object (an Alloc, or a slice/map made here) or a part of it
// leaves the function's hands: anything but selecting a part, loading from it, storing into it, re-slicing,
// appending to it and keeping the slice/map value in a private variable.
func (l *locator) escapes(o ssa.Value) []ssa.Instruction {
	if e, ok := l.escCache[o]; ok {
		return e
	}
	var res []ssa.Instruction
	seen := map[ssa.Value]bool{}
	var visitAddr, visitVal func(v ssa.Value)
	visitAddr = func(v ssa.Value) {
		if seen[v] {
			return
		}
		seen[v] = true
		refs := v.Referrers()
		if refs == nil {
			return
		}
		for _, r := range *refs {
			switch x := r.(type) {
			case *ssa.FieldAddr:
				visitAddr(x)
			case *ssa.IndexAddr:
				visitAddr(x)
			case *ssa.Slice:
				visitVal(x)
			case *ssa.UnOp:
				if x.Op != token.MUL {
					res = append(res, r)
				}
			case *ssa.Store:
				if x.Val == v {
					res = append(res, r)
				}
			case *ssa.DebugRef:
			default:
				res = append(res, r)
			}
		}
	}
	visitVal = func(v ssa.Value) {
		if seen[v] {
			return
		}
		seen[v] = true
		refs := v.Referrers()
		if refs == nil {
			return
		}
		for _, r := range *refs {
			switch x := r.(type) {
			case *ssa.IndexAddr:
				visitAddr(x)
			case *ssa.Slice, *ssa.Phi:
				visitVal(x.(ssa.Value))
			case *ssa.Lookup, *ssa.MapUpdate, *ssa.Range, *ssa.DebugRef, *ssa.Next:
				if mu, ok := r.(*ssa.MapUpdate); ok && (mu.Value == v || mu.Key == v) {
					res = append(res, r)
				}
			case *ssa.Store:
				if x.Val != v {
					break
				}
				if a, ok := x.Addr.(*ssa.Alloc); ok && !a.Heap {
					// kept in a private variable: follow what is loaded from it
					if ar := a.Referrers(); ar != nil {
						for _, y := range *ar {
							if u, ok := y.(*ssa.UnOp); ok && u.Op == token.MUL {
								visitVal(u)
							}
						}
					}
					break
				}
				res = append(res, r)
			case *ssa.Call:
				if bi, ok := x.Call.Value.(*ssa.Builtin); ok {
					switch bi.Name() {
					case "len", "cap", "copy", "delete":
						continue
					case "append":
						if x.Call.Args[0] == v {
							visitVal(x)
						}
						continue
					}
				}
				res = append(res, r)
			default:
				res = append(res, r)
			}
		}
	}
	if _, isAlloc := o.(*ssa.Alloc); isAlloc {
		visitAddr(o)
	} else {
		visitVal(o)
	}
	l.escCache[o] = res
	return res
}

// privateAt: at instruction `in`, has the local object o (made in in's function) not yet left the function?
// (Re-executing the allocation yields a new object, so paths through it do not count.)
func (l *locator) privateAt(o ssa.Value, in ssa.Instruction) bool {
	oi, ok := o.(ssa.Instruction)
	if !ok || oi.Parent() != in.Parent() {
		return false
	}
	if a, ok := o.(*ssa.Alloc); ok && !a.Heap {
		return true
	}
	set, ok := l.escReach[o]
	if !ok {
		set = map[ssa.Instruction]bool{}
		stop := map[ssa.Instruction]bool{oi: true}
		for _, e := range l.escapes(o) {
			set[e] = true
			for k := range instrsAfter(e, stop) {
				set[k] = true
			}
		}
		delete(set, oi)
		l.escReach[o] = set
	}
	return !set[in]
}

// origins: the local objects a slice/map value may denote; ok=false when it may come from elsewhere.
func (l *locator) origins(v ssa.Value, seen map[ssa.Value]bool, out *[]ssa.Value) bool {
	if seen[v] {
		return true
	}
	seen[v] = true
	switch x := v.(type) {
	case *ssa.MakeSlice, *ssa.MakeMap:
		*out = append(*out, v)
		return true
	case *ssa.Const:
		return true
	case *ssa.Slice:
		if a := baseAlloc(x.X); a != nil {
			*out = append(*out, a)
			return true
		}
		return l.origins(x.X, seen, out)
	case *ssa.Phi:
		for _, e := range x.Edges {
			if !l.origins(e, seen, out) {
				return false
			}
		}
		return true
	case *ssa.Call:
		if bi, ok := x.Call.Value.(*ssa.Builtin); ok && bi.Name() == "append" {
			return l.origins(x.Call.Args[0], seen, out)
		}
	case *ssa.UnOp:
		if x.Op == token.MUL {
			if a, ok := x.X.(*ssa.Alloc); ok && !a.Heap {
				if refs := a.Referrers(); refs != nil {
					for _, r := range *refs {
						if st, ok := r.(*ssa.Store); ok && st.Addr == a {
							if !l.origins(st.Val, seen, out) {
								return false
							}
						}
					}
				}
				return true
			}
		}
	}
	return false
}

// fresh: the cell at address addr belongs to an object that is still private to the running function.
func (l *locator) fresh(addr ssa.Value, in ssa.Instruction) bool {
	if a := baseAlloc(addr); a != nil {
		return l.privateAt(a, in)
	}
	// element of a slice value
	for depth := 0; depth < 6; depth++ {
		switch x := addr.(type) {
		case *ssa.FieldAddr:
			addr = x.X
			continue
		case *ssa.IndexAddr:
			return l.localValue(x.X, in)
		}
		break
	}
	return false
}

// localValue: a slice/map value made in this function that has not been handed out yet.
func (l *locator) localValue(v ssa.Value, in ssa.Instruction) bool {
	var os []ssa.Value
	if !l.origins(v, map[ssa.Value]bool{}, &os) {
		return false
	}
	for _, o := range os {
		if !l.privateAt(o, in) {
			return false
		}
	}
	return true
}

// ---------------------------------------------------------------------------
// accesses of one function

type rawAccess struct {
	in     ssa.Instruction
	loc    string
	write  bool
	atomic bool
	via    string
}

func (l *locator) accessesOf(f *ssa.Function) []rawAccess {
	var res []rawAccess
	emit := func(in ssa.Instruction, addr ssa.Value, t types.Type, write, atomic bool, via string) {
		if isSyncType(t) || l.fresh(addr, in) {
			return
		}
		loc, sh := l.cell(addr, 0)
		if !sh || loc == "" {
			return
		}
		var locs []string
		l.expand(loc, t, &locs, 0)
		for _, x := range locs {
			res = append(res, rawAccess{in, x, write, atomic, via})
		}
	}
	emitElems := func(in ssa.Instruction, cont ssa.Value, write bool, via string) {
		if l.localValue(cont, in) {
			return
		}
		loc := l.elems(cont, 0)
		if loc == "" {
			return
		}
		res = append(res, rawAccess{in, loc, write, false, via})
	}
	for _, b := range f.Blocks {
		for _, in := range b.Instrs {
			switch x := in.(type) {
			case *ssa.UnOp:
				if x.Op == token.MUL {
					emit(in, x.X, x.Type(), false, false, "")
				}
			case *ssa.Store:
				emit(in, x.Addr, x.Val.Type(), true, false, "")
			case *ssa.MapUpdate:
				emitElems(in, x.Map, true, "")
			case *ssa.Lookup:
				if _, isMap := x.X.Type().Underlying().(*types.Map); isMap {
					emitElems(in, x.X, false, "")
				}
			case *ssa.Range:
				if _, isMap := x.X.Type().Underlying().(*types.Map); isMap {
					emitElems(in, x.X, false, "")
				}
			case *ssa.MakeInterface:
				// a pointer to one of our structs becoming an empty interface may be read by reflection (fmt %v, DeepEqual, json)
				if it, ok := x.Type().Underlying().(*types.Interface); ok && it.NumMethods() == 0 {
					if pt, ok := x.X.Type().Underlying().(*types.Pointer); ok {
						if name, st := namedOf(pt.Elem()); st != nil && name != "" && !strings.Contains(name, ".") {
							var locs []string
							l.expand(name, pt.Elem(), &locs, 0)
							for _, y := range locs {
								res = append(res, rawAccess{in, y, false, false, "reflect"})
							}
						}
					}
				}
			case ssa.CallInstruction:
				c := x.Common()
				if bi, ok := c.Value.(*ssa.Builtin); ok {
					switch bi.Name() {
					case "append":
						emitElems(in, c.Args[0], true, "")
						if len(c.Args) > 1 {
							if _, isSl := c.Args[1].Type().Underlying().(*types.Slice); isSl {
								emitElems(in, c.Args[1], false, "")
							}
						}
					case "copy":
						emitElems(in, c.Args[0], true, "")
						emitElems(in, c.Args[1], false, "")
					case "delete":
						emitElems(in, c.Args[0], true, "")
					}
					continue
				}
				callee := c.StaticCallee()
				if callee != nil && callee.Pkg != nil && callee.Pkg.Pkg.Path() == "sync/atomic" && len(c.Args) > 0 {
					wr := !strings.HasPrefix(callee.Name(), "Load")
					pt, _ := c.Args[0].Type().Underlying().(*types.Pointer)
					if pt != nil {
						emit(in, c.Args[0], pt.Elem(), wr, true, "")
					}
					continue
				}
				ext := (callee != nil && !l.w.funcs[callee]) || (callee == nil && c.IsInvoke() && !strings.Contains(c.Value.Type().String(), pkgPath+"."))
				if !ext {
					continue
				}
				cname := "?"
				if callee != nil {
					cname = callee.String()
				} else if c.IsInvoke() {
					cname = typeStr(c.Value.Type()) + "." + c.Method.Name()
				}
				args := c.Args
				for _, a := range args {
					pt, ok := a.Type().Underlying().(*types.Pointer)
					if !ok || isSyncType(pt.Elem()) {
						continue
					}
					switch a.(type) {
					case *ssa.FieldAddr, *ssa.Global, *ssa.Alloc, *ssa.FreeVar, *ssa.IndexAddr:
						// the address of one of our cells handed to outside code: may be read and written there
						if name, st := namedOf(pt.Elem()); st != nil && strings.Contains(name, ".") {
							// foreign struct (bytes.Buffer, …): one cell
							loc, sh := l.cell(a, 0)
							if sh && loc != "" {
								res = append(res, rawAccess{in, loc, true, false, "ext:" + cname})
							}
							continue
						}
						emit(in, a, pt.Elem(), true, false, "ext:"+cname)
					}
				}
			}
		}
	}
	return res
}

func shortCallee(s string) string {
	s = strings.ReplaceAll(s, "github.com/knz/shakespeare/pkg/", "")
	s = strings.ReplaceAll(s, "github.com/", "")
	return s
}

func uniqSorted(xs []string) []string {
	m := map[string]bool{}
	for _, x := range xs {
		m[x] = true
	}
	return sortedKeys(m)
}

func accessKey(a *Access) string {
	rel := make([]string, 0, len(a.Rel))
	for k, v := range a.Rel {
		rel = append(rel, k+"="+v)
	}
	sort.Strings(rel)
	return fmt.Sprintf("%s|%s|%s|%v|%v|%s|%v|%s", a.Root, a.Fn, a.Loc, a.Write, a.Atomic, strings.Join(a.Locks, ","), a.PreDone, strings.Join(rel, ","))
}
