package main

import (
	"strings"

	"golang.org/x/tools/go/ssa"
)

// lock sets: which mutexes are certainly held at an instruction.
// intraprocedural forward "must" analysis (Lock adds, explicit Unlock removes, a deferred Unlock keeps the lock
// until the function returns), and a function starts with the intersection of the sets at all its call sites.

type lockInfo struct {
	atInstr map[ssa.Instruction]map[string]bool
}

func (li *lockInfo) at(in ssa.Instruction) []string {
	return sortedKeys(li.atInstr[in])
}

func (w *world) lockOp(in ssa.Instruction) (name string, acquire bool, ok bool) {
	call, isCall := in.(*ssa.Call)
	if !isCall {
		return "", false, false
	}
	c := call.Common()
	f := c.StaticCallee()
	if f == nil || f.Signature.Recv() == nil || len(c.Args) == 0 {
		return "", false, false
	}
	rt := f.Signature.Recv().Type().String()
	if !(strings.Contains(rt, "sync.Mutex") || strings.Contains(rt, "sync.RWMutex") || strings.Contains(rt, "syncutil.Mutex") || strings.Contains(rt, "syncutil.RWMutex")) {
		return "", false, false
	}
	switch f.Name() {
	case "Lock", "RLock":
		acquire = true
	case "Unlock", "RUnlock":
		acquire = false
	default:
		return "", false, false
	}
	l := &locator{w: w, captured: map[*ssa.Alloc]string{}}
	switch a := c.Args[0].(type) {
	case *ssa.FieldAddr:
		// name the mutex by our struct and its first field on the way (embedded wrappers are skipped)
		fa := a
		for {
			inner, ok := fa.X.(*ssa.FieldAddr)
			if !ok {
				break
			}
			fa = inner
		}
		name = l.fieldLoc(fa)
	case *ssa.Global:
		name = "var " + a.Name()
	default:
		name = "mutex " + typeStr(c.Args[0].Type()) + "@" + safeFname(in.Parent())
	}
	return name, acquire, true
}

func copySet(m map[string]bool) map[string]bool {
	r := map[string]bool{}
	for k := range m {
		r[k] = true
	}
	return r
}

func interSet(a, b map[string]bool) map[string]bool {
	r := map[string]bool{}
	for k := range a {
		if b[k] {
			r[k] = true
		}
	}
	return r
}

func sameSet(a, b map[string]bool) bool {
	if len(a) != len(b) {
		return false
	}
	for k := range a {
		if !b[k] {
			return false
		}
	}
	return true
}

func (w *world) lockSets(edges map[*ssa.Function][]edge, roots []*Root) *lockInfo {
	li := &lockInfo{atInstr: map[ssa.Instruction]map[string]bool{}}
	entry := map[*ssa.Function]map[string]bool{} // absent = TOP (not yet known)
	hasCaller := map[*ssa.Function]bool{}
	for _, es := range edges {
		for _, e := range es {
			hasCaller[e.callee] = true
		}
	}
	for f := range w.funcs {
		if !hasCaller[f] {
			entry[f] = map[string]bool{}
		}
	}
	for _, r := range roots {
		if r.entry != nil {
			entry[r.entry] = map[string]bool{}
		}
		if r.wrapper != nil {
			entry[r.wrapper] = map[string]bool{}
		}
	}
	flow := func(f *ssa.Function, start map[string]bool) {
		in := map[*ssa.BasicBlock]map[string]bool{}
		if len(f.Blocks) == 0 {
			return
		}
		in[f.Blocks[0]] = copySet(start)
		work := []*ssa.BasicBlock{f.Blocks[0]}
		for len(work) > 0 {
			b := work[0]
			work = work[1:]
			cur := copySet(in[b])
			for _, ins := range b.Instrs {
				li.atInstr[ins] = copySet(cur)
				if name, acq, ok := w.lockOp(ins); ok {
					if acq {
						cur[name] = true
					} else {
						delete(cur, name)
					}
				}
			}
			for _, s := range b.Succs {
				old, known := in[s]
				var nw map[string]bool
				if !known {
					nw = copySet(cur)
				} else {
					nw = interSet(old, cur)
				}
				if !known || !sameSet(old, nw) {
					in[s] = nw
					work = append(work, s)
				}
			}
		}
	}
	for iter := 0; iter < 50; iter++ {
		changed := false
		for f := range w.funcs {
			st, known := entry[f]
			if !known {
				continue
			}
			flow(f, st)
			for _, e := range edges[f] {
				at := li.atInstr[e.site]
				if _, isDefer := e.site.(*ssa.Defer); isDefer {
					// runs at function exit: only what is held through a deferred unlock is unknown here; be conservative
					at = map[string]bool{}
				}
				old, k := entry[e.callee]
				var nw map[string]bool
				if !k {
					nw = copySet(at)
				} else {
					nw = interSet(old, at)
				}
				if !k || !sameSet(old, nw) {
					entry[e.callee] = nw
					changed = true
				}
			}
		}
		if !changed {
			break
		}
	}
	return li
}
