package main

import (
	"fmt"
	"go/token"
	"go/types"
	"sort"
	"strings"

	"golang.org/x/tools/go/ssa"
)

// Root is one goroutine root.
type Root struct {
	Name    string   `json:"name"`
	Kind    string   `json:"kind"` // main | go | worker | task
	Desc    string   `json:"desc"`
	Parents []string `json:"parents"`
	Multi   bool     `json:"multi"` // several instances per parent instance may be live at once
	SpawnFn string   `json:"spawnFn"`
	Pos     string   `json:"pos"`
	Entry   []string `json:"entry"`
	// how the parent learns that an instance has ended
	Join    string   `json:"join"`    // wg | chan | none
	JoinFn  string   `json:"joinFn"`  // function performing the join
	JoinPos []string `json:"joinPos"` // positions of the Wait()/receive
	Scoped  bool     `json:"scoped"`  // the join sits in the function that forks (directly or through one wrapper call): fork and join in one activation
	Once    bool     `json:"once"`    // the joining function runs at most once per parent instance (unique call chain from the parent's entry, no loop)
	Leaks   []string `json:"leaks"`   // exits of the joining function reachable from the fork without passing the join
	DonePos string   `json:"donePos"` // the end signal inside the root (wg.Done / first send or close on the join channel)
	Stopper bool     `json:"stopper"` // registered with the stopper (joined by stopper.IsStopped)
	// per parent root: the join of this root instances comes before the parent own end signal
	JoinBeforeDone map[string]bool `json:"joinBeforeDone"`
	spawn          ssa.Instruction
	entry          *ssa.Function
	wrapper        *ssa.Function // closure of runWorker/runAsyncTask that calls the entry and then runs a tail
	spawnFn        *ssa.Function
	reach          map[*ssa.Function]bool
	doneInst       ssa.Instruction
	doneFn         *ssa.Function
	joinFn         *ssa.Function
	joinInstrs     []ssa.Instruction
	joinDefer      *ssa.Defer
	forkInG        ssa.Instruction
	leakInstrs     []ssa.Instruction
	nodes          []node
}

// spawner describes a pkg/cmd function that starts its function-typed parameter on a new goroutine.
type spawner struct {
	fn      *ssa.Function
	param   int
	wrapper *ssa.Function
	kind    string
}

func (w *world) position(p token.Pos) string {
	if !p.IsValid() {
		return "?"
	}
	pp := w.prog.Fset.Position(p)
	f := pp.Filename
	if i := strings.LastIndex(f, "/"); i >= 0 {
		f = f[i+1:]
	}
	return fmt.Sprintf("%s:%d", f, pp.Line)
}

func safeFname(f *ssa.Function) string {
	defer func() { recover() }()
	if f == nil {
		return "?"
	}
	s := f.RelString(nil)
	s = strings.ReplaceAll(s, pkgPath+".", "")
	s = strings.ReplaceAll(s, "(*", "")
	s = strings.ReplaceAll(s, ")", "")
	s = strings.ReplaceAll(s, "(", "")
	return s
}

func topLevel(f *ssa.Function) *ssa.Function {
	for f.Parent() != nil {
		f = f.Parent()
	}
	return f
}

func isStopperSpawn(c *ssa.CallCommon) string {
	f := c.StaticCallee()
	if f == nil || f.Signature.Recv() == nil {
		return ""
	}
	if !strings.HasSuffix(f.Signature.Recv().Type().String(), "crdb/stop.Stopper") {
		return ""
	}
	switch f.Name() {
	case "RunWorker":
		return "worker"
	case "RunAsyncTask", "RunLimitedAsyncTask":
		return "task"
	}
	return ""
}

// funcOf resolves a function-typed value to the function it denotes (closure or named function).
func funcOf(v ssa.Value) *ssa.Function {
	switch x := v.(type) {
	case *ssa.MakeClosure:
		return x.Fn.(*ssa.Function)
	case *ssa.Function:
		return x
	case *ssa.ChangeType:
		return funcOf(x.X)
	}
	return nil
}

// findSpawners: pkg functions F(…, w func(..), …) that hand a closure calling w to stopper.Run*.
func (w *world) findSpawners() map[*ssa.Function]*spawner {
	res := map[*ssa.Function]*spawner{}
	for f := range w.funcs {
		if f.Parent() != nil {
			continue
		}
		for _, b := range f.Blocks {
			for _, in := range b.Instrs {
				call, ok := in.(ssa.CallInstruction)
				if !ok {
					continue
				}
				kind := isStopperSpawn(call.Common())
				if kind == "" {
					continue
				}
				for _, a := range call.Common().Args {
					mc, ok := a.(*ssa.MakeClosure)
					if !ok {
						continue
					}
					cl := mc.Fn.(*ssa.Function)
					// does cl call a free variable bound to a parameter of f?
					for _, cb := range cl.Blocks {
						for _, ci := range cb.Instrs {
							cc, ok := ci.(ssa.CallInstruction)
							if !ok || cc.Common().IsInvoke() {
								continue
							}
							val := cc.Common().Value
							if u, ok := val.(*ssa.UnOp); ok && u.Op == token.MUL {
								val = u.X
							}
							fv, ok := val.(*ssa.FreeVar)
							if !ok {
								continue
							}
							idx := -1
							for i, v := range cl.FreeVars {
								if v == fv {
									idx = i
								}
							}
							if idx < 0 {
								continue
							}
							bind := mc.Bindings[idx]
							if al, ok := bind.(*ssa.Alloc); ok {
								// the cell of a captured parameter
								if refs := al.Referrers(); refs != nil {
									for _, rf := range *refs {
										if st, ok := rf.(*ssa.Store); ok && st.Addr == al {
											if pp, ok := st.Val.(*ssa.Parameter); ok {
												bind = pp
											}
										}
									}
								}
							}
							if p, ok := bind.(*ssa.Parameter); ok {
								for pi, pp := range f.Params {
									if pp == p {
										res[f] = &spawner{fn: f, param: pi, wrapper: cl, kind: kind}
									}
								}
							}
						}
					}
				}
			}
		}
	}
	return res
}

func inLoop(in ssa.Instruction) bool {
	b := in.Block()
	// b is in a cycle iff b reachable from one of its successors
	seen := map[*ssa.BasicBlock]bool{}
	var st []*ssa.BasicBlock
	st = append(st, b.Succs...)
	for len(st) > 0 {
		x := st[len(st)-1]
		st = st[:len(st)-1]
		if x == b {
			return true
		}
		if seen[x] {
			continue
		}
		seen[x] = true
		st = append(st, x.Succs...)
	}
	return false
}

func (w *world) srcLine(p token.Pos) string {
	if !p.IsValid() {
		return ""
	}
	pp := w.prog.Fset.Position(p)
	return srcLineOf(pp.Filename, pp.Line)
}

// findRoots lists all goroutine roots of pkg/cmd.
func (w *world) findRoots(sp map[*ssa.Function]*spawner) []*Root {
	var roots []*Root
	type site struct {
		in   ssa.Instruction
		fn   *ssa.Function
		kind string
		ent  *ssa.Function
		wr   *ssa.Function
	}
	var sites []site
	for f := range w.funcs {
		if _, isSp := sp[f]; isSp {
			continue // the wrapper's own stopper call is represented by its callers
		}
		for _, b := range f.Blocks {
			for _, in := range b.Instrs {
				switch x := in.(type) {
				case *ssa.Go:
					ent := x.Call.StaticCallee()
					if ent == nil {
						ent = funcOf(x.Call.Value)
					}
					sites = append(sites, site{in, f, "go", ent, nil})
				case ssa.CallInstruction:
					c := x.Common()
					if s, ok := sp[c.StaticCallee()]; ok {
						sites = append(sites, site{in, f, s.kind, funcOf(c.Args[s.param]), s.wrapper})
					} else if k := isStopperSpawn(c); k != "" {
						var ent *ssa.Function
						for _, a := range c.Args {
							if g := funcOf(a); g != nil {
								ent = g
							}
						}
						sites = append(sites, site{in, f, k, ent, nil})
					}
				}
			}
		}
	}
	sort.Slice(sites, func(i, j int) bool { return sites[i].in.Pos() < sites[j].in.Pos() })
	ord := map[string]int{}
	for _, s := range sites {
		top := safeFname(topLevel(s.fn))
		ord[top]++
		r := &Root{
			Name: fmt.Sprintf("%s#%d", top, ord[top]), Kind: s.kind, SpawnFn: safeFname(s.fn), Pos: w.position(s.in.Pos()),
			Desc: strings.TrimSpace(w.srcLine(s.in.Pos())), spawn: s.in, entry: s.ent, wrapper: s.wr, spawnFn: s.fn,
			Stopper: s.kind != "go", Join: "none",
		}
		if s.ent == nil {
			w.note("spawn at %s: entry function not resolved", r.Pos)
		} else {
			r.Entry = append(r.Entry, safeFname(s.ent))
		}
		if s.wr != nil {
			r.Entry = append(r.Entry, safeFname(s.wr))
		}
		roots = append(roots, r)
	}
	return roots
}

func isFuncType(t types.Type) bool {
	_, ok := t.Underlying().(*types.Signature)
	return ok
}
