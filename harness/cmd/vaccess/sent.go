package main

import (
	"go/token"
	"go/types"
	"sort"

	"golang.org/x/tools/go/ssa"
)

// Channel hand-over (assumption A3 of the model, made a checked fact for what the translator can follow):
// an object whose pointer has been sent on a channel belongs to the receiver.
//
//   - summary per function: "parameter k is sent on a channel" (directly, in a `ch <- v` or a select send case,
//     or passed on to a function whose summary says so) and "fields of the object behind parameter k are written"
//     (directly or by a callee);
//   - fact `sentThenWritten`: a store to a field of (or to an element reached through) a pointer value, or a call
//     that hands it to a function writing its fields, at an instruction that can be reached from the point where
//     the same value was sent / handed to a sending function, in the same function.  Paths that run again
//     through the instruction defining the value do not count (the value then denotes a new object).
//
// Not followed: pointers kept in struct fields, maps or slices and taken out again, objects handed to other
// packages.

// SentWrite is one `sentThenWritten` fact.
type SentWrite struct {
	Fn      string `json:"fn"`
	Loc     string `json:"loc"`
	Pos     string `json:"pos"`
	SentPos string `json:"sentPos"`
	How     string `json:"how"` // store | call <callee>
	SentHow string `json:"sentHow"`
}

type sentAnalysis struct {
	w      *world
	l      *locator
	edges  map[*ssa.Function][]edge
	sends  map[*ssa.Function]map[int]bool
	writes map[*ssa.Function]map[int]bool
	bySite map[ssa.Instruction][]*ssa.Function
}

// valueRoots: the values a pointer / interface value may stand for (through conversions and phis).
func valueRoots(v ssa.Value, seen map[ssa.Value]bool, out map[ssa.Value]bool) {
	if v == nil || seen[v] {
		return
	}
	seen[v] = true
	switch x := v.(type) {
	case *ssa.MakeInterface:
		valueRoots(x.X, seen, out)
	case *ssa.ChangeInterface:
		valueRoots(x.X, seen, out)
	case *ssa.ChangeType:
		valueRoots(x.X, seen, out)
	case *ssa.TypeAssert:
		valueRoots(x.X, seen, out)
	case *ssa.Extract:
		if ta, ok := x.Tuple.(*ssa.TypeAssert); ok {
			valueRoots(ta.X, seen, out)
		} else {
			out[v] = true
		}
	case *ssa.Phi:
		for _, e := range x.Edges {
			valueRoots(e, seen, out)
		}
	case *ssa.Const:
	default:
		out[v] = true
	}
}

func rootsOf(v ssa.Value) map[ssa.Value]bool {
	out := map[ssa.Value]bool{}
	valueRoots(v, map[ssa.Value]bool{}, out)
	return out
}

// ptrBase: the pointer value through which an address is reached (p in p.f, p.f[i], (*p.f).g …).
func ptrBase(addr ssa.Value) ssa.Value {
	for depth := 0; depth < 12; depth++ {
		switch x := addr.(type) {
		case *ssa.FieldAddr:
			addr = x.X
		case *ssa.IndexAddr:
			addr = x.X
		case *ssa.Slice:
			addr = x.X
		case *ssa.UnOp:
			if x.Op != token.MUL {
				return addr
			}
			// a slice / map / pointer loaded from a field: what is reached through it still belongs to the object
			if _, ok := x.X.(*ssa.FieldAddr); ok {
				addr = x.X
			} else {
				return addr
			}
		default:
			return addr
		}
	}
	return addr
}

func isMessagePtr(v ssa.Value) bool {
	t := v.Type()
	if p, ok := t.Underlying().(*types.Pointer); ok {
		if isSyncType(p.Elem()) {
			return false
		}
		_, st := namedOf(p.Elem())
		return st != nil
	}
	_, isIface := t.Underlying().(*types.Interface)
	return isIface
}

func paramIndex(f *ssa.Function, v ssa.Value) int {
	for i, p := range f.Params {
		if ssa.Value(p) == v {
			return i
		}
	}
	return -1
}

// argFor: the argument of call site c that becomes parameter k of callee g.
func calleeParamArgs(c *ssa.CallCommon, g *ssa.Function) []ssa.Value {
	var args []ssa.Value
	if c.IsInvoke() {
		args = append(args, c.Value)
	}
	args = append(args, c.Args...)
	if len(args) > len(g.Params) {
		args = args[:len(g.Params)]
	}
	return args
}

func (sa *sentAnalysis) calleesAt(in ssa.Instruction) []*ssa.Function {
	return sa.bySite[in]
}

// publishes: values sent (or handed to a sending function) by instruction `in`.
func (sa *sentAnalysis) publishes(in ssa.Instruction) (vals []ssa.Value, how string) {
	switch x := in.(type) {
	case *ssa.Send:
		return []ssa.Value{x.X}, "send"
	case *ssa.Select:
		for _, st := range x.States {
			if st.Dir == types.SendOnly && st.Send != nil {
				vals = append(vals, st.Send)
			}
		}
		return vals, "select send"
	case ssa.CallInstruction:
		c := x.Common()
		for _, g := range sa.calleesAt(in) {
			args := calleeParamArgs(c, g)
			for k := range sa.sends[g] {
				if k < len(args) {
					vals = append(vals, args[k])
					how = "passed to " + safeFname(g)
				}
			}
		}
	}
	return vals, how
}

// fieldWrites: pointer values whose object is written by instruction `in` (a store, or a call of a writing function).
func (sa *sentAnalysis) fieldWrites(in ssa.Instruction) (bases []ssa.Value, locs []string, how string) {
	switch x := in.(type) {
	case *ssa.Store:
		switch x.Addr.(type) {
		case *ssa.FieldAddr, *ssa.IndexAddr:
			b := ptrBase(x.Addr)
			if loc, sh := sa.l.cell(x.Addr, 0); sh && loc != "" {
				var ls []string
				sa.l.expand(loc, x.Val.Type(), &ls, 0)
				return []ssa.Value{b}, ls, "store"
			}
		}
	case *ssa.MapUpdate:
		if u, ok := x.Map.(*ssa.UnOp); ok && u.Op == token.MUL {
			if _, ok := u.X.(*ssa.FieldAddr); ok {
				if loc := sa.l.elems(x.Map, 0); loc != "" {
					return []ssa.Value{ptrBase(u.X)}, []string{loc}, "store"
				}
			}
		}
	case ssa.CallInstruction:
		c := x.Common()
		for _, g := range sa.calleesAt(in) {
			args := calleeParamArgs(c, g)
			for k := range sa.writes[g] {
				if k < len(args) {
					bases = append(bases, args[k])
					how = "call " + safeFname(g)
				}
			}
		}
		if len(bases) > 0 {
			var ls []string
			for _, bv := range bases {
				for r := range rootsOf(bv) {
					if p, ok := r.Type().Underlying().(*types.Pointer); ok {
						if name, st := namedOf(p.Elem()); st != nil && name != "" {
							sa.l.expand(name, p.Elem(), &ls, 0)
						}
					}
				}
			}
			return bases, uniqSorted(ls), how
		}
	}
	return nil, nil, ""
}

func (w *world) sentThenWritten(edges map[*ssa.Function][]edge, l *locator) ([]SentWrite, map[string][]string) {
	sa := &sentAnalysis{w: w, l: l, edges: edges, sends: map[*ssa.Function]map[int]bool{}, writes: map[*ssa.Function]map[int]bool{},
		bySite: map[ssa.Instruction][]*ssa.Function{}}
	for _, es := range edges {
		for _, e := range es {
			sa.bySite[e.site] = append(sa.bySite[e.site], e.callee)
		}
	}
	var fs []*ssa.Function
	for f := range w.funcs {
		fs = append(fs, f)
		sa.sends[f] = map[int]bool{}
		sa.writes[f] = map[int]bool{}
	}
	sort.Slice(fs, func(i, j int) bool { return safeFname(fs[i]) < safeFname(fs[j]) })
	// summaries
	for iter := 0; iter < 50; iter++ {
		changed := false
		for _, f := range fs {
			for _, b := range f.Blocks {
				for _, in := range b.Instrs {
					vals, _ := sa.publishes(in)
					for _, v := range vals {
						for r := range rootsOf(v) {
							if k := paramIndex(f, r); k >= 0 && !sa.sends[f][k] {
								sa.sends[f][k] = true
								changed = true
							}
						}
					}
					bases, _, _ := sa.fieldWrites(in)
					for _, v := range bases {
						for r := range rootsOf(v) {
							if k := paramIndex(f, r); k >= 0 && !sa.writes[f][k] {
								sa.writes[f][k] = true
								changed = true
							}
						}
					}
				}
			}
		}
		if !changed {
			break
		}
	}
	// facts
	var res []SentWrite
	seen := map[string]bool{}
	for _, f := range fs {
		type pub struct {
			in   ssa.Instruction
			base ssa.Value
			how  string
		}
		var pubs []pub
		for _, b := range f.Blocks {
			for _, in := range b.Instrs {
				vals, how := sa.publishes(in)
				for _, v := range vals {
					if !isMessagePtr(v) {
						continue
					}
					for r := range rootsOf(v) {
						if _, isPtr := r.Type().Underlying().(*types.Pointer); isPtr {
							pubs = append(pubs, pub{in, r, how})
						}
					}
				}
			}
		}
		if len(pubs) == 0 {
			continue
		}
		after := map[int]map[ssa.Instruction]bool{}
		for i, p := range pubs {
			stop := map[ssa.Instruction]bool{}
			if def, ok := p.base.(ssa.Instruction); ok {
				if _, isPhi := p.base.(*ssa.Phi); !isPhi {
					stop[def] = true
				}
			}
			after[i] = instrsAfter(p.in, stop)
		}
		for _, b := range f.Blocks {
			for _, in := range b.Instrs {
				bases, locs, how := sa.fieldWrites(in)
				if len(bases) == 0 {
					continue
				}
				for _, bv := range bases {
					rs := rootsOf(bv)
					for i, p := range pubs {
						if !rs[p.base] || !after[i][in] || in == p.in {
							continue
						}
						for _, loc := range locs {
							sw := SentWrite{Fn: safeFname(f), Loc: loc, Pos: w.position(in.Pos()), SentPos: w.position(p.in.Pos()), How: how, SentHow: p.how}
							k := sw.Fn + "|" + sw.Loc + "|" + sw.Pos + "|" + sw.SentPos
							if !seen[k] {
								seen[k] = true
								res = append(res, sw)
							}
						}
					}
				}
			}
		}
	}
	summary := map[string][]string{}
	for _, f := range fs {
		for k := range sa.sends[f] {
			summary[safeFname(f)] = append(summary[safeFname(f)], f.Params[k].Name())
		}
		sort.Strings(summary[safeFname(f)])
	}
	sort.Slice(res, func(i, j int) bool {
		if res[i].Loc != res[j].Loc {
			return res[i].Loc < res[j].Loc
		}
		return res[i].Pos < res[j].Pos
	})
	return res, summary
}
