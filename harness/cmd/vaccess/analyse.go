package main

import (
	"sort"
	"strings"

	"golang.org/x/tools/go/ssa"
)

func analyse(w *world) *Analysis {
	sp := w.findSpawners()
	roots := w.findRoots(sp)
	// the main root
	var runFn *ssa.Function
	if f := w.pkg.Func("Run"); f != nil {
		runFn = f
	}
	mainRoot := &Root{Name: "main", Kind: "main", Desc: "func Run()", Entry: []string{"Run", "init"}, Join: "none", Once: true}
	mainRoot.entry = runFn
	edges := w.buildEdges(sp, roots)
	w.joins(roots, edges)
	isSpawn := map[ssa.Instruction]bool{}
	tmpl := map[ssa.Instruction]*Root{}
	for _, r := range roots {
		isSpawn[r.spawn] = true
		tmpl[r.spawn] = r
	}
	// instances of the root templates, one per calling context of a higher-order function
	all := []*Root{mainRoot}
	byName := map[string]*Root{"main": mainRoot}
	ents := []node{{mainRoot.entry, nil}}
	for name, m := range w.pkg.Members {
		if f, ok := m.(*ssa.Function); ok && (name == "init" || strings.HasPrefix(name, "init#")) {
			ents = append(ents, node{f, nil})
		}
	}
	entriesOf := map[*Root][]node{mainRoot: ents}
	for i := 0; i < len(all); i++ {
		r := all[i]
		var hits []spawnHit
		r.reach, r.nodes, hits = w.explore(entriesOf[r], edges, isSpawn)
		for _, h := range hits {
			t := tmpl[h.site]
			var cctx *ctxT
			if h.ctx != nil && t.entry != nil && lexicallyIn(t.entry, h.ctx.fn) {
				cctx = h.ctx
			}
			name := t.Name
			if cctx != nil {
				name += "[" + cctx.key + "]"
			}
			c := byName[name]
			if c == nil {
				cp := *t
				c = &cp
				c.Name = name
				c.Parents = nil
				byName[name] = c
				all = append(all, c)
				entriesOf[c] = []node{{t.entry, cctx}, {t.wrapper, nil}}
			}
			dup := false
			for _, p := range c.Parents {
				dup = dup || p == r.Name
			}
			if !dup {
				c.Parents = append(c.Parents, r.Name)
			}
		}
	}
	for _, t := range roots {
		found := false
		for _, r := range all {
			found = found || r.spawn == t.spawn
		}
		if !found {
			w.note("root %s (%s) is spawned from code no root reaches", t.Name, t.Pos)
		}
	}
	w.multi(all)
	l := &locator{w: w, escCache: map[ssa.Value][]ssa.Instruction{}, escReach: map[ssa.Value]map[ssa.Instruction]bool{}}
	l.findCaptured()
	l.findFieldPts()
	raw := map[*ssa.Function][]rawAccess{}
	for f := range w.funcs {
		raw[f] = l.accessesOf(f)
	}
	locks := w.lockSets(edges, all)
	an := &Analysis{Roots: all, Funcs: len(w.funcs)}
	seen := map[string]bool{}
	for _, r := range all {
		rel := w.relations(r, all, edges)
		pre, preSite := w.preDone(r, edges)
		// is each child joined before this root's own end signal?
		for _, c := range all {
			for _, pn := range c.Parents {
				if pn != r.Name {
					continue
				}
				ok := c.Join != "none" && (len(c.joinInstrs) > 0 || c.joinDefer != nil)
				for _, j := range c.joinInstrs {
					ok = ok && pre(j)
				}
				if c.joinDefer != nil {
					ok = ok && preSite(c.joinDefer)
				}
				if c.JoinBeforeDone == nil {
					c.JoinBeforeDone = map[string]bool{}
				}
				c.JoinBeforeDone[r.Name] = ok
			}
		}
		var fs []*ssa.Function
		for f := range r.reach {
			fs = append(fs, f)
		}
		sort.Slice(fs, func(i, j int) bool { return safeFname(fs[i]) < safeFname(fs[j]) })
		for _, f := range fs {
			for _, ra := range raw[f] {
				a := &Access{Root: r.Name, Fn: safeFname(f), Pos: w.position(ra.in.Pos()), Loc: ra.loc, Write: ra.write,
					Atomic: ra.atomic, Via: shortCallee(ra.via), in: ra.in, fn: f, Rel: map[string]string{}}
				a.Locks = locks.at(ra.in)
				a.PreDone = pre(ra.in)
				for child, cls := range rel {
					if c := cls(ra.in); c != "sep" {
						a.Rel[child] = c
					}
				}
				k := accessKey(a)
				if seen[k] {
					continue
				}
				seen[k] = true
				an.Accesses = append(an.Accesses, a)
			}
		}
	}
	sort.SliceStable(an.Accesses, func(i, j int) bool {
		a, b := an.Accesses[i], an.Accesses[j]
		if a.Loc != b.Loc {
			return a.Loc < b.Loc
		}
		if a.Root != b.Root {
			return a.Root < b.Root
		}
		return a.Fn < b.Fn
	})
	for _, r := range all {
		r.Once = r.Once && !r.Multi && len(r.Parents) == 1
	}
	an.SentThenWritten, an.SendSummary = w.sentThenWritten(edges, l)
	an.Notes = w.notes
	return an
}
