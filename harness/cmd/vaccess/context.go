package main

import (
	"go/token"
	"sort"
	"strings"

	"golang.org/x/tools/go/ssa"
)

// One level of context sensitivity for higher-order functions: a top-level function that takes function-typed
// parameters is analysed once per tuple of concrete functions it is called with (the closures nested in it share
// that context), so that e.g. the reader goroutines of runActorCommandWithConsumer are told apart by consumer.

type ctxT struct {
	fn   *ssa.Function
	bind map[*ssa.Parameter]node
	key  string
}

type node struct {
	fn  *ssa.Function
	ctx *ctxT
}

func (c *ctxT) String() string {
	if c == nil {
		return ""
	}
	return c.key
}

func mkCtx(g *ssa.Function, bind map[*ssa.Parameter]node) *ctxT {
	var parts []string
	for _, n := range bind {
		s := safeFname(n.fn)
		if n.ctx != nil {
			s += "@" + n.ctx.key
		}
		if i := strings.LastIndex(s, "."); i >= 0 {
			s = s[i+1:]
		}
		parts = append(parts, s)
	}
	sort.Strings(parts)
	return &ctxT{fn: g, bind: bind, key: strings.Join(parts, ",")}
}

// paramOf: the parameter a function value comes from (directly, or through the cell a captured parameter lives in).
func paramOf(v ssa.Value) *ssa.Parameter {
	l := &locator{}
	for depth := 0; depth < 6; depth++ {
		switch x := v.(type) {
		case *ssa.Parameter:
			return x
		case *ssa.UnOp:
			if x.Op != token.MUL {
				return nil
			}
			v = x.X
		case *ssa.FreeVar:
			a := l.freeVarAlloc(x)
			if a == nil {
				return nil
			}
			v = a
		case *ssa.Alloc:
			var stores []ssa.Value
			if refs := x.Referrers(); refs != nil {
				for _, r := range *refs {
					if st, ok := r.(*ssa.Store); ok && st.Addr == x {
						stores = append(stores, st.Val)
					}
				}
			}
			if len(stores) != 1 {
				return nil
			}
			v = stores[0]
		default:
			return nil
		}
	}
	return nil
}

func lexicallyIn(f, g *ssa.Function) bool {
	for p := f; p != nil; p = p.Parent() {
		if p == g {
			return true
		}
	}
	return false
}

// explore walks the code of one root instance and returns the nodes it reaches and the spawn sites it passes.
type spawnHit struct {
	site ssa.Instruction
	ctx  *ctxT
}

func (w *world) explore(entries []node, edges map[*ssa.Function][]edge, isSpawn map[ssa.Instruction]bool) (map[*ssa.Function]bool, []node, []spawnHit) {
	seen := map[string]bool{}
	reach := map[*ssa.Function]bool{}
	var nodes []node
	var hits []spawnHit
	st := append([]node{}, entries...)
	for len(st) > 0 {
		n := st[len(st)-1]
		st = st[:len(st)-1]
		if n.fn == nil {
			continue
		}
		k := safeFname(n.fn) + "|" + n.ctx.String()
		if seen[k] {
			continue
		}
		seen[k] = true
		reach[n.fn] = true
		nodes = append(nodes, n)
		for _, b := range n.fn.Blocks {
			for _, in := range b.Instrs {
				if isSpawn[in] {
					hits = append(hits, spawnHit{in, n.ctx})
				}
			}
		}
		for _, e := range edges[n.fn] {
			call, isCall := e.site.(ssa.CallInstruction)
			// dynamic call through a bound parameter?
			if isCall && !call.Common().IsInvoke() && call.Common().StaticCallee() == nil && n.ctx != nil {
				if p := paramOf(call.Common().Value); p != nil {
					if tgt, ok := n.ctx.bind[p]; ok {
						if e.callee == tgt.fn {
							st = append(st, tgt)
						}
						continue
					}
				}
			}
			g := e.callee
			var cctx *ctxT
			switch {
			case n.ctx != nil && lexicallyIn(g, n.ctx.fn):
				cctx = n.ctx
			case g.Parent() == nil && isCall && call.Common().StaticCallee() == g:
				bind := map[*ssa.Parameter]node{}
				args := call.Common().Args
				for i, p := range g.Params {
					if !isFuncType(p.Type()) || i >= len(args) {
						continue
					}
					if fn := funcOf(args[i]); fn != nil {
						var fc *ctxT
						if n.ctx != nil && lexicallyIn(fn, n.ctx.fn) {
							fc = n.ctx
						}
						bind[p] = node{fn, fc}
					} else if q := paramOf(args[i]); q != nil && n.ctx != nil {
						if tgt, ok := n.ctx.bind[q]; ok {
							bind[p] = tgt
						}
					}
				}
				if len(bind) > 0 {
					cctx = mkCtx(g, bind)
				}
			}
			st = append(st, node{g, cctx})
		}
	}
	return reach, nodes, hits
}
