package main

import (
	"fmt"
	"sort"
	"strconv"
	"strings"
)

// Encoded is the id-encoded form shared by the Lean file and the JSON evidence.
type Encoded struct {
	RootNames []string `json:"rootNames"`
	LocNames  []string `json:"locNames"`
	LockNames []string `json:"lockNames"`
	Rows      int      `json:"rows"`
	AllLocs   int      `json:"allLocations"`
	AllAcc    int      `json:"allAccesses"`
}

func leanStr(s string) string { return strconv.Quote(s) }

func natList(xs []int) string {
	ss := make([]string, len(xs))
	for i, x := range xs {
		ss[i] = strconv.Itoa(x)
	}
	return "[" + strings.Join(ss, ", ") + "]"
}

func strList(xs []string) string {
	ss := make([]string, len(xs))
	for i, x := range xs {
		ss[i] = leanStr(x)
	}
	return "[" + strings.Join(ss, ", ") + "]"
}

func b(x bool) string {
	if x {
		return "true"
	}
	return "false"
}

// renderLean writes the facts as Lean definitions.  Only locations that some access writes are listed
// (a location nobody writes cannot be raced on); rows that differ only in function / position are merged.
func renderLean(a *Analysis) (string, *Encoded) {
	rootID := map[string]int{}
	enc := &Encoded{}
	for i, r := range a.Roots {
		rootID[r.Name] = i
		enc.RootNames = append(enc.RootNames, r.Name)
	}
	written := map[string]bool{}
	allLocs := map[string]bool{}
	for _, x := range a.Accesses {
		allLocs[x.Loc] = true
		if x.Write {
			written[x.Loc] = true
		}
	}
	for _, sw := range a.SentThenWritten {
		written[sw.Loc] = true
		allLocs[sw.Loc] = true
	}
	enc.LocNames = sortedKeys(written)
	enc.AllLocs = len(allLocs)
	enc.AllAcc = len(a.Accesses)
	locID := map[string]int{}
	for i, l := range enc.LocNames {
		locID[l] = i
	}
	lockSet := map[string]bool{}
	for _, x := range a.Accesses {
		if written[x.Loc] {
			for _, l := range x.Locks {
				lockSet[l] = true
			}
		}
	}
	enc.LockNames = sortedKeys(lockSet)
	lockID := map[string]int{}
	for i, l := range enc.LockNames {
		lockID[l] = i
	}
	var sb strings.Builder
	sb.WriteString("import ShkModel.Model.Race\n")
	sb.WriteString("/-! GENERATED on every run by harness/cmd/vaccess from the SSA form of pkg/cmd in the working tree\n")
	sb.WriteString("(goroutine roots and accesses to shared memory; facts only).  Do not edit. -/\n")
	sb.WriteString("namespace Shk.Gen\nopen Shk.Race\n\n")
	sb.WriteString("def rootNames : List String := " + strList(enc.RootNames) + "\n\n")
	sb.WriteString("def locNames : List String := [\n")
	for i, l := range enc.LocNames {
		sep := ","
		if i == len(enc.LocNames)-1 {
			sep = ""
		}
		fmt.Fprintf(&sb, "  %s%s\n", leanStr(l), sep)
	}
	sb.WriteString("]\n\n")
	sb.WriteString("def lockNames : List String := " + strList(enc.LockNames) + "\n\n")
	sb.WriteString("/-- parents, multi, once, joined, joinBeforeDone, leaks -/\ndef roots : List Root := [\n")
	for i, r := range a.Roots {
		var ps, jb []int
		for _, p := range r.Parents {
			ps = append(ps, rootID[p])
		}
		for p, ok := range r.JoinBeforeDone {
			if ok {
				jb = append(jb, rootID[p])
			}
		}
		sort.Ints(ps)
		sort.Ints(jb)
		sep := ","
		if i == len(a.Roots)-1 {
			sep = ""
		}
		fmt.Fprintf(&sb, "  ⟨%s, %s, %s, %s, %s, %s⟩%s  -- %d %s (%s %s) %s\n", natList(ps), b(r.Multi), b(r.Once), b(r.Join != "none"),
			natList(jb), strList(r.Leaks), sep, i, r.Name, r.Kind, r.Pos, strings.ReplaceAll(r.Desc, "\n", " "))
	}
	sb.WriteString("]\n\n")
	// named constants, so that the hand-written policy can name roots, locations and locks without strings
	// (kernel evaluation of string operations is slow); locations nobody writes get numbers past the table
	ident := func(s string) string {
		return "«" + strings.ReplaceAll(strings.ReplaceAll(s, "«", "<"), "»", ">") + "»"
	}
	sb.WriteString("namespace R\n")
	for i, r := range a.Roots {
		fmt.Fprintf(&sb, "def %s : Nat := %d\n", ident(r.Name), i)
	}
	sb.WriteString("end R\n\nnamespace M\n")
	for i, l := range enc.LockNames {
		fmt.Fprintf(&sb, "def %s : Nat := %d\n", ident(l), i)
	}
	sb.WriteString("end M\n\nnamespace L\n")
	for i, l := range enc.LocNames {
		fmt.Fprintf(&sb, "def %s : Nat := %d\n", ident(l), i)
	}
	extra := len(enc.LocNames)
	for _, l := range sortedKeys(allLocs) {
		if !written[l] {
			fmt.Fprintf(&sb, "def %s : Nat := %d\n", ident(l), extra)
			extra++
		}
	}
	sb.WriteString("end L\n\n")
	sb.WriteString("private def A (r l : Nat) (w a : Bool) (ls : List Nat) (p : Bool) (rel : List (Nat × Rel)) : Access :=\n  ⟨r, l, w, a, ls, p, rel⟩\n\n")
	// rows, grouped by location
	groups := make([][]string, len(enc.LocNames))
	seen := map[string]bool{}
	for _, x := range a.Accesses {
		if !written[x.Loc] {
			continue
		}
		var ls []int
		for _, l := range x.Locks {
			ls = append(ls, lockID[l])
		}
		var rel []string
		var ks []string
		for k := range x.Rel {
			ks = append(ks, k)
		}
		sort.Slice(ks, func(i, j int) bool { return rootID[ks[i]] < rootID[ks[j]] })
		for _, k := range ks {
			rel = append(rel, fmt.Sprintf("(%d, .%s)", rootID[k], x.Rel[k]))
		}
		t := fmt.Sprintf("A %d %d %s %s %s %s [%s]", rootID[x.Root], locID[x.Loc], b(x.Write), b(x.Atomic), natList(ls), b(x.PreDone), strings.Join(rel, ", "))
		if seen[t] {
			continue
		}
		seen[t] = true
		enc.Rows++
		groups[locID[x.Loc]] = append(groups[locID[x.Loc]], fmt.Sprintf("%s  -- %s %s %s", t, x.Fn, x.Pos, x.Via))
	}
	var names []string
	for i, g := range groups {
		name := fmt.Sprintf("g%d", i)
		names = append(names, name)
		fmt.Fprintf(&sb, "/-- %s -/\ndef %s : List Access := [\n", enc.LocNames[i], name)
		for j, t := range g {
			parts := strings.SplitN(t, "  -- ", 2)
			sep := ","
			if j == len(g)-1 {
				sep = ""
			}
			fmt.Fprintf(&sb, "  %s%s  -- %s\n", parts[0], sep, parts[1])
		}
		sb.WriteString("]\n\n")
	}
	sb.WriteString("def groups : List (List Access) := [")
	for i, n := range names {
		if i%16 == 0 {
			sb.WriteString("\n  ")
		}
		sb.WriteString(n)
		if i != len(names)-1 {
			sb.WriteString(", ")
		}
	}
	sb.WriteString("]\n\n")
	sb.WriteString("/-- locations written, in some function, after a pointer to the object was sent on a channel there -/\ndef sentThenWritten : List Nat := [")
	stw := map[int]bool{}
	var stwIDs []int
	for _, sw := range a.SentThenWritten {
		if !stw[locID[sw.Loc]] {
			stw[locID[sw.Loc]] = true
			stwIDs = append(stwIDs, locID[sw.Loc])
		}
	}
	sort.Ints(stwIDs)
	for i, id := range stwIDs {
		if i > 0 {
			sb.WriteString(", ")
		}
		sb.WriteString(strconv.Itoa(id))
	}
	sb.WriteString("]\n")
	for _, sw := range a.SentThenWritten {
		fmt.Fprintf(&sb, "-- %s: %s %s (%s) after %s at %s\n", sw.Loc, sw.Fn, sw.Pos, sw.How, sw.SentHow, sw.SentPos)
	}
	sb.WriteString("\ndef table : Table := ⟨roots, groups, sentThenWritten⟩\n\nend Shk.Gen\n")
	return sb.String(), enc
}
