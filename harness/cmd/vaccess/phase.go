package main

import (
	"go/token"
	"strings"

	"golang.org/x/tools/go/ssa"
)

// ---------------------------------------------------------------------------
// identity of the sync object (WaitGroup / channel variable) used for a join

type objRef struct {
	alloc *ssa.Alloc      // the variable cell
	field string          // or a struct field holding the object
	via   ssa.Instruction // call in alloc.Parent() through which the object reached the spawning function (nil: spawned there)
}

func (w *world) callersOf(g *ssa.Function, edges map[*ssa.Function][]edge) []edge {
	var res []edge
	for f, es := range edges {
		for _, e := range es {
			if e.callee == g {
				res = append(res, edge{e.site, f})
			}
		}
	}
	return res
}

// resolveObj follows v (the receiver of Done/Wait, or a channel value) to the variable that holds the object.
func (w *world) resolveObj(v ssa.Value, edges map[*ssa.Function][]edge, depth int) *objRef {
	if depth > 10 {
		return nil
	}
	l := &locator{w: w, captured: map[*ssa.Alloc]string{}}
	switch x := v.(type) {
	case *ssa.Alloc:
		// a cell that only holds a parameter: follow the parameter to the caller
		var stores []ssa.Value
		if refs := x.Referrers(); refs != nil {
			for _, r := range *refs {
				if st, ok := r.(*ssa.Store); ok && st.Addr == x {
					stores = append(stores, st.Val)
				}
			}
		}
		if len(stores) == 1 {
			if p, ok := stores[0].(*ssa.Parameter); ok {
				return w.resolveObj(p, edges, depth+1)
			}
		}
		return &objRef{alloc: x}
	case *ssa.FreeVar:
		a := l.freeVarAlloc(x)
		if a == nil {
			return nil
		}
		return w.resolveObj(a, edges, depth+1)
	case *ssa.UnOp:
		if x.Op == token.MUL {
			r := w.resolveObj(x.X, edges, depth+1)
			return r
		}
	case *ssa.FieldAddr:
		return &objRef{field: l.fieldLoc(x)}
	case *ssa.Parameter:
		g := x.Parent()
		idx := -1
		for i, p := range g.Params {
			if p == x {
				idx = i
			}
		}
		cs := w.callersOf(g, edges)
		if idx < 0 || len(cs) != 1 {
			return nil
		}
		call, ok := cs[0].site.(ssa.CallInstruction)
		if !ok || idx >= len(call.Common().Args) {
			return nil
		}
		r := w.resolveObj(call.Common().Args[idx], edges, depth+1)
		if r != nil && r.via == nil {
			r.via = cs[0].site
		}
		return r
	}
	return nil
}

func sameObj(a, b *objRef) bool {
	if a == nil || b == nil {
		return false
	}
	if a.alloc != nil || b.alloc != nil {
		return a.alloc == b.alloc
	}
	return a.field != "" && a.field == b.field
}

func isWG(c *ssa.CallCommon, name string) bool {
	f := c.StaticCallee()
	return f != nil && f.Name() == name && f.Signature.Recv() != nil && strings.HasSuffix(f.Signature.Recv().Type().String(), "sync.WaitGroup")
}

// deferredClosures of f: Defer instructions whose callee is a closure made in f.
func deferredClosures(f *ssa.Function) map[*ssa.Function]*ssa.Defer {
	res := map[*ssa.Function]*ssa.Defer{}
	for _, b := range f.Blocks {
		for _, in := range b.Instrs {
			if d, ok := in.(*ssa.Defer); ok {
				if g := funcOf(d.Call.Value); g != nil && g.Parent() == f {
					res[g] = d
				}
			}
		}
	}
	return res
}

// joins fills Join/JoinFn/JoinPos/Scoped/Leaks/DonePos of every root.
func (w *world) joins(roots []*Root, edges map[*ssa.Function][]edge) {
	for _, r := range roots {
		if r.entry == nil || r.Kind == "main" {
			continue
		}
		f := r.entry
		// candidate end signals: in the entry function or in a closure it defers
		type cand struct {
			in   ssa.Instruction
			fn   *ssa.Function
			obj  *objRef
			kind string
		}
		var cands []cand
		scan := func(g *ssa.Function) {
			for _, b := range g.Blocks {
				for _, in := range b.Instrs {
					switch x := in.(type) {
					case ssa.CallInstruction:
						c := x.Common()
						if isWG(c, "Done") {
							cands = append(cands, cand{in, g, w.resolveObj(c.Args[0], edges, 0), "wg"})
						} else if bi, ok := c.Value.(*ssa.Builtin); ok && bi.Name() == "close" {
							cands = append(cands, cand{in, g, w.resolveObj(c.Args[0], edges, 0), "chan"})
						}
					case *ssa.Send:
						cands = append(cands, cand{in, g, w.resolveObj(x.Chan, edges, 0), "chan"})
					}
				}
			}
		}
		scan(f)
		for g := range deferredClosures(f) {
			scan(g)
		}
		// look for the matching join in the function owning the object
		best := -1
		var bestJ []ssa.Instruction
		var bestDefer *ssa.Defer
		for i, c := range cands {
			if c.obj == nil || c.obj.alloc == nil {
				continue
			}
			G := c.obj.alloc.Parent()
			var js []ssa.Instruction
			var jd *ssa.Defer
			look := func(g *ssa.Function, d *ssa.Defer) {
				for _, b := range g.Blocks {
					for _, in := range b.Instrs {
						switch x := in.(type) {
						case ssa.CallInstruction:
							if c.kind == "wg" && isWG(x.Common(), "Wait") && sameObj(w.resolveObj(x.Common().Args[0], edges, 0), c.obj) {
								if d != nil {
									jd = d
								} else {
									js = append(js, in)
								}
							}
						case *ssa.UnOp:
							if c.kind == "chan" && x.Op == token.ARROW && d == nil && sameObj(w.resolveObj(x.X, edges, 0), c.obj) {
								js = append(js, in)
							}
						}
					}
				}
			}
			look(G, nil)
			for g, d := range deferredClosures(G) {
				look(g, d)
			}
			if len(js) == 0 && jd == nil {
				continue
			}
			// prefer a WaitGroup over a channel, and for channels the earliest signal
			if best < 0 || (cands[best].kind == "chan" && c.kind == "wg") ||
				(cands[best].kind == c.kind && c.kind == "chan" && sameObj(cands[best].obj, c.obj) && earlier(c.in, c.fn, cands[best].in, cands[best].fn, f)) {
				best, bestJ, bestDefer = i, js, jd
			}
		}
		if best < 0 {
			continue
		}
		c := cands[best]
		G := c.obj.alloc.Parent()
		r.Join = c.kind
		r.JoinFn = safeFname(G)
		r.doneInst, r.doneFn = c.in, c.fn
		r.DonePos = w.position(c.in.Pos())
		for _, j := range bestJ {
			r.JoinPos = append(r.JoinPos, w.position(j.Pos()))
		}
		if bestDefer != nil {
			r.JoinPos = append(r.JoinPos, "defer@"+w.position(bestDefer.Pos()))
		}
		r.joinFn, r.joinInstrs, r.joinDefer = G, bestJ, bestDefer
		r.forkInG = r.spawn
		if G != r.spawnFn {
			r.forkInG = c.obj.via
		}
		if r.forkInG == nil || r.forkInG.Parent() != G {
			w.note("root %s: the join object lives in %s but the fork could not be placed there", r.Name, safeFname(G))
			r.Join, r.joinFn = "none", nil
			continue
		}
		r.Scoped = true
		// exits of G reachable from the fork without the join
		if bestDefer == nil {
			mid := midSet(r.forkInG, bestJ)
			for in := range mid {
				if _, ok := in.(*ssa.Return); ok {
					r.Leaks = append(r.Leaks, safeFname(G)+": "+strings.TrimSpace(w.srcLine(in.Pos())))
					r.leakInstrs = append(r.leakInstrs, in)
				}
			}
			r.Leaks = uniqSorted(r.Leaks)
		}
	}
}

// multi: forked in a loop, or never joined while the forking function can run again
func (w *world) multi(roots []*Root) {
	for _, r := range roots {
		if r.spawn == nil {
			continue
		}
		r.Multi = inLoop(r.spawn) || (r.forkInG != nil && inLoop(r.forkInG)) ||
			(r.Join == "none" && !(len(r.Parents) == 1 && r.Parents[0] == "main" && !inLoop(r.spawn)))
	}
}

// earlier: does (a in fa) certainly execute before (b in fb), both in entry f or closures it defers?
func earlier(a ssa.Instruction, fa *ssa.Function, b ssa.Instruction, fb *ssa.Function, f *ssa.Function) bool {
	if fa == f && fb != f {
		return true // body before deferred closures
	}
	if fa != f && fb == f {
		return false
	}
	if fa == fb {
		return a.Pos() < b.Pos()
	}
	// two deferred closures: the one deferred later runs first
	ds := deferredClosures(f)
	return ds[fa].Pos() > ds[fb].Pos()
}

// instrsAfter: instructions reachable from `from` (exclusive), stopping (inclusive) at instructions in stop.
func instrsAfter(from ssa.Instruction, stop map[ssa.Instruction]bool) map[ssa.Instruction]bool {
	res := map[ssa.Instruction]bool{}
	b := from.Block()
	idx := 0
	for i, in := range b.Instrs {
		if in == from {
			idx = i + 1
		}
	}
	type pt struct {
		b *ssa.BasicBlock
		i int
	}
	work := []pt{{b, idx}}
	seenBlock := map[*ssa.BasicBlock]bool{}
	for len(work) > 0 {
		p := work[len(work)-1]
		work = work[:len(work)-1]
		stopped := false
		for i := p.i; i < len(p.b.Instrs); i++ {
			in := p.b.Instrs[i]
			res[in] = true
			if stop[in] {
				stopped = true
				break
			}
		}
		if stopped {
			continue
		}
		for _, s := range p.b.Succs {
			if !seenBlock[s] {
				seenBlock[s] = true
				work = append(work, pt{s, 0})
			}
		}
	}
	return res
}

func midSet(fork ssa.Instruction, joins []ssa.Instruction) map[ssa.Instruction]bool {
	stop := map[ssa.Instruction]bool{}
	for _, j := range joins {
		stop[j] = true
	}
	return instrsAfter(fork, stop)
}

// ---------------------------------------------------------------------------
// relation of the accesses of a parent root to each of its child roots

func meet(a, b string) string {
	switch {
	case a == "":
		return b
	case b == "":
		return a
	case a == b:
		return a
	case a == "mid" || b == "mid":
		return "mid"
	}
	return "sep"
}

// relations returns, per child root of r, a classifier of r's instructions.
func (w *world) relations(r *Root, all []*Root, edges map[*ssa.Function][]edge) map[string]func(ssa.Instruction) string {
	res := map[string]func(ssa.Instruction) string{}
	for _, c := range all {
		isChild := false
		for _, p := range c.Parents {
			if p == r.Name {
				isChild = true
			}
		}
		if !isChild {
			continue
		}
		res[c.Name] = w.relationTo(r, c, edges)
	}
	return res
}

func (w *world) relationTo(r, c *Root, edges map[*ssa.Function][]edge) func(ssa.Instruction) string {
	joined := c.Join != "none" && c.joinFn != nil
	G := c.spawnFn
	forks := []ssa.Instruction{c.spawn}
	var joins []ssa.Instruction
	var joinDefer *ssa.Defer
	if joined {
		G, forks, joins, joinDefer = c.joinFn, []ssa.Instruction{c.forkInG}, c.joinInstrs, c.joinDefer
	}
	leak := map[ssa.Instruction]bool{}
	for _, in := range c.leakInstrs {
		leak[in] = true
	}
	// the functions on the call chain from the root's entry down to the fork are classified per instruction
	type level struct {
		fn       *ssa.Function
		sites    []ssa.Instruction
		cls      func(ssa.Instruction) string
		deferCls map[*ssa.Defer]string
		fnOnce   bool // the function runs at most once per thread instance
		siteOnce bool // … and contains one fork / spawning call, outside any loop
	}
	var levels []*level
	levelOf := map[*ssa.Function]*level{}
	classify := func(g *ssa.Function, ats []ssa.Instruction, joins []ssa.Instruction, joinDefer *ssa.Defer, complete bool) *level {
		isAt := map[ssa.Instruction]bool{}
		after := map[ssa.Instruction]bool{}
		for _, at := range ats {
			isAt[at] = true
			for k := range instrsAfter(at, leak) {
				after[k] = true
			}
		}
		mid := map[ssa.Instruction]bool{}
		if complete {
			// the callee has joined what it forked when it returns
		} else if joinDefer != nil || len(joins) == 0 {
			mid = after
		} else {
			stop := map[ssa.Instruction]bool{}
			for _, j := range joins {
				stop[j] = true
			}
			for k := range leak {
				stop[k] = true
			}
			for _, at := range ats {
				for k := range instrsAfter(at, stop) {
					mid[k] = true
				}
			}
		}
		cls := func(in ssa.Instruction) string {
			switch {
			case !after[in] && !isAt[in]:
				return "pre"
			case mid[in] || (isAt[in] && !complete):
				return "mid"
			case isAt[in] && !after[in]:
				return "pre" // the call itself starts before the fork it leads to; its callee is classified on its own
			}
			return "post"
		}
		lv := &level{fn: g, sites: ats, cls: cls, deferCls: map[*ssa.Defer]string{}}
		// deferred calls of g run at its RunDefers
		for _, b := range g.Blocks {
			for _, in := range b.Instrs {
				d, ok := in.(*ssa.Defer)
				if !ok {
					continue
				}
				k := ""
				for x := range instrsAfter(d, nil) {
					if _, isRD := x.(*ssa.RunDefers); !isRD {
						continue
					}
					cx := cls(x)
					if cx == "mid" && joinDefer != nil && joined && d.Pos() < joinDefer.Pos() {
						cx = "post" // deferred earlier than the deferred Wait: runs after it
					}
					k = meet(k, cx)
				}
				if k == "" {
					k = cls(d)
				}
				lv.deferCls[d] = k
			}
		}
		levels = append(levels, lv)
		levelOf[g] = lv
		return lv
	}
	classify(G, forks, joins, joinDefer, false)
	cur := G
	reachedTop := false
	for depth := 0; depth < 20; depth++ {
		if cur == r.entry || cur == r.wrapper {
			reachedTop = true
			break
		}
		var sites []ssa.Instruction
		var H *ssa.Function
		ok := true
		for _, e := range w.callersOf(cur, edges) {
			if !r.reach[e.callee] { // callersOf returns the caller in .callee
				continue
			}
			if H != nil && H != e.callee {
				ok = false
			}
			if _, isDefer := e.site.(*ssa.Defer); isDefer {
				ok = false
			}
			H = e.callee
			sites = append(sites, e.site)
		}
		if !ok || H == nil || levelOf[H] != nil {
			break
		}
		classify(H, sites, nil, nil, joined)
		cur = H
	}
	// validity of pre / post: top-down
	for i := len(levels) - 1; i >= 0; i-- {
		lv := levels[i]
		if i == len(levels)-1 {
			lv.fnOnce = reachedTop
		} else {
			lv.fnOnce = levels[i+1].siteOnce
		}
		lv.siteOnce = lv.fnOnce && len(lv.sites) == 1 && !inLoop(lv.sites[0])
	}
	c.Once = levels[0].siteOnce
	adjust := func(k string, lv *level) string {
		switch k {
		case "pre":
			if !lv.fnOnce {
				if joined {
					return "sep"
				}
				return "mid"
			}
		case "post":
			if !lv.siteOnce {
				return "sep"
			}
		}
		return k
	}
	dflt := "sep"
	if !joined {
		dflt = "mid"
	}
	// other functions: meet over call sites
	fcls := map[*ssa.Function]string{}
	siteCls := func(f *ssa.Function, site ssa.Instruction) string {
		if lv := levelOf[f]; lv != nil {
			if d, ok := site.(*ssa.Defer); ok {
				return adjust(lv.deferCls[d], lv)
			}
			return adjust(lv.cls(site), lv)
		}
		return fcls[f]
	}
	for iter := 0; iter < 100; iter++ {
		changed := false
		for _, n := range r.nodes {
			f := n.fn
			if levelOf[f] == nil && fcls[f] == "" {
				switch {
				case f == r.entry || f == r.wrapper:
					fcls[f] = dflt
					changed = true
				case r.Kind == "main" && f.Parent() == nil && (f.Name() == "init" || strings.HasPrefix(f.Name(), "init#")):
					fcls[f] = "pre" // package initialisation precedes Run
					changed = true
				}
			}
			for _, e := range edges[f] {
				if levelOf[e.callee] != nil || !r.reach[e.callee] {
					continue
				}
				sc := siteCls(f, e.site)
				if sc == "" {
					continue
				}
				n := meet(fcls[e.callee], sc)
				if n != fcls[e.callee] {
					fcls[e.callee] = n
					changed = true
				}
			}
		}
		if !changed {
			break
		}
	}
	return func(in ssa.Instruction) string {
		f := in.Parent()
		if lv := levelOf[f]; lv != nil {
			return adjust(lv.cls(in), lv)
		}
		if k := fcls[f]; k != "" {
			return k
		}
		return dflt
	}
}

// ---------------------------------------------------------------------------
// preDone: is an access of root r certainly before r's end signal?

// The second result classifies a call site (for a Defer: the moment the deferred call runs).
func (w *world) preDone(r *Root, edges map[*ssa.Function][]edge) (func(ssa.Instruction) bool, func(ssa.Instruction) bool) {
	if r.Join == "none" || r.doneInst == nil || r.entry == nil {
		no := func(ssa.Instruction) bool { return false }
		return no, no
	}
	f := r.entry
	special := map[*ssa.Function]func(ssa.Instruction) bool{}
	deferOK := map[*ssa.Defer]bool{}
	ds := deferredClosures(f)
	var doneDefer *ssa.Defer // the Defer of f through which the signal is given (nil: signal in f's body)
	if d, ok := r.doneInst.(*ssa.Defer); ok && r.doneFn == f {
		doneDefer = d
	} else if r.doneFn != f {
		doneDefer = ds[r.doneFn]
	}
	if doneDefer != nil {
		special[f] = func(ssa.Instruction) bool { return true }
		for _, b := range f.Blocks {
			for _, in := range b.Instrs {
				if d, ok := in.(*ssa.Defer); ok {
					deferOK[d] = d.Pos() > doneDefer.Pos() // deferred later = runs earlier
				}
			}
		}
		if r.doneFn != f {
			after := instrsAfter(r.doneInst, nil)
			special[r.doneFn] = func(in ssa.Instruction) bool { return !after[in] && in != r.doneInst }
		}
	} else {
		after := instrsAfter(r.doneInst, nil)
		special[f] = func(in ssa.Instruction) bool { return !after[in] }
		// deferred calls run after the body
	}
	fok := map[*ssa.Function]int{} // 0 unknown, 1 ok, 2 not
	siteOK := func(g *ssa.Function, site ssa.Instruction) int {
		if s := special[g]; s != nil {
			if d, ok := site.(*ssa.Defer); ok && g == f {
				if deferOK[d] {
					return 1
				}
				return 2
			}
			if s(site) {
				return 1
			}
			return 2
		}
		return fok[g]
	}
	if r.wrapper != nil {
		fok[r.wrapper] = 2
	}
	for iter := 0; iter < 100; iter++ {
		changed := false
		for g := range r.reach {
			for _, e := range edges[g] {
				if special[e.callee] != nil && !(e.callee == r.doneFn && r.doneFn != f) || !r.reach[e.callee] {
					continue
				}
				if e.callee == r.doneFn {
					continue
				}
				s := siteOK(g, e.site)
				if s == 0 {
					continue
				}
				n := fok[e.callee]
				if s == 2 || n == 2 {
					n = 2
				} else {
					n = 1
				}
				if n != fok[e.callee] {
					fok[e.callee] = n
					changed = true
				}
			}
		}
		if !changed {
			break
		}
	}
	instr := func(in ssa.Instruction) bool {
		g := in.Parent()
		if s := special[g]; s != nil {
			return s(in)
		}
		return fok[g] == 1
	}
	site := func(in ssa.Instruction) bool {
		if _, ok := in.(*ssa.Defer); ok {
			return siteOK(in.Parent(), in) == 1
		}
		return instr(in)
	}
	return instr, site
}
