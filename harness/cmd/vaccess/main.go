// vaccess: translator for the C14 check (data-race freedom).
//
// It loads github.com/knz/shakespeare/pkg/cmd from the repository under test,
// builds SSA and emits FACTS only (no judgement):
//   - the goroutine roots (every `go`, every function passed to runWorker /
//     runAsyncTask / stopper.Run*), their parent, whether several instances can
//     be live at once, how the parent learns of their end (join) and which exits
//     of the joining function skip the join;
//   - for every root the accesses to shared memory of the functions reachable
//     from it inside pkg/cmd: location, read/write, atomic, locks held,
//     whether the access comes before the root's end signal, and for each child
//     root whether the access is before the fork / possibly concurrent / after
//     the join.
//
// Rules of the translation (all conservative unless stated):
//   - memory is named by type: `T.f` (field f of struct T of pkg/cmd), `T.f[]` (the elements of the map / slice
//     held in T.f), `var x`, `local F.x` (a local of F captured by a closure that can leave the activation of F:
//     started with `go`, passed as an argument, stored, sent, returned; a closure that is only called or deferred
//     where it is made leaves the variables it captures thread-local); a value struct of pkg/cmd stands
//     for all its fields, a struct of another package is one opaque cell; a pointer of unknown origin is named by
//     its element type;
//   - an access to an object allocated in the running function is NOT listed as long as no instruction through
//     which its address leaves the function (store, call argument, closure capture, send, return, conversion
//     to an interface) can precede the access without the allocation being executed again: that is the
//     initialisation of a thread-local object;
//   - NOT conservative: a local variable that no closure captures is taken to be thread-local when it is read or
//     written as a whole (`x = …`), even if its address was handed out; accesses to its fields are still listed
//     (by type) from the first instruction through which the address can have left the function;
//   - a pointer to a pkg/cmd struct turned into an empty interface counts as a read of all its fields
//     (fmt, reflect.DeepEqual, json); an address handed to a function of another package counts as a write
//     (`ext:`); sync.Mutex / WaitGroup / Once / channels are synchronisation, not data;
//   - calls: static callees, VTA for interface and function-value calls, plus: a function value handed to a
//     function of another package is taken to be called by it synchronously (except stopper.Run*, which start
//     goroutines), and String / Error / Format / Less … methods of a value converted to an interface are
//     taken to be called at the conversion;
//   - a top-level function with function-typed parameters is analysed once per tuple of concrete functions it
//     is called with (`root[ctx]`), so the goroutines of runActorCommandWithConsumer are told apart by consumer;
//   - locks: must-held analysis per function (Lock adds, explicit Unlock removes, deferred Unlock keeps), a
//     function starts with the intersection of the sets at its call sites;
//   - channel hand-over: see sent.go (`sentThenWritten` facts);
//   - join: the root's end signal is `wg.Done()` (or the first send / close on a channel) in its entry function
//     or a closure it defers; the join is `wg.Wait()` / `<-ch` on the same variable in the function owning that
//     variable; `pre` = cannot be reached from the fork, `post` = every path from the fork passes the join
//     (exits that skip it are listed as `leaks`), both only if the function runs once per thread instance,
//     otherwise `sep`; `mid` = anything else.  A `select` case is never counted as a join.
//
// usage: vaccess -repo DIR -overlay overlay.json -lean OUT.lean -json OUT.json
package main

import (
	"encoding/json"
	"flag"
	"fmt"
	"os"
	"sort"
	"strings"

	"golang.org/x/tools/go/callgraph"
	"golang.org/x/tools/go/callgraph/vta"
	"golang.org/x/tools/go/packages"
	"golang.org/x/tools/go/ssa"
	"golang.org/x/tools/go/ssa/ssautil"
)

const pkgPath = "github.com/knz/shakespeare/pkg/cmd"

type world struct {
	prog  *ssa.Program
	pkg   *ssa.Package
	funcs map[*ssa.Function]bool // all functions of pkg/cmd (incl. anonymous)
	cg    *callgraph.Graph
	// callees inside pkg/cmd per call instruction (after cutting spawn edges)
	notes []string
}

func die(f string, a ...interface{}) {
	fmt.Fprintf(os.Stderr, "vaccess: "+f+"\n", a...)
	os.Exit(2)
}

func load(repo, overlayFile string, tags string) *world {
	ov := map[string][]byte{}
	if overlayFile != "" {
		raw, err := os.ReadFile(overlayFile)
		if err != nil {
			die("overlay: %v", err)
		}
		var o struct{ Replace map[string]string }
		if err := json.Unmarshal(raw, &o); err != nil {
			die("overlay: %v", err)
		}
		for dst, src := range o.Replace {
			b, err := os.ReadFile(src)
			if err != nil {
				die("overlay file: %v", err)
			}
			ov[dst] = b
		}
	}
	cfg := &packages.Config{
		Mode:    packages.LoadAllSyntax,
		Dir:     repo,
		Overlay: ov,
		Env:     append(os.Environ(), "GOFLAGS=-mod=mod", "GOPROXY=off", "GOSUMDB=off", "GOTOOLCHAIN=local"),
	}
	if tags != "" {
		cfg.BuildFlags = []string{"-tags", tags}
	}
	pkgs, err := packages.Load(cfg, pkgPath)
	if err != nil {
		die("load: %v", err)
	}
	if len(pkgs) != 1 {
		die("expected one package, got %d", len(pkgs))
	}
	if len(pkgs[0].Errors) > 0 {
		for _, e := range pkgs[0].Errors {
			fmt.Fprintln(os.Stderr, e)
		}
		die("package does not type-check")
	}
	prog, spkgs := ssautil.AllPackages(pkgs, ssa.InstantiateGenerics)
	prog.Build()
	w := &world{prog: prog, pkg: spkgs[0], funcs: map[*ssa.Function]bool{}}
	for f := range ssautil.AllFunctions(prog) {
		if f.Pkg == w.pkg || (f.Parent() != nil && inPkg(w, f)) {
			w.funcs[f] = true
		}
	}
	// methods & synthetic wrappers of pkg types are found through AllFunctions (f.Pkg may be nil for wrappers)
	for f := range ssautil.AllFunctions(prog) {
		if w.funcs[f] {
			continue
		}
		if f.Synthetic != "" && f.Pkg == nil {
			if recv := f.Signature.Recv(); recv != nil && strings.Contains(recv.Type().String(), pkgPath+".") {
				w.funcs[f] = true
			}
		}
	}
	w.cg = vta.CallGraph(w.funcs, nil)
	return w
}

func inPkg(w *world, f *ssa.Function) bool {
	for p := f; p != nil; p = p.Parent() {
		if p.Pkg == w.pkg {
			return true
		}
		if p.Pkg != nil {
			return false
		}
	}
	return false
}

func (w *world) note(f string, a ...interface{}) {
	w.notes = append(w.notes, fmt.Sprintf(f, a...))
}

func (w *world) pos(i interface{ Pos() interface{} }) string { return "" }

func main() {
	repo := flag.String("repo", "/repo", "repository under test")
	overlay := flag.String("overlay", "", "go build overlay json")
	leanOut := flag.String("lean", "", "Lean output file")
	jsonOut := flag.String("json", "", "JSON output file")
	tags := flag.String("tags", "", "build tags")
	flag.Parse()
	w := load(*repo, *overlay, *tags)
	a := analyse(w)
	text, enc := renderLean(a)
	a.Enc = enc
	if *jsonOut != "" {
		b, _ := json.MarshalIndent(a, "", " ")
		if err := os.WriteFile(*jsonOut, b, 0644); err != nil {
			die("%v", err)
		}
	}
	if *leanOut != "" {
		if err := os.WriteFile(*leanOut, []byte(text), 0644); err != nil {
			die("%v", err)
		}
	}
	locs := map[string]bool{}
	for _, x := range a.Accesses {
		locs[x.Loc] = true
	}
	fmt.Printf("roots=%d accesses=%d locations=%d written=%d rows=%d sentThenWritten=%d notes=%d\n", len(a.Roots), len(a.Accesses), len(locs), len(enc.LocNames), enc.Rows, len(a.SentThenWritten), len(a.Notes))
}

func sortedKeys(m map[string]bool) []string {
	r := make([]string, 0, len(m))
	for k := range m {
		r = append(r, k)
	}
	sort.Strings(r)
	return r
}
