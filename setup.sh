#!/bin/sh
# Builds the framework offline from files on disk: the Lean project (models, proofs, driver)
# and the Go harness + the real binary from /repo's working tree.
set -e
cd "$(dirname "$0")"
export GOFLAGS=-mod=mod GOPROXY=off GOSUMDB=off GOTOOLCHAIN=local
python3 - <<'PY'
import sys
sys.path.insert(0, '.')
from vlib import common, gen_tables
common.build_go()
impl = common.Impl()
gen_tables.regenerate(impl.call("automata"))
impl.close()
PY
(cd lean && lake build ShkModel shkdrv)
echo setup done
