#!/bin/sh
# Builds the framework offline from files on disk: the Lean project (models, proofs, driver)
# and the Go harness + the real binary from /repo's working tree.
set -e
cd "$(dirname "$0")"
export GOFLAGS=-mod=mod GOPROXY=off GOSUMDB=off GOTOOLCHAIN=local
python3 - <<'PY'
import sys
sys.path.insert(0, '.')
from vlib import common, gen_tables
common.build_go()
impl = common.Impl()
gen_tables.regenerate(impl.call("automata"))
impl.close()
# the clause regexps (C09/C10/C20 models): translator harness/cmd/vregex; a failure is reported by ./check C09
try:
    from vlib import regen_re
    regen_re.build_regex_tables()
except Exception as e:
    print("setup: clause regexp table not regenerated:", e)
# the access table of C14 (translator harness/cmd/vaccess); a failure here is reported by ./check C14
try:
    from vlib import c14
    c14.build_vaccess()
    c14.regenerate(common.make_overlay())
except Exception as e:
    print("setup: access table not regenerated:", e)
PY
# the driver must build; property modules that no longer check are reported by their own ./check
(cd lean && lake build shkdrv)
(cd lean && lake build ShkModel) || echo "setup: some property modules do not build; the checks say which"
echo setup done
