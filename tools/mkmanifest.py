#!/usr/bin/env python3
"""Regenerates MANIFEST.json from the table below (kept here so that the manifest stays valid
and consistent while properties are added)."""
import json
import os
import sys

HERE = os.path.dirname(os.path.dirname(os.path.abspath(__file__)))

CHECKS = {
    "C01": dict(
        category="proof",
        text="Lean 4 theorems disappointed_iff_violates / undisappointed_ends_good for all ten modalities and all observation words, over the transition tables dumped from the built code on every run (kernel-evaluated certificate of language equivalence with a spec monitor, verified checker); the audit driver is a hand model tied by a correspondence on the real audit loop.",
        note="Trusted: Lean kernel, propext/Quot.sound, the run-time dump of `automata`, the correspondence harness (words <= 8 / <= 12 exhaustively + random to 200) for the driver model.",
        technique="Lean 4 proof over regenerated tables (certificate-checked automaton equivalence) + correspondence on the real audit loop"),
    "C18": dict(
        category="proof",
        text="Lean 4 theorems: ToUnixMicros = nearest microsecond (half up) for every instant, monotone, FromUnixMicros round-trip (omega over Int with Go's truncated division); Timer wrapper as a transition system with invariant proved for every operation sequence: Reset never blocks, at most one fire per Reset, not before the duration, silent after Stop. Model tied to the code by correspondence on boundary + random instants (thorough: all 10^9 ns offsets of three seconds) and on real Timer scripts.",
        note="Trusted: Lean kernel; Go's time.Round/Unix semantics and the runtime timer are modelled by hand and compared; buffered timer-channel semantics (go.mod language version) assumed.",
        technique="Lean 4 proof (omega; invariant by induction over operations) + differential correspondence"),
}

CHECKS.update({
    "C02": dict(
        category="proof",
        text="Lean 4 model of the audit loop (rounds, wake-up, dependency gate, period start/end, final round); theorems on the marker grammar of every auditor for all configurations and histories; tied to the real audit loop by a correspondence on the start/report/stop stream of random configurations x histories, with the period specification (`explain`: bracketed, explainable from a fresh start, closed at the end) evaluated on the real stream.",
        note="Trusted: Lean kernel; govaluate for expression values (a fragment is re-implemented and compared); the final round's wall-clock time; hooks and harness.",
        technique="Lean 4 proof (invariant over rounds) + differential correspondence on the real audit loop + spec oracle"),
    "C08": dict(
        category="proof",
        text="Lean 4 model of detectSignals (whole-line pattern family, number and date parsing, delta state, grouping by time stamp) and of the forwarding through the audit loop; specification pointsOf = one point per matching parsable line; theorems relate the two; the real pipeline detectSignals -> audit loop -> collector CSV is compared with the model and with pointsOf on generated line sequences.",
        note="Trusted: Lean kernel; Go regexp (matching is re-implemented only for the whole-line family), strconv.ParseFloat / time.Parse outside the modelled literals; reception time only checked to be a wall-clock stamp.",
        technique="Lean 4 proof + differential correspondence through the real detectSignals/audit/collector + spec oracle on CSV rows"),
    "C11": dict(
        category="proof",
        text="Lean 4 model of collectFns, evalFunctions and processAssignments; specifications collectSpec / funcOk written from the property; theorems for every N and value sequence; real collectFns/evalFunctions and dependent clause chains through the real audit loop (govaluate included) compared with the model and the specification.",
        note="Trusted: Lean kernel; float64 idealised as exact rationals (tolerance 1e-9, NaN/Inf excluded); govaluate evaluation outside the modelled fragment.",
        technique="Lean 4 proof (insertion-sort invariants, folds) + differential correspondence + spec oracle"),
})

CHECKS.update({
    "C03": dict(
        category="proof",
        text="Lean 4 theorems on the decision logic: later interpretation clauses override earlier ones per (auditor, result) (interp_last_wins, any clause list incl. the shorthand), verdict_iff, -S stops only on a foul (earlyExit_keeps_foul, every report stream), the error funnel keeps an audit foul / cleanup error / component error and exit 0 means clean. The real parser + collector loop are compared in-process with the model; the real binary is run on the mode x count-shape x -S matrix, overriding sequences, each failing command site, and under steered schedules of the shutdown cascade (pause points) — proof for the decision logic, partial for how the verdict travels through goroutines.",
        note="Trusted: Lean kernel; the sequential funnel model (stageErr/finish) stands for the goroutine/channel plumbing, which is only exercised end-to-end (incl. the steered schedules); bash/true/false as commands.",
        technique="Lean 4 proof of the decision logic + in-process differential correspondence + end-to-end matrix with schedule steering"),
    "C06": dict(
        category="proof",
        text="Lean 4 character-level model of combineActs/combineStoryLines/validateStoryLine/compileV2 and an independently written denotation (columns, zipLong, denote); theorems columns_comb, comb_wf, combineStory_denotes, validate_iff/sound, compile_denotes, play_denotes for every storyline shape; real parser+compiler compared with the model and with the denotation on all small shapes and random larger configurations, flattened to the schedule they denote; the -p listing is parsed back.",
        note="Trusted: Lean kernel; Go regexp for `edit` (an edit is an arbitrary function in the theorems, literal patterns in the correspondence); role/cast/tempo parsing outside the model.",
        technique="Lean 4 proof (structural induction on storylines) + exhaustive small-shape and random differential correspondence + denotation oracle"),
})

CHECKS.update({
    "C17": dict(
        category="proof",
        text="Lean 4 model of the retry state machine (Next, NextCh, Reset, closer/context) with retryIn over exact rationals and the jitter as a parameter; theorems first_immediate, attempts_le, backoff_band / lower_edge for every option set and every u in [0,1), next_schedule / nextCh_schedule, reset_restores, closed_stops (partial: one known finding), withMaxAttempts_spec for every n >= 1; a property monitor evaluated on event traces of the real loop (lower bounds on measured gaps only) and WithMaxAttempts compared with the model.",
        note="Trusted: Lean kernel; float64 idealised as exact rationals; `select` prefers an already-fired stop over a timer that is not yet due, time.After is never early (a select race under load is re-run before it is judged); upper edges of the band are tied to the code only through the model.",
        technique="Lean 4 proof (arithmetic over Rat, invariant + simulation) + trace monitor on the real loop"),
})

CHECKS.update({
    "C07": dict(
        category="proof",
        text="Partial. Proved (Lean 4, kernel-evaluated closure certificate over the complete finite transition system, lifted to every event sequence): the command runner sends SIGHUP to the process group whenever stop / cancel / time-out / term arrives while the command runs, whatever it did with its output, kills it two seconds later, returns only after exit and EOF, never signals an exited process; the pinned runner is proved to violate this. Tied to the real runActorCommandWithConsumer by scripted commands (time classes). The conductor's shutdown cascade, the cleanups and process reaping are exercised by fault injection on the real binary (signals at several instants and shutdown stages, failing / hanging / SIGHUP-ignoring commands, -S, evaluation error): termination within a bound, cleanup counts, /proc scan for marked processes.",
        note="Partial: assumption A (a component terminates once cancelled or once its upstream has terminated) and OS process semantics are observed, not proved. Trusted: Lean kernel (decide +kernel), bash, /proc.",
        technique="Lean 4 proof over a finite transition system (certificate checked by the kernel) + scripted-command correspondence + end-to-end fault injection"),
})

CHECKS.update({
    "C04": dict(
        category="proof",
        text="Partial. Proved in Lean 4 for the prompter's algorithm over an abstract clock, for every play, repeat spec and every environment (durations, successes, arbitrary non-negative delays of every step): records_wellformed, line_order, barrier (no action of a later group starts before every action of an earlier group has stopped; acts and repetitions sequential), tempo_lower_bound, act_starts_monotone, concurrent_lines_independent. The real binary runs generated plays whose commands write a wall-clock ledger; the observed trace must satisfy the same ordering / barrier / tempo inequalities (Lean predicates evaluated on it) and the CSV's recorded start/duration/status must be explained by one epoch.",
        note="Partial: that goroutines, exec and the kernel realise the abstract steps is observed on generated plays, not proved. Lower bounds only, 5 ms slack.",
        technique="Lean 4 proof (induction over the loop graph) + trace specification evaluated on ledgers of real runs"),
    "C05": dict(
        category="proof",
        text="Partial. Proved in Lean 4 for the prompter model, every play / repeat spec / environment / fuel: exit0_all_performed (an ok, finished run performed exactly expectedTrace: every position once per pass, repeated acts N times in total for `repeat N times`), failure_stops, error_iff_untolerated_failure, tolerated_continues, repeat_count_total. The real binary runs generated plays (failures at every position, tolerated or not, repeats, spotlights that keep running / exit by themselves / are absent); the set of performed action occurrences (ledger) and the exit status must equal the model's.",
        note="Partial: runtime as C04; the conductor's decision which component ends the play is exercised end-to-end (self-exiting spotlights), not proved.",
        technique="Lean 4 proof + differential comparison of performed action sets on real runs"),
})

CHECKS.update({
    "C16": dict(
        category="proof",
        text="Lean 4 character-level model of formatHeader/formatLogEntry, of entryRE + split + Decode (leftmost-first parser, scanner window as a parameter), of syncBuffer.Write/rotateFile/create and of gcOldFiles; theorems decode_format, decode_concat_partial (each entry together with its successor fits the window; the full statement is refuted by a decide-checked witness = the known finding), rotation_lossless, names_increasing, readback_is_tail, newest_message_survives, gc_keeps_newest, gc_prefix. Entry.Format / EntryDecoder, the real logger with small LogFileMaxSize in a scratch directory, and the GC daemon on fabricated directories are compared with the model and with the specification.",
        note="Trusted: Lean kernel; Go's time for broken-down UTC time; bufio.Scanner's buffer growth abstracted to a window size; file system. One known finding (entries ending in the last bytes of the 64 KiB window).",
        technique="Lean 4 proof (parser/printer round trip, rotation and GC invariants) + differential correspondence on the real logger"),
})

CHECKS.update({
    "C19": dict(
        category="proof",
        text="Partial. Lean 4 model of plot.go's control flow (x range, action lanes, audience boxes and curves, audit curves, mood bands with the skip test, act lines, zoomed copy) and of assemble's range/repeat computation, plus a specification written from the property; theorems model_meets_spec, xrange_margin, lanes, boxes, curves, audit_curves_iff, every_mood_banded (from result_range: the range has positive width), act_lines, zoom_iff_repeat, repeat_start, for all inputs. Generated plays run with the real binary; plots/*.gp are parsed into an abstract plot and compared with the model and the specification, whose input facts are derived independently from the CSV files, result.js and logs.",
        note="Partial: gnuplot and the rendering are out of scope; floats as exact rationals; curve order is non-deterministic when one expression names several signals (map iteration) - generated plays avoid that shape.",
        technique="Lean 4 proof (model = specification) + differential comparison of generated plot scripts on real runs"),
})

CHECKS.update({
    "C12": dict(
        category="proof",
        text="Partial. Lean 4 path algebra (clean, join, symlink resolution relative to the link's directory) with latest_resolves for every cwd and every -o shape (repaired code; decide-checked witness that the pinned code dangles for relative -o), survive_table derived from run()'s deferred actions over all flag and fault combinations, range_contains for assemble's normalisation. filepath.Clean/Join and the real prepareDirs are compared in-process; the flag x foul x -o x repeat matrix is run with the real binary (complete in the thorough tier) and the file tree, latest, result.js (Foul, time range, artifact tree) and plot scripts are checked against the model.",
        note="Partial: file-system semantics trusted; the kernel's path walk modelled lexically (no symlinked directory on the way). Errors raised after assemble (upload, plot files) give exit 1 with Foul false: modelled (foul_flag_misses_late_errors), outside the property's flag quantifier.",
        technique="Lean 4 proof (path algebra, decision table) + in-process and end-to-end matrix"),
    "C13": dict(
        category="proof",
        text="Partial. Lean 4 model of prepareScript / prepareActionCommands / multi-actor expansion with script_layout (cd, then TMPDIR/HOME, then the redirection iff not a spotlight, then the `with` text, then the command), multi_actor_env, scripts_complete, extends_inherits, workdir_under_run for every cast. The real generated scripts are compared byte for byte with the model, and real plays record pwd/TMPDIR/HOME/i/`with` variables of every action, spotlight and cleanup, invoked directly and through another actor's prepared script; logs and signal rows checked.",
        note="Partial: what bash does with the script is trusted. One known finding (an action named _cleanup/_spotlight shares the role's script file).",
        technique="Lean 4 proof (list layout invariants) + byte-exact script comparison + ledger plays"),
})

CHECKS.update({
    "C15": dict(
        category="proof",
        text="Lean 4 transition system with one step per critical section of stopper.go, an unbounded list of in-flight calls (RunTask, RunAsyncTask, RunLimitedAsyncTask, RunWorker, AddCloser, WithCancelOnQuiesce/Stop, Quiesce, Stop) and a monotone log; invariants proved by induction over reachability, i.e. for every interleaving and any number of calls: reach_logOk, refused_never_runs, stop_closed_drained, tasks_end_before_stop_closes, phase_order, closers_exactly_once, stop_idempotent, sem_held_iff_running, cancel_fires; the worker clause in the qualified form the code supports (witness late_worker_runs_after_stopped). The real Stopper is driven with settled sequential scripts (state compared with the model) and with gated concurrent schedules whose logs are judged by the Lean predicate logOk.",
        note="Trusted: Lean kernel; atomicity of each critical section (the mutex), Go channel / WaitGroup semantics. Two recorded limits: a RunWorker issued after stop.Wait() returned still runs (proved witness), and a WaitGroup misuse panic when RunWorker races with the end of Stop (known finding).",
        technique="Lean 4 proof (inductive invariants over an unbounded-thread transition system) + gated-schedule logs judged by the Lean specification"),
})

CHECKS.update({
    "C09": dict(
        category="proof",
        text="Partial. Lean 4 model of the configuration reader (reader.go: include stack of at most ten frames, line bookkeeping, continuation lines, comment skipping, include lookup, pos.wrapErr) with the clause parsers as a parameter; theorems reader_terminates (potential function, every include graph), fuel_mono, wrapErr_in_range, pos_exists, invalid_clause_pos, reject_reported, depth_le_ten, depth_refused, edit_check_total. The real loader and the model run on the same scratch trees (grammar-derived texts, 16 mutation operators, arbitrary bytes, 13 kinds of include graphs): verdict, file:line, context window and include chain are compared; on every real outcome: no panic, no hang, position exists and is the first line of the rejected clause, the blamed clause is rejected when parsed alone. Regenerated tie for the clause syntax: the translator harness/cmd/vregex turns the 33 compileRe literals of pkg/cmd into lean/ShkModel/Gen/ClauseRe.lean on every run; Model/Regex.lean has a declarative semantics and a leftmost-first backtracking matcher with capture spans (run_sound, run_complete for every regexp and string, find_sound/complete, and decide-checked facts over the regenerated table: anchored_all, clause_keywords, audience_clauses_word_verb ...); Go's FindStringSubmatchIndex vs the Lean matcher on generated lines (every span), and single clauses in their section: no regexp of the regenerated dispatch chain matches => the real loader answers unknown syntax at that line, and conversely.",
        note="Partial: the regexp-driven clause parsers and govaluate are not modelled (generated testing only, labelled so in the evidence); reader_terminates assumes a bound on file lengths. Known finding: the include chain names the line after each include directive (enshrined by testdata/parse/include).",
        technique="Lean 4 proof (reader transition system, potential function) + differential execution against the real loader"),
    "C20": dict(
        category="proof",
        text="Partial. Lean 4 model of preprocReplace (~name~ scanner), of the parameter table (-D, defaults) and of include lookup; theorems subst_exact (unique decomposition into copied bytes and occurrences), no_rescan, undefined_named, undefined_kept, table_lookup, define_wins, first_wins, first_default_wins, include_first_hit, local_dir_searched, depth_refused. preprocReplace vs model and vs the Lean specification on random bytes; generated configurations with ~p~ in every kind of field (13 substituted, 17 verbatim) x seven ways of defining the parameter x value palettes, printed configuration compared line by line; include graphs against the reader model and against the documented lookup rule evaluated on the tree.",
        note="Partial: which fields of which clause pass through the substitution is decided by the unmodelled clause parsers; that part rests on the correspondence only.",
        technique="Lean 4 proof (scanner decomposition, table lookup, include search) + differential execution against the real preprocessor and loader"),
})

CHECKS.update({
    "C10": dict(
        category="proof",
        text="Partial. Lean 4 clause-level model of the loader (load) and of printCfg with its audience scheduler (print, sched), an equivalence on configurations (Cfg.Equiv: titles, roles, cast, tempo, scenes, storyline, effective repeat settings, members in order with their clauses, interpretation) and on printed texts (SameText); theorems print_loads (what printCfg emits loads again to an equivalent configuration, for every regexp-match oracle and clause list), members_order_preserved, sched_complete, print_fixpoint, sameText_decides, defines_precedence, reload_invariant, and decide-checked witnesses of the four repaired printer defects. Generated accepted configurations (every construct of the property's list, audience definitions that zig-zag between members): model print vs the real printed text parsed back; on the real code: the printed text reloads, prints to the same text, compiles to the same steps/play/story and generates the same scripts; shakespeare -n -p vs the in-process print; result.js Config.",
        note="Partial: the fit of the clause regexps and the field splitting, govaluate variable extraction and duration formatting are oracle parameters of the model (covered by the correspondence only). Known finding: a parameter value containing ~word~ is expanded again on reload (no escape syntax exists).",
        technique="Lean 4 proof (loader/printer round trip, scheduler invariant) + differential execution against the real parser and printer"),
})

CHECKS.update({
    "C14": dict(
        category="proof",
        text="Partial. A translator (harness/cmd/vaccess: go/packages + go/ssa + VTA call graph) regenerates on every run the table of shared-memory accesses of pkg/cmd — goroutine roots, and for each the fields / globals / captured variables it reads or writes, with lock set, atomicity and position relative to the forks and joins of its children — as lean/ShkModel/Gen/Access.lean. Lean 4: an abstract fork/join/lock execution model with happens-before and Race; a hand-written ownership policy per location (initThenReadOnly, handoff, atomic, locked, perInstance, message); theorem discipline_sound (a table that passes disciplineOk admits no racing execution, any number of thread instances and events, by induction over the fork tree), table_ok (the regenerated table passes, decide +kernel), current_table_race_free. Message objects handed over a channel: the translator also emits sentThenWritten facts (a field written after the object was sent, through per-function send summaries), which disciplineOk rejects; the execution model has send / receive events. Dynamic cross-check and failing-input search: the binary built with Go's race detector on generated plays (spotlights, concurrent lines, auditors, repeats, failures, -S, signals); a race report is the replay.",
        note="Partial: the translator's facts and Go's synchronisation semantics are trusted; memory is named by type (per-instance objects assumed not shared between instances); objects sent over channels are assumed not touched by the sender afterwards; the one-minute hard-shutdown exit is outside the theorem; other packages are opaque to the static side (the race detector covers them dynamically: that is how the pkg/crdb/log race was found).",
        technique="Lean 4 proof (ownership discipline implies data-race freedom) over an access table regenerated from the source by a translator; Go race detector as failing-input search"),
})

NOT_APPLICABLE = [
]

PENDING_REASON = "machinery not built yet in this round (see DESIGN.md section 5 for the plan); not claimed"

ALL = ["C%02d" % i for i in range(1, 21)]


def main():
    checks = []
    for pid in ALL:
        if pid not in CHECKS:
            continue
        c = CHECKS[pid]
        checks.append({
            "property_id": pid,
            "quick_cmd": "./check %s --tier quick" % pid,
            "thorough_cmd": "./check %s --tier thorough" % pid,
            "evidence_file": "evidence/%s.json" % pid,
            "replay_cmd_template": "./check %s --replay {path}" % pid,
            "engine": "lean-model",
            "level_claimed": {"category": c["category"], "text": c["text"], "design_ref": "DESIGN.md section 5, " + pid},
            "level_note": c["note"],
            "technique": c["technique"],
        })
    na = list(NOT_APPLICABLE)
    named = set(CHECKS) | {x["property_id"] for x in na}
    for pid in ALL:
        if pid not in named:
            na.append({"property_id": pid, "reason": PENDING_REASON})
    served = sorted(CHECKS)
    m = {
        "version": 1,
        "setup_cmd": "./setup.sh",
        "hooks": {
            "guard": "verif",
            "enable": "go build -tags verif -overlay .build/overlay.json (the overlay supplies the two git-ignored generated files of pkg/cmd)",
            "baseline_off_cmd": "cd /repo && GOFLAGS=-mod=mod go test -json -vet=off -count=1 -timeout 25m ./...",
            "source_commits": HOOK_COMMITS,
            "add_only": True,
        },
        "engines": [
            {"name": "lean-model", "path": "lean/", "serves_properties": served, "kind_free_text": "Lean 4 models, theorems (lake build), model driver shkdrv"},
            {"name": "harness", "path": "harness/", "serves_properties": served, "kind_free_text": "Go executor of the line protocol against the real code, built from /repo with -tags verif"},
            {"name": "orchestrator", "path": "check", "serves_properties": served, "kind_free_text": "Python: builds, regenerates Gen/*.lean, generators, correspondence diff, oracle calls, evidence"},
        ],
        "checks": checks,
        "not_applicable": na,
        "notes": "See DESIGN.md. Properties whose machinery is not built yet are listed under not_applicable with that reason and are not claimed.",
    }
    with open(os.path.join(HERE, "MANIFEST.json"), "w") as f:
        json.dump(m, f, indent=1)
        f.write("\n")


HOOK_COMMITS = ["f54323b", "bfaa749", "1959c79", "eda03ea", "598ff92", "798573f", "2877291", "4ea1cbf"]

if __name__ == "__main__":
    main()
