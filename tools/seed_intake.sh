#!/bin/bash
# tools/seed_intake.sh <worktree dir> <seed name> <Cxx> [more checks…]
# 1. runs the check(s) against a scratch copy with the seed's patch, 2. confirms the demonstration both ways in the
# worktree (git apply -R / git apply, never stash), 3. if caught and confirmed: copies seed/ to seeded/<name> and
# removes the worktree.  Prints a short verdict.
V=$(cd "$(dirname "$0")/.." && pwd)
wt=$1; name=$2; shift 2
export GOFLAGS=-mod=mod GOPROXY=off GOSUMDB=off GOTOOLCHAIN=local
if [ "$1" = ALL ]; then
  # by-file seeds: every check (the broken property is whatever the seed says)
  out=$("$V/tools/try_patch_all.sh" "$wt/seed/patch.diff" 2>&1 | grep -v "pyenv\|^KNOWN")
  echo "$out" | cut -c1-260
  caught=no; echo "$out" | grep -q "^ALARM" && caught=yes
  echo "$out" | grep "^ALARM" | grep -vq "no-failing-input-found" || [ $caught = no ] || caught="only-nofail"
else
out=$("$V/tools/try_seed_copy.sh" "$wt/seed/patch.diff" "$@" 2>&1 | grep -v "pyenv\|^KNOWN")
echo "$out" | cut -c1-200
caught=no; echo "$out" | grep -q "^VIOLATION" && caught=yes
echo "$out" | grep "^VIOLATION" | grep -vq "no-failing-input-found" || [ $caught = no ] || caught="only-nofail"
fi
cd "$wt" || exit 2
if [ -f seed/demo.sh ]; then
  bash seed/demo.sh >/tmp/demo.out 2>&1; a=$?; git apply -R seed/patch.diff; bash seed/demo.sh >/tmp/demo.out 2>&1; b=$?; git apply seed/patch.diff
else
  pkg=$(dirname "$(grep -m1 '^+++ b/' seed/patch.diff | sed 's#+++ b/##')")
  t=$(grep -o "func Test[A-Za-z0-9_]*" seed/demo_test.go.txt | sed 's/func //' | paste -sd'|')
  cp seed/demo_test.go.txt $pkg/zz_seed_demo_test.go
  go test -vet=off -count=1 -run "$t" ./$pkg/ >/tmp/demo.out 2>&1; a=$?; git apply -R seed/patch.diff
  go test -vet=off -count=1 -run "$t" ./$pkg/ >/tmp/demo.out 2>&1; b=$?; git apply seed/patch.diff; rm -f $pkg/zz_seed_demo_test.go
fi
echo "demo: with=$a without=$b   caught=$caught"
if [ "$caught" = yes ] && [ $a -ne 0 ] && [ $b -eq 0 ]; then
  mkdir -p "$V/seeded/$name"; cp -r seed/* "$V/seeded/$name/"; rm -f "$V/seeded/$name/shk" "$V/seeded/$name/shk-race"
  cd /; git -C /repo worktree remove --force "$wt"; echo "saved seeded/$name"
else
  echo "NOT saved (strengthen the check, then run again)"
fi
