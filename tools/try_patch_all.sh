#!/bin/bash
# tools/try_patch_all.sh <patch> : all quick checks against a scratch copy of /repo with the patch applied
# (two waves: in-process checks, then the end-to-end ones).  Prints one line per check that does not pass.
set -u
patch=$1
rm -rf /tmp/seedrepo && cp -r /repo /tmp/seedrepo && (cd /tmp/seedrepo && git apply "$patch") || { echo "patch does not apply"; exit 2; }
rm -rf /tmp/verif-evidence-backup && cp -r /verif/evidence /tmp/verif-evidence-backup
trap '(cd /verif && python3 -c "from vlib.common import build_go, make_overlay; build_go(); from vlib import c14; c14.build_vaccess(); c14.regenerate(make_overlay())" >/dev/null 2>&1); sed -i "s#=> /tmp/seedrepo#=> /repo#" /verif/harness/go.mod; rm -rf /tmp/seedrepo /verif/evidence; mv /tmp/verif-evidence-backup /verif/evidence' EXIT
cd /verif
VERIF_REPO=/tmp/seedrepo ./setup.sh >/dev/null 2>&1
run() { p=$1; out=$(VERIF_REPO=/tmp/seedrepo ./check "$p" --tier quick 2>&1); rc=$?; if [ $rc -ne 0 ]; then echo "ALARM $p rc=$rc: $(echo "$out" | grep -E '^VIOLATION' | head -3 | tr '\n' ' ')"; for f in $(echo "$out" | grep -E '^VIOLATION' | sed 's/.*replay=//; s/ .*//' | head -2); do python3 -c "
import json,sys; d=json.load(open('$f')); print('    ', d.get('what','')[:300])"; done; fi; }
for p in C01 C02 C06 C08 C09 C10 C11 C15 C16 C17 C18 C20; do run $p & done; wait
for p in C03 C04 C05 C07 C12 C13 C19; do run $p & done; wait
echo "done $(basename $patch)"
