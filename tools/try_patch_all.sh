#!/bin/bash
# tools/try_patch_all.sh <patch (absolute path)> : all quick checks against a scratch copy of /repo with the patch
# applied (two waves: in-process checks, then the end-to-end ones).  One line per check that does not pass.
# Works from any copy of /verif; scratch copy = $SEEDREPO (default /tmp/seedrepo).
set -u
V=$(cd "$(dirname "$0")/.." && pwd)
S=${SEEDREPO:-/tmp/seedrepo}
patch=$1
rm -rf "$S" && cp -r "${REPO_SRC:-/repo}" "$S" && (cd "$S" && git apply "$patch") || { echo "patch does not apply"; exit 2; }
rm -rf "$S-evidence-backup" && cp -r "$V/evidence" "$S-evidence-backup"
restore() {
  (cd "$V" && python3 -c "from vlib.common import build_go, make_overlay; build_go(); from vlib import c14, regen_re; c14.build_vaccess(); c14.regenerate(make_overlay()); regen_re.build_regex_tables()" >/dev/null 2>&1)
  sed -i "s#=> $S#=> /repo#" "$V/harness/go.mod"
  # keep what the alarms pointed at (the evidence directory of the trial is discarded)
  rm -rf "$S-replays"; [ -d "$V/evidence/replays" ] && cp -r "$V/evidence/replays" "$S-replays"
  rm -rf "$S" "$V/evidence"; mv "$S-evidence-backup" "$V/evidence"
}
trap restore EXIT
cd "$V"
VERIF_REPO="$S" ./setup.sh >/dev/null 2>&1
run() { p=$1; out=$(VERIF_REPO="$S" ./check "$p" --tier quick 2>&1); rc=$?; if [ $rc -ne 0 ]; then echo "ALARM $p rc=$rc: $(echo "$out" | grep -E '^VIOLATION' | head -3 | tr '\n' ' ')"; for f in $(echo "$out" | grep -E '^VIOLATION' | sed 's/.*replay=//; s/ .*//' | head -2); do python3 -c "
import json,sys; d=json.load(open('$f')); print('    ', d.get('what','')[:300])"; done; fi; }
for p in C01 C02 C06 C08 C09 C10 C11 C14 C15 C16 C17 C18 C20; do run $p & done; wait
for p in C03 C04 C05 C07 C12 C13 C19; do run $p & done; wait
echo "done $(basename $patch)"
