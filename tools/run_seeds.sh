#!/bin/bash
# tools/run_seeds.sh [pattern] : regression over seeded/: every seeded change must make the check of its property
# report a VIOLATION (the property is the prefix of the directory name).  One line per seed.
V=$(cd "$(dirname "$0")/.." && pwd)
for d in "$V"/seeded/${1:-*}; do
  n=$(basename "$d"); p=${n%%-*}
  out=$("$V/tools/try_seed_copy.sh" "$d/patch.diff" "$p" 2>&1 | grep -v pyenv)
  if echo "$out" | grep -q "^VIOLATION"; then
    echo "caught   $n $(echo "$out" | grep -c '^VIOLATION') $(echo "$out" | grep '^VIOLATION' | grep -q 'no-failing-input-found$' && echo '(some without failing input)')"
  else
    echo "MISSED   $n :: $(echo "$out" | head -2 | tr '\n' ' ')"
  fi
done
