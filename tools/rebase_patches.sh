#!/bin/bash
# tools/rebase_patches.sh : after a fix in /repo, re-base every stored patch (seeded/*/patch.diff, harmless*/*.diff)
# that no longer applies: 3-way apply in a scratch worktree, regenerate the diff.  Reports what needs a hand.
V=$(cd "$(dirname "$0")/.." && pwd)
W=/tmp/rebase-wt
git -C /repo worktree remove --force $W 2>/dev/null; rm -rf $W
git -C /repo worktree add -q --detach $W HEAD
for p in "$V"/seeded/*/patch.diff "$V"/harmless/*.diff "$V"/harmless2/*.diff "$V"/harmless3/*.diff; do
  (cd $W && git checkout -q -- . && git clean -qfd)
  if (cd $W && git apply --check "$p" 2>/dev/null); then continue; fi
  if (cd $W && git apply --3way "$p" >/dev/null 2>&1) && ! (cd $W && git diff --name-only --diff-filter=U | grep -q .); then
    (cd $W && git diff HEAD -- . > "$p.new") && mv "$p.new" "$p"; echo "rebased  ${p#$V/}"
  else
    echo "CONFLICT ${p#$V/}"
  fi
  (cd $W && git reset -q --hard HEAD)
done
git -C /repo worktree remove --force $W
