#!/usr/bin/env python3
"""tools/mkseed_file.py <tag> <file>... : by-file seeding: worktree /tmp/seedF<tag>-<n> + prompt /tmp/seedF<tag>-<n>.full
for a sub-agent that must break one of the 20 properties through code in the given file (all known change summaries
are listed as exclusions)."""
import glob, json, os, shutil, subprocess, sys
HERE = os.path.dirname(os.path.abspath(__file__))
tmpl = open(os.path.join(HERE, "seed_by_file.tmpl")).read()
props = [json.loads(l) for l in open(os.path.join(HERE, "..", "properties.jsonl"))]
open("/tmp/props-full.txt", "w").write("\n".join("%s — %s\n    %s" % (p["id"], p["title"], p["statement"]) for p in props) + "\n")
tag = sys.argv[1]
known = []
for mf in sorted(glob.glob(os.path.join(HERE, "..", "seeded", "*", "meta.json"))):
    try:
        m = json.load(open(mf))
        known.append((m.get("files") or [""], m["summary"]))
    except Exception:
        pass
for n, f in enumerate(sys.argv[2:]):
    d = "seedF%s-%d" % (tag, n)
    text = tmpl.replace("@@FILE@@", f).replace("@@DIR@@", d)
    mine = [s for fs, s in known if any(os.path.basename(f) in (x or "") for x in fs)]
    text += ("\n\nAdditional notes.\n* Besides the two pkg/cmd tests mentioned, TestDefaultCallResolver (pkg/crdb/caller) and TestFatalStacktraceStderr "
             "(pkg/crdb/log) also fail before any change in this environment; ignore them too.\n* The binary only finds configuration files given as "
             "relative paths; `-n` parses without running, `-n -p` also prints the parsed configuration and the compiled steps; gnuplot is not installed "
             "(plot scripts plots/*.gp are still written).\n* The Go race detector works here (`go build -race`).\n")
    if mine:
        text += ("* Do NOT produce any of these already-known changes to this file (nor a trivial variation); find a DIFFERENT realistic slip:\n"
                 + "".join("  - %s\n" % k for k in mine))
    open("/tmp/%s.full" % d, "w").write(text)
    wt = "/tmp/" + d
    if not os.path.exists(wt):
        subprocess.check_call(["git", "-C", "/repo", "worktree", "add", "-q", "--detach", wt, "HEAD"])
        for g in ("version.go", "report_html.go"):
            shutil.copy(os.path.join(HERE, "..", ".build", "overlay", g), os.path.join(wt, "pkg", "cmd", g))
    print(wt, f)
