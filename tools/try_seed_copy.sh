#!/bin/bash
# tools/try_seed_copy.sh <patch (absolute path)> Cxx… : the given checks against a scratch copy of /repo with the
# patch applied (VERIF_REPO).  Works from any copy of /verif (uses the directory it lives in); the scratch copy is
# $SEEDREPO (default /tmp/seedrepo).  The evidence of the seeded run is kept in $SEEDREPO-evidence.
set -u
V=$(cd "$(dirname "$0")/.." && pwd)
S=${SEEDREPO:-/tmp/seedrepo}
patch=$1; shift
rm -rf "$S" && cp -r "${REPO_SRC:-/repo}" "$S" && (cd "$S" && git apply "$patch") || { echo "patch does not apply"; exit 2; }
rm -rf "$S-evidence-backup" && cp -r "$V/evidence" "$S-evidence-backup"
restore() {
  (cd "$V" && python3 -c "from vlib.common import build_go, make_overlay; build_go(); from vlib import c14; c14.build_vaccess(); c14.regenerate(make_overlay()); from vlib import regen_re; regen_re.build_regex_tables()" >/dev/null 2>&1)
  sed -i "s#=> $S#=> /repo#" "$V/harness/go.mod"
  rm -rf "$S-evidence"; cp -r "$V/evidence" "$S-evidence"
  rm -rf "$S" "$V/evidence"; mv "$S-evidence-backup" "$V/evidence"
}
trap restore EXIT
cd "$V"
for p in "$@"; do
  out=$(VERIF_REPO="$S" ./check "$p" --tier "${TIER:-quick}" 2>&1); rc=$?
  echo "== $p rc=$rc"
  echo "$out" | grep -E "^(VIOLATION|KNOWN-FINDING)" | cut -c1-300 | head -5
done
