#!/bin/bash
# like try_seed.sh but on a scratch copy of /repo (VERIF_REPO), for use while something else reads /repo
set -u
patch=$1; shift
rm -rf /tmp/seedrepo && cp -r /repo /tmp/seedrepo && cd /tmp/seedrepo && git apply "$patch" || { echo "patch does not apply"; exit 2; }
rm -rf /tmp/verif-evidence-backup && cp -r /verif/evidence /tmp/verif-evidence-backup
trap '(cd /verif && python3 -c "from vlib.common import build_go, make_overlay; build_go(); from vlib import c14; c14.build_vaccess(); c14.regenerate(make_overlay())" >/dev/null 2>&1); sed -i "s#=> /tmp/seedrepo#=> /repo#" /verif/harness/go.mod; rm -rf /tmp/seed-evidence; cp -r /verif/evidence /tmp/seed-evidence; rm -rf /tmp/seedrepo /verif/evidence; mv /tmp/verif-evidence-backup /verif/evidence' EXIT
cd /verif
for p in "$@"; do
  out=$(VERIF_REPO=/tmp/seedrepo ./check "$p" --tier "${TIER:-quick}" 2>&1); rc=$?
  echo "== $p rc=$rc"
  echo "$out" | grep -E "^(VIOLATION|KNOWN-FINDING)" | head -5
done
