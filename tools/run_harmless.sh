#!/bin/bash
# tools/run_harmless.sh [glob] : regression over harmless/ and harmless2/: behaviour-preserving patches, no check may alarm.
V=$(cd "$(dirname "$0")/.." && pwd)
for p in "$V"/harmless/${1:-*}.diff "$V"/harmless2/${1:-*}.diff "$V"/harmless3/${1:-*}.diff; do
  [ -f "$p" ] || continue
  out=$("$V/tools/try_patch_all.sh" "$p" 2>&1 | grep -v "pyenv\|^KNOWN")
  if echo "$out" | grep -q "^ALARM\|does not apply"; then echo "ALARM    $(basename $p) :: $(echo "$out" | grep '^ALARM\|does not apply' | head -3 | tr '\n' ' ' | cut -c1-300)"; else echo "quiet    $(basename $p)"; fi
done
