#!/bin/bash
# tools/try_seed.sh <patch.diff> <Cxx> [<Cyy> …]
# Applies a seeded change to /repo, runs the named checks (quick tier), undoes the change.
# Prints, per check, the exit status and the VIOLATION / KNOWN-FINDING lines.
set -u
patch=$1; shift
cd /repo || exit 2
if ! git diff --quiet; then echo "/repo has uncommitted changes"; exit 2; fi
git apply "$patch" || { echo "patch does not apply"; exit 2; }
rm -rf /tmp/verif-evidence-backup && cp -r /verif/evidence /tmp/verif-evidence-backup
trap 'git -C /repo checkout -- . ; git -C /repo clean -fdq pkg 2>/dev/null; rm -rf /verif/evidence; mv /tmp/verif-evidence-backup /verif/evidence' EXIT
cd /verif
for p in "$@"; do
  out=$(./check "$p" --tier "${TIER:-quick}" 2>&1); rc=$?
  echo "== $p rc=$rc"
  echo "$out" | grep -E "^(VIOLATION|KNOWN-FINDING)" | head -5
done
