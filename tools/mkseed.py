#!/usr/bin/env python3
"""tools/mkseed.py <round> <Cxx>... : create /tmp/seed<round>-Cxx (git worktree of /repo with the two generated files)
and the prompt /tmp/seed<round>-Cxx.full for a seeding sub-agent (property text only, nothing from /verif)."""
import json, os, subprocess, sys, shutil
HERE = os.path.dirname(os.path.abspath(__file__))
props = {json.loads(l)["id"]: json.loads(l) for l in open(os.path.join(HERE, "..", "properties.jsonl"))}
tmpl = open(os.path.join(HERE, "seed_prompt.tmpl")).read()
rnd = sys.argv[1]
for pid in sys.argv[2:]:
    p = props[pid]
    d = "seed%s-%s" % (rnd, pid)
    anchors = json.dumps(p["anchors"].get("mechanism", []) + [{"name": s["name"], "where": s["where"]} for s in p["anchors"].get("state", [])])
    text = (tmpl.replace("@@TITLE@@", p["title"]).replace("@@STMT@@", p["statement"]).replace("@@QUANT@@", p["quantifier"]["text"])
            .replace("@@ANCHORS@@", anchors).replace("@@DIR@@", d).replace("@@ID@@", pid))
    import glob
    known = []
    for mf in sorted(glob.glob(os.path.join(HERE, "..", "seeded", pid + "-*", "meta.json"))):
        try:
            known.append(json.load(open(mf))["summary"])
        except Exception:
            pass
    text += ("\n\nAdditional notes.\n* Besides the two pkg/cmd tests mentioned, TestDefaultCallResolver (pkg/crdb/caller) and TestFatalStacktraceStderr "
             "(pkg/crdb/log) also fail before any change in this environment; ignore them too.\n* The binary only finds configuration files given as "
             "relative paths (run it from the directory of the file or pass -I); `-n` parses without running, `-n -p` also prints the parsed configuration "
             "and the compiled steps; gnuplot is not installed (plot scripts plots/*.gp are still written).\n* The Go race detector works here (`go build -race`).\n")
    if known:
        text += ("* Do NOT produce any of these already-known changes (nor a trivial variation of one); find a DIFFERENT realistic slip, in another "
                 "function or mechanism the property depends on:\n" + "".join("  - %s\n" % k for k in known))
    open("/tmp/%s.full" % d, "w").write(text)
    wt = "/tmp/" + d
    if not os.path.exists(wt):
        subprocess.check_call(["git", "-C", "/repo", "worktree", "add", "-q", "--detach", wt, "HEAD"])
        for f in ("version.go", "report_html.go"):
            shutil.copy(os.path.join(HERE, "..", ".build", "overlay", f), os.path.join(wt, "pkg", "cmd", f))
    print(wt)
