import ShkModel.Driver.C01
import ShkModel.Driver.C18
import ShkModel.Driver.C19
import ShkModel.Driver.C12
import ShkModel.Driver.C13
import ShkModel.Driver.C15
import ShkModel.Driver.C16
import ShkModel.Driver.C17
import ShkModel.Driver.C06
import ShkModel.Driver.Aud
import ShkModel.Driver.C02
import ShkModel.Driver.C03
import ShkModel.Driver.C04
import ShkModel.Driver.C07
import ShkModel.Driver.C08
import ShkModel.Driver.C11
import ShkModel.Driver.C09
import ShkModel.Driver.C20
import ShkModel.Driver.C10
import ShkModel.Driver.Regex
/-! `shkdrv`: the executable model driver.  One request per line
(`<property> <op> <tokens…>`), one answer per line.  Imports only core-Lean model and
spec modules, so that it links. -/
open Shk.Drv

def dispatch (line : String) : String :=
  match (line.trimAscii.toString.splitOn " ").filter (· ≠ "") with
  | "C01" :: rest => C01.handle rest
  | "C18" :: rest => C18.handle rest
  | "C19" :: rest => C19.handle rest
  | "C12" :: rest => C12.handle rest
  | "C13" :: rest => C13.handle rest
  | "C15" :: rest => C15.handle rest
  | "C16" :: rest => C16.handle rest
  | "C17" :: rest => C17.handle rest
  | "C06" :: rest => C06.handle rest
  | "AUD" :: rest => Aud.handle rest
  | "C02" :: rest => C02.handle rest
  | "C03" :: rest => C03.handle rest
  | "C04" :: rest => C04.handle rest
  | "C07" :: rest => C07.handle rest
  | "C08" :: rest => C08.handle rest
  | "C11" :: rest => C11.handle rest
  | "C09" :: rest => C09.handle rest
  | "C20" :: rest => C20.handle rest
  | "C10" :: rest => C10.handle rest
  | "RE" :: rest => Regex.handle rest
  | _ => "bad-op"

partial def loop (h : IO.FS.Stream) (out : IO.FS.Stream) : IO Unit := do
  let line ← h.getLine
  if line.isEmpty then return ()
  out.putStrLn (dispatch line)
  out.flush
  loop h out

def main : IO Unit := do
  loop (← IO.getStdin) (← IO.getStdout)
