-- Root of the `ShkModel` library: every property module (which pulls in models and lemmas).
import ShkModel.Props.C01
import ShkModel.Props.C18
import ShkModel.Props.C02
import ShkModel.Props.C08
import ShkModel.Props.C11
import ShkModel.Props.C03
import ShkModel.Props.C06
import ShkModel.Props.C17
import ShkModel.Props.C04
import ShkModel.Props.C05
import ShkModel.Props.C07
import ShkModel.Props.C16
import ShkModel.Props.C19
import ShkModel.Props.C12
import ShkModel.Props.C13
import ShkModel.Props.C15
