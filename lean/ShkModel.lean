-- Root of the `ShkModel` library: every property module (which pulls in models and lemmas).
import ShkModel.Props.C01
import ShkModel.Props.C18
