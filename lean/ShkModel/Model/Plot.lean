/-!
# C19 — `pkg/cmd/plot.go`: the plot script written at the end of a play

Two things live here.

* `plotModel` / `subPlots` follow what `plot.go` *does*: the loops over `audienceNames`,
  `obsVarNames`, `actorNames`, `moodPeriods`, `actChanges` with their `continue` tests and running
  counters (`sigNum`, `numEvents`, `plotNum`, `numObj`), the widened x range, the second call for
  `lastplot.gp` when `Result.Repeat != nil`, and the list of `load` commands of `runme.gp`.
  `rangeOf` follows `expandTimeRange` + the "sanity checking" of `assemble` (result.go) and
  `repeatStartOf` the search for the next-to-last start of the repeated act.
* `plotSpec` is written from the text of property C19, with filters, maps and positions and no
  counters.

Times are exact rationals (Go: float64; the script prints them with `%f`, six decimals — the
correspondence compares with that granularity).  `math.IsInf` tests of `subPlots` are not modelled:
a recorded mood period always starts at the finite instant of a mood change (`audit.go` records
only non-clear periods, and `clear` is the only mood that can start at -Inf).
The abstract plot stops where gnuplot starts: which files are drawn in which box, in which style
(labelled points around lane `n` / line / audit verdicts), which rectangles and arrows are set.
Core only.
-/
namespace Shk.Plot

/-! ## The facts a play leaves behind -/

/-- `collectedSignal.drawEvents`: an `event` signal is drawn as labelled points on a lane of its
own, anything else (`scalar`, `delta`, a watched computed variable) as a line. -/
inductive Kind
  | event
  | scalar
deriving DecidableEq, Repr

/-- one entry of `observer.obsVarNames` (watch order). `actor = ""` for a computed variable. -/
structure Watched where
  actor : String
  sig : String
  kind : Kind
  hasData : Bool          -- `collectedSignal.hasData`
deriving DecidableEq, Repr

/-- one audience member (declaration order = `cfg.audienceNames`). -/
structure Member where
  name : String
  onlyHelps : Bool        -- `observer.disablePlot`
  hasData : Bool          -- `observer.hasData`
  watched : List Watched
  audited : Bool          -- `auditor.hasData`: the collector received a verdict of this member
deriving DecidableEq, Repr

/-- one cast member (cast order = `cfg.actorNames`). -/
structure Actor where
  name : String
  hasData : Bool          -- `actor.hasData`: at least one action report
deriving DecidableEq, Repr

/-- `moodPeriod`: only non-clear periods are ever recorded (audit.go). -/
structure Period where
  start : Rat
  stop : Rat
  mood : String
deriving DecidableEq, Repr

/-- `actChange` -/
structure ActStart where
  ts : Rat
  num : Nat
deriving DecidableEq, Repr

structure Facts where
  cast : List Actor
  audience : List Member
  moods : List Period
  acts : List ActStart            -- every act start, in order, repetitions included
  minTime : Rat                   -- `Result.MinTime`
  maxTime : Rat                   -- `Result.MaxTime`
  repeatStart : Option Rat        -- `Result.Repeat.StartTime` when `Result.Repeat != nil`
deriving Repr

/-! ## The abstract plot -/

inductive Curve
  /-- `'<member>.<actor>.<sig>.csv' using 1:(lane+$3):2 with labels hypertext point`, titled
  `… (around y=lane)` -/
  | events (actor sig : String) (lane : Nat)
  /-- `'<member>.<actor>.<sig>.csv' using 1:2 with linespoints` -/
  | line (actor sig : String)
  /-- `'audit-<member>.csv' using 1:(.87):(faces[$2+1]) with labels` -/
  | faces
  /-- `'audit-<member>.csv' using 1:(.8):3 with labels hypertext point` -/
  | verdicts
deriving DecidableEq, Repr

/-- an x coordinate of a rectangle: `graph 0`, `first t`, `graph 1` -/
inductive Edge
  | left
  | at (t : Rat)
  | right
deriving DecidableEq, Repr

structure Band where
  lo : Edge
  hi : Edge
  mood : String
deriving DecidableEq, Repr

structure Box where
  member : String
  curves : List Curve
  /-- `set yrange [0:n]` when there are event lanes, autoscale otherwise -/
  yTop : Option Nat
deriving DecidableEq, Repr

/-- one script (`plot.gp` or `lastplot.gp`) -/
structure Sub where
  xmin : Rat
  xmax : Rat
  rows : Nat                         -- `set multiplot layout rows,1`
  actLines : List Rat                -- `set arrow from t, graph 0 to t, graph 1`
  lanes : List (String × Nat)        -- the action box: actor, lane
  laneTop : Nat                      -- `set yrange [0:laneTop]` of the action box
  bands : List Band                  -- `set object k rectangle …`, k = position
  boxes : List Box
deriving DecidableEq, Repr

structure Plot where
  main : Sub
  zoom : Option Sub
  /-- `runme.gp`: the scripts loaded, in order -/
  loads : List String
  /-- `runme.gp`: the number of boxes the page sizes are computed from -/
  pageRows : Nat
deriving DecidableEq, Repr

/-! ## What plot.go does -/

/-- the loop over `a.observer.obsVarNames`; state: `sigNum`, `group.numEvents`, `group.plots`. -/
def curvesLoop : List Watched → Nat → Nat → List Curve → List Curve × Nat
  | [], _, numEvents, plots => (plots, numEvents)
  | w :: ws, sigNum, numEvents, plots =>
    if !w.hasData then curvesLoop ws sigNum numEvents plots          -- continue
    else match w.kind with
      | .event => curvesLoop ws (sigNum + 1) (numEvents + 1) (plots ++ [.events w.actor w.sig sigNum])
      | .scalar => curvesLoop ws sigNum numEvents (plots ++ [.line w.actor w.sig])

/-- one iteration body of the loop over `audienceNames` once the skip test has passed -/
def groupOf (m : Member) : Box :=
  { member := m.name
    curves := (curvesLoop m.watched 1 0 []).1 ++ (if m.audited then [.faces, .verdicts] else [])
    yTop := if (curvesLoop m.watched 1 0 []).2 > 0 then some ((curvesLoop m.watched 1 0 []).2 + 1) else none }

/-- the loop over `ap.cfg.audienceNames` -/
def groupsLoop : List Member → List Box
  | [] => []
  | m :: ms =>
    if !m.hasData || m.onlyHelps then groupsLoop ms                  -- continue
    else groupOf m :: groupsLoop ms

/-- `numActiveActors` -/
def countActive : List Actor → Nat
  | [] => 0
  | a :: as => if a.hasData then countActive as + 1 else countActive as

/-- the loop over `actorNames` with `plotNum` -/
def lanesLoop : List Actor → Nat → List (String × Nat)
  | [], _ => []
  | a :: as, plotNum =>
    if !a.hasData then lanesLoop as plotNum                          -- continue
    else (a.name, plotNum) :: lanesLoop as (plotNum + 1)

/-- the body of `for i := 1; i < len(actChanges); i++` -/
def actLoop (xmin : Rat) : List ActStart → List Rat
  | [] => []
  | a :: as => if a.ts < xmin then actLoop xmin as else a.ts :: actLoop xmin as

/-- the loop over `moodPeriods` (the x range is the widened one) -/
def bandsLoop (xmin xmax : Rat) : List Period → List Band
  | [] => []
  | p :: ps =>
    if xmax ≤ p.start ∨ p.stop ≤ xmin then bandsLoop xmin xmax ps    -- continue
    else { lo := if xmin ≤ p.start then .at p.start else .left
           hi := if p.stop ≤ xmax then .at p.stop else .right
           mood := p.mood } :: bandsLoop xmin xmax ps

/-- `visibleDuration := maxTime - minTime; minTime -= .05 * visibleDuration` -/
def widenLo (lo hi : Rat) : Rat := lo - (1 / 20 : Rat) * (hi - lo)
/-- `maxTime += .05 * visibleDuration` -/
def widenHi (lo hi : Rat) : Rat := hi + (1 / 20 : Rat) * (hi - lo)

/-- `subPlots(ctx, file, minTime, maxTime)` -/
def subPlots (f : Facts) (lo hi : Rat) : Sub :=
  { xmin := widenLo lo hi
    xmax := widenHi lo hi
    rows := (groupsLoop f.audience).length + 1
    actLines := actLoop (widenLo lo hi) (f.acts.drop 1)
    lanes := if countActive f.cast = 0 then [] else lanesLoop f.cast 1
    laneTop := countActive f.cast + 1
    bands := bandsLoop (widenLo lo hi) (widenHi lo hi) f.moods
    boxes := groupsLoop f.audience }

/-- the `load` lines of one section of `runme.gp` -/
def loadsOnce (rep : Bool) : List String := if rep then ["plot.gp", "lastplot.gp"] else ["plot.gp"]

/-- `plot(ctx, result)` -/
def plotModel (f : Facts) : Plot :=
  { main := subPlots f f.minTime f.maxTime
    zoom := match f.repeatStart with
      | none => none
      | some s => some (subPlots f s f.maxTime)
    loads := loadsOnce f.repeatStart.isSome ++ loadsOnce f.repeatStart.isSome ++ loadsOnce f.repeatStart.isSome
    pageRows := (subPlots f f.minTime f.maxTime).rows }

/-! ## What result.go does to the time range and the repeated section -/

/-- `expandTimeRange`; `none` stands for the initial `+Inf` (min) / `-Inf` (max). -/
def expand (r : Option Rat × Option Rat) (t : Rat) : Option Rat × Option Rat :=
  (match r.1 with
    | none => some t
    | some mn => if t < mn then some t else some mn,
   match r.2 with
    | none => some t
    | some mx => if mx < t then some t else some mx)

/-- `if ap.maxTime < ap.minTime { swap }` -/
def swapLo (mn mx : Rat) : Rat := if mx < mn then mx else mn
def swapHi (mn mx : Rat) : Rat := if mx < mn then mn else mx
/-- `if ap.minTime > 0 { ap.minTime = 0 }`: the axis starts at zero at the latest -/
def clampLo (a : Rat) : Rat := if 0 < a then 0 else a
/-- `if ap.maxTime < 0 { ap.maxTime = 1 }` -/
def clampHi (b : Rat) : Rat := if b < 0 then 1 else b
/-- `if ap.maxTime < ap.minTime+1 { ap.maxTime = ap.minTime + 1 }` -/
def atLeastOne (a b : Rat) : Rat := if b < a + 1 then a + 1 else b

/-- the "sanity checking" of `assemble`, on finite bounds -/
def sanitize (mn mx : Rat) : Rat × Rat :=
  (clampLo (swapLo mn mx), atLeastOne (clampLo (swapLo mn mx)) (clampHi (swapHi mn mx)))

/-- `Result.MinTime, Result.MaxTime` from the instants handed to `expandTimeRange` -/
def rangeOf (instants : List Rat) : Rat × Rat :=
  match instants.foldl expand (none, none) with
  | (some mn, some mx) => sanitize mn mx
  | r =>                                        -- still infinite: `expandTimeRange(0)`
    match expand r 0 with
    | (some mn, some mx) => sanitize mn mx
    | _ => (0, 1)                               -- unreachable

/-- the loop of `assemble` over `actChanges`: state `(beforeLastTs, repeatTs)`, `none` = `-Inf` -/
def repeatLoop (repeatActNum : Nat) : List ActStart → Option Rat × Option Rat → Option Rat × Option Rat
  | [], st => st
  | a :: as, st => if a.num = repeatActNum then repeatLoop repeatActNum as (st.2, some a.ts)
                   else repeatLoop repeatActNum as st

/-- `Result.Repeat.StartTime` (`none`: `Result.Repeat == nil`) -/
def repeatStartOf (repeatActNum : Nat) (acts : List ActStart) : Option Rat :=
  if repeatActNum > 0 then
    match repeatLoop repeatActNum acts (none, none) with
    | (some b, _) => some b                     -- "use the next-to-last iteration if available"
    | (none, r) => r
  else none

/-! ## What audit.go records about moods -/

/-- `auditionState.curMood`, `curMoodStart` and `auditionResults.moodPeriods` -/
structure MoodState where
  cur : String
  start : Rat           -- meaningful while `cur` is not `clear` (Go: -Inf before the first change)
  periods : List Period
deriving Repr

/-- `collectAndAuditMood` for one `moodChange` (instant, new mood) -/
def moodStep (st : MoodState) (c : Rat × String) : MoodState :=
  if c.2 = st.cur then st                                   -- "No mood change - do nothing."
  else { cur := c.2
         start := c.1
         periods := if st.cur ≠ "clear" then st.periods ++ [⟨st.start, c.1, st.cur⟩] else st.periods }

/-- `checkFinal`: "Close the mood chapter, if one was open." -/
def moodFinal (st : MoodState) (elapsed : Rat) : List Period :=
  if st.cur ≠ "clear" then st.periods ++ [⟨st.start, elapsed, st.cur⟩] else st.periods

/-- `moodPeriods` at the end of an audition that saw `changes` and ended at `elapsed` -/
def periodsOf (changes : List (Rat × String)) (elapsed : Rat) : List Period :=
  moodFinal (changes.foldl moodStep ⟨"clear", 0, []⟩) elapsed

/-- the mood at instant `x` on a stage whose mood was `cur` before `changes`: that of the last
change that is not later than `x` -/
def moodAt (cur : String) (changes : List (Rat × String)) (x : Rat) : String :=
  ((changes.filter fun c => c.1 ≤ x).getLast?.map (·.2)).getD cur

/-! ## What property C19 asks for -/

def Watched.isEvent (w : Watched) : Bool := w.kind == .event

/-- the curve of a watched variable that has `before` event curves in front of it in its box -/
def curveOf (w : Watched) (before : Nat) : Curve :=
  match w.kind with
  | .event => .events w.actor w.sig (before + 1)
  | .scalar => .line w.actor w.sig

/-- one curve per watched variable (all of `ws` have data), events on lanes 1, 2, … -/
def specCurves (before : Nat) : List Watched → List Curve
  | [] => []
  | w :: ws => curveOf w before :: specCurves (if w.isEvent then before + 1 else before) ws

def withData (m : Member) : List Watched := m.watched.filter (·.hasData)

def eventCount (ws : List Watched) : Nat := (ws.filter (·.isEvent)).length

def specBox (m : Member) : Box :=
  { member := m.name
    curves := specCurves 0 (withData m) ++ (if m.audited then [.faces, .verdicts] else [])
    yTop := if eventCount (withData m) > 0 then some (eventCount (withData m) + 1) else none }

/-- a period is drawn in a script iff it meets the open x range of that script -/
def Period.meets (p : Period) (xmin xmax : Rat) : Bool := p.start < xmax && xmin < p.stop

/-- the band of a period, cut at the borders of the x range -/
def specBand (xmin xmax : Rat) (p : Period) : Band :=
  { lo := if p.start < xmin then .left else .at p.start
    hi := if xmax < p.stop then .right else .at p.stop
    mood := p.mood }

def activeActors (f : Facts) : List String := (f.cast.filter (·.hasData)).map (·.name)

def specSub (f : Facts) (lo hi : Rat) : Sub :=
  { xmin := lo - (hi - lo) / 20
    xmax := hi + (hi - lo) / 20
    rows := 1 + (f.audience.filter fun m => m.hasData && !m.onlyHelps).length
    actLines := ((f.acts.drop 1).filter fun a => lo - (hi - lo) / 20 ≤ a.ts).map (·.ts)
    lanes := (activeActors f).zipIdx 1
    laneTop := (activeActors f).length + 1
    bands := (f.moods.filter fun p => p.meets (lo - (hi - lo) / 20) (hi + (hi - lo) / 20)).map
               (specBand (lo - (hi - lo) / 20) (hi + (hi - lo) / 20))
    boxes := (f.audience.filter fun m => m.hasData && !m.onlyHelps).map specBox }

/-- where the zoomed plot begins (manual: "the last two iterations of the repeated act(s)"): at the
next-to-last start of the act named by `repeat from`, at its only start when it started once;
no repeated section when there is no such act or it never started -/
def specRepeatStart (repeatActNum : Nat) (acts : List ActStart) : Option Rat :=
  if repeatActNum = 0 then none else
    match ((acts.filter fun a => a.num = repeatActNum).map (·.ts)).reverse with
    | [] => none
    | [x] => some x
    | _ :: y :: _ => some y

def plotSpec (f : Facts) : Plot :=
  { main := specSub f f.minTime f.maxTime
    zoom := f.repeatStart.map fun s => specSub f s f.maxTime
    loads := if f.repeatStart.isSome
             then ["plot.gp", "lastplot.gp", "plot.gp", "lastplot.gp", "plot.gp", "lastplot.gp"]
             else ["plot.gp", "plot.gp", "plot.gp"]
    pageRows := 1 + (f.audience.filter fun m => m.hasData && !m.onlyHelps).length }

/-- where an edge lies on the x axis of a script -/
def Edge.pos (xmin xmax : Rat) : Edge → Rat
  | .left => xmin
  | .at t => t
  | .right => xmax

/-- the collector's bookkeeping (collector.go): a member "has data" exactly when one of its watched
variables or its auditor has. -/
def Member.consistent (m : Member) : Prop :=
  m.hasData = (m.watched.any (·.hasData) || m.audited)

end Shk.Plot
