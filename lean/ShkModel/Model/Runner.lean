/-!
# C07 — the command runner `runActorCommandWithConsumer` (pkg/cmd/commands.go) as a finite
transition system

Phases: *reading* (the first select loop), *draining* (the goroutine that drains the output
while `cmd.Wait()` blocks), *drained* (that goroutine is gone, `cmd.Wait()` still blocks),
*returned*.  Everything the outside world does is an event; the runner reacts at once.  A command that
ignores SIGHUP is simply one whose `exit` event does not come: no event is ever forced.
`Params.watcher = true` is the code as repaired (a watcher keeps listening for stop / cancel /
time-out / term while `cmd.Wait()` blocks); `false` is the pinned code.  Core only.
-/
namespace Shk.Runner

structure Params where
  interruptible : Bool     -- the stopper is listened to (actions, spotlights; not cleanups)
  hasTerm : Bool           -- a termination channel is given (spotlights)
  watcher : Bool           -- repaired code
deriving DecidableEq, Repr

inductive Phase | reading | draining | drained | returned
deriving DecidableEq, Repr

structure St where
  phase : Phase := .reading
  alive : Bool := true        -- the command's process group leader has not exited
  pipe : Bool := true         -- the command (or a child of it) still holds its output open
  orphans : Bool := false     -- the leader has exited and children of it are still there (they hold the output)
  interrupt : Bool := false   -- the `interrupt` flag
  hup : Bool := false         -- SIGHUP was sent to the process group
  killed : Bool := false      -- the command was killed
  stop : Bool := false        -- the stopper quiesces            (sticky)
  cancel : Bool := false      -- context cancelled / deadline   (sticky)
  term : Bool := false        -- termination channel closed     (sticky)
  grace : Bool := false       -- two seconds have passed since the SIGHUP
  lateSignal : Bool := false  -- a signal was sent after the process had exited
deriving DecidableEq, Repr

inductive Ev
  | line      -- a line of output arrives
  | eof       -- the command closes its output (e.g. `exec >>action.log`)
  | exit      -- the process exits by itself (or because it was signalled), nothing of its group is left
  | exitKeep  -- the group leader (the shell) exits, children it started in the background go on and hold the output
  | stop | cancel | term
  | twoSec    -- two seconds pass
deriving DecidableEq, Repr

def allEvents : List Ev := [.line, .eof, .exit, .exitKeep, .stop, .cancel, .term, .twoSec]

/-- is the request to stop effective for this runner? -/
def St.asked (p : Params) (s : St) : Bool :=
  (s.stop && p.interruptible) || s.cancel || (s.term && p.hasTerm)

/-- the signals go to the process group, which is named by the pid of its leader (repair bfee10c): they reach the group
as long as a member of it is left, the leader or its children -/
def sendHup (s : St) : St :=
  if s.alive || s.orphans then { s with hup := true } else { s with lateSignal := true }

def sendKill (s : St) : St :=
  if s.alive || s.orphans then { s with killed := true } else s      -- killCmd() on a finished command is a no-op

/-- entering the drain goroutine: `if interrupt { SIGHUP to the group }` -/
def enterDrain (s : St) : St :=
  if s.interrupt then sendHup { s with phase := .draining } else { s with phase := .draining }

/-- the watcher of the repaired code: once asked to stop, SIGHUP (once), kill after two seconds -/
def watch (p : Params) (s : St) : St :=
  if p.watcher && s.asked p && s.phase != .reading && s.phase != .returned then
    let s1 := if s.hup then s else sendHup s
    if s1.grace then sendKill s1 else s1
  else s

def maybeReturn (s : St) : St :=
  if s.phase == .drained && !s.alive then { s with phase := .returned } else s

def step (p : Params) (s : St) (e : Ev) : St :=
  if s.phase == .returned then s else
  let s' : St :=
    match e with
    | .line => s
    | .eof =>
      if !s.pipe then s else
      -- (children left behind by the shell close the output when they end: nothing of the group is left then)
      match s.phase with
      | .reading => { s with pipe := false, orphans := false, phase := .drained }   -- leaves both loops: nothing was interrupted
      | .draining => { s with pipe := false, orphans := false, phase := .drained }
      | _ => { s with pipe := false, orphans := false }
    | .exit =>
      if s.alive || s.orphans then
        { s with alive := false, orphans := false, pipe := false,
                 phase := if s.phase == .reading || s.phase == .draining then .drained else s.phase }
      else s
    | .exitKeep =>
      -- the leader is gone, the output stays open: the read loops go on, `cmd.Wait()` is not even reached while reading
      if s.alive && s.pipe then { s with alive := false, orphans := true } else s
    | .stop =>
      let s1 := { s with stop := true }
      if !p.interruptible then s1 else
      match s.phase with
      | .reading => enterDrain { s1 with interrupt := true }
      | .draining => if s.interrupt then s1 else sendKill s1
      | _ => s1
    | .cancel =>
      let s1 := { s with cancel := true }
      match s.phase with
      | .reading => enterDrain { s1 with interrupt := true }
      | .draining => if s.interrupt then s1 else sendKill s1
      | _ => s1
    | .term =>
      let s1 := { s with term := true }
      if !p.hasTerm then s1 else
      match s.phase with
      | .reading => enterDrain { s1 with interrupt := true }
      | _ => s1
    | .twoSec =>
      -- only meaningful once a SIGHUP was sent
      if s.hup then
        let s1 := { s with grace := true }
        if s.phase == .draining && s.interrupt then sendKill s1 else s1
      else s
  maybeReturn (watch p s')

def run (p : Params) (evs : List Ev) : St := evs.foldl (step p) {}

/-- reachable states: work-list closure with fuel -/
def reach (p : Params) : Nat → List St → List St → List St
  | 0, seen, _ => seen
  | _, seen, [] => seen
  | n + 1, seen, s :: todo =>
    let new := (allEvents.map (step p s)).foldl (fun acc t => if seen.contains t || acc.contains t then acc else acc ++ [t]) []
    reach p n (seen ++ new) (todo ++ new)

def reachable (p : Params) : List St := reach p 4000 [{}] [{}]

/-- the set is closed under every event -/
def closed (p : Params) (S : List St) : Bool :=
  S.contains {} && S.all fun s => allEvents.all fun e => S.contains (step p s e)

def allParams : List Params :=
  [true, false].flatMap fun a => [true, false].flatMap fun b => [true, false].map fun d => ⟨a, b, d⟩

/-! ## the properties, as predicates on a state -/

/-- asked to stop while the command is alive ⇒ its process group got a SIGHUP (or was killed) -/
def interruptReaches (p : Params) (s : St) : Bool :=
  !(s.asked p && (s.alive || s.orphans) && s.phase != .returned) || s.hup || s.killed

/-- … and two seconds later it is killed -/
def killedAfterGrace (p : Params) (s : St) : Bool :=
  !(s.asked p && (s.alive || s.orphans) && s.grace && s.phase != .returned) || s.killed

/-- the runner returns only after the process has exited and its output was drained -/
def returnsAfterExit (s : St) : Bool := !(s.phase == .returned) || (!s.alive && !s.pipe)

def noLateSignal (s : St) : Bool := !s.lateSignal

end Shk.Runner
