import ShkModel.Model.Fsm
import ShkModel.Model.Expr
/-!
# The audit loop (`pkg/cmd/audit.go`): rounds, activation periods, assignments, expectations

`round` mirrors `audition.checkEvent`; `visit` mirrors `checkEventForAuditor`;
`run` mirrors `audition.audit` (initial mood round, events, final round).
Shared by C01 (driver), C02, C08 and C11.  Core only.
-/
namespace Shk.Aud
open Shk

structure Assign where
  target : String
  expr : Expr
  mode : Mode
  n : Nat
deriving Repr

structure Member where
  name : String
  /-- `auditor.activeCond` (always present for a member with auditor state) -/
  cond : Expr
  assigns : List Assign
  /-- `expectFsm` and `expectExpr` -/
  expect : Option (Table × Expr)
  /-- variables named in `watches` clauses -/
  watches : List VarName
  /-- `expects like`: the predicate was copied, its variables are *not* registered as watched -/
  borrowedExpect : Bool := false
deriving Repr

/-- has an `auditorState` (`makeAuditionState`) -/
def Member.isAuditor (m : Member) : Bool := m.expect.isSome || !m.assigns.isEmpty

/-- every variable mentioned by a member (`maybeAddVar(a, vn)` calls of the parser) -/
def Member.mentions (m : Member) : List VarName :=
  m.cond.deps ++ m.assigns.flatMap (·.expr.deps) ++
    (match m.expect with
     | some (_, e) => if m.borrowedExpect then [] else e.deps
     | none => []) ++ m.watches

structure Cfg where
  members : List Member     -- in `audienceNames` order
deriving Repr

def Cfg.watchers (c : Cfg) (v : VarName) : List Member := c.members.filter (·.mentions.contains v)

inductive Typ | event | scalar | delta
deriving DecidableEq, Repr

def Typ.code : Typ → Nat | .event => 0 | .scalar => 1 | .delta => 2

/-- what the audition sends to the collector / the judge -/
inductive Out
  | obs (ts : Rat) (typ : Typ) (v : VarName) (val : Val)
  /-- `lbl` is a ghost field (never printed, never compared): the table label that was fired,
  0 = predicate true, 1 = predicate not true, 2 = end of period.  Used by the C02 theorems. -/
  | rep (ts : Rat) (auditor : String) (r : Rep) (lbl : Nat)
  | repErr (ts : Rat) (auditor : String)          -- evaluation error of the predicate (resErr)
  | start (auditor : String)                      -- "<a> starts auditing"
  | stop (auditor : String)                       -- "<a> stops auditing"
deriving Repr

structure AudSt where
  activated : Bool := false
  auditing : Bool := false
  fsm : Nat := 0
deriving Repr, DecidableEq

inductive Abort | evalError | unmodelled
deriving Repr, DecidableEq

structure St where
  mood : String := "clear"
  moodStart : Option Rat := none       -- none = -∞
  aud : String → AudSt := fun _ => {}
  activated : VarName → Bool := fun _ => false
  vals : VarName → Val := fun _ => .sc .nil
  out : List Out := []                 -- reversed
  /-- set when an expression of an `audits`/`computes`/`collects` clause failed to evaluate:
  the audit loop returns the error; only the deferred final round still runs. -/
  abort : Option Abort := none

def St.emit (s : St) (o : Out) : St := { s with out := o :: s.out }

def setAud (s : St) (n : String) (a : AudSt) : St :=
  { s with aud := fun m => if m = n then a else s.aud m }

/-- `setAndActivateVar`.  `collectChange` is false for signal samples after the C08 repair
(`fix:` commit): those are forwarded by `checkEvent` itself, once. -/
def setVar (c : Cfg) (s : St) (ts : Rat) (typ : Typ) (v : VarName) (val : Val)
    (collectChange : Bool) : St :=
  if val.isNil then s else
  if (c.watchers v).isEmpty then
    { s with vals := fun w => if w = v then val else s.vals w,
             activated := fun w => if w = v then true else s.activated w }
  else
    { s with vals := fun w => if w = v then val else s.vals w,
             activated := fun w => if w = v then true else s.activated w,
             aud := fun m =>
               if ((c.watchers v).any fun w => w.name = m && w.isAuditor)
               then { s.aud m with activated := true } else s.aud m,
             out := if collectChange && val != s.vals v then .obs ts typ v val :: s.out else s.out }

def hasDeps (s : St) (e : Expr) : Bool := e.deps.all s.activated

/-- `processFsmStateChange` -/
def fireExpect (s : St) (ts : Rat) (name : String) (T : Table) (lbl : Nat) : St :=
  (setAud s name { s.aud name with fsm := (T.fire (s.aud name).fsm lbl).1 }).emit
    (.rep ts name (T.fire (s.aud name).fsm lbl).2 lbl)

def valTyp : Val → Typ
  | .sc (.num _) => .scalar
  | _ => .event

def curArray (v : Val) : List Sc :=
  match v with
  | .arr l => l
  | .sc .nil => []
  | .sc y => [y]

/-- one assignment of `processAssignments` -/
def assignOne (c : Cfg) (ts : Rat) (s : St) (a : Assign) : St :=
  if s.abort.isSome then s else
  if !hasDeps s a.expr then s else
  match eval s.vals a.expr with
  | .err => { s with abort := some .evalError }
  | .unmodelled => { s with abort := some .unmodelled }
  | .ok v =>
    match a.mode with
    | .single => setVar c s ts (valTyp v) ⟨"", a.target⟩ v true
    | mode =>
      match v with
      | .arr _ => { s with abort := some .unmodelled }      -- nested arrays
      | .sc x =>
        match collectStep mode a.n (curArray (s.vals ⟨"", a.target⟩)) x with
        | none => { s with abort := some .evalError }
        | some l => setVar c s ts .event ⟨"", a.target⟩ (.arr l) true

/-- `processAssignments` -/
def assignAll (c : Cfg) (ts : Rat) (s : St) (as : List Assign) : St := as.foldl (assignOne c ts) s

/-- `checkExpect` -/
def checkExpect (s : St) (ts : Rat) (m : Member) : St :=
  if s.abort.isSome then s else
  match m.expect with
  | none => s
  | some (T, e) =>
    if !hasDeps s e then s else
    match eval s.vals e with
    | .err => s.emit (.repErr ts m.name)
    | .unmodelled => { s with abort := some .unmodelled }
    | .ok (.sc (.bool true)) => fireExpect s ts m.name T 0
    | .ok _ => fireExpect s ts m.name T 1

/-- the activation condition of this round: `none` = dependencies not satisfied -/
def condOf (final : Bool) (s : St) (m : Member) : Option (Except Abort Bool) :=
  if final then some (.ok false)
  else if !hasDeps s m.cond then none
  else match eval s.vals m.cond with
    | .ok (.sc (.bool b)) => some (.ok b)
    | .ok _ => some (.ok false)
    | .err => some (.error .evalError)
    | .unmodelled => some (.error .unmodelled)

/-- period start: "<a> starts auditing", fresh modality state (`startOfAuditPeriod`) -/
def startPeriod (s : St) (m : Member) : St :=
  (setAud s m.name { s.aud m.name with
      auditing := true
      fsm := (match m.expect with | some (T, _) => T.start | none => (s.aud m.name).fsm) }).emit
    (.start m.name)

/-- the end-of-period judgement: the `end` label -/
def endJudge (s : St) (ts : Rat) (m : Member) : St :=
  match m.expect with
  | some (T, _) => fireExpect s ts m.name T 2
  | none => s

/-- "<a> stops auditing" -/
def stopPeriod (s : St) (m : Member) : St :=
  (setAud s m.name { s.aud m.name with auditing := false }).emit (.stop m.name)

/-- period end: the `end` label, "<a> stops auditing" -/
def endPeriod (s : St) (ts : Rat) (m : Member) : St :=
  if s.abort.isSome then s else stopPeriod (endJudge s ts m) m

/-- `checkEventForAuditor` -/
def visit (c : Cfg) (final : Bool) (ts : Rat) (s : St) (m : Member) : St :=
  if s.abort.isSome then s else
  match condOf final s m with
  | none => s
  | some (.error e) => { s with abort := some e }
  | some (.ok auditing) =>
    if auditing && !(s.aud m.name).auditing then
      -- a period starts in this round
      checkExpect (assignAll c ts (startPeriod s m) m.assigns) ts m
    else if !(s.aud m.name).auditing then s
    else if auditing then
      -- inside a period
      checkExpect (assignAll c ts s m.assigns) ts m
    else
      -- the closing round of the period
      endPeriod (checkExpect (assignAll c ts s m.assigns) ts m) ts m

structure Sample where
  typ : Typ
  v : VarName
  val : Val
deriving Repr

/-- the assignments at the head of `checkEvent` -/
def beginRound (c : Cfg) (ts : Rat) (samples : List Sample) (s : St) : St :=
  let s0 : St := { s with aud := fun m => { s.aud m with activated := false },
                          activated := fun v => if v.actor ≠ "" then false else s.activated v }
  let s1 := setVar c s0 ts .scalar ⟨"", "t"⟩ (.sc (.num ts)) true
  let s2 := setVar c s1 ts .event ⟨"", "mood"⟩ (.sc (.str s.mood)) true
  let moodt : Rat := match s.moodStart with | none => ts | some st => ts - st
  let s3 := setVar c s2 ts .scalar ⟨"", "moodt"⟩ (.sc (.num moodt)) true
  samples.foldl (fun st x =>
      if x.val.isNil then st else
      (setVar c st ts x.typ x.v x.val false).emit (.obs ts x.typ x.v x.val)) s3

/-- is member `m` visited in this round?  In the final round every member that is still
auditing is visited, woken or not (C02 repair, `fix:` commit).  `visitedWoken` below is the rule before the second
repair: an `audits throughout` auditor none of whose variables is ever assigned was never visited at all. -/
def visitedWoken (final : Bool) (s : St) (m : Member) : Bool :=
  m.isAuditor && ((s.aud m.name).activated || (final && (s.aud m.name).auditing))

def visited (final : Bool) (s : St) (m : Member) : Bool :=
  m.isAuditor && ((s.aud m.name).activated || (final && (s.aud m.name).auditing)
    -- an auditor whose condition depends on nothing (`audits throughout`) does not wait for a variable of its
    -- other expressions to be assigned before its period starts (repair of the "never woken" defect)
    || (!final && !(s.aud m.name).auditing && m.cond.deps.isEmpty))

/-- `checkEvent` -/
def round (c : Cfg) (final : Bool) (ts : Rat) (samples : List Sample) (s : St) : St :=
  if s.abort.isSome then s else
  c.members.foldl (fun st m => if visited final st m then visit c final ts st m else st)
    (beginRound c ts samples s)

inductive Ev
  | mood (ts : Rat) (m : String)
  | sig (ts : Rat) (samples : List Sample)
deriving Repr

/-- `collectAndAuditMood` / `processMoodChange` -/
def stepEv (c : Cfg) (s : St) : Ev → St
  | .mood ts m =>
    if m = s.mood then s else
    let s1 := round c false ts [] s                 -- "the mood is ending"
    if s1.abort.isSome then s1 else
    round c false ts [] { s1 with moodStart := some ts, mood := m }
  | .sig ts xs => round c false ts xs s

def start (c : Cfg) : St :=
  round c false 0 [] { ({} : St) with moodStart := some 0, mood := "clear" }

/-- the whole audition: "at start" round, the events (processing stops at the first abort),
then the deferred final round at time `tEnd`, which runs in any case. -/
def run (c : Cfg) (evs : List Ev) (tEnd : Rat) : St :=
  let s1 := evs.foldl (stepEv c) (start c)
  let s2 := round c true tEnd [] { s1 with abort := none }
  { s2 with abort := s1.abort.or s2.abort }

end Shk.Aud

/-! ## Markers: the per-auditor view of a trace, and the grammar of activation periods -/
namespace Shk.Aud

/-- what the *real* loop lets us see for one auditor: start, report code (0 good, 1 error,
2 bad, 3 info), stop -/
inductive RMk | start | rep (code : Nat) | stop
deriving DecidableEq, Repr

def codeOf : Rep → Nat := Rep.code

/-- Specification of a well-formed marker stream, evaluated on *real* streams (oracle O-C02):
`(start rep* rep_end stop)*`, every period explainable from the table's start state alone, the
last report of a period being the one for `end`, nothing outside periods, and nothing left open.
`cur = none`: outside a period; `some qs`: inside, `qs` = the table states compatible with the
reports seen so far (the labels t/f are not visible in the real stream). -/
def explain (T : Table) : Option (List Nat) → List RMk → Bool
  | none, [] => true
  | some _, [] => false                      -- a period left open at the end of the play
  | none, .start :: r => explain T (some [T.start]) r
  | none, _ :: _ => false                    -- report or stop outside a period
  | some _, .start :: _ => false             -- start inside a period
  | some qs, .rep 1 :: r => explain T (some qs) r          -- evaluation error: state unchanged
  | some qs, .rep c :: .stop :: r =>
    -- the last report of the period: the `end` label from one of the possible states
    (qs.any fun q => (T.fire q 2).2.code == c) && explain T none r
  | some qs, .rep c :: r =>
    let qs' := (qs.flatMap fun q =>
      ([0, 1].filter fun l => (T.fire q l).2.code == c).map fun l => (T.fire q l).1).eraseDups
    !qs'.isEmpty && explain T (some qs') r
  | some _, .stop :: _ => false              -- stop without an end-of-period judgement

/-- members without an `expects` clause only start and stop -/
def explainPlain : Bool → List RMk → Bool
  | false, [] => true
  | true, [] => false
  | false, .start :: r => explainPlain true r
  | true, .stop :: r => explainPlain false r
  | _, _ => false

end Shk.Aud
