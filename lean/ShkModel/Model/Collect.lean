import ShkModel.Model.Audition
/-!
# C08 — the collector's fan-out (`collectObservation`, pkg/cmd/collector.go)

Every observation forwarded by the audition is written once to the file
`<observer>.<actor>.<signal>.csv` of *each* audience member that watches the variable
(`vr.watcherNames`).  Core only.
-/
namespace Shk.Collect
open Shk Shk.Aud

/-- one CSV row: file = (observer, actor, signal) -/
structure Row where
  observer : String
  actor : String
  sig : String
  ts : Rat
  typ : Typ
  val : Val
deriving Repr

/-- `collectObservation`: one row per watcher of the variable -/
def rowsOfObs (c : Cfg) : Out → List Row
  | .obs ts typ v val => (c.watchers v).map fun m => ⟨m.name, v.actor, v.sig, ts, typ, val⟩
  | _ => []

/-- everything the collector writes for a stream of events, in order -/
def collectAll (c : Cfg) (outs : List Out) : List Row := outs.flatMap (rowsOfObs c)

/-- the content of one file -/
def file (rows : List Row) (observer actor sig : String) : List (Rat × Typ × Val) :=
  (rows.filter fun r => r.observer == observer && r.actor == actor && r.sig == sig).map fun r => (r.ts, r.typ, r.val)

/-- the observations of one variable in a stream -/
def obsOf (v : VarName) (outs : List Out) : List (Rat × Typ × Val) :=
  outs.filterMap fun o => match o with
    | .obs ts typ w val => if w = v then some (ts, typ, val) else none
    | _ => none

end Shk.Collect
