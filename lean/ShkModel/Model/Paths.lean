/-!
# C12 — where a run puts its results (`pkg/cmd/config.go` prepareDirs, `run.go` run,
`result.go` assemble)

Three small models, core only:

* **paths**: a path is a flag (absolute?) and a list of components; `clean` is Go's
  `filepath.Clean` (the stack algorithm of `path/filepath`: drop empty and `.` components,
  `..` pops a name, is dropped at the root and kept in front of a relative path), `join` is
  `filepath.Join`, `absolutize` is `filepath.Abs` *and* the way the kernel walks a path from the
  current directory when no component of it is a symbolic link (assumption of the theorems),
  `resolveLink` is the kernel's rule for a symbolic link: a relative target is walked from the
  directory that holds the link.
  Names are kept abstract (`α`), so that a component is `..` or `.` only when the model says so.
* **run end**: the deferred steps of `run()` (plots, artifact removal, result.js / index.html,
  upload, `--clear`) as a function of the flags and of which steps failed.
* **time range**: `expandTimeRange` and the normalisation done by `assemble`.
-/
namespace Shk.Paths

/-! ## Path algebra -/

/-- one component of a slash separated path -/
inductive Comp (α : Type) where
  | empty            -- between two slashes, or in front of a leading slash
  | dot              -- `.`
  | up               -- `..`
  | nm (a : α)       -- anything else
deriving DecidableEq, Repr

structure P (α : Type) where
  abs : Bool
  comps : List (Comp α)
deriving DecidableEq, Repr

/-- one step of `filepath.Clean`; the stack is kept reversed (top first) -/
def step {α : Type} (ab : Bool) (st : List (Comp α)) : Comp α → List (Comp α)
  | .empty => st
  | .dot => st
  | .up =>
    match st with
    | [] => if ab then [] else [.up]
    | .up :: r => .up :: .up :: r
    | _ :: r => r
  | .nm a => .nm a :: st

def cleanComps {α : Type} (ab : Bool) (cs : List (Comp α)) : List (Comp α) :=
  (cs.foldl (step ab) []).reverse

/-- `filepath.Clean` -/
def clean {α : Type} (p : P α) : P α := ⟨p.abs, cleanComps p.abs p.comps⟩

/-- `filepath.Join(p, more…)` for a non-empty first element: `Clean(p + "/" + more)` -/
def join {α : Type} (p : P α) (more : List (Comp α)) : P α := clean ⟨p.abs, p.comps ++ more⟩

def names {α : Type} (l : List α) : List (Comp α) := l.map Comp.nm

/-- `filepath.Abs(p)` with the current directory `cwd` (a clean absolute path, given by its names);
also: the place the kernel reaches when it walks `p` from `cwd`, provided no component met on the
way is a symbolic link. -/
def absolutize {α : Type} (cwd : List α) (p : P α) : P α :=
  if p.abs then clean p else clean ⟨true, names cwd ++ p.comps⟩

/-- what `<link>` resolves to, for a symbolic link found at path `link` whose text is `target`:
an absolute target is walked from the root, a relative one from the directory holding the link. -/
def resolveLink {α : Type} (cwd : List α) (link target : P α) : P α :=
  if target.abs then clean target
  else clean ⟨true, (absolutize cwd link).comps.dropLast ++ target.comps⟩

/-! ## prepareDirs -/

/-- what `prepareDirs` computes from the `-o` argument `o` and the run identifier `sub`
(`cfg.subDir`, the 14 digit date; `[]` stands for the values `""` and `"."` which the code treats
as "no sub-directory" — only tests use them). -/
structure Dirs (α : Type) where
  runDir : P α        -- `thisDataDir`, as the program holds it (relative when `-o` is)
  alias  : P α        -- where the `latest` link is created
  target : P α        -- the text given to `os.Symlink`

/-- the code as repaired: the link names the run directory relative to the directory that
holds the link (`cfg.subDir`, or `.` when there is no sub-directory). -/
def prepareDirs {α : Type} (latest : α) (o : P α) (sub : List α) : Dirs α :=
  { runDir := if sub = [] then o else join o (names sub)
    alias := join o [.nm latest]
    target := ⟨false, names sub⟩ }

/-- the pinned code: `os.Symlink(thisDataDir, alias)` — for a relative `-o` the text of the link is
relative to the *current* directory, although the kernel reads it relative to the link. -/
def prepareDirsOld {α : Type} (latest : α) (o : P α) (sub : List α) : Dirs α :=
  { runDir := if sub = [] then o else join o (names sub)
    alias := join o [.nm latest]
    target := if sub = [] then o else join o (names sub) }

/-! ### the directory entry `<o>/latest` across runs -/

/-- what may sit at `<o>/latest` when a run starts: nothing, a symbolic link with some text
(resolving or dangling — `os.Remove` does not look), a regular file, an empty or a non-empty
directory -/
inductive Slot (α : Type) where
  | absent
  | link (text : P α)
  | file
  | emptyDir
  | fullDir
deriving Repr, DecidableEq

/-- `os.Remove(alias)` (absent is fine) then `os.Symlink(target, alias)`: `none` = prepareDirs
fails (only a non-empty directory cannot be removed); otherwise the slot afterwards. -/
def replaceLatest {α : Type} (prev : Slot α) (target : P α) : Option (Slot α) :=
  match prev with
  | .fullDir => none
  | _ => some (.link target)

/-- a variant that first asks `os.Stat(alias)` whether there is something to remove: `Stat`
follows links, so a dangling link (`live = false`) looks absent, stays, and `os.Symlink` then
fails with EEXIST, which is only logged. -/
def replaceLatestStat {α : Type} (prev : Slot α) (live : Bool) (target : P α) : Option (Slot α) :=
  match prev with
  | .fullDir => none
  | .link t => if live then some (.link target) else some (.link t)
  | _ => some (.link target)

/-- `actorArtifactDirName` made absolute: `Abs(Join(Join(dataDir, "artifacts"), actor))` -/
def workDir {α : Type} (cwd : List α) (artifacts : α) (runDir : P α) (actor : α) : P α :=
  absolutize cwd (join (join runDir [.nm artifacts]) [.nm actor])

/-! ## The end of `run()` -/

structure Flags where
  k        : Bool      -- -k / --keep-artifacts
  clear    : Option Bool   -- --clear / --clear=false given explicitly, or not at all
  upload   : Bool      -- --upload-url given (initArgs: implies --clear unless --clear was given explicitly)
  skipPlot : Bool      -- --disable-plots
deriving DecidableEq, Repr

/-- which steps return an error -/
structure Faults where
  play        : Bool   -- runConduct (a foul, a failing command, …)
  interrupted : Bool   -- … and that error is errInterrupted (SIGINT)
  plot        : Bool   -- plot(): a file under plots/ cannot be created (a missing gnuplot is NOT an error)
  upload      : Bool   -- tryUpload
deriving DecidableEq, Repr

structure Outcome where
  exitNonZero : Bool
  foulFlag    : Bool    -- `Foul` in result.js
  runDir      : Bool    -- the run directory still exists
  artifacts   : Bool    -- …/artifacts still exists
  plots       : Bool    -- …/plots/*.gp exist
  result      : Bool    -- …/result.js and index.html exist
  uploaded    : Bool    -- an upload was attempted
  playFailed  : Bool    -- the play (or the writing of its plots) failed: what decides the fate of the artifacts
  uploadedArtifacts : Bool   -- the artifacts were still there when the upload tool ran
deriving DecidableEq, Repr

/-- `cfg.removeAll` after `initArgs`: the value of `--clear` when the flag was given, otherwise whether an upload URL was -/
def removeAll (f : Flags) : Bool := f.clear.getD f.upload

/-- `run()` after `runConduct`, in execution order: assemble (fixes the Foul flag), plot, then the
deferred functions last-in first-out: (5) remove artifacts / result.js / index.html, (4) upload,
(3) `--clear`. -/
def runEnd (f : Flags) (e : Faults) : Outcome :=
  let err0 := e.play
  let foul := err0
  let err1 := err0 || (!f.skipPlot && e.plot)
  -- (since the repair the artifacts are also erased when an upload follows: the manual erases them, step 4, before
  -- the upload, step 5; with `--clear` alone the whole directory goes a moment later anyway)
  let artifacts5 := !(!err1 && !f.k && (!removeAll f || f.upload))
  let doUpload := (!err1 || !e.interrupted) && f.upload
  let err2 := err1 || (doUpload && e.upload)
  let runDir := !(!err2 && removeAll f)
  { exitNonZero := err2, foulFlag := foul, runDir := runDir,
    artifacts := artifacts5 && runDir, plots := !f.skipPlot && !e.plot && runDir,
    result := runDir, uploaded := doUpload, playFailed := err1, uploadedArtifacts := doUpload && artifacts5 }

/-- `run()` before the repair: the artifacts were kept whenever the run directory was going to be erased — also
when an upload came first -/
def runEndOld (f : Flags) (e : Faults) : Outcome :=
  let err0 := e.play
  let err1 := err0 || (!f.skipPlot && e.plot)
  let artifacts5 := !(!err1 && !removeAll f && !f.k)
  let doUpload := (!err1 || !e.interrupted) && f.upload
  let err2 := err1 || (doUpload && e.upload)
  let runDir := !(!err2 && removeAll f)
  { exitNonZero := err2, foulFlag := err0, runDir := runDir,
    artifacts := artifacts5 && runDir, plots := !f.skipPlot && !e.plot && runDir,
    result := runDir, uploaded := doUpload, playFailed := err1, uploadedArtifacts := doUpload && artifacts5 }

/-! ## Time range -/

/-- `app.minTime/maxTime`: `none` = still (+∞, −∞) -/
abbrev Range := Option (Int × Int)

/-- `expandTimeRange` -/
def expand (r : Range) (t : Int) : Range :=
  match r with
  | none => some (t, t)
  | some (lo, hi) => some (if t < lo then t else lo, if t > hi then t else hi)

/-- the normalisation at the top of `assemble`; `sec` is one second in the unit of the times -/
def normalise (sec : Int) (r : Range) : Int × Int :=
  let r1 := match r with
    | none => ((0 : Int), (0 : Int))
    | some p => p
  let r2 := if r1.2 < r1.1 then (r1.2, r1.1) else r1
  let lo := if r2.1 > 0 then 0 else r2.1
  let hi1 := if r2.2 < 0 then sec else r2.2
  let hi := if hi1 < lo + sec then lo + sec else hi1
  (lo, hi)

def record (ts : List Int) : Range := ts.foldl expand none

/-- the range `assemble` ends with (since the repair c9d1f38): the instants the collector recorded during the play, then
the act starts and the ends of the mood periods, which the audition holds -/
def resultRange (sec : Int) (collected acts moodEnds : List Int) : Int × Int :=
  normalise sec (record (collected ++ (acts ++ moodEnds)))

/-- … and before the repair: the collector's instants alone -/
def resultRangeOld (sec : Int) (collected : List Int) : Int × Int := normalise sec (record collected)

/-- the specification of the `[MinTime, MaxTime]` pair of result.js -/
def rangeSpec (sec : Int) (ts : List Int) (lo hi : Int) : Bool :=
  ts.all (fun t => lo ≤ t && t ≤ hi) && decide (lo ≤ 0) && decide (lo + sec ≤ hi)

/-- the specification of what is left on disk, in terms of the exit status -/
def surviveSpec (f : Flags) (playFailed failed : Bool) (artifacts runDir : Bool) : Bool :=
  (artifacts == ((playFailed || f.k) && !(removeAll f && !failed))) &&
  (runDir == !(removeAll f && !failed))

end Shk.Paths
