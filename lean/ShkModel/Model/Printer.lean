import ShkModel.Model.Story
/-!
# C10 — the configuration as a list of clauses: `parseCfg` (load) and `printCfg` (print)

A configuration is an ordered list of abstract clauses, *after* preprocessing (parameters
substituted, include files inlined, continuation lines joined): what the clause parsers of
`parsecfg.go` receive.  `load` follows `parseCfg` clause by clause and enforces its
order-sensitive rules (roles, actors, scenes and variables are defined before they are used;
audience members are created at their first mention; `expects like` needs the target's
expectation; an interpretation clause needs its member).  `print` is the order in which
`printCfg` emits clauses for the configuration that `load` has built.

Texts (commands, regular expressions, expression sources, labels) are opaque strings.  An
expression travels with the list of the variables `govaluate` reports for it (`Ex.vars`): the
code walks them in the iteration order of a Go map, i.e. in *some* order, which only shows in the
order of the observer's `watches` clauses.  Whether a regular expression matches an act
(`repeat from`) is a parameter `mt` of the model.  Storylines reuse the model of C06
(`Shk.Story.validate`, `combineStory`, `joinSp`).

The model follows the code *as repaired* (see the fix: commits named in `vlib/c10.py`); the
behaviour of the pinned tree is kept in the `…Old` definitions at the end.  Core only.
-/
namespace Shk.Printer
open Shk.Story (Act)

/-! ## Data -/

/-- `varName`: a computed (or predefined) variable, or the signal of an actor -/
inductive Var
  | comp (name : String)
  | sig (actor signal : String)
deriving DecidableEq, Repr

/-- an expression: its source and the variables `compiled.Vars()` lists for it -/
structure Ex where
  src : String
  vars : List Var
deriving DecidableEq, Repr

/-- what `ensureAuditCond` synthesizes (`audits throughout`) -/
def Ex.tt : Ex := ⟨"true", []⟩

inductive SigKind
  | event | scalar | delta
deriving DecidableEq, Repr

structure Sig where
  name : String
  kind : SigKind
  re : String
deriving DecidableEq, Repr

/-- the clauses inside `role … end` -/
inductive RItem
  | action (name cmd : String)
  | spotlight (cmd : String)
  | cleanup (cmd : String)
  | signal (s : Sig)
deriving DecidableEq, Repr

structure Role where
  name : String
  cleanup : String
  spotlight : String
  sigs : List Sig
  actions : List (String × String)
deriving DecidableEq, Repr

structure Actor where
  name : String
  role : String
  env : String
deriving DecidableEq, Repr

inductive Target
  | actor (name : String)
  | every (role : String)
deriving DecidableEq, Repr

/-- `sceneSpec` -/
structure Scene where
  ch : Char
  entails : List (String × List String)
  moodStart : String
  moodEnd : String
deriving DecidableEq, Repr

inductive Foul
  | ignore | foulUpon | require
deriving DecidableEq, Repr

/-- `assignment`: `mode = none` is `computes`, `some (m, n)` is `collects … as m n` -/
structure Assign where
  var : String
  mode : Option (String × Nat)
  ex : Ex
deriving DecidableEq, Repr

/-- `audienceMember` (observer and auditor parts) -/
structure Member where
  name : String
  active : Option Ex := none
  assigns : List Assign := []
  expects : Option (String × Ex) := none
  obs : List Var := []
  ylabel : String := ""
  noplot : Bool := false
  bad : Foul := .foulUpon
  good : Foul := .ignore
deriving DecidableEq, Repr

/-- the clauses of the `audience` section, without the member's name -/
inductive AClause
  | audits (e : Ex)
  | assign (a : Assign)
  | expects (modality : String) (e : Ex)
  | expectsLike (target : String)
  | watchSig (t : Target) (signal : String)
  | watchVar (v : String)
  | measures (label : String)
  | onlyHelps
deriving DecidableEq, Repr

inductive IClause
  /-- `ignore disappointment|satisfaction` -/
  | ignoreAll (good : Bool)
  /-- `ignore|foul upon|require <member> disappointment|satisfaction` -/
  | set (mode : Foul) (target : String) (good : Bool)
deriving DecidableEq, Repr

inductive Clause
  | title (s : String)
  | author (s : String)
  | attention (s : String)
  | role (name : String) (ext : Option String) (items : List RItem)
  /-- `name plays role [with env]` (`mul = none`) or `name* play n role [with env]` -/
  | cast (name : String) (mul : Option Nat) (role : String) (env : String)
  | tempo (ns : Nat)
  | entails (c : Char) (t : Target) (actions : List String)
  | mood (c : Char) (starts : Bool) (m : String)
  | storyline (text : List Char)
  /-- `edit s/…/…/`: an arbitrary function on the joined storyline -/
  | edit (f : List Char → List Char)
  | repeatFrom (re : String)
  /-- `repeat time d` (`none` = unconstrained) -/
  | repeatTime (d : Option Nat)
  /-- `repeat n times` (`none` = always) -/
  | repeatCount (n : Option Nat)
  | aud (member : String) (c : AClause)
  | interp (c : IClause)

structure Cfg where
  titles : List String := []
  authors : List String := []
  attn : List String := []
  roles : List Role := []
  actors : List Actor := []
  tempo : Nat := 1000000000
  scenes : List Scene := []
  story : List Act := []
  repFrom : Option String := none
  repAct : Nat := 0
  repTime : Option Nat := none
  repCount : Option Nat := none
  members : List Member := []
deriving DecidableEq, Repr

def Cfg.init : Cfg := {}

/-! ## Roles -/

def findRole (c : Cfg) (n : String) : Option Role := c.roles.find? (·.name == n)
def findActor (c : Cfg) (n : String) : Option Actor := c.actors.find? (·.name == n)

/-- one clause of a role body.  Action names are unique within the role *including* the copied
ones; so are signal names (repaired: `parserNames` starts with the inherited names). -/
def ritem (r : Role) : RItem → Option Role
  | .action n cmd =>
    if r.actions.any (·.1 == n) then none else some { r with actions := r.actions ++ [(n, cmd)] }
  | .spotlight cmd => some { r with spotlight := cmd }
  | .cleanup cmd => some { r with cleanup := cmd }
  | .signal s =>
    if r.sigs.any (·.name == s.name) then none else some { r with sigs := r.sigs ++ [s] }

def ritems : Role → List RItem → Option Role
  | r, [] => some r
  | r, it :: rest =>
    match ritem r it with
    | some r' => ritems r' rest
    | none => none

/-- the template: empty, or a copy of the extended role -/
def roleBase (c : Cfg) (name : String) : Option String → Option Role
  | none => some ⟨name, "", "", [], []⟩
  | some p =>
    match findRole c p with
    | some pr => some { pr with name := name }
    | none => none

def stepRole (c : Cfg) (name : String) (ext : Option String) (items : List RItem) : Option Cfg :=
  if c.roles.any (·.name == name) then none else
  match roleBase c name ext with
  | none => none
  | some base =>
    match ritems base items with
    | none => none
    | some r =>
      if !r.sigs.isEmpty && r.spotlight == "" then none
      else some { c with roles := c.roles ++ [r] }

/-! ## Cast -/

/-- `strings.TrimSuffix(roleName, "s")` -/
def singular (s : String) : String :=
  if s.toList.getLast? = some 's' then String.ofList s.toList.dropLast else s

def addActor (c : Cfg) (a : Actor) : Option Cfg :=
  if c.actors.any (·.name == a.name) then none else some { c with actors := c.actors ++ [a] }

/-- the environment of the `i`-th actor of a multi-actor definition -/
def mulEnv (i : Nat) (env : String) : String :=
  if env = "" then "i=" ++ toString i else "i=" ++ toString i ++ "; " ++ env

/-- actors `base(i+1) … base(i+k)` -/
def addMany (base role env : String) : Nat → Nat → Cfg → Option Cfg
  | _, 0, c => some c
  | i, k + 1, c =>
    match addActor c ⟨base ++ toString (i + 1), role, mulEnv i env⟩ with
    | some c' => addMany base role env (i + 1) k c'
    | none => none

def stepCast (c : Cfg) (name : String) (mul : Option Nat) (role env : String) : Option Cfg :=
  match mul with
  | none =>
    match findRole c role with
    | some r => addActor c ⟨name, r.name, env⟩
    | none => none
  | some n =>
    match (findRole c role).or (findRole c (singular role)) with
    | some r => addMany name r.name env 0 n c
    | none => none

/-! ## Script -/

/-- `selectActors`: the role whose actions / signals are meant, and the actors found -/
def selectActors (c : Cfg) : Target → Option (Role × List Actor)
  | .every r =>
    match findRole c r with
    | some ro => some (ro, c.actors.filter (·.role == r))
    | none => none
  | .actor n =>
    match findActor c n with
    | some a =>
      match findRole c a.role with
      | some ro => some (ro, [a])
      | none => none
    | none => none

/-- `maybeAddSceneSpec` followed by an update -/
def upsertScene (f : Scene → Scene) (ch : Char) : List Scene → List Scene
  | [] => [f ⟨ch, [], "", ""⟩]
  | s :: rest => if s.ch = ch then f s :: rest else s :: upsertScene f ch rest

/-- one `actionGroup` per actor found -/
def addEntails (actors : List String) (actions : List String) (sc : Scene) : Scene :=
  { sc with entails := sc.entails ++ actors.map fun x => (x, actions) }

def setMood (starts : Bool) (m : String) (sc : Scene) : Scene :=
  if starts then { sc with moodStart := m } else { sc with moodEnd := m }

def hasAction (r : Role) (a : String) : Bool := r.actions.any (·.1 == (Shk.Story.splitMark a).1)

def sceneDefined (c : Cfg) (ch : Char) : Bool := c.scenes.any (·.ch == ch)

/-- the first act the regular expression matches (1-based), 0 if none -/
def firstMatch (mt : String → Act → Bool) (re : String) : List Act → Nat
  | [] => 0
  | a :: rest => if mt re a then 1 else
    match firstMatch mt re rest with
    | 0 => 0
    | n + 1 => n + 2

/-- `updateRepeat` (repaired: no stale act number survives) -/
def updateRepeat (mt : String → Act → Bool) (c : Cfg) : Cfg :=
  match c.repFrom with
  | none => c
  | some re => { c with repAct := firstMatch mt re c.story }

/-! ## Audience -/

def predefined : List String := ["t", "mood", "moodt"]

/-- the variables with an empty actor name in `cfg.vars` -/
def definedVars (c : Cfg) : List String :=
  predefined ++ c.members.flatMap fun m => m.assigns.map (·.var)

def findMember (c : Cfg) (n : String) : Option Member := c.members.find? (·.name == n)

/-- `addOrGetAudienceMember` (the member it returns) -/
def getMember (c : Cfg) (n : String) : Member :=
  match findMember c n with
  | some m => m
  | none => { name := n }

def putIn (m : Member) : List Member → List Member
  | [] => [m]
  | x :: rest => if x.name = m.name then m :: rest else x :: putIn m rest

/-- … and storing the member back; a new member goes to the end of `audienceNames` -/
def putMember (c : Cfg) (m : Member) : Cfg := { c with members := putIn m c.members }

def addObs (m : Member) (v : Var) : Member :=
  if m.obs.contains v then m else { m with obs := m.obs ++ [v] }

def roleHasSig (r : Role) (s : String) : Bool := r.sigs.any (·.name == s)

/-- one variable of an expression in `checkExpr` -/
def checkVar (c : Cfg) (m : Member) : Var → Option Member
  | .comp n => if (definedVars c).contains n then some m else none
  | .sig a s =>
    match findActor c a with
    | none => none
    | some act =>
      match findRole c act.role with
      | none => none
      | some r => if roleHasSig r s then some (addObs m (.sig a s)) else none

def checkVars (c : Cfg) : Member → List Var → Option Member
  | m, [] => some m
  | m, v :: rest =>
    match checkVar c m v with
    | some m' => checkVars c m' rest
    | none => none

/-- `checkExpr` on behalf of member `m`: every variable is known; the member becomes an observer
of the signals -/
def checkEx (c : Cfg) (m : Member) (e : Ex) : Option Member := checkVars c m e.vars

def okAssign (a : Assign) : Bool :=
  match a.mode with
  | none => true
  | some (_, n) => decide (1 ≤ n)

/-! The branches of `parseAudience` are built from seven elementary operations, one per kind of
*printed* clause; `expects like`, `watches every …` and the synthesized `audits throughout` are
sequences of them (same checks, same order of effects as the Go branches). -/

/-- `<n> audits …` for a member without activation period -/
def pAudits (c : Cfg) (n : String) (e : Ex) : Option Cfg :=
  match (getMember c n).active with
  | some _ => none
  | none =>
    match checkEx c (getMember c n) e with
    | some m => some (putMember c { m with active := some e })
    | none => none

/-- `ensureAuditCond`: synthesize `audits throughout` -/
def needCond (c : Cfg) (n : String) : Option Cfg :=
  match (getMember c n).active with
  | some _ => some c
  | none => pAudits c n Ex.tt

/-- `<n> computes|collects …` once the activation period is there: the expression is checked
first, "so that we are not using the variable we are writing to" -/
def pAssign (c : Cfg) (n : String) (a : Assign) : Option Cfg :=
  if !okAssign a then none else
  match checkEx c (getMember c n) a.ex with
  | none => none
  | some m =>
    if (definedVars c).contains a.var then none
    else some (putMember c { m with assigns := m.assigns ++ [a] })

/-- `<n> expects <modality>: …` once the activation period is there -/
def pExpects (c : Cfg) (n md : String) (e : Ex) : Option Cfg :=
  match (getMember c n).expects with
  | some _ => none
  | none =>
    match checkEx c (getMember c n) e with
    | some m => some (putMember c { m with expects := some (md, e) })
    | none => none

/-- `<n> watches <actor> <signal>` -/
def pWatchActor (c : Cfg) (n a s : String) : Option Cfg :=
  match findActor c a with
  | none => none
  | some act =>
    match findRole c act.role with
    | none => none
    | some r => if roleHasSig r s then some (putMember c (addObs (getMember c n) (.sig a s))) else none

/-- `<n> watches every <role> <signal>`: one actor after the other -/
def watchAll (n s : String) : List String → Cfg → Option Cfg
  | [], c => some c
  | a :: rest, c =>
    match pWatchActor c n a s with
    | some c' => watchAll n s rest c'
    | none => none

def pWatchVar (c : Cfg) (n v : String) : Option Cfg :=
  if (definedVars c).contains v then some (putMember c (addObs (getMember c n) (.comp v))) else none

def pMeasures (c : Cfg) (n l : String) : Option Cfg :=
  if l = "" then none else some (putMember c { (getMember c n) with ylabel := l })

def pHelps (c : Cfg) (n : String) : Option Cfg :=
  some (putMember c { (getMember c n) with noplot := true })

/-- the activation period a member gets from `expects like <target>` when it has none -/
def likeCond (c : Cfg) (n : String) (tg : Member) : Option Cfg :=
  match (getMember c n).active with
  | some _ => some c
  | none =>
    match tg.active with
    | some ta => pAudits c n ta
    | none => none

def stepAud (c : Cfg) (n : String) : AClause → Option Cfg
  | .audits e => pAudits c n e
  | .assign a =>
    match needCond c n with
    | some c' => pAssign c' n a
    | none => none
  | .expects md e =>
    match needCond c n with
    | some c' => pExpects c' n md e
    | none => none
  | .expectsLike t =>
    match findMember c t with
    | none => none
    | some tg =>
      match tg.expects with
      | none => none
      | some (md, te) =>
        match (getMember c n).expects with
        | some _ => none
        | none =>
          match likeCond c n tg with
          -- repaired: the copied expectation is checked on behalf of this member, like
          -- `expects <modality>: …` (it becomes an observer of the signals in it)
          | some c' => pExpects c' n md te
          | none => none
  | .watchSig (.actor a) s => pWatchActor c n a s
  | .watchSig (.every r) s =>
    match findRole c r with
    | none => none
    | some _ => watchAll n s ((c.actors.filter (·.role == r)).map (·.name)) c
  | .watchVar v => pWatchVar c n v
  | .measures l => pMeasures c n l
  | .onlyHelps => pHelps c n

/-! ## Interpretation -/

def setFoul (good : Bool) (f : Foul) (m : Member) : Member :=
  if good then { m with good := f } else { m with bad := f }

def stepInterp (c : Cfg) : IClause → Option Cfg
  | .ignoreAll good => some { c with members := c.members.map (setFoul good .ignore) }
  | .set mode t good =>
    match findMember c t with
    | none => none
    | some m => some (putMember c (setFoul good mode m))

/-! ## `parseCfg` -/

def step (mt : String → Act → Bool) (c : Cfg) : Clause → Option Cfg
  | .title s => some { c with titles := c.titles ++ [s] }
  | .author s => some { c with authors := c.authors ++ [s] }
  | .attention s => some { c with attn := c.attn ++ [s] }
  | .role name ext items => stepRole c name ext items
  | .cast name mul role env => stepCast c name mul role env
  | .tempo ns => some { c with tempo := ns }
  | .entails ch t actions =>
    if !Shk.Story.isShort ch then none else
    match selectActors c t with
    | none => none
    | some (_, []) => some c          -- only a warning: the clause is dropped
    | some (r, a :: as) =>
      if actions.all (hasAction r) then
        some { c with scenes := upsertScene (addEntails ((a :: as).map (·.name)) actions) ch c.scenes }
      else none
  | .mood ch starts m =>
    if !Shk.Story.isShort ch || m == "" then none else
    some { c with scenes := upsertScene (setMood starts m) ch c.scenes }
  | .storyline text =>
    match Shk.Story.validate (sceneDefined c) text with
    | .ok acts => some (updateRepeat mt { c with story := Shk.Story.combineStory c.story acts })
    | .error _ => none
  | .edit f =>
    match Shk.Story.validate (sceneDefined c) (f (Shk.Story.joinSp c.story)) with
    | .ok acts => some (updateRepeat mt { c with story := acts })
    | .error _ => none
  | .repeatFrom re => some (updateRepeat mt { c with repFrom := some re })
  | .repeatTime d => some { c with repTime := d }
  | .repeatCount n => some { c with repCount := n }
  | .aud n cl => stepAud c n cl
  | .interp cl => stepInterp c cl

def loadFrom (mt : String → Act → Bool) : Cfg → List Clause → Option Cfg
  | c, [] => some c
  | c, cl :: rest =>
    match step mt c cl with
    | some c' => loadFrom mt c' rest
    | none => none

def load (mt : String → Act → Bool) (l : List Clause) : Option Cfg := loadFrom mt Cfg.init l

/-! ## `printCfg` -/

def printRole (r : Role) : Clause :=
  .role r.name none
    ((if r.cleanup = "" then [] else [RItem.cleanup r.cleanup]) ++
     (if r.spotlight = "" then [] else [RItem.spotlight r.spotlight]) ++
     r.sigs.map RItem.signal ++ r.actions.map fun a => RItem.action a.1 a.2)

def printActor (a : Actor) : Clause := .cast a.name none a.role a.env

def printScene (s : Scene) : List Clause :=
  s.entails.map (fun e => Clause.entails s.ch (.actor e.1) e.2) ++
  (if s.moodStart = "" then [] else [Clause.mood s.ch true s.moodStart]) ++
  (if s.moodEnd = "" then [] else [Clause.mood s.ch false s.moodEnd])

def printStory (c : Cfg) : List Clause :=
  if c.story = [] then [] else
  Clause.storyline (Shk.Story.joinSp c.story) ::
  (match c.repFrom with
   | none => []
   | some re => [.repeatFrom re, .repeatTime c.repTime, .repeatCount c.repCount])

/-! ### The audience: member by member, a clause waits for the variables it uses -/

/-- audits / computes / collects / expects, in the order they are printed -/
def chainOf (m : Member) : List AClause :=
  (match m.active with | some e => [AClause.audits e] | none => []) ++
  m.assigns.map AClause.assign ++
  (match m.expects with | some (md, e) => [AClause.expects md e] | none => [])

def watchClause : Var → AClause
  | .comp v => .watchVar v
  | .sig a s => .watchSig (.actor a) s

/-- watches / measures / only helps -/
def freeOf (m : Member) : List AClause :=
  m.obs.map watchClause ++
  (if m.ylabel = "" then [] else [AClause.measures m.ylabel]) ++
  (if m.noplot then [AClause.onlyHelps] else [])

def compVars : List Var → List String
  | [] => []
  | .comp n :: rest => n :: compVars rest
  | .sig _ _ :: rest => compVars rest

/-- the computed variables a printed clause refers to -/
def uses : AClause → List String
  | .audits e => compVars e.vars
  | .assign a => compVars a.ex.vars
  | .expects _ e => compVars e.vars
  | .watchVar v => [v]
  | _ => []

/-- the computed variable a printed clause defines -/
def defines : AClause → Option String
  | .assign a => some a.var
  | _ => none

/-- no variable the clause uses still waits for its definition to be printed -/
def ready (undef : List String) (c : AClause) : Bool := (uses c).all fun v => !undef.contains v

def afterPrint (undef : List String) (c : AClause) : List String :=
  match defines c with
  | some v => undef.filter (· ≠ v)
  | none => undef

/-- what is still to be printed for one member -/
structure Pend where
  name : String
  chain : List AClause
  free : List AClause
  mentioned : Bool
deriving DecidableEq, Repr

/-- the auditor clauses keep their order: print them until one has to wait.
Result: (printed, waiting, undefined afterwards) -/
def takeChain : List String → List AClause → List AClause × List AClause × List String
  | undef, [] => ([], [], undef)
  | undef, c :: cs =>
    if ready undef c then
      match takeChain (afterPrint undef c) cs with
      | (p, w, u) => (c :: p, w, u)
    else ([], c :: cs, undef)

/-- one member's turn -/
def visit (undef : List String) (m : Pend) : List AClause × Pend × List String :=
  match takeChain undef m.chain with
  | (p, w, u) =>
    (p ++ m.free.filter (ready u),
     ⟨m.name, w, m.free.filter (fun c => !ready u c),
      m.mentioned || !(p ++ m.free.filter (ready u)).isEmpty⟩,
     u)

/-- one pass over the members, in order; it stops in front of the members that come after one
that was not mentioned yet and cannot print anything -/
def sweep : List String → List Pend → List (String × AClause) × List Pend × List String
  | undef, [] => ([], [], undef)
  | undef, m :: ms =>
    match visit undef m with
    | (e, m', u) =>
      if !m'.mentioned then ([], m :: ms, undef) else
      match sweep u ms with
      | (o, ms', u') => (e.map (fun c => (m.name, c)) ++ o, m' :: ms', u')

def leftover (ps : List Pend) : List (String × AClause) :=
  ps.flatMap fun m => (m.chain ++ m.free).map fun c => (m.name, c)

/-- passes until one prints nothing; what is left then is printed as it is -/
def schedLoop : Nat → List String → List Pend → List (String × AClause)
  | 0, _, ps => leftover ps
  | n + 1, undef, ps =>
    match sweep undef ps with
    | (o, ps', u) => if o.isEmpty then leftover ps' else o ++ schedLoop n u ps'

def pendOf (m : Member) : Pend := ⟨m.name, chainOf m, freeOf m, false⟩

def pendsOf (ms : List Member) : List Pend :=
  (ms.map pendOf).filter fun p => !(p.chain ++ p.free).isEmpty

def targetsOf (ms : List Member) : List String := ms.flatMap fun m => m.assigns.map (·.var)

def clauseCount (ps : List Pend) : Nat := (leftover ps).length

/-- the audience clauses in the order `printCfg` emits them -/
def sched (ms : List Member) : List (String × AClause) :=
  schedLoop (clauseCount (pendsOf ms) + 1) (targetsOf ms) (pendsOf ms)

def printInterp (ms : List Member) : List Clause :=
  ms.flatMap fun m =>
    match m.expects with
    | some _ => [Clause.interp (.set m.bad m.name false), Clause.interp (.set m.good m.name true)]
    | none => []

/-- everything in front of the audience -/
def printHead (c : Cfg) : List Clause :=
  c.titles.map Clause.title ++ c.authors.map Clause.author ++ c.attn.map Clause.attention ++
  c.roles.map printRole ++ c.actors.map printActor ++ [Clause.tempo c.tempo] ++
  c.scenes.flatMap printScene ++ printStory c

/-- the printed configuration with the audience clauses `a` -/
def printWith (c : Cfg) (a : List (String × AClause)) : List Clause :=
  printHead c ++ a.map (fun p => Clause.aud p.1 p.2) ++ printInterp c.members

def print (c : Cfg) : List Clause := printWith c (sched c.members)

/-! ## Specification: what "the same configuration" and "the same text" mean -/

/-- pointwise relation of two lists -/
inductive All₂ {α β : Type} (R : α → β → Prop) : List α → List β → Prop
  | nil : All₂ R [] []
  | cons {a b l₁ l₂} : R a b → All₂ R l₁ l₂ → All₂ R (a :: l₁) (b :: l₂)

/-- the same expression: the same source; the variables are the same set, delivered in some order -/
def Ex.Equiv (a b : Ex) : Prop := a.src = b.src ∧ a.vars.Perm b.vars

def OptEquiv {α : Type} (R : α → α → Prop) : Option α → Option α → Prop
  | none, none => True
  | some a, some b => R a b
  | _, _ => False

def Assign.Equiv (a b : Assign) : Prop := a.var = b.var ∧ a.mode = b.mode ∧ a.ex.Equiv b.ex

/-- the same audience member: the same clauses; the watched variables up to their order; the
interpretation of its verdicts if it expects anything (nothing else can produce a verdict) -/
structure Member.Equiv (a b : Member) : Prop where
  name : a.name = b.name
  active : OptEquiv Ex.Equiv a.active b.active
  assigns : All₂ Assign.Equiv a.assigns b.assigns
  expects : OptEquiv (fun x y => x.1 = y.1 ∧ x.2.Equiv y.2) a.expects b.expects
  obs : a.obs.Perm b.obs
  ylabel : a.ylabel = b.ylabel
  noplot : a.noplot = b.noplot
  foul : a.expects.isSome → a.bad = b.bad ∧ a.good = b.good

/-- the repeat settings that have an effect: none without a storyline or without `repeat from` -/
def effRepeat (c : Cfg) : Option (String × Nat × Option Nat × Option Nat) :=
  if c.story = [] then none else
  match c.repFrom with
  | none => none
  | some re => some (re, c.repAct, c.repTime, c.repCount)

/-- the same play: roles, cast, scenes, storyline, repeat settings, audience (members in the same
order), interpretation -/
structure Cfg.Equiv (a b : Cfg) : Prop where
  titles : a.titles = b.titles
  authors : a.authors = b.authors
  attn : a.attn = b.attn
  roles : a.roles = b.roles
  actors : a.actors = b.actors
  tempo : a.tempo = b.tempo
  scenes : a.scenes = b.scenes
  story : a.story = b.story
  repeat_ : effRepeat a = effRepeat b
  members : All₂ Member.Equiv a.members b.members

/-- the same audience clause, possibly with the variables of its expression in another order:
what a second parse of the same text sees -/
def AClause.Equiv : AClause → AClause → Prop
  | .audits e, .audits e' => e.Equiv e'
  | .assign a, .assign a' => a.Equiv a'
  | .expects md e, .expects md' e' => md = md' ∧ e.Equiv e'
  | c, c' => c = c'

def isWatchA : AClause → Bool
  | .watchSig _ _ => true
  | .watchVar _ => true
  | _ => false

/-- what the text shows of a clause: the variable list of an expression is not written -/
def eraseA : AClause → AClause
  | .audits e => .audits ⟨e.src, []⟩
  | .assign a => .assign { a with ex := ⟨a.ex.src, []⟩ }
  | .expects md e => .expects md ⟨e.src, []⟩
  | c => c

def eraseC : Clause → Clause
  | .aud n x => .aud n (eraseA x)
  | c => c

def notWatch : Clause → Bool
  | .aud _ x => !isWatchA x
  | _ => true

/-- the `watches` clauses of member `m`, in order -/
def watchesOf (m : String) : List Clause → List AClause
  | [] => []
  | .aud n x :: rest => if n = m && isWatchA x then x :: watchesOf m rest else watchesOf m rest
  | _ :: rest => watchesOf m rest

/-- "The same text up to the order of an observer's `watches` clauses": without the `watches`
clauses the two texts are the same, clause for clause, and every member has the same `watches`
clauses in both, in some order. -/
def SameText (a b : List Clause) : Prop :=
  (a.filter notWatch).map eraseC = (b.filter notWatch).map eraseC ∧
  ∀ m, (watchesOf m a).Perm (watchesOf m b)

/-- the members named in audience clauses, in order of appearance (with repetitions) -/
def membersIn : List Clause → List String
  | [] => []
  | .aud n _ :: rest => n :: membersIn rest
  | _ :: rest => membersIn rest

/-- equality of printed clauses, decided (an `edit` clause is never printed: `false`) -/
def Clause.beq : Clause → Clause → Bool
  | .title a, .title b => a == b
  | .author a, .author b => a == b
  | .attention a, .attention b => a == b
  | .role n e i, .role n' e' i' => n == n' && e == e' && i == i'
  | .cast n m r e, .cast n' m' r' e' => n == n' && m == m' && r == r' && e == e'
  | .tempo a, .tempo b => a == b
  | .entails c t a, .entails c' t' a' => c == c' && t == t' && a == a'
  | .mood c s m, .mood c' s' m' => c == c' && s == s' && m == m'
  | .storyline a, .storyline b => a == b
  | .repeatFrom a, .repeatFrom b => a == b
  | .repeatTime a, .repeatTime b => a == b
  | .repeatCount a, .repeatCount b => a == b
  | .aud n x, .aud n' x' => n == n' && x == x'
  | .interp a, .interp b => a == b
  | _, _ => false

def clausesBeq : List Clause → List Clause → Bool
  | [], [] => true
  | a :: l, b :: l' => a.beq b && clausesBeq l l'
  | _, _ => false

/-- `SameText`, decided (for the oracle on the texts the real program prints) -/
def sameText (a b : List Clause) : Bool :=
  clausesBeq ((a.filter notWatch).map eraseC) ((b.filter notWatch).map eraseC) &&
  (membersIn a ++ membersIn b).all fun m => (watchesOf m a).isPerm (watchesOf m b)

/-! ## Preprocessing parameters: `-D` definitions, then `parameter … defaults to …` clauses -/

/-- `parseDefines` / the `parameter` clause: a name that is already defined keeps its value -/
def defineAll : List (String × String) → List (String × String) → List (String × String)
  | tbl, [] => tbl
  | tbl, (n, v) :: rest => defineAll (if tbl.any (·.1 == n) then tbl else tbl ++ [(n, v)]) rest

/-- the first binding of a name -/
def lookupP (tbl : List (String × String)) (n : String) : Option String :=
  (tbl.find? (·.1 == n)).map (·.2)

/-- `cfg.pVars` once the command line (`defines`) and the clauses met so far (`defaults`) were processed -/
def pVars (defines defaults : List (String × String)) : List (String × String) :=
  defineAll (defineAll [] defines) defaults

/-! ## The pinned tree (before the repairs) -/

/-- the audience, member by member, nothing waits -/
def schedOld (ms : List Member) : List (String × AClause) :=
  ms.flatMap fun m => (chainOf m ++ freeOf m).map fun c => (m.name, c)

def printOld (c : Cfg) : List Clause := printWith c (schedOld c.members)

/-- duplicate signal names were only looked for among the signals declared in the role itself -/
def ritemOld (own : List String) (r : Role) : RItem → Option (Role × List String)
  | .signal s =>
    if own.contains s.name then none else some ({ r with sigs := r.sigs ++ [s] }, own ++ [s.name])
  | it => (ritem r it).map fun r' => (r', own)

def ritemsOld : List String → Role → List RItem → Option Role
  | _, r, [] => some r
  | own, r, it :: rest =>
    match ritemOld own r it with
    | some (r', own') => ritemsOld own' r' rest
    | none => none

def stepRoleOld (c : Cfg) (name : String) (ext : Option String) (items : List RItem) : Option Cfg :=
  if c.roles.any (·.name == name) then none else
  match roleBase c name ext with
  | none => none
  | some base =>
    match ritemsOld [] base items with
    | none => none
    | some r =>
      if !r.sigs.isEmpty && r.spotlight == "" then none
      else some { c with roles := c.roles ++ [r] }

/-- `expects like` copied the expectation without registering the member for its variables -/
def stepLikeOld (c : Cfg) (n t : String) : Option Cfg :=
  match findMember c t with
  | none => none
  | some tg =>
    match tg.expects with
    | none => none
    | some (md, te) =>
      match (getMember c n).expects with
      | some _ => none
      | none =>
        match likeCond c n tg with
        | some c' => some (putMember c' { (getMember c' n) with expects := some (md, te) })
        | none => none

/-- `updateRepeat` kept the act number of an earlier match when nothing matched -/
def updateRepeatOld (mt : String → Act → Bool) (c : Cfg) : Cfg :=
  match c.repFrom with
  | none => c
  | some re =>
    match firstMatch mt re c.story with
    | 0 => c
    | k + 1 => { c with repAct := k + 1 }

def stepOld (mt : String → Act → Bool) (c : Cfg) : Clause → Option Cfg
  | .role name ext items => stepRoleOld c name ext items
  | .aud n (.expectsLike t) => stepLikeOld c n t
  | .storyline text =>
    match Shk.Story.validate (sceneDefined c) text with
    | .ok acts => some (updateRepeatOld mt { c with story := Shk.Story.combineStory c.story acts })
    | .error _ => none
  | .edit f =>
    match Shk.Story.validate (sceneDefined c) (f (Shk.Story.joinSp c.story)) with
    | .ok acts => some (updateRepeatOld mt { c with story := acts })
    | .error _ => none
  | .repeatFrom re => some (updateRepeatOld mt { c with repFrom := some re })
  | cl => step mt c cl

def loadFromOld (mt : String → Act → Bool) : Cfg → List Clause → Option Cfg
  | c, [] => some c
  | c, cl :: rest =>
    match stepOld mt c cl with
    | some c' => loadFromOld mt c' rest
    | none => none

def loadOld (mt : String → Act → Bool) (l : List Clause) : Option Cfg := loadFromOld mt Cfg.init l

end Shk.Printer
