/-!
# C07 — the life cycle of a play around its body (`pkg/cmd/conductor.go` conduct, `run.go` runConduct)

`conduct` runs every actor's cleanup command (concurrently, not interruptible, 10 s time-out),
returns at once if one of them failed, otherwise installs the *deferred* second round of cleanups
and runs the body (theater: prompter, spotlights, audition, collector — the four shutdown stages
are `Model/Conduct.lean`).  `runConduct` waits for `conduct` or for a termination signal; a signal
only asks the stopper to stop (which cancels the interruptible commands — cleanups are not) and
`SIGINT` additionally makes the exit status non-zero; the result of `conduct` is awaited in every
case.  A *second* signal re-raises itself and kills the process (since 068ded5 also when that signal
was ignored when the process was started: it then exits by itself a second later): outside this model —
the fault plays of `vlib/c07.py` only judge that the process is gone in bounded time.

The environment decides: how each cleanup ends each time, whether the body ends with an error
other than a cancellation (a failed or interrupted non-tolerated action, a foul under `-S`, an
evaluation error, …), which signal arrives (when does not matter for what this model tells).
Core only.
-/
namespace Shk.Life

inductive Sig | int | term | hup
deriving DecidableEq, Repr

/-- how the cleanup command of one actor ends: the first and the second time it runs
(`false` = non-zero exit status, or killed at its 10 s time-out) -/
structure Cleanup where
  okInit : Bool
  okFinal : Bool
deriving DecidableEq, Repr

inductive Ev
  | initCleanup (actor : Nat)
  | body
  | finalCleanup (actor : Nat)
deriving DecidableEq, Repr

structure Scenario where
  /-- the actors that have a cleanup command -/
  cleanups : List Cleanup
  /-- the body ends with an error other than a cancellation -/
  bodyErr : Bool
  /-- the (first) termination signal, if any -/
  sig : Option Sig
deriving Repr

def allInitOk (s : Scenario) : Bool := s.cleanups.all (·.okInit)
def allFinalOk (s : Scenario) : Bool := s.cleanups.all (·.okFinal)

def initEvs (n : Nat) : List Ev := (List.range n).map Ev.initCleanup
def finalEvs (n : Nat) : List Ev := (List.range n).map Ev.finalCleanup

/-- `conduct`: what ran (each cleanup event stands for a command that ran to its end), and
whether it returns an error -/
def conduct (s : Scenario) : List Ev × Bool :=
  if allInitOk s then
    (initEvs s.cleanups.length ++ .body :: finalEvs s.cleanups.length, s.bodyErr || !allFinalOk s)
  else
    (initEvs s.cleanups.length, true)

/-- `runConduct`: the same events whatever the signal; `SIGINT` adds `errInterrupted` -/
def runConduct (s : Scenario) : List Ev × Bool :=
  ((conduct s).1, (conduct s).2 || s.sig == some .int)

/-- the pinned-tree variant of a lost special case: if the final cleanups were interruptible, a
signal would leave them unfinished (they are cut short by SIGHUP as soon as they start) -/
def runConductInterruptibleCleanup (s : Scenario) : List Ev × Bool :=
  if s.sig.isSome && allInitOk s then
    (initEvs s.cleanups.length ++ [.body], true)
  else runConduct s

end Shk.Life
