/-!
# C04 / C05 — the prompter (`pkg/cmd/prompt.go`) over an abstract clock

`perform` mirrors `prompter.prompt` / `runScene` / `runLine`: acts in sequence, scenes in
sequence, one concurrent task per line, steps of a line in sequence, the WaitGroup barrier at the
end of a scene, `waitUntil`, the repeat bookkeeping and the failure semantics.  Everything the
operating system decides — how long a command runs, whether it succeeds, and by how much any step
is delayed — is an explicit input (`Env`), so that the theorems quantify over all of it.
Times are natural numbers (nanoseconds).  Core only.
-/
namespace Shk.Prompt

structure Step where
  action : String
  failOk : Bool
deriving Repr, DecidableEq

structure Line where
  actor : String
  steps : List Step
deriving Repr, DecidableEq

/-- a compiled scene: `waitUntil` and the concurrent lines (mood-only scenes have no line) -/
structure Scene where
  waitUntil : Nat
  lines : List Line
deriving Repr, DecidableEq

abbrev Act := List Scene
abbrev Play := List Act

/-- what the environment decides for one action occurrence -/
structure Occ where
  jitter : Nat      -- delay before the command starts (scheduling, fork, …)
  dur : Nat         -- how long the command runs
  ok : Bool         -- exit status 0?
deriving Repr, DecidableEq

/-- identifies an action occurrence: repetition-independent position + running act counter -/
structure Pos where
  actOcc : Nat      -- index of the act *occurrence* (counts repetitions), from 0
  act : Nat         -- act number in the script, from 0
  scene : Nat
  line : Nat
  step : Nat
deriving Repr, DecidableEq

/-- one performed action -/
structure Rec where
  pos : Pos
  actor : String
  action : String
  start : Nat
  stop : Nat
  ok : Bool
  failOk : Bool
deriving Repr, DecidableEq

/-- the environment: decisions for every position (total function, so every schedule of every
play is covered), plus the delay before each scene and each act, plus the repeat time-out
decision after the k-th pass. -/
structure Env where
  occ : Pos → Occ
  sceneJitter : Nat → Nat → Nat     -- act occurrence, scene ↦ delay
  actJitter : Nat → Nat
  timedOut : Nat → Bool             -- `repeat time` exceeded after pass k?

/-- `runLine`: steps in sequence; a failing step that is not tolerated ends the line with an
error.  Returns (records, end time, line succeeded). -/
def runLine (env : Env) (ao a sc ln : Nat) (actor : String) :
    Nat → Nat → List Step → List Rec × Nat × Bool
  | _, t, [] => ([], t, true)
  | k, t, st :: rest =>
    let o := env.occ ⟨ao, a, sc, ln, k⟩
    let r : Rec := { pos := ⟨ao, a, sc, ln, k⟩, actor, action := st.action,
                     start := t + o.jitter, stop := t + o.jitter + o.dur, ok := o.ok, failOk := st.failOk }
    if !o.ok && !st.failOk then ([r], r.stop, false)
    else
      let x := runLine env ao a sc ln actor (k + 1) r.stop rest
      (r :: x.1, x.2.1, x.2.2)

/-- `runScene`: every line is a concurrent task started at the scene's start; the scene ends
when every line has ended (WaitGroup); it fails if some line failed. -/
def runScene (env : Env) (ao a sc : Nat) (t : Nat) : Nat → List Line → List Rec × Nat × Bool
  | _, [] => ([], t, true)
  | ln, l :: rest =>
    let x := runLine env ao a sc ln l.actor 0 t l.steps
    let y := runScene env ao a sc t (ln + 1) rest
    (x.1 ++ y.1, max x.2.1 y.2.1, x.2.2 && y.2.2)

/-- the scenes of one act occurrence, from scene index `sc` at time `t` (act started at `t0`) -/
def runScenes (env : Env) (ao a : Nat) (t0 : Nat) : Nat → Nat → List Scene → List Rec × Nat × Bool
  | _, t, [] => ([], t, true)
  | sc, t, s :: rest =>
    -- wait until `waitUntil` after the act's start; the OS may add any delay
    let t1 := max t (t0 + s.waitUntil) + env.sceneJitter ao sc
    if s.lines.isEmpty then runScenes env ao a t0 (sc + 1) t1 rest
    else
      let x := runScene env ao a sc t1 0 s.lines
      if !x.2.2 then (x.1, x.2.1, false)          -- an error ends the play: no later scene starts
      else
        let y := runScenes env ao a t0 (sc + 1) x.2.1 rest
        (x.1 ++ y.1, y.2.1, y.2.2)

structure Repeat where
  fromAct : Nat          -- `repeatActNum` (1-based; 0 = no repetition)
  count : Int            -- `repeatCount` (-1 = always)
  hasTimeout : Bool      -- `repeatTimeout >= 0`
deriving Repr, DecidableEq

/-- the outer loop of `prompt`: `j` = act index, `ao` = act occurrence counter, `nrep` =
`numRepeats`.  `fuel` bounds the number of act occurrences (the real loop is unbounded with
`repeat always` and no time limit; the theorems hold for every fuel). -/
def loop (env : Env) (play : Play) (rp : Repeat) : Nat → Nat → Nat → Nat → Nat → List Rec × Bool × Bool
  | 0, _, _, _, _ => ([], true, false)            -- out of fuel: (records, ok so far, finished?)
  | fuel + 1, j, ao, nrep, t =>
    match play[j]? with
    | none => ([], true, true)
    | some act =>
      let t0 := t + env.actJitter ao
      let x := runScenes env ao j t0 0 t0 act
      if !x.2.2 then (x.1, false, true)
      else
        -- end of act: are we looping?
        if rp.fromAct > 0 && j + 1 == play.length then
          let stopCount := rp.count > 0 && (nrep + 1 : Int) ≥ rp.count
          let stopTime := rp.hasTimeout && env.timedOut nrep
          if stopCount || stopTime then (x.1, true, true)
          else
            let y := loop env play rp fuel (rp.fromAct - 1) (ao + 1) (nrep + 1) x.2.1
            (x.1 ++ y.1, y.2.1, y.2.2)
        else
          let y := loop env play rp fuel (j + 1) (ao + 1) nrep x.2.1
          (x.1 ++ y.1, y.2.1, y.2.2)

def perform (env : Env) (play : Play) (rp : Repeat) (fuel : Nat) : List Rec × Bool × Bool :=
  loop env play rp fuel 0 0 0 0

/-! ## Specification on an observed trace (oracle for the real binary, theorem right-hand sides) -/

/-- script order on positions: earlier act occurrence, or same occurrence and earlier scene -/
def Pos.groupBefore (p q : Pos) : Bool := p.actOcc < q.actOcc || (p.actOcc == q.actOcc && p.scene < q.scene)

/-- **barrier**: no action of a later group starts before every action of an earlier group ended -/
def barrierOk (tr : List Rec) : Bool :=
  tr.all fun r => tr.all fun q => !(r.pos.groupBefore q.pos) || r.stop ≤ q.start

/-- **line order**: within a line the steps run in the listed order, one after the other -/
def lineOrderOk (tr : List Rec) : Bool :=
  tr.all fun r => tr.all fun q =>
    !(r.pos.actOcc == q.pos.actOcc && r.pos.scene == q.pos.scene && r.pos.line == q.pos.line &&
      r.pos.step < q.pos.step) || r.stop ≤ q.start

/-- **tempo**: an action of scene k of an act occurrence that started at `actStart ao` starts no
earlier than `actStart ao + waitUntil k` -/
def tempoOk (play : Play) (actStart : Nat → Nat) (tr : List Rec) : Bool :=
  tr.all fun r =>
    match (play[r.pos.act]?).bind (·[r.pos.scene]?) with
    | some s => actStart r.pos.actOcc + s.waitUntil ≤ r.start
    | none => false

/-- all positions of one act (scene, line, step) in script order -/
def actPositions (act : Act) : List (Nat × Nat × Nat) :=
  (act.zipIdx.flatMap fun (s, sc) => s.lines.zipIdx.flatMap fun (l, ln) =>
    (List.range l.steps.length).map fun k => (sc, ln, k))

/-- how many times each act is played when the play runs to its end -/
def actMultiplicity (play : Play) (rp : Repeat) (passes : Nat) (j : Nat) : Nat :=
  if rp.fromAct > 0 && j + 1 ≥ rp.fromAct then passes else 1

/-! ## Helper definitions for the theorems (they do not change what the functions above compute) -/

/-- the act occurrences of `loop`, in order: (act occurrence, act index, start time `t0`).
Same control flow as `loop`; only what is returned differs. -/
def actOccs (env : Env) (play : Play) (rp : Repeat) : Nat → Nat → Nat → Nat → Nat → List (Nat × Nat × Nat)
  | 0, _, _, _, _ => []
  | fuel + 1, j, ao, nrep, t =>
    match play[j]? with
    | none => []
    | some act =>
      let t0 := t + env.actJitter ao
      let x := runScenes env ao j t0 0 t0 act
      if !x.2.2 then [(ao, j, t0)]
      else
        if rp.fromAct > 0 && j + 1 == play.length then
          let stopCount := rp.count > 0 && (nrep + 1 : Int) ≥ rp.count
          let stopTime := rp.hasTimeout && env.timedOut nrep
          if stopCount || stopTime then [(ao, j, t0)]
          else (ao, j, t0) :: actOccs env play rp fuel (rp.fromAct - 1) (ao + 1) (nrep + 1) x.2.1
        else (ao, j, t0) :: actOccs env play rp fuel (j + 1) (ao + 1) nrep x.2.1

/-- start time recorded for act occurrence `ao` in a list of occurrences (0 if absent) -/
def startIn (occs : List (Nat × Nat × Nat)) (ao : Nat) : Nat :=
  match occs.find? (fun o => o.1 == ao) with
  | some o => o.2.2
  | none => 0

/-- the occurrences of a whole performance -/
def performOccs (env : Env) (play : Play) (rp : Repeat) (fuel : Nat) : List (Nat × Nat × Nat) :=
  actOccs env play rp fuel 0 0 0 0

/-- `actStart` (the `t0` of `loop`) of act occurrence `ao` -/
def actStartOf (env : Env) (play : Play) (rp : Repeat) (fuel : Nat) (ao : Nat) : Nat :=
  startIn (performOccs env play rp fuel) ao

/-- the act indices in execution order of a play that runs to its end in `passes` passes
(`passes - 1` jumps back to act `fromAct`) -/
def expectedActs (play : Play) (rp : Repeat) (passes : Nat) : List Nat :=
  List.range' 0 play.length ++
    (if rp.fromAct > 0 then
      (List.replicate (passes - 1)
        (List.range' (rp.fromAct - 1) (play.length - (rp.fromAct - 1)))).flatten
     else [])

/-- positions performed when the acts `acts` are played one after the other, the first one being
act occurrence `ao` -/
def expectedFrom (play : Play) : List Nat → Nat → List Pos
  | [], _ => []
  | j :: rest, ao =>
    (actPositions (play[j]?.getD [])).map (fun p => (⟨ao, j, p.1, p.2.1, p.2.2⟩ : Pos)) ++
      expectedFrom play rest (ao + 1)

/-- the positions, in execution order, of a play that runs to its end in `passes` passes -/
def expectedTrace (play : Play) (rp : Repeat) (passes : Nat) : List Pos :=
  expectedFrom play (expectedActs play rp passes) 0

end Shk.Prompt
