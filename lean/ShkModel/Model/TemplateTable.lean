import ShkModel.Model.Template
import ShkModel.Gen.ClauseRe
/-! The clause regexps of `parsecfg.go` that are templates (see `Model/Template.lean`), each with its name, the
regexp regenerated from the Go source (`Gen.*Re`) and its template.  That the two agree is theorem
`C10.templates_are_the_regexps`, re-checked on every run.  Core only. -/
namespace Shk.Tpl
open Shk.Re

/-- the regexp the current Go source declares under this name (`.empty` when there is none: then
`templates_are_the_regexps` fails for that row only, and nothing else stops compiling) -/
def byName (n : String) : Re := (Gen.all.lookup n).getD .empty

def namedTemplates : List (String × Re × List Tok × Fin) := [
  ("paramRe", byName "paramRe", [.lit ['p', 'a', 'r', 'a', 'm', 'e', 't', 'e', 'r'], .ws, .word 1 (some "name"), .ws, .lit ['d', 'e', 'f', 'a', 'u', 'l', 't', 's'], .ws, .lit ['t', 'o'], .ws], .rest 2 (some "val")),
  ("interpretationRe", byName "interpretationRe", [.lit ['i', 'n', 't', 'e', 'r', 'p', 'r', 'e', 't', 'a', 't', 'i', 'o', 'n']], .eot),
  ("audienceRe", byName "audienceRe", [.lit ['a', 'u', 'd', 'i', 'e', 'n', 'c', 'e']], .eot),
  ("actorsRe", byName "actorsRe", [.lit ['c', 'a', 's', 't']], .eot),
  ("scriptRe", byName "scriptRe", [.lit ['s', 'c', 'r', 'i', 'p', 't']], .eot),
  ("watchVarRe", byName "watchVarRe", [.word 1 (some "name"), .ws, .lit ['w', 'a', 't', 'c', 'h', 'e', 's'], .ws, .word 2 (some "varname")], .wsEot),
  ("measuresRe", byName "measuresRe", [.word 1 (some "name"), .ws, .lit ['m', 'e', 'a', 's', 'u', 'r', 'e', 's'], .ws], .rest 2 (some "ylabel")),
  ("computesRe", byName "computesRe", [.word 1 (some "name"), .ws, .lit ['c', 'o', 'm', 'p', 'u', 't', 'e', 's'], .ws, .word 2 (some "var"), .ws, .lit ['a', 's'], .ws], .rest 3 (some "expr")),
  ("expectsSameRe", byName "expectsSameRe", [.word 1 (some "name"), .ws, .lit ['e', 'x', 'p', 'e', 'c', 't', 's'], .ws, .lit ['l', 'i', 'k', 'e'], .ws], .rest 2 (some "target")),
  ("noPlotRe", byName "noPlotRe", [.word 1 (some "name"), .ws, .lit ['o', 'n', 'l', 'y'], .ws, .lit ['h', 'e', 'l', 'p', 's']], .wsEot),
  ("actionDefRe", byName "actionDefRe", [.lit [':'], .word 1 (some "actionname"), .ws], .rest 2 (some "cmd")),
  ("spotlightDefRe", byName "spotlightDefRe", [.lit ['s', 'p', 'o', 't', 'l', 'i', 'g', 'h', 't'], .ws], .rest 1 (some "cmd")),
  ("cleanupDefRe", byName "cleanupDefRe", [.lit ['c', 'l', 'e', 'a', 'n', 'u', 'p'], .ws], .rest 1 (some "cmd")),
  ("parseDefRe", byName "parseDefRe", [.lit ['s', 'i', 'g', 'n', 'a', 'l'], .ws, .word 1 (some "name"), .ws, .word 2 (some "type"), .ws, .lit ['a', 't'], .ws], .rest 3 (some "re")),
  ("tempoRe", byName "tempoRe", [.lit ['t', 'e', 'm', 'p', 'o'], .ws], .rest 1 (some "dur")),
  ("repeatCountRe", byName "repeatCountRe", [.lit ['r', 'e', 'p', 'e', 'a', 't'], .ws, .word 1 (some "count"), .ws, .lit ['t', 'i', 'm', 'e', 's']], .eot),
  ("repeatAlwaysRe", byName "repeatAlwaysRe", [.lit ['r', 'e', 'p', 'e', 'a', 't'], .ws, .lit ['a', 'l', 'w', 'a', 'y', 's']], .eot),
  ("repeatTimeoutRe", byName "repeatTimeoutRe", [.lit ['r', 'e', 'p', 'e', 'a', 't'], .ws, .lit ['t', 'i', 'm', 'e'], .ws], .rest 1 (some "dur")),
  ("editRe", byName "editRe", [.lit ['e', 'd', 'i', 't'], .ws], .rest 1 (some "editcmd")),
  ("repeatRe", byName "repeatRe", [.lit ['r', 'e', 'p', 'e', 'a', 't'], .ws, .lit ['f', 'r', 'o', 'm'], .ws], .rest 1 (some "repeat"))
]

/-- the template clause regexps of the current source, each with its template -/
def clauseTemplates : List (Re × List Tok × Fin) := namedTemplates.map (·.2)

/-- the fields of a line according to the captures `c` of a match: the words in template order, and the rest -/
def wordsFrom (s : List Char) (c : Captures) : List Tok → List (List Char)
  | [] => []
  | .word i _ :: T => (match c[i]? with
      | some (some (a, b)) => slice s a b
      | _ => []) :: wordsFrom s c T
  | _ :: T => wordsFrom s c T

def restFrom (s : List Char) (c : Captures) : Fin → List Char
  | .rest i _ => match c[i]? with
      | some (some (a, b)) => slice s a b
      | _ => []
  | _ => []

/-- is the line, which the regexp matches, the rendering of its own fields (keywords and fields separated by
single blanks, fields trimmed)?  Then `printed_clause_line_parses` applies to it. -/
def isImage (s : List Char) (e : Re × List Tok × Fin) : Option Bool :=
  match run e.1 s with
  | none => none
  | some c =>
    let ws := wordsFrom s c e.2.1
    let r := restFrom s c e.2.2
    some (Ok e.2.1 e.2.2 ws r && render e.2.1 e.2.2 ws r == s)

end Shk.Tpl
