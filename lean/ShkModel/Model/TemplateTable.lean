import ShkModel.Model.Template
import ShkModel.Gen.ClauseRe
/-! The clause regexps of the current Go source that are templates (see `Model/Template.lean`): read off the
regenerated `Gen.all` by `templateOf`, so the table follows the source — a renamed regexp stays in it, a regexp
edited out of the family leaves it, a new template regexp joins it.  Core only. -/
namespace Shk.Tpl
open Shk.Re

def namedTemplates : List (String × Re × List Tok × Fin) :=
  Gen.all.filterMap fun e => (templateOf e.2).map fun t => (e.1, e.2, t.1, t.2)

/-- the template clause regexps of the current source, each with its template -/
def clauseTemplates : List (Re × List Tok × Fin) := namedTemplates.map (·.2)

/-- the regexp the current Go source declares under this name -/
def byName (n : String) : Re := (Gen.all.lookup n).getD .empty

/-- the fields of a line according to the captures `c` of a match: the words in template order, and the rest -/
def wordsFrom (s : List Char) (c : Captures) : List Tok → List (List Char)
  | [] => []
  | .word i _ :: T => (match c[i]? with
      | some (some (a, b)) => slice s a b
      | _ => []) :: wordsFrom s c T
  | .num i _ :: T => (match c[i]? with
      | some (some (a, b)) => slice s a b
      | _ => []) :: wordsFrom s c T
  | _ :: T => wordsFrom s c T

def restFrom (s : List Char) (c : Captures) : Fin → List Char
  | .rest i _ => match c[i]? with
      | some (some (a, b)) => slice s a b
      | _ => []
  | _ => []

/-- is the line, which the regexp matches, the rendering of its own fields (keywords and fields separated by
single blanks, fields trimmed)?  Then `printed_clause_line_parses` applies to it. -/
def isImage (s : List Char) (e : Re × List Tok × Fin) : Option Bool :=
  match run e.1 s with
  | none => none
  | some c =>
    let ws := wordsFrom s c e.2.1
    let r := restFrom s c e.2.2
    some (Ok e.2.1 e.2.2 ws r && render e.2.1 e.2.2 ws r == s)

end Shk.Tpl
