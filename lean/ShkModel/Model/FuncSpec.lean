import ShkModel.Model.Expr
/-!
# C11 — specifications of the aggregation modes and of the array functions

Written from the statement of the property ("the mathematically defined result over the
non-nil elements"), independently of how the code computes them.  Used as theorem right-hand
sides and as the oracle on results of the real code.  Core only.
-/
namespace Shk.FuncSpec
open Shk

/-- numeric value of a collected element (top/bottom store numbers; bool counts as 0/1) -/
def numsOfAll (l : List Sc) : List Rat := (nonNil l).filterMap Sc.numOf

def sortDesc (l : List Rat) : List Rat := (sortAsc l).reverse

/-- what a `collects … <mode> N` variable must hold after the values `xs` -/
def collectSpec (m : Mode) (n : Nat) (xs : List Sc) : List Sc :=
  match m with
  | .single => []
  | .first => (nonNil xs).take n
  | .last => (nonNil xs).drop ((nonNil xs).length - n)
  | .top => ((sortDesc (numsOfAll xs)).take n).map Sc.num
  | .bottom => ((sortAsc (numsOfAll xs)).take n).map Sc.num

def isSortedAsc : List Rat → Bool
  | [] => true
  | [_] => true
  | a :: b :: r => a ≤ b && isSortedAsc (b :: r)

/-- multiset equality of rational lists -/
def sameElems (a b : List Rat) : Bool := a.length == b.length && a.all fun x => a.count x == b.count x

/-- `r` is the median of `xs`: middle of the sort, or mean of the two middles -/
def isMedian (r : Rat) (xs : List Rat) : Bool :=
  let s := sortAsc xs
  if s.length % 2 == 1 then some r == s[(s.length - 1) / 2]?
  else match s[s.length / 2 - 1]?, s[s.length / 2]? with
    | some a, some b => r == (a + b) / 2
    | _, _ => false

/-- the specification of an array function as a predicate on (arguments, result) -/
def funcOk (f : String) (args : List Sc) (res : Val) : Bool :=
  let xs := nonNil args
  match f with
  | "count" => res == .sc (.num xs.length)
  | "first" => res == .sc (xs.head?.getD .nil)
  | "last" => res == .sc (xs.getLast?.getD .nil)
  | "sum" =>
    match xs.mapM Sc.numOf with
    | some [] => res == .sc .nil
    | some ns => res == .sc (.num (ns.foldr (· + ·) 0))
    | none => true      -- strings: outside the property
  | "avg" | "average" =>
    match xs.mapM Sc.numOf with
    | some [] => res == .sc .nil
    | some ns => res == .sc (.num (ns.foldr (· + ·) 0 / ns.length))
    | none => true
  | "min" =>
    match xs.mapM Sc.numOf with
    | some [] => res == .sc .nil
    | some ns => match res with
      | .sc (.num v) => ns.contains v && ns.all (v ≤ ·)
      | _ => false
    | none => true
  | "max" =>
    match xs.mapM Sc.numOf with
    | some [] => res == .sc .nil
    | some ns => match res with
      | .sc (.num v) => ns.contains v && ns.all (· ≤ v)
      | _ => false
    | none => true
  | "med" | "median" =>
    match xs.mapM Sc.numOf with
    | some [] => res == .sc .nil
    | some ns => match res with
      | .sc (.num v) => isMedian v ns
      | _ => false
    | none => true
  | "sorted" =>
    -- a sorted permutation: compared on the numeric non-nil part
    match xs.mapM Sc.numOf with
    | some [] => res == .sc .nil || (match res with | .arr r => (nonNil r).isEmpty | _ => false)
    | some ns => match res with
      | .arr r => match (nonNil r).mapM Sc.numOf with
        | some rs => isSortedAsc rs && sameElems rs ns
        | none => false
      | _ => false
    | none => true
  | _ => true

end Shk.FuncSpec
