/-! Model of the preprocessing facility of `pkg/cmd` (C20), core Lean only.

* `preprocReplace` (parsecfg.go): `preprocRe = ~\w+~`, `ReplaceAllStringFunc`: one pass, left to
  right, non-overlapping matches; a defined name is replaced by its value (the value is NOT
  scanned again), an undefined one is left as it is and reported.  `\w` is ASCII-only in Go's
  regexp, so the scanner works on bytes.
* the parameter table: `parseDefines` (config.go) — `-D name=value` in command-line order, a
  name already present is skipped; `parameter <name> defaults to <value>` (parseCfg) — defines
  only when absent.  A table is an association list searched from the front; definitions are
  appended, so the first definition wins.

Bytes are `Nat`s (0..255); text is `List Nat`. -/
namespace Shk.Preproc

abbrev Bytes := List Nat

/-- `~` -/
abbrev tilde : Nat := 126

/-- Go regexp `\w` = `[0-9A-Za-z_]`. -/
def isWord (c : Nat) : Bool :=
  (48 ≤ c && c ≤ 57) || (65 ≤ c && c ≤ 90) || (97 ≤ c && c ≤ 122) || c == 95

/-- One piece of the scanned text: a byte copied through, or an occurrence `~name~`. -/
inductive Seg where
  | lit (c : Nat)
  | occ (name : Bytes)
deriving DecidableEq, Repr

/-- Text after an opening `~`: the name and the length to skip when `\w+~` matches here. -/
def matchAt (t : Bytes) : Option Bytes :=
  match t.dropWhile isWord with
  | c :: _ => if c == tilde && !(t.takeWhile isWord).isEmpty then some (t.takeWhile isWord) else none
  | [] => none

/-- The scanner.  `skip` counts the bytes of a match that are still to be passed over. -/
def scanAux : Bytes → Nat → List Seg
  | [], _ => []
  | _ :: rest, k + 1 => scanAux rest k
  | c :: rest, 0 =>
    if c == tilde then
      match matchAt rest with
      | some w => Seg.occ w :: scanAux rest (w.length + 1)
      | none => Seg.lit c :: scanAux rest 0
    else Seg.lit c :: scanAux rest 0

def scan (s : Bytes) : List Seg := scanAux s 0

/-- The text a segment stands for in the input. -/
def Seg.render : Seg → Bytes
  | .lit c => [c]
  | .occ w => tilde :: w ++ [tilde]

abbrev Table := List (Bytes × Bytes)

def lookup (t : Table) (n : Bytes) : Option Bytes :=
  match t with
  | [] => none
  | (k, v) :: rest => if k = n then some v else lookup rest n

/-- What a segment becomes in the output. -/
def Seg.expand (t : Table) : Seg → Bytes
  | .lit c => [c]
  | .occ w => match lookup t w with
    | some v => v
    | none => tilde :: w ++ [tilde]

/-- The undefined occurrence, if the segment is one. -/
def Seg.undef (t : Table) : Seg → Option Bytes
  | .lit _ => none
  | .occ w => match lookup t w with
    | some _ => none
    | none => some w

/-- `cfg.preprocReplace`: the substituted text and the undefined names in order of occurrence
(the Go error is nil iff the list is empty; its message lists `~name~` for each, in order). -/
def preprocReplace (t : Table) (s : Bytes) : Bytes × List Bytes :=
  ((scan s).flatMap (Seg.expand t), (scan s).filterMap (Seg.undef t))

/-- Define `n` unless it is defined already (both `parseDefines` and the `parameter` clause). -/
def define (t : Table) (n v : Bytes) : Table :=
  match lookup t n with
  | some _ => t
  | none => t ++ [(n, v)]

/-- `-D` argument: split at the first `=`; without `=` the value is empty. -/
def splitDefine (d : Bytes) : Bytes × Bytes :=
  match d.dropWhile (· != 61) with
  | [] => (d, [])
  | _ :: v => (d.takeWhile (· != 61), v)

/-- `parseDefines`: the table after the command line. -/
def fromDefines (ds : List Bytes) : Table :=
  ds.foldl (fun t d => define t (splitDefine d).1 (splitDefine d).2) []

/-- `parameter … defaults to …` clauses applied in reading order after the command line. -/
def withDefaults (t : Table) (ps : List (Bytes × Bytes)) : Table :=
  ps.foldl (fun t p => define t p.1 p.2) t

end Shk.Preproc
