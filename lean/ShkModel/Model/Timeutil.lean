/-!
# C18 — `pkg/crdb/timeutil`: microsecond conversions and the `Timer` wrapper

An instant is `(sec, nsec)` with `0 ≤ nsec < 10⁹` as in Go's `time.Time` (wall clock part).
Core only.
-/
namespace Shk.Timeutil

/-- Go `t.Round(time.Microsecond)`: nearest multiple of 1000 ns, halfway values rounded up. -/
def roundUs (sec nsec : Int) : Int × Int :=
  ((sec * 1000000000 + nsec + 500) / 1000 * 1000 / 1000000000,
   (sec * 1000000000 + nsec + 500) / 1000 * 1000 % 1000000000)

/-- `ToUnixMicros` as repaired (fix: commit): seconds and microseconds both taken from the rounded
instant: `t = t.Round(time.Microsecond); t.Unix()*1e6 + t.Nanosecond()/1e3`. -/
def toUnixMicros (sec nsec : Int) : Int :=
  (roundUs sec nsec).1 * 1000000 + (roundUs sec nsec).2 / 1000

/-- `ToUnixMicros` as the pinned commit had it: seconds from the *unrounded* instant. -/
def toUnixMicrosOld (sec nsec : Int) : Int := sec * 1000000 + (roundUs sec nsec).2 / 1000

/-- `FromUnixMicros`: `time.Unix(us/1e6, (us%1e6)*1e3)` with Go's truncated division, normalised
by `time.Unix` into `0 ≤ nsec < 10⁹`. -/
def fromUnixMicros (us : Int) : Int × Int :=
  if Int.tmod us 1000000 * 1000 < 0
  then (Int.tdiv us 1000000 - 1, Int.tmod us 1000000 * 1000 + 1000000000)
  else (Int.tdiv us 1000000, Int.tmod us 1000000 * 1000)

/-- the specification: nearest microsecond, half up -/
def nearestMicros (sec nsec : Int) : Int := (sec * 1000000000 + nsec + 500) / 1000

/-! ## Timer

`time.Timer` under the module's language version (`go 1.12`: channel of capacity 1, a fired
value stays in the channel across Stop/Reset) and the wrapper `timeutil.Timer`. Time is a
natural number of abstract ticks. -/

structure GoTimer where
  armed : Option Nat      -- deadline when armed
  chan  : Option Nat      -- buffered value (the fire time), capacity 1
deriving Repr, DecidableEq

structure St where
  now   : Nat := 0
  timer : Option GoTimer := none   -- `t.timer`; `none` = nil (fresh or after Stop)
  read  : Bool := false            -- `t.Read`
  deadline : Nat := 0              -- deadline of the latest Reset (ghost)
  resets : Nat := 0                -- ghost counters
  recvd  : Nat := 0
  pool  : List GoTimer := []       -- `timeTimerPool`: the time.Timers handed back by successful Stops
deriving Repr, DecidableEq

inductive Op
  | reset (d : Nat)     -- `t.Reset(d)`
  | tick (dt : Nat)     -- time passes; the runtime fires the timer when its deadline is reached
  | recv                -- `select { case <-t.C: t.Read = true; default: }`
  | stop                -- `t.Stop()`
deriving Repr, DecidableEq

inductive Out
  | ok
  | blocked             -- Reset would block in `<-t.C`
  | got (firedAt : Nat) -- recv delivered a value
  | none                -- recv found nothing
  | stopped (res : Bool)
deriving Repr, DecidableEq

/-- the Go runtime: fire when armed and the deadline has passed; the send is non-blocking
(a full channel drops the value). -/
def fire (now : Nat) (g : GoTimer) : GoTimer :=
  match g.armed with
  | some dl => if dl ≤ now then { armed := none, chan := g.chan.or (some now) } else g
  | none => g

def step (s : St) : Op → St × Out
  | .tick dt =>
    ({ s with now := s.now + dt, timer := s.timer.map (fire (s.now + dt)) }, .ok)
  | .reset d =>
    match s.timer with
    | none =>
      -- first use: a pooled time.Timer re-armed — with whatever its channel holds —, or time.NewTimer(d);
      -- Read is left as it is
      match s.pool with
      | g :: rest =>
        ({ s with timer := some { armed := some (s.now + d), chan := g.chan }, pool := rest,
                  deadline := s.now + d, resets := s.resets + 1 }, .ok)
      | [] =>
        ({ s with timer := some { armed := some (s.now + d), chan := none },
                  deadline := s.now + d, resets := s.resets + 1 }, .ok)
    | some g =>
      -- `if !t.timer.Stop() && !t.Read { <-t.C }`
      if g.armed.isNone && !s.read && g.chan.isNone then (s, .blocked)
      else
        ({ s with timer := some { armed := some (s.now + d),
                                  chan := if g.armed.isNone && !s.read then none else g.chan },
                  read := false, deadline := s.now + d, resets := s.resets + 1 }, .ok)
  | .recv =>
    match s.timer with
    | some g =>
      match g.chan with
      | some v => ({ s with timer := some { g with chan := none }, read := true, recvd := s.recvd + 1 }, .got v)
      | none => (s, .none)
    | none => (s, .none)       -- C is nil: a receive never succeeds
  | .stop =>
    match s.timer with
    | some g =>
      -- `if res { timeTimerPool.Put(t.timer) }`: only a timer that was still armed goes back to the pool
      ({ s with timer := none, read := false,
                pool := if g.armed.isSome then { armed := none, chan := g.chan } :: s.pool else s.pool },
       .stopped g.armed.isSome)
    | none => ({ s with timer := none, read := false }, .stopped false)

def run (s : St) : List Op → St × List Out
  | [] => (s, [])
  | o :: os => let r := step s o; let rr := run r.1 os; (rr.1, r.2 :: rr.2)

end Shk.Timeutil
