import ShkModel.Gen.Access
/-!
# C14 — the hand-written policy: which discipline protects which shared location

The constants `L.«…»` (locations), `R.«…»` (roots), `M.«…»` (mutexes) are generated together with the
table; they carry the names the translator prints (`T.f` field of struct `T`, `T.f[]` elements of the map /
slice held in that field, `var x` package variable, `local F.x` local variable of `F` captured by a
goroutine; roots `F#n` = n-th goroutine start in function `F`, `[g]` = the calling context of a
higher-order function).  A location that several thread instances touch and some access writes
MUST have an entry (or `disciplineOk` fails); locations touched by one single-instance root need none.
-/
namespace Shk.Race

open Shk.Gen

def rMain : Nat := R.«main»
/-- `runWorker(playCtx, …)` in runConduct: the goroutine that runs `conduct` -/
def rConductor : Nat := R.«app.runConduct#1»
def rPrompter : Nat := R.«prompter.startPrompter#1»
def rSpotMgr : Nat := R.«spotMgr.startSpotlights#1»
def rCollector : Nat := R.«collector.startCollector#1»
def rAudition : Nat := R.«audition.startAudition#1»
/-- one per actor with a cleanup command -/
def rCleanup : Nat := R.«app.runForAllActors#1[runCleanup$1]»
/-- one per concurrent script line -/
def rLine : Nat := R.«prompter.runScene#1»
/-- one per actor with a spotlight -/
def rSpot : Nat := R.«spotMgr.manageSpotlights#1»

def policy : List (Nat × Discipline) := [
  -- the conductor's clock: set by openDoors before anything is started, read by everybody
  (L.«app.startTime», .initThenReadOnly rConductor),
  -- makeAuditionState names the auditors and creates their states before the audition starts
  (L.«auditor.name», .initThenReadOnly rConductor),
  (L.«auditionState.auditorStates[]», .initThenReadOnly rConductor),
  -- the configuration and what newApp / runConduct set up before the conductor is started
  (L.«app.isTerminal», .initThenReadOnly rMain),
  (L.«app.stopper», .initThenReadOnly rMain),
  (L.«actor.actionScripts[]», .initThenReadOnly rMain),
  (L.«actor.cleanupScript», .initThenReadOnly rMain),
  (L.«actor.spotlightScript», .initThenReadOnly rMain),
  (L.«actor.workDir», .initThenReadOnly rMain),
  (L.«config.asciiOnly», .initThenReadOnly rMain),
  (L.«config.dataDir», .initThenReadOnly rMain),
  (L.«config.earlyExit», .initThenReadOnly rMain),
  (L.«config.play», .initThenReadOnly rMain),
  (L.«config.play[]», .initThenReadOnly rMain),
  (L.«config.quiet», .initThenReadOnly rMain),
  (L.«config.vars[]», .initThenReadOnly rMain),
  (L.«fsm.edges», .initThenReadOnly rMain),
  (L.«fsm.labels», .initThenReadOnly rMain),
  (L.«fsm.startState», .initThenReadOnly rMain),
  (L.«fsm.stateNames», .initThenReadOnly rMain),
  (L.«role.sigParsers», .initThenReadOnly rMain),
  (L.«role.sigParsers[]», .initThenReadOnly rMain),
  (L.«role.spotlightCmd», .initThenReadOnly rMain),
  (L.«scene.concurrentLines», .initThenReadOnly rMain),
  (L.«scene.waitUntil», .initThenReadOnly rMain),
  (L.«scriptLine.steps», .initThenReadOnly rMain),
  (L.«variable.watcherNames», .initThenReadOnly rMain),
  (L.«variable.watcherNames[]», .initThenReadOnly rMain),
  (L.«variable.watchers[]», .initThenReadOnly rMain),
  (L.«var collectFns», .initThenReadOnly rMain),
  (L.«var errAuditViolation», .initThenReadOnly rMain),
  (L.«var narratorCtx», .initThenReadOnly rMain),
  (L.«var registry», .initThenReadOnly rMain),
  -- results: written by the collector / the audition / the prompter while the play runs, read by
  -- the conductor after `wg….Wait()` and by main after the conductor has reported
  (L.«app.minTime», .handoff),
  (L.«app.maxTime», .handoff),
  (L.«actor.hasData», .handoff),
  (L.«observer.hasData», .handoff),
  (L.«auditor.hasData», .handoff),
  (L.«collectedSignal.hasData», .handoff),
  (L.«collectedSignal.drawEvents», .handoff),
  (L.«collectorState.errors», .handoff),
  (L.«collectorState.badCounts[]», .handoff),
  (L.«collectorState.goodCounts[]», .handoff),
  (L.«auditionResults.actChanges», .handoff),
  (L.«auditionResults.actChanges[]», .handoff),
  (L.«auditionResults.moodPeriods», .handoff),
  (L.«auditionResults.numRepeats», .handoff),
  (L.«auditionState.curActivated[]», .handoff),
  (L.«auditionState.curVals[]», .handoff),
  -- the terminal width (SIGWINCH handler against the witness / judge columns)
  (L.«app.terminalWidth», .atomic),
  -- the worker registry
  (L.«workerRegistry.mu.numWorkers», .locked M.«workerRegistry.Mutex»),
  (L.«workerRegistry.mu.workers[]», .locked M.«workerRegistry.Mutex»),
  -- per-instance objects (A2).  A sink belongs to one actor and only that actor's spotlight (and
  -- the goroutine draining its output) computes deltas on it; an exec.Cmd is made by the goroutine
  -- that runs the command; `outbuf` and `stopRead` are locals of one activation of
  -- runActorCommand / runActorCommandWithConsumer shared with the drain goroutine it forks and joins.
  (L.«sink.lastVal», .perInstance [rSpot]),
  (L.«exec.Cmd.Dir», .perInstance [rMain, rCleanup, rLine, rSpot]),
  (L.«exec.Cmd.Stdin», .perInstance [rCleanup, rLine, rSpot]),
  (L.«exec.Cmd.Stdout», .perInstance [rCleanup, rLine, rSpot]),
  (L.«exec.Cmd.SysProcAttr», .perInstance [rCleanup, rLine, rSpot]),
  (L.«local actor.runActorCommand.outbuf», .perInstance [rCleanup, rLine]),
  (L.«local actor.runActorCommandWithConsumer.stopRead», .perInstance [rCleanup, rLine, rSpot]),
  -- objects that travel through channels (A3; the translator checks that no function writes them after
  -- sending them: `sentThenWritten`): reports to the collector, events to the audition,
  -- error values to whoever waits for them
  (L.«actionReport.failOk», .message),
  (L.«auditionReport.output», .message),
  (L.«auditionReport.result», .message),
  (L.«sigEvent.values», .message),
  (L.«sigEvent.values[]», .message),
  (L.«errorCollection.errs», .message),
  (L.«errorCollection.errs[]», .message)
]

/-- exits that skip a join and are accepted (A4) -/
def allowedLeaks : List String :=
  ["app.runConduct: return errors.Errorf(\"time limit reached, initiating hard shutdown\")"]

def pol (l : Nat) : Option Discipline := policy.lookup l

end Shk.Race
