import ShkModel.Gen.ClauseRe
/-!
# C06 — storylines: merge (`storyline.go`), validation (`config.go`), compilation (`compile.go`)

Strings are modelled as `List Char`, one `Char` per *byte* (the Go code indexes bytes; `strings.TrimSpace` removes
white-space code points, ASCII or not: `trim` recognises their UTF-8 encodings).
Durations are natural numbers of nanoseconds.  Core only.

Part 1 follows the Go code statement by statement (`extractAction`, `combineActs`,
`combineStoryLines`, `validateStoryLine`, `compileV2`, the `scene … entails` / `mood` /
`storyline` / `edit` clauses of `parseScript`).
Part 2 is the *specification*: the reading of a storyline as columns of scene characters and
the schedule it denotes, written from the statement of the property and sharing nothing with
part 1 but the data types and the lexical helpers (`splitSp`, `trim`, `splitMark`).
-/
namespace Shk.Story

abbrev Act := List Char

/-! ## Part 1a — `extractAction`, `combineActs`, `combineStoryLines` -/

/-- the loop of `extractAction`: swallow `+c` pairs while at least two bytes remain. -/
def more : List Char → List Char × List Char
  | '+' :: d :: rest => ('+' :: d :: (more rest).1, (more rest).2)
  | rest => ([], rest)

/-- `extractAction(act, i)`: (the unit `c(+d)*` at the front, the remainder); `("", i)` at the end. -/
def extract : List Char → List Char × List Char
  | [] => ([], [])
  | c :: rest => (c :: (more rest).1, (more rest).2)

theorem more_len (l : List Char) : (more l).2.length ≤ l.length := by
  fun_induction more l with
  | case1 d rest ih => simp only [List.length_cons]; omega
  | case2 rest h => simp

theorem extract_len (c : Char) (l : List Char) :
    (extract (c :: l)).2.length < (c :: l).length := by
  simp [extract]; have := more_len l; omega

/-- the body of the loop of `combineActs`: what is written for the units `s1`, `s2`. -/
def piece (s1 s2 : List Char) : List Char :=
  if s1 = ['.'] then (if s2 ≠ [] then s2 else ['.'])
  else s1 ++ (if s2 ≠ [] ∧ s2 ≠ ['.'] then '+' :: s2 else [])

/-- `combineActs(act1, act2)` -/
def comb : List Char → List Char → List Char
  | [], b => b
  | c :: a, b =>
    piece (extract (c :: a)).1 (extract b).1 ++ comb (extract (c :: a)).2 (extract b).2
termination_by a => a.length
decreasing_by exact extract_len c a

/-- `combineStoryLines(line1, line2)`: act by act, the longer list supplies the rest. -/
def combineStory : List Act → List Act → List Act
  | [], l2 => l2
  | a :: l1, [] => a :: l1
  | a :: l1, b :: l2 => comb a b :: combineStory l1 l2

/-! ## Part 1b — `validateStoryLine` -/

/-- ASCII white space -/
def isSpace (c : Char) : Bool :=
  c == ' ' || c == '\t' || c == '\n' || c == '\x0b' || c == '\x0c' || c == '\r'

/-- a byte that is neither white space nor part of a multi-byte character (what scene shorthands, `.` and `+` are) -/
def isPlain (c : Char) : Bool := !isSpace c && decide (c.toNat < 128)

/-- number of bytes of the white-space code point a byte string starts with (0: none).  `unicode.IsSpace`: the six
ASCII ones, U+0085, U+00A0, U+1680, U+2000–U+200A, U+2028, U+2029, U+202F, U+205F, U+3000 in UTF-8 -/
def spaceLen : List Char → Nat
  | [] => 0
  | c :: rest =>
    if isSpace c then 1 else
    match c.toNat, rest with
    | 0xC2, d :: _ => if d.toNat == 0x85 || d.toNat == 0xA0 then 2 else 0
    | 0xE1, d :: e :: _ => if d.toNat == 0x9A && e.toNat == 0x80 then 3 else 0
    | 0xE2, d :: e :: _ =>
      if d.toNat == 0x80 && ((0x80 ≤ e.toNat && e.toNat ≤ 0x8A) || e.toNat == 0xA8 || e.toNat == 0xA9 || e.toNat == 0xAF) then 3
      else if d.toNat == 0x81 && e.toNat == 0x9F then 3 else 0
    | 0xE3, d :: e :: _ => if d.toNat == 0x80 && e.toNat == 0x80 then 3 else 0
    | _, _ => 0

/-- the same at the end of a byte string, given reversed -/
def spaceLenR : List Char → Nat
  | [] => 0
  | c :: rest =>
    if isSpace c then 1 else
    match rest with
    | d :: more =>
      if d.toNat == 0xC2 && (c.toNat == 0x85 || c.toNat == 0xA0) then 2 else
      match more with
      | e :: _ => if spaceLen [e, d, c] == 3 then 3 else 0
      | [] => 0
    | [] => 0

/-- drop white-space code points from the front, at most `fuel` of them -/
def dropSpaces (len : List Char → Nat) : Nat → List Char → List Char
  | 0, l => l
  | fuel + 1, l => if len l = 0 then l else dropSpaces len fuel (l.drop (len l))

/-- `strings.TrimSpace` on the bytes of a string -/
def trim (l : List Char) : List Char :=
  (dropSpaces spaceLenR l.length (dropSpaces spaceLen l.length l).reverse).reverse

def consHead (c : Char) : List (List Char) → List (List Char)
  | [] => [[c]]
  | p :: ps => (c :: p) :: ps

/-- `strings.Split(s, " ")` -/
def splitSp : List Char → List (List Char)
  | [] => [[]]
  | c :: rest => if c = ' ' then [] :: splitSp rest else consHead c (splitSp rest)

/-- `strings.Join(acts, " ")` -/
def joinSp : List Act → List Char
  | [] => []
  | [a] => a
  | a :: rest => a ++ ' ' :: joinSp rest

/-- `strings.ReplaceAll(strings.TrimSpace(part), "_", "")` -/
def cleanPart (p : List Char) : List Char := (trim p).filter (· ≠ '_')

inductive VErr
  | plusBegin | plusEnd | plusPlus | undefinedScene (c : Char)
deriving DecidableEq, Repr

/-- the `for i := 0; i < len(part); i++` loop; `prev` is `part[i-1]` (none when `i == 0`),
`none` as a result means "no error". -/
def checkFrom (defd : Char → Bool) : Option Char → List Char → Option VErr
  | _, [] => none
  | prev, c :: rest =>
    if c = ' ' ∨ c = '.' then checkFrom defd (some c) rest
    else if c = '+' then
      if prev = none then some .plusBegin
      else if rest = [] then some .plusEnd
      else if prev = some '+' then some .plusPlus
      else checkFrom defd (some c) rest
    else if defd c = true then checkFrom defd (some c) rest
    else some (.undefinedScene c)

def validateParts (defd : Char → Bool) : List (List Char) → Except VErr (List Act)
  | [] => .ok []
  | p :: ps =>
    if cleanPart p = [] then validateParts defd ps
    else match checkFrom defd none (cleanPart p) with
      | some e => .error e
      | none =>
        match validateParts defd ps with
        | .ok acts => .ok (cleanPart p :: acts)
        | .error e => .error e

/-- `cfg.validateStoryLine(text)` given which scene characters are defined. -/
def validate (defd : Char → Bool) (text : List Char) : Except VErr (List Act) :=
  validateParts defd (splitSp text)

/-! ## Part 1c — `compileV2` -/

/-- `sceneSpec`: entails = (actor name, actions as written, `?` suffix included) -/
structure Spec where
  entails : List (String × List String) := []
  moodStart : String := ""
  moodEnd : String := ""

/-- `cfg.sceneSpecs` -/
abbrev Table := Char → Option Spec

structure Step where
  mood : Bool
  action : String
  failOk : Bool
deriving DecidableEq, Repr

/-- `scriptLine`; `actor = none` is Go's nil actor (mood line). -/
structure Line where
  actor : Option String
  steps : List Step
deriving DecidableEq, Repr

structure Scene where
  waitUntil : Nat
  lines : List Line
deriving DecidableEq, Repr

/-- `strings.HasSuffix(act, "?")` / `TrimSuffix` -/
def splitMark (a : String) : String × Bool :=
  if a.toList.getLast? = some '?' then (String.ofList a.toList.dropLast, true) else (a, false)

def lineOf (e : String × List String) : Line :=
  ⟨some e.1, e.2.map fun a => ⟨false, (splitMark a).1, (splitMark a).2⟩⟩

/-- the lines one scene adds to `thisScene` (a line without steps is erased again) -/
def linesOf (sc : Spec) : List Line := (sc.entails.map lineOf).filter fun l => !l.steps.isEmpty

/-- `moodStart`, `moodEnd`, `thisScene.concurrentLines` while a `+` group is being read -/
structure Pending where
  moodStart : String
  moodEnd : String
  lines : List Line

def Pending.empty : Pending := ⟨"", "", []⟩

/-- one scene character absorbed into the group -/
def absorb (p : Pending) (sc : Spec) : Pending :=
  ⟨if sc.moodStart ≠ "" ∧ p.moodStart = "" then sc.moodStart else p.moodStart,
   if sc.moodEnd ≠ "" then sc.moodEnd else p.moodEnd,
   p.lines ++ linesOf sc⟩

def moodScene (w : Nat) (m : String) : Scene := ⟨w, [⟨none, [⟨true, m, false⟩]⟩]⟩

/-- "End of scene": what is appended to the act for the group read so far, at time `now`.
The mood-end scene copies `thisScene.waitUntil`, which is `now` when the group was empty and
`0` when the group was appended (`thisScene` has just been reset). -/
def closeGroup (now : Nat) (p : Pending) : List Scene :=
  (if p.moodStart ≠ "" then [moodScene now p.moodStart] else []) ++
  (if p.lines.isEmpty then [] else [⟨now, p.lines⟩]) ++
  (if p.moodEnd ≠ "" then [moodScene (if p.lines.isEmpty then now else 0) p.moodEnd] else [])

/-- `.` is `nopScene`; anything else is looked up (Go dereferences nil for an unknown one). -/
def specOf (tbl : Table) (c : Char) : Option Spec := if c = '.' then some {} else tbl c

/-- the loop over one act of `compileV2`; `none` = assertion error or nil dereference. -/
def compileAct (tbl : Table) (tempo : Nat) : Nat → Pending → List Char → Option (List Scene)
  | now, _, [] => some [⟨now, []⟩]
  | now, p, c :: '+' :: rest =>          -- "More concurrent actions": skip the `+`
    if c = '+' ∨ c = '_' then none else
    match specOf tbl c with
    | none => none
    | some sc => compileAct tbl tempo now (absorb p sc) rest
  | now, p, c :: rest =>                 -- "End of scene"
    if c = '+' ∨ c = '_' then none else
    match specOf tbl c with
    | none => none
    | some sc => (compileAct tbl tempo (now + tempo) Pending.empty rest).map
                   (closeGroup now (absorb p sc) ++ ·)

/-- `compileV2`: `cfg.play` -/
def compile (tbl : Table) (tempo : Nat) : List Act → Option (List (List Scene))
  | [] => some []
  | a :: rest =>
    match compileAct tbl tempo 0 Pending.empty a, compile tbl tempo rest with
    | some x, some xs => some (x :: xs)
    | _, _ => none

/-! ## Part 1d — the clauses of the `script` section that matter here -/

structure Cfg where
  /-- role name, names of its actions -/
  roles : List (String × List String)
  /-- actor name, role name, in definition order -/
  cast : List (String × String)
  tempo : Nat

inductive Target
  | actor (name : String)
  | every (role : String)

inductive Clause
  /-- `scene c entails for <target>: a1; a2?; …` (actions already split at `;` and trimmed) -/
  | entails (c : Char) (t : Target) (actions : List String)
  /-- `scene c mood starts|ends m` -/
  | mood (c : Char) (starts : Bool) (m : String)
  /-- `storyline <text>` -/
  | storyline (text : List Char)
  /-- `edit s/…/…/`: an arbitrary function on the joined storyline (Go's regexp is not modelled) -/
  | edit (f : List Char → List Char)

structure St where
  table : Table
  story : List Act

def St.init : St := ⟨fun _ => none, []⟩

/-- `validateShorthand` on a one-byte shorthand of a valid UTF-8 text: ASCII letter or digit -/
def isShort (c : Char) : Bool :=
  ('a' ≤ c && c ≤ 'z') || ('A' ≤ c && c ≤ 'Z') || ('0' ≤ c && c ≤ '9')

/-- `p.id(…)`: the name matches `identRe` (the regenerated regexp of `pkg/cmd/parsecfg.go`) -/
def isIdent (n : List Char) : Bool := (Shk.Re.run Shk.Gen.identRe n).isSome

/-- `selectActors`: the role whose actions are checked, and the actors found -/
def selectActors (cfg : Cfg) : Target → Option (String × List String)
  | .every r =>
    if (cfg.roles.map (·.1)).contains r then
      some (r, (cfg.cast.filter fun a => a.2 == r).map (·.1))
    else none
  | .actor n =>
    match cfg.cast.find? (fun a => a.1 == n) with
    | some a => some (a.2, [n])
    | none => none

def roleActions (cfg : Cfg) (r : String) : List String :=
  match cfg.roles.find? (fun x => x.1 == r) with
  | some x => x.2
  | none => []

/-- `maybeAddSceneSpec` followed by an update -/
def upsert (tbl : Table) (c : Char) (f : Spec → Spec) : Table :=
  fun c' => if c' = c then some (f ((tbl c).getD {})) else tbl c'

def defd (tbl : Table) (c : Char) : Bool := (tbl c).isSome

/-- one clause; `none` = the configuration is rejected -/
def step (cfg : Cfg) (st : St) : Clause → Option St
  | .entails c t actions =>
    if isShort c = false then none else
    match selectActors cfg t with
    | none => none
    | some (_, []) => some st          -- only a warning: the clause is dropped
    | some (r, a :: as) =>
      if actions.all (fun x => (roleActions cfg r).contains (splitMark x).1) then
        some ⟨upsert st.table c fun sc =>
          { sc with entails := sc.entails ++ (a :: as).map fun n => (n, actions) }, st.story⟩
      else none
  | .mood c starts m =>
    if isShort c = false then none else
    if isIdent m.toList = false then none else
    some ⟨upsert st.table c fun sc =>
      if starts then { sc with moodStart := m } else { sc with moodEnd := m }, st.story⟩
  | .storyline text =>
    match validate (defd st.table) text with
    | .ok acts => some ⟨st.table, combineStory st.story acts⟩
    | .error _ => none
  | .edit f =>
    match validate (defd st.table) (f (joinSp st.story)) with
    | .ok acts => some ⟨st.table, acts⟩
    | .error _ => none

def runFrom (cfg : Cfg) : St → List Clause → Option St
  | st, [] => some st
  | st, cl :: rest =>
    match step cfg st cl with
    | some st' => runFrom cfg st' rest
    | none => none

def run (cfg : Cfg) (cls : List Clause) : Option St := runFrom cfg St.init cls

/-- the whole pipeline: parse the clauses, then `compileV2` -/
def play (cfg : Cfg) (cls : List Clause) : Option (List (List Scene)) :=
  match run cfg cls with
  | some st => compile st.table cfg.tempo st.story
  | none => none

/-! ## Schedules: what a compiled act makes happen, and no sooner than when

A scene starts no sooner than `waitUntil` after the start of the act and after the scene before
it (`prompt.go`: scenes run in sequence, `waitUntil = 0` means no wait).  Flattening forgets the
layout in scenes: an empty scene only delays what follows, a line without steps does nothing. -/

inductive Effect
  | mood (m : String)
  | perform (lines : List (String × List (String × Bool)))
  | endAct
deriving DecidableEq, Repr

abbrev Schedule := List (Nat × Effect)

def lineMoods (l : Line) : List String :=
  match l.actor with
  | none => (l.steps.filter (·.mood)).map (·.action)
  | some _ => []

def linePerf (l : Line) : Option (String × List (String × Bool)) :=
  match l.actor with
  | some a => if l.steps.isEmpty then none else some (a, l.steps.map fun s => (s.action, s.failOk))
  | none => none

def effectsOf (s : Scene) : List Effect :=
  (s.lines.flatMap lineMoods).map Effect.mood ++
  (if (s.lines.filterMap linePerf).isEmpty then [] else [Effect.perform (s.lines.filterMap linePerf)])

def flattenFrom : Nat → List Scene → Schedule
  | t, [] => [(t, .endAct)]
  | t, s :: ss =>
    (effectsOf s).map (fun e => (max t s.waitUntil, e)) ++ flattenFrom (max t s.waitUntil) ss

def flatten (act : List Scene) : Schedule := flattenFrom 0 act

/-! ## Part 2 — specification -/

/-- a written position: `.` is empty -/
def position (c : Char) : List Char := if c = '.' then [] else [c]

/-- The columns of an act: positions joined by `+` share a column. -/
def columns : List Char → List (List Char)
  | [] => []
  | c :: '+' :: rest =>
    match columns rest with
    | [] => [position c]
    | g :: gs => (position c ++ g) :: gs
  | c :: rest => position c :: columns rest

/-- column-wise union of two acts; the longer one supplies the rest -/
def zipLong : List (List Char) → List (List Char) → List (List Char)
  | [], ys => ys
  | x :: xs, [] => x :: xs
  | x :: xs, y :: ys => (x ++ y) :: zipLong xs ys

/-- act-wise union of two storylines -/
def zipActs : List (List (List Char)) → List (List (List Char)) → List (List (List Char))
  | [], ys => ys
  | x :: xs, [] => x :: xs
  | x :: xs, y :: ys => zipLong x y :: zipActs xs ys

/-- the acts written in a clause: blank-separated, `_` is ignored -/
def writtenActs (text : List Char) : List (List Char) :=
  ((splitSp text).map fun p => (trim p).filter (· ≠ '_')).filter (· ≠ [])

/-- … as columns -/
def clauseCols (text : List Char) : List (List (List Char)) := (writtenActs text).map columns

/-- what `storyline` clauses denote, starting from the columns `base` -/
def unionCols (base : List (List (List Char))) (texts : List (List Char)) :
    List (List (List Char)) :=
  texts.foldl (fun acc t => zipActs acc (clauseCols t)) base

/-- the texts of the `storyline` clauses, in order -/
def storyTexts : List Clause → List (List Char)
  | [] => []
  | .storyline t :: rest => t :: storyTexts rest
  | _ :: rest => storyTexts rest

def noEdit : List Clause → Bool
  | [] => true
  | .edit _ :: _ => false
  | _ :: rest => noEdit rest

/-- a written act is valid: no `+` first or last, no `++`, every other character `.` or defined -/
def noPlusPlus : List Char → Bool
  | '+' :: '+' :: _ => false
  | _ :: r => noPlusPlus r
  | [] => true

def validAct (defd : Char → Bool) (a : List Char) : Bool :=
  a.head? != some '+' && a.getLast? != some '+' && noPlusPlus a &&
  a.all fun c => c == '.' || c == '+' || defd c

def startOf (tbl : Table) (c : Char) : String :=
  match tbl c with | some s => s.moodStart | none => ""
def endOf (tbl : Table) (c : Char) : String :=
  match tbl c with | some s => s.moodEnd | none => ""
def entailsOf (tbl : Table) (c : Char) : List (String × List String) :=
  match tbl c with | some s => s.entails | none => []

/-- the first `mood starts` of a column -/
def firstStart (tbl : Table) (col : List Char) : Option String :=
  (col.map (startOf tbl)).find? (· ≠ "")

/-- the last `mood ends` of a column -/
def lastEnd (tbl : Table) (col : List Char) : Option String :=
  (col.map (endOf tbl)).reverse.find? (· ≠ "")

/-- one line per entailed actor (in scene order, then entail order) with the actions and their
`?` marks; an actor with no action has nothing to perform -/
def performers (tbl : Table) (col : List Char) : List (String × List (String × Bool)) :=
  col.flatMap fun c =>
    ((entailsOf tbl c).map fun e => (e.1, e.2.map splitMark)).filter fun l => !l.2.isEmpty

/-- the schedule of the columns `k, k+1, …` of an act: column `k` happens at `k × tempo` — first
mood-start, the actions, last mood-end — and the act ends at (number of columns) × tempo -/
def denoteCols (tbl : Table) (tempo : Nat) : Nat → List (List Char) → Schedule
  | k, [] => [(k * tempo, .endAct)]
  | k, col :: rest =>
    (firstStart tbl col).toList.map (fun m => (k * tempo, Effect.mood m)) ++
    (if (performers tbl col).isEmpty then [] else [(k * tempo, Effect.perform (performers tbl col))]) ++
    (lastEnd tbl col).toList.map (fun m => (k * tempo, Effect.mood m)) ++
    denoteCols tbl tempo (k + 1) rest

def denoteAct (tbl : Table) (tempo : Nat) (cols : List (List Char)) : Schedule :=
  denoteCols tbl tempo 0 cols

def denote (tbl : Table) (tempo : Nat) (story : List (List (List Char))) : List Schedule :=
  story.map (denoteAct tbl tempo)

/-- the scene table as the clauses say it, read directly from the list of clauses:
the entails of `c` in clause order (every actor of the target), the last mood start / end -/
def actorsOf (cfg : Cfg) : Target → List String
  | .every r => (cfg.cast.filter fun a => a.2 == r).map (·.1)
  | .actor n => [n]

def specEntails (cfg : Cfg) (c : Char) : List Clause → List (String × List String)
  | [] => []
  | .entails c' t actions :: rest =>
    (if c' = c then (actorsOf cfg t).map fun n => (n, actions) else []) ++ specEntails cfg c rest
  | _ :: rest => specEntails cfg c rest

def specMood (c : Char) (starts : Bool) : List Clause → String → String
  | [], acc => acc
  | .mood c' s m :: rest, acc => specMood c starts rest (if c' = c ∧ s = starts then m else acc)
  | _ :: rest, acc => specMood c starts rest acc

def specDefined (cfg : Cfg) (c : Char) : List Clause → Bool
  | [] => false
  | .entails c' t _ :: rest => (c' = c && !(actorsOf cfg t).isEmpty) || specDefined cfg c rest
  | .mood c' _ _ :: rest => c' = c || specDefined cfg c rest
  | _ :: rest => specDefined cfg c rest

/-- … on top of a table `t0` that earlier clauses have built -/
def tableAfter (cfg : Cfg) (t0 : Table) (cls : List Clause) : Table := fun c =>
  if (t0 c).isSome || specDefined cfg c cls then
    some ⟨((t0 c).getD {}).entails ++ specEntails cfg c cls,
          specMood c true cls ((t0 c).getD {}).moodStart,
          specMood c false cls ((t0 c).getD {}).moodEnd⟩
  else none

def specTable (cfg : Cfg) (cls : List Clause) : Table := tableAfter cfg (fun _ => none) cls

end Shk.Story
