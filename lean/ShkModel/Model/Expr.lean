/-!
# Values and the modelled fragment of the expression language (govaluate + `evalFunctions`)

Numbers are exact rationals (the code uses float64; the correspondence compares with a
tolerance and the generator stays away from NaN/Inf).  Whatever lies outside the modelled
fragment evaluates to `Res.unmodelled`, an explicit outcome that is never compared.
Core only.
-/
namespace Shk

structure VarName where
  actor : String
  sig : String
deriving DecidableEq, Repr, Hashable

/-- scalar values: `nil`, float64, string, bool -/
inductive Sc
  | nil
  | num (q : Rat)
  | str (s : String)
  | bool (b : Bool)
deriving DecidableEq, Repr

/-- a value is a scalar or an array of scalars (`[]interface{}`) -/
inductive Val
  | sc (s : Sc)
  | arr (l : List Sc)
deriving DecidableEq, Repr

def Val.isNil : Val → Bool
  | .sc .nil => true
  | _ => false

inductive BinOp
  | add | sub | mul | div | eq | ne | lt | le | gt | ge | and | or
deriving DecidableEq, Repr

inductive Expr
  | lit (v : Sc)
  | var (v : VarName)
  | not (e : Expr)
  | neg (e : Expr)
  | bin (op : BinOp) (a b : Expr)
  | ite (c a b : Expr)
  | call1 (f : String) (a : Expr)
  | call2 (f : String) (a b : Expr)
deriving Repr

/-- outcome of an evaluation -/
inductive Res
  | ok (v : Val)
  | err            -- govaluate / function reports an error
  | unmodelled     -- outside the modelled fragment
deriving DecidableEq, Repr

/-- variables an expression depends on (`expr.deps`) -/
def Expr.deps : Expr → List VarName
  | .lit _ => []
  | .var v => [v]
  | .not e => e.deps
  | .neg e => e.deps
  | .bin _ a b => a.deps ++ b.deps
  | .ite c a b => c.deps ++ a.deps ++ b.deps
  | .call1 _ a => a.deps
  | .call2 _ a b => a.deps ++ b.deps

/-! ## `evalFunctions` (pkg/cmd/functions.go) -/

/-- numeric view used by sum/avg/med/min/max: float64 as is, bool as 0/1 -/
def Sc.numOf : Sc → Option Rat
  | .num q => some q
  | .bool b => some (if b then 1 else 0)
  | _ => none

/-- non-nil elements -/
def nonNil (l : List Sc) : List Sc := l.filter (· ≠ .nil)

/-- numeric values of the non-nil elements, `none` if some element is a string -/
def numsOf (l : List Sc) : Option (List Rat) := (nonNil l).mapM Sc.numOf

def insertAsc (x : Rat) : List Rat → List Rat
  | [] => [x]
  | y :: ys => if x ≤ y then x :: y :: ys else y :: insertAsc x ys

def sortAsc (l : List Rat) : List Rat := l.foldr insertAsc []

def ratSum (l : List Rat) : Rat := l.foldl (· + ·) 0

/-- `math.Round`: half away from zero -/
def roundHalfAway (q : Rat) : Rat :=
  if 0 ≤ q then ((q + 1/2).floor : Int) else -(((-q) + 1/2).floor : Int)

def scalarFn (f : Rat → Res) (args : List Sc) : Res :=
  match args with
  | [] => .ok (.sc .nil)
  | [.nil] => .ok (.sc .nil)
  | [.num x] => f x
  | [_] => .err
  | _ => .err

/-- ordering class of `sortable.Less`: nils, then scalars (bools as 0/1), then strings -/
def Sc.rank : Sc → Nat
  | .nil => 0 | .num _ => 1 | .bool _ => 1 | .str _ => 2

def scLess (x y : Sc) : Bool :=
  if x.rank != y.rank then x.rank < y.rank else
  match x.numOf, y.numOf with
  | some a, some b => a < b
  | _, _ =>
    match x, y with
    | .str a, .str b => a < b
    | _, _ => false

def insertSc (x : Sc) : List Sc → List Sc
  | [] => [x]
  | y :: ys => if scLess y x then y :: insertSc x ys else x :: y :: ys

/-- one result of `sorted`; ties (e.g. `true` and `1`) may come out in any order in the code
(`sort.Sort` is not stable): the correspondence avoids mixed ties. -/
def sortSc (l : List Sc) : List Sc := l.foldr insertSc []

def callFn (f : String) (args : List Sc) : Res :=
  match f with
  | "count" => .ok (.sc (.num (nonNil args).length))
  | "first" => .ok (.sc ((nonNil args).head?.getD .nil))
  | "last" => .ok (.sc ((nonNil args).getLast?.getD .nil))
  | "sorted" => if args.isEmpty then .ok (.sc .nil) else .ok (.arr (sortSc args))
  | "sum" =>
    match numsOf args with
    | none => .err
    | some [] => .ok (.sc .nil)
    | some ns => .ok (.sc (.num (ratSum ns)))
  | "avg" | "average" =>
    match numsOf args with
    | none => .err
    | some [] => .ok (.sc .nil)
    | some ns => .ok (.sc (.num (ratSum ns / ns.length)))
  | "min" =>
    match numsOf args with
    | none => .err
    | some [] => .ok (.sc .nil)
    | some (n :: ns) => .ok (.sc (.num (ns.foldl min n)))
  | "max" =>
    match numsOf args with
    | none => .err
    | some [] => .ok (.sc .nil)
    | some (n :: ns) => .ok (.sc (.num (ns.foldl max n)))
  | "med" | "median" =>
    match numsOf args with
    | none => .err
    | some [] => .ok (.sc .nil)
    | some ns =>
      let s := sortAsc ns
      if s.length % 2 == 1 then .ok (.sc (.num (s.getD ((s.length - 1) / 2) 0)))
      else .ok (.sc (.num ((s.getD (s.length / 2 - 1) 0 + s.getD (s.length / 2) 0) / 2)))
  | "abs" => scalarFn (fun x => .ok (.sc (.num (if 0 ≤ x then x else -x)))) args
  | "ceil" => scalarFn (fun x => .ok (.sc (.num (x.ceil : Int)))) args
  | "floor" => scalarFn (fun x => .ok (.sc (.num (x.floor : Int)))) args
  | "round" => scalarFn (fun x => .ok (.sc (.num (roundHalfAway x)))) args
  | "ndiff" | "normalized_difference" =>
    match args with
    | [.nil, _] => .ok (.sc .nil)
    | [_, .nil] => .ok (.sc .nil)
    | [.num x, .num y] =>
      if y = 0 then .unmodelled
      else .ok (.sc (.num ((if 0 ≤ x - y then x - y else -(x - y)) / (if 0 ≤ y then y else -y))))
    | _ => .err
  | _ => .unmodelled

/-- how govaluate hands a function its arguments: a single array argument is spread -/
def spread1 : Val → List Sc
  | .sc s => [s]
  | .arr l => l

/-- two arguments: the separator stage appends the right value to a left *array*, otherwise
builds a pair; a right-hand array stays nested (unmodelled). -/
def spread2 : Val → Val → Option (List Sc)
  | .sc a, .sc b => some [a, b]
  | .arr l, .sc b => some (l ++ [b])
  | _, .arr _ => none

/-! ## evaluation -/

def binOp (op : BinOp) (x y : Val) : Res :=
  match op, x, y with
  | .add, .sc (.num a), .sc (.num b) => .ok (.sc (.num (a + b)))
  | .add, .sc (.str _), _ => .unmodelled      -- string concatenation with %v formatting
  | .add, _, .sc (.str _) => .unmodelled
  | .add, _, _ => .err
  | .sub, .sc (.num a), .sc (.num b) => .ok (.sc (.num (a - b)))
  | .sub, _, _ => .err
  | .mul, .sc (.num a), .sc (.num b) => .ok (.sc (.num (a * b)))
  | .mul, _, _ => .err
  | .div, .sc (.num a), .sc (.num b) => if b = 0 then .unmodelled else .ok (.sc (.num (a / b)))
  | .div, _, _ => .err
  | .eq, .sc a, .sc b => .ok (.sc (.bool (a == b)))
  | .eq, _, _ => .unmodelled
  | .ne, .sc a, .sc b => .ok (.sc (.bool (a != b)))
  | .ne, _, _ => .unmodelled
  | .lt, .sc (.num a), .sc (.num b) => .ok (.sc (.bool (a < b)))
  | .lt, .sc (.str a), .sc (.str b) => .ok (.sc (.bool (a < b)))
  | .lt, _, _ => .err
  | .le, .sc (.num a), .sc (.num b) => .ok (.sc (.bool (a ≤ b)))
  | .le, .sc (.str a), .sc (.str b) => .ok (.sc (.bool (a ≤ b)))
  | .le, _, _ => .err
  | .gt, .sc (.num a), .sc (.num b) => .ok (.sc (.bool (a > b)))
  | .gt, .sc (.str a), .sc (.str b) => .ok (.sc (.bool (a > b)))
  | .gt, _, _ => .err
  | .ge, .sc (.num a), .sc (.num b) => .ok (.sc (.bool (a ≥ b)))
  | .ge, .sc (.str a), .sc (.str b) => .ok (.sc (.bool (a ≥ b)))
  | .ge, _, _ => .err
  | .and, .sc (.bool a), .sc (.bool b) => .ok (.sc (.bool (a && b)))
  | .and, _, _ => .err
  | .or, .sc (.bool a), .sc (.bool b) => .ok (.sc (.bool (a || b)))
  | .or, _, _ => .err

def eval (env : VarName → Val) : Expr → Res
  | .lit v => .ok (.sc v)
  | .var v => .ok (env v)
  | .not e =>
    match eval env e with
    | .ok (.sc (.bool b)) => .ok (.sc (.bool !b))
    | .ok _ => .err
    | r => r
  | .neg e =>
    match eval env e with
    | .ok (.sc (.num q)) => .ok (.sc (.num (-q)))
    | .ok _ => .err
    | r => r
  | .bin op a b =>
    match eval env a with
    | .ok x =>
      -- short circuit of && and || on the left value
      if op == .and && x == .sc (.bool false) then .ok (.sc (.bool false))
      else if op == .or && x == .sc (.bool true) then .ok (.sc (.bool true))
      else
        match eval env b with
        | .ok y => binOp op x y
        | r => r
    | r => r
  | .ite c a b =>
    -- `c ? a : b` = coalesce (if c then a else nil) b : a nil `a` falls through to `b`
    match eval env c with
    | .ok (.sc (.bool true)) =>
      match eval env a with
      | .ok v => if v.isNil then eval env b else .ok v
      | r => r
    | .ok (.sc (.bool false)) => eval env b
    | .ok _ => .err
    | r => r
  | .call1 f a =>
    match eval env a with
    | .ok v => callFn f (spread1 v)
    | r => r
  | .call2 f a b =>
    match eval env a with
    | .ok x =>
      match eval env b with
      | .ok y =>
        match spread2 x y with
        | some l => callFn f l
        | none => .unmodelled
      | r => r
    | r => r

/-! ## `collectFns` -/

inductive Mode | single | first | last | top | bottom
deriving DecidableEq, Repr

def insertDesc (x : Rat) : List Sc → List Sc
  | [] => [.num x]
  | y :: ys =>
    match y with
    | .num q => if q ≥ x then y :: insertDesc x ys else .num x :: y :: ys
    | _ => .num x :: y :: ys      -- cannot happen: top/bottom arrays hold numbers only

def insertAscSc (x : Rat) : List Sc → List Sc
  | [] => [.num x]
  | y :: ys =>
    match y with
    | .num q => if q ≤ x then y :: insertAscSc x ys else .num x :: y :: ys
    | _ => .num x :: y :: ys

/-- one `collectFn` call; `none` = the function returns an error (non-numeric value for
top/bottom). -/
def collectStep (m : Mode) (n : Nat) (a : List Sc) (x : Sc) : Option (List Sc) :=
  match m with
  | .single => some a
  | .first => if x == .nil || a.length ≥ n then some a else some (a ++ [x])
  | .last => if x == .nil then some a else some ((if a.length ≥ n then a.drop 1 else a) ++ [x])
  | .top =>
    if x == .nil then some a else
    match x.numOf with
    | some v => some ((insertDesc v a).take n)
    | none => none
  | .bottom =>
    if x == .nil then some a else
    match x.numOf with
    | some v => some ((insertAscSc v a).take n)
    | none => none

end Shk
