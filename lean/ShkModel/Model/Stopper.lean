/-!
# Model of `pkg/crdb/stop/stopper.go` (C15)

A transition system.  Global state = the fields of `Stopper` that the protocol uses
(`mu.quiescing` = "quiescer channel closed", `mu.numTasks`, `mu.stopCalled`, the closed flags of
the `stopper` and `stopped` channels, the count of the `stop` WaitGroup, `mu.closers`,
`mu.qCancels`, `mu.sCancels`), one semaphore channel (occupancy `sem`, capacity `cap`), an
UNBOUNDED list of in-flight API calls (`threads`, a call's identity is its index) and a monotone
event log.

One `step` = one critical section of stopper.go (a `mu.Lock … Unlock` region, a channel
operation, a WaitGroup operation) or one user callback boundary (task body start / end, worker
start / end, one closer call).  Blocking (`quiesce.Wait()` until `numTasks = 0`, `stop.Wait()`,
a full semaphore with `wait = true`) is a guard: `step` answers `none`.

The critical sections that run callbacks while holding `mu` (the closers loop of `Stop`, the
immediate `c.Close()` of `AddCloser`) are split into several steps and the mutex is NOT
modelled: the model has more interleavings than the code, so every safety theorem proved over
`Reach` holds a fortiori for the code's interleavings.

The effective `Stop` call (the one that found `stopCalled = false`) is unique; its program
counter is kept in the global field `sp`.

Not modelled: panics (`Recover`, the `recover()` branch of `Stop`, which is dead unless `Stop`
is itself the deferred function of a panicking goroutine), cancellation of the caller's own
context in `RunLimitedAsyncTask`, the task-name map, the global tracked-stopper registry.
-/
namespace Shk.Stopper

/-- kinds of API calls -/
inductive Kind
  | task      -- RunTask / RunTaskWithErr
  | atask     -- RunAsyncTask
  | ltask (wait : Bool)   -- RunLimitedAsyncTask
  | worker    -- RunWorker
  | closer    -- AddCloser
  | wcq       -- WithCancelOnQuiesce (+ optional call of the returned cancel function)
  | wcs       -- WithCancelOnStop
  | quiesce   -- Quiesce
  | stop      -- Stop
  | probe     -- an observer that samples the three channels (the harness's final `fin`)
deriving DecidableEq, Repr

def Kind.code : Kind → Nat
  | .task => 0 | .atask => 1 | .ltask false => 2 | .ltask true => 3 | .worker => 4 | .closer => 5
  | .wcq => 6 | .wcs => 7 | .quiesce => 8 | .stop => 9 | .probe => 10

def Kind.ofCode : Nat → Option Kind
  | 0 => some .task | 1 => some .atask | 2 => some (.ltask false) | 3 => some (.ltask true)
  | 4 => some .worker | 5 => some .closer | 6 => some .wcq | 7 => some .wcs
  | 8 => some .quiesce | 9 => some .stop | 10 => some .probe | _ => none

def Kind.isTask : Kind → Bool
  | .task | .atask | .ltask _ => true
  | _ => false

def Kind.isLimited : Kind → Bool
  | .ltask _ => true
  | _ => false

/-- program counters -/
inductive Pc
  | init
  | semHeld    -- limited task: slot acquired, before runPrelude
  | refHold    -- limited task: refused by runPrelude, slot not yet given back
  | accepted   -- runPrelude said yes (numTasks incremented), body not started
  | running    -- inside f
  | ended      -- f returned
  | released   -- limited task: slot given back, before runPostlude
  | failU      -- will return / has returned ErrUnavailable
  | failT      -- ErrThrottled
  | done
  | wAdded | wRunning | wEnded      -- worker: after stop.Add(1) / inside f / f returned (before stop.Done())
  | cImm       -- AddCloser found the stop channel closed; closer not yet called
  | qWait      -- Quiesce: waiting for numTasks = 0
  | sActive    -- the effective Stop call (its position is `St.sp`)
  | sNoop      -- a Stop call that found `stopCalled` already set: returns at once
  | ucancel    -- the cancel function returned by WithCancelOn… has been called
deriving DecidableEq, Repr

/-- position of the effective Stop call -/
inductive SP
  | idle | quiesce | wait | drained | wg
  | closers (k : Nat)
  | fin
deriving DecidableEq, Repr

structure Thread where
  kind : Kind
  pc : Pc := .init
  ret : Bool := false     -- the API call has returned to its caller (async bodies go on)
deriving DecidableEq, Repr

/-- event kinds.  All but `mark` are observable on the real `Stopper` through callbacks and API returns. -/
inductive EK
  | call | ret | bodyStart | bodyEnd | wStart | wEnd | closer | cancelled | fin | mark
deriving DecidableEq, Repr

/-- One log entry.  `q s d` = "quiescer / stopper / stopped channel observed closed", `n` = semaphore
occupancy, all sampled when the entry is appended.  `c` = kind code of the call `id` (0 for marks).
`v`: for `ret` the result (0 nil, 1 ErrUnavailable, 2 ErrThrottled), for `mark` the phase marker
(0 quiesceClosed, 1 tasksDrained, 2 stopClosed, 3 workersDone, 4 stoppedClosed). -/
structure Ev where
  k : EK
  id : Nat
  c : Nat
  v : Nat
  q : Bool
  s : Bool
  d : Bool
  n : Nat
deriving DecidableEq, Repr

structure St where
  cap : Nat := 1
  quiescing : Bool := false
  numTasks : Nat := 0
  stopCalled : Bool := false
  sp : SP := .idle
  sClosed : Bool := false
  dClosed : Bool := false
  wg : Nat := 0
  closers : List Nat := []
  sem : Nat := 0
  qCancels : List Nat := []
  sCancels : List Nat := []
  threads : List Thread := []
  log : List Ev := []
deriving Repr

def St.ev (s : St) (k : EK) (id c v : Nat) : Ev := ⟨k, id, c, v, s.quiescing, s.sClosed, s.dClosed, s.sem⟩

/-- thread `i` becomes `t`, `es` is appended to the log -/
def St.upd (s : St) (i : Nat) (t : Thread) (es : List Ev) : St :=
  { s with threads := s.threads.set i t, log := s.log ++ es }

/-- the cancel functions registered under `ids` fire (kind code `c`: 6 quiesce-cancels, 7 stop-cancels) -/
def St.cancelEvs (s : St) (ids : List Nat) (c : Nat) : List Ev := ids.map fun x => s.ev .cancelled x c 0

/-- the body of `Quiesce` up to the wait loop fires the quiesce-cancels, then (first time only) sets `quiescing`
and closes the quiescer channel.  What that section shows: the quiesce-cancels fire (seen with the flags as they
were), then, the first time only, the quiescer channel closes -/
def St.quiesceEvs (s : St) (who : Nat) : List Ev :=
  s.cancelEvs s.qCancels 6 ++
    (if s.quiescing then [] else [⟨.mark, who, 0, 0, true, s.sClosed, s.dClosed, s.sem⟩])

/-- value returned by the API call, if it may return now -/
def retVal : Kind → Pc → Option Nat
  | .task, .failU => some 1
  | .task, .done => some 0
  | .atask, .failU => some 1
  | .atask, .accepted | .atask, .running | .atask, .ended | .atask, .done => some 0
  | .ltask _, .failU => some 1
  | .ltask false, .failT => some 2
  | .ltask _, .accepted | .ltask _, .running | .ltask _, .ended | .ltask _, .released | .ltask _, .done => some 0
  | .worker, .wAdded | .worker, .wRunning | .worker, .wEnded | .worker, .done => some 0
  | .closer, .done => some 0
  | .wcq, .done | .wcs, .done | .wcq, .ucancel | .wcs, .ucancel => some 0
  | .quiesce, .done => some 0
  | .stop, .done | .stop, .sNoop => some 0
  | _, _ => none

inductive Act
  | go    -- the next step of the call's code
  | ret   -- the call returns to its caller
  | alt   -- the other ready branch of a `select` / the user calls the returned cancel function
deriving DecidableEq, Repr

/-- runPrelude -/
def prelude (s : St) (i : Nat) (t : Thread) (refused : Pc) : St :=
  if s.quiescing then s.upd i { t with pc := refused } []
  else { s with numTasks := s.numTasks + 1 }.upd i { t with pc := .accepted } []

/-- runPostlude -/
def postlude (s : St) (i : Nat) (t : Thread) : St :=
  { s with numTasks := s.numTasks - 1 }.upd i { t with pc := .done } []

/-- the effective Stop call advances -/
def stopStep (s : St) (i : Nat) (t : Thread) : Option St :=
  match s.sp with
  | .idle => none
  | .quiesce => some ({ s with quiescing := true, sp := .wait }.upd i t (s.quiesceEvs i))
  | .wait =>
    if s.numTasks = 0 then some ({ s with sp := .drained }.upd i t [s.ev .mark i 0 1]) else none
  | .drained =>
    some ({ s with sp := .wg, sClosed := true }.upd i t
      (s.cancelEvs s.sCancels 7 ++ [(⟨.mark, i, 0, 2, s.quiescing, true, s.dClosed, s.sem⟩ : Ev)]))
  | .wg =>
    if s.wg = 0 then some ({ s with sp := .closers 0 }.upd i t [s.ev .mark i 0 3]) else none
  | .closers k =>
    match s.closers[k]? with
    | some c => some ({ s with sp := .closers (k + 1) }.upd i t [s.ev .closer c 5 0])
    | none => some ({ s with sp := .fin, dClosed := true }.upd i t [⟨.mark, i, 0, 4, s.quiescing, s.sClosed, true, s.sem⟩])
  | .fin => some (s.upd i { t with pc := .done } [])

def goStep (s : St) (i : Nat) (t : Thread) : Option St :=
  match t.kind, t.pc with
  -- tasks ------------------------------------------------------------------
  | .task, .init => some (prelude s i t .failU)
  | .atask, .init => some (prelude s i t .failU)
  | .ltask w, .init =>
    if s.sem < s.cap then some ({ s with sem := s.sem + 1 }.upd i { t with pc := .semHeld } [])
    else if s.quiescing then some (s.upd i { t with pc := .failU } [])
    else if w then none
    else some (s.upd i { t with pc := .failT } [])
  | .ltask _, .semHeld => some (prelude s i t .refHold)
  | .ltask _, .refHold => some ({ s with sem := s.sem - 1 }.upd i { t with pc := .failU } [])
  | .task, .accepted | .atask, .accepted | .ltask _, .accepted =>
    some (s.upd i { t with pc := .running } [s.ev .bodyStart i t.kind.code 0])
  | .task, .running | .atask, .running | .ltask _, .running =>
    some (s.upd i { t with pc := .ended } [s.ev .bodyEnd i t.kind.code 0])
  | .task, .ended => some (postlude s i t)
  | .atask, .ended => some (postlude s i t)
  | .ltask _, .ended => some ({ s with sem := s.sem - 1 }.upd i { t with pc := .released } [])
  | .ltask _, .released => some (postlude s i t)
  -- workers ----------------------------------------------------------------
  | .worker, .init => some ({ s with wg := s.wg + 1 }.upd i { t with pc := .wAdded } [])
  | .worker, .wAdded => some (s.upd i { t with pc := .wRunning } [s.ev .wStart i t.kind.code 0])
  | .worker, .wRunning => some (s.upd i { t with pc := .wEnded } [s.ev .wEnd i t.kind.code 0])
  | .worker, .wEnded => some ({ s with wg := s.wg - 1 }.upd i { t with pc := .done } [])
  -- closers ----------------------------------------------------------------
  | .closer, .init =>
    if s.sClosed then some (s.upd i { t with pc := .cImm } [])
    else some ({ s with closers := s.closers ++ [i] }.upd i { t with pc := .done } [])
  | .closer, .cImm => some (s.upd i { t with pc := .done } [s.ev .closer i t.kind.code 0])
  -- cancel-on-… ------------------------------------------------------------
  | .wcq, .init =>
    if s.quiescing then some (s.upd i { t with pc := .done } [s.ev .cancelled i t.kind.code 0])
    else some ({ s with qCancels := s.qCancels ++ [i] }.upd i { t with pc := .done } [])
  | .wcs, .init =>
    if s.sClosed then some (s.upd i { t with pc := .done } [s.ev .cancelled i t.kind.code 0])
    else some ({ s with sCancels := s.sCancels ++ [i] }.upd i { t with pc := .done } [])
  -- Quiesce ----------------------------------------------------------------
  | .quiesce, .init => some ({ s with quiescing := true }.upd i { t with pc := .qWait } (s.quiesceEvs i))
  | .quiesce, .qWait => if s.numTasks = 0 then some (s.upd i { t with pc := .done } []) else none
  -- Stop -------------------------------------------------------------------
  | .stop, .init =>
    if s.stopCalled then some (s.upd i { t with pc := .sNoop } [])
    else some ({ s with stopCalled := true, sp := .quiesce }.upd i { t with pc := .sActive } [])
  | .stop, .sActive => stopStep s i t
  -- probe --------------------------------------------------------------------
  | .probe, .init => some (s.upd i { t with pc := .done } [s.ev .fin i t.kind.code 0])
  | _, _ => none

def altStep (s : St) (i : Nat) (t : Thread) : Option St :=
  match t.kind, t.pc with
  -- `select` with both the semaphore and the quiescer ready may take the quiescer branch
  | .ltask _, .init => if s.quiescing then some (s.upd i { t with pc := .failU } []) else none
  -- the cancel function returned by WithCancelOnQuiesce / WithCancelOnStop
  | .wcq, .done =>
    if t.ret then some ({ s with qCancels := s.qCancels.erase i }.upd i { t with pc := .ucancel } [s.ev .cancelled i t.kind.code 0])
    else none
  | .wcs, .done =>
    if t.ret then some ({ s with sCancels := s.sCancels.erase i }.upd i { t with pc := .ucancel } [s.ev .cancelled i t.kind.code 0])
    else none
  | _, _ => none

def retStep (s : St) (i : Nat) (t : Thread) : Option St :=
  if t.ret then none else
  match retVal t.kind t.pc with
  | some v => some (s.upd i { t with ret := true } [s.ev .ret i t.kind.code v])
  | none => none

/-- one atomic step of call `i`; `none` = not enabled (blocked, finished, or no such call) -/
def step (s : St) (i : Nat) (a : Act) : Option St :=
  match s.threads[i]? with
  | none => none
  | some t =>
    match a with
    | .go => goStep s i t
    | .ret => retStep s i t
    | .alt => altStep s i t

/-- a new API call begins (its `call` entry carries the channel states seen at that moment) -/
def spawn (s : St) (k : Kind) : St :=
  { s with threads := s.threads ++ [{ kind := k }],
           log := s.log ++ [s.ev .call s.threads.length k.code 0] }

def init (cap : Nat) : St := { cap := cap }

/-- every state reachable by any interleaving of any number of calls -/
inductive Reach (cap : Nat) : St → Prop
  | init : Reach cap (init cap)
  | spawn (s k) : Reach cap s → Reach cap (spawn s k)
  | step (s s' i a) : Reach cap s → step s i a = some s' → Reach cap s'

/-! ## The specification on logs (`LogOk`)

Everything below looks only at observable entries, so it can be evaluated on a log recorded from
the real `Stopper`. -/

def has (l : List Ev) (k : EK) (i : Nat) : Bool := l.any fun e => e.k == k && e.id == i
def hasV (l : List Ev) (k : EK) (i v : Nat) : Bool := l.any fun e => e.k == k && e.id == i && e.v == v

/-- the `call` entry of call `i` -/
def callOf (l : List Ev) (i : Nat) : Option Ev := l.find? fun e => e.k == .call && e.id == i
/-- the kind code of call `i` -/
def kindOf (l : List Ev) (i : Nat) : Option Nat := (callOf l i).map (·.c)
/-- was the quiescer already seen closed when call `i` began? -/
def callQ (l : List Ev) (i : Nat) : Bool := ((callOf l i).map (·.q)).getD true

def isTaskCode (c : Nat) : Bool := c < 4
def isLimCode (c : Nat) : Bool := c == 2 || c == 3

/-- every entry of `l` selected by `sel` has a matching later-kind entry `k` for the same call -/
def allHave (l : List Ev) (sel : Ev → Bool) (k : EK) : Bool := l.all fun p => !sel p || has l k p.id

/-- every task body that began has finished, and every task call that returned nil has finished its body -/
def drained (l : List Ev) : Bool :=
  allHave l (fun p => p.k == .bodyStart) .bodyEnd &&
  allHave l (fun p => p.k == .ret && p.v == 0 && isTaskCode p.c) .bodyEnd
/-- every worker whose RunWorker call was seen to return while the stop channel was still open has returned -/
def workersDone (l : List Ev) : Bool := allHave l (fun p => p.k == .ret && p.c == 4 && !p.s) .wEnd
/-- every closer whose AddCloser call returned has been called -/
def closersDone (l : List Ev) : Bool := allHave l (fun p => p.k == .ret && p.c == 5) .closer

def cnt (l : List Ev) (k : EK) : Nat := l.countP fun p => p.k == k && isLimCode p.c

/-- channel observations are nested and never go back -/
def flagsOk (pre : List Ev) (e : Ev) : Bool :=
  (!e.d || e.s) && (!e.s || e.q) &&
  pre.all fun p => (!p.q || e.q) && (!p.s || e.s) && (!p.d || e.d)

/-- rules that hold for every entry, whatever its kind -/
def globalOk (cap : Nat) (pre : List Ev) (e : Ev) : Bool :=
  flagsOk pre e &&
  -- stop channel closed ⇒ tasks drained
  (!e.s || drained pre) &&
  -- stopped ⇒ every early worker has returned, every registered closer has been called
  (!e.d || (workersDone pre && closersDone pre)) &&
  -- semaphore: never above capacity; one slot per limited body in progress (the entry's own body included);
  -- after the drain only calls that have not returned can hold a slot
  decide (e.n ≤ cap) &&
  decide (cnt (pre ++ [e]) .bodyStart ≤ cnt pre .bodyEnd + e.n) &&
  (!e.s || decide (cnt pre .ret + e.n ≤ cnt pre .call))

/-- rules by kind of entry -/
def kindOk (pre : List Ev) (e : Ev) : Bool :=
  (e.k == .mark || e.k == .call || kindOf pre e.id == some e.c) &&
  match e.k with
  | .call => !has pre .call e.id && (Kind.ofCode e.c).isSome
  | .bodyStart =>
    isTaskCode e.c && !has pre .bodyStart e.id
      && !hasV pre .ret e.id 1 && !hasV pre .ret e.id 2     -- a refused start never runs
      && !callQ pre e.id                                     -- late work is refused
      && !e.s
  | .bodyEnd => has pre .bodyStart e.id && !has pre .bodyEnd e.id && !e.s
  | .ret =>
    !has pre .ret e.id &&
      if isTaskCode e.c then
        (e.v == 0 && !callQ pre e.id && (e.c != 0 || has pre .bodyEnd e.id))
        || (e.v == 1 && e.q && !has pre .bodyStart e.id)
        || (e.v == 2 && e.c == 2 && !has pre .bodyStart e.id)
      else if e.c == 8 then e.v == 0 && e.q && drained pre
      else if e.c == 9 then e.v == 0 && (e.d || pre.any fun p => p.k == .call && p.c == 9 && p.id != e.id)
      else e.v == 0 && e.c != 10
  | .wStart => e.c == 4 && !has pre .wStart e.id
  | .wEnd => has pre .wStart e.id && !has pre .wEnd e.id
  | .closer =>
    e.c == 5 && !has pre .closer e.id && e.s
      -- a closer whose AddCloser had returned is called by Stop: after the workers, before `stopped`
      && (!has pre .ret e.id || (!e.d && workersDone pre))
  | .cancelled => e.c == 6 || e.c == 7
  | .fin =>
    e.c == 10 &&
    (!e.q || allHave pre (fun p => p.k == .ret && p.c == 6) .cancelled) &&
    (!e.s || allHave pre (fun p => p.k == .ret && p.c == 7) .cancelled)
  | .mark => true

def evOk (cap : Nat) (pre : List Ev) (e : Ev) : Bool := globalOk cap pre e && kindOk pre e

def logOkFrom (cap : Nat) (pre : List Ev) : List Ev → Bool
  | [] => true
  | e :: rest => evOk cap pre e && logOkFrom cap (pre ++ [e]) rest

/-- `LogOk`: every entry is allowed after the entries before it -/
def logOk (cap : Nat) (l : List Ev) : Bool := logOkFrom cap [] l

/-- the first entry that is not allowed, with the rule group that rejects it -/
def firstBad (cap : Nat) (pre : List Ev) : List Ev → Option (Nat × String)
  | [] => none
  | e :: rest =>
    if !flagsOk pre e then some (pre.length, "flags")
    else if !globalOk cap pre e then some (pre.length, "global")
    else if !kindOk pre e then some (pre.length, "kind")
    else firstBad cap (pre ++ [e]) rest

/-- phase markers of a log, in order of appearance -/
def markSeq (l : List Ev) : List Nat := (l.filter fun e => e.k == .mark).map (·.v)

def phase (s : St) : Nat :=
  if s.dClosed then 5 else
  match s.sp with
  | .closers _ => 4
  | .wg => 3
  | .drained => 2
  | _ => if s.quiescing then 1 else 0

end Shk.Stopper
