/-!
# C13 — the scripts an actor's commands are run through
(`pkg/cmd/commands.go` prepareScript / prepareActionCommands, `parsecfg.go` parseRole / parseActors)

A generated script is a list of `Line`s; `Line.render` gives the exact text the Go code writes
(compared byte for byte with the real files by K-C13).  The user-supplied parts (`with` text,
command) are single items even when they contain line breaks.  Core only.
-/
namespace Shk.Script

inductive Line where
  | shebang (shell : String)            -- `#!<shell>`
  | setOpts                             -- `set -euao pipefail`
  | cd (workDir : String)               -- `cd '<workDir>'` (quoted by `shQuote`)
  | tmpHome                             -- `TMPDIR=$PWD HOME=$PWD/..`
  | stamp (act : String)                -- `TZ=UTC date +… >><act>.log`
  | announce (workDir act : String)     -- `echo output redirected to <workDir>/<act>.log`
  | redirect (act : String)             -- `exec >><act>.log 2>&1`
  | trace                               -- `set -x`
  | env (text : String)                 -- the actor's `with` text (with the `i=k` prefix)
  | command (text : String)             -- the command of the role
  | other (text : String)               -- never generated; used when a real script is classified
deriving DecidableEq, Repr

/-- `shQuote`: a string between single quotes for the shell, a quote inside written `'\''` -/
def shQuote (s : String) : String := "'" ++ s.replace "'" "'\\''" ++ "'"

def Line.render : Line → String
  | .shebang sh => "#!" ++ sh
  | .setOpts => "set -euao pipefail"
  | .cd wd => "cd " ++ shQuote wd
  | .tmpHome => "TMPDIR=$PWD HOME=$PWD/.."
  | .stamp act => "TZ=UTC date +%Y-%m-%dT%H:%M:%SZ >>" ++ shQuote (act ++ ".log")
  | .announce wd act => "echo output redirected to " ++ shQuote (wd ++ "/" ++ act ++ ".log")
  | .redirect act => "exec >>" ++ shQuote (act ++ ".log") ++ " 2>&1"
  | .trace => "set -x"
  | .env t => t
  | .command t => t
  | .other t => t

/-- an actor as `prepareDirs` leaves it -/
structure Actor where
  name : String
  workDir : String            -- absolute
  shell : String
  idx : Option Nat            -- `some k` for the k-th actor (from 0) of a multi-actor definition
  withText : String           -- the `with` clause as written ("" if none)
deriving DecidableEq, Repr

/-- `actor.extraEnv` after parseActors -/
def envText (idx : Option Nat) (w : String) : String :=
  match idx with
  | none => w
  | some k => if w = "" then "i=" ++ toString k else "i=" ++ toString k ++ ("; " ++ w)

/-- `prepareScript` -/
def script (a : Actor) (act : String) (c : String) (redirect : Bool) : List Line :=
  [.shebang a.shell, .setOpts, .cd a.workDir, .tmpHome]
    ++ (if redirect then [.stamp act, .announce a.workDir act, .redirect act] else [])
    ++ [.trace]
    ++ (if envText a.idx a.withText = "" then [] else [.env (envText a.idx a.withText)])
    ++ [.command c]

def text (ls : List Line) : String := String.join (ls.map fun l => l.render ++ "\n")

/-! ## Roles and cast -/

/-- a `role … end` section as written -/
structure RoleDef where
  name : String
  parent : Option String                 -- `extends`
  actions : List (String × String)       -- `:name cmd` lines in order
  spotlight : Option String              -- the last `spotlight` line, if any
  cleanup : Option String                -- the last `cleanup` line, if any
deriving Repr

/-- a role as the parser holds it -/
structure Role where
  actions : List (String × String)       -- unique names (Go: a map)
  spotlight : String                     -- "" = none
  cleanup : String
deriving Repr, DecidableEq

def Role.empty : Role := ⟨[], "", ""⟩

def lookup {β : Type} (k : String) : List (String × β) → Option β
  | [] => none
  | (k', v) :: r => if k' = k then some v else lookup k r

/-- add the action lines of a section one by one; a name already present is an error -/
def addActions (acc : List (String × String)) : List (String × String) → Option (List (String × String))
  | [] => some acc
  | (n, c) :: r => if (lookup n acc).isSome then none else addActions (acc ++ [(n, c)]) r

/-- `parseRole`: clone of the parent (or an empty role), then the lines of the section -/
def defineRole (known : List (String × Role)) (d : RoleDef) : Option (List (String × Role)) :=
  if (lookup d.name known).isSome then none else
  match (match d.parent with
         | none => some Role.empty
         | some p => lookup p known) with
  | none => none
  | some b =>
    match addActions b.actions d.actions with
    | none => none
    | some acts =>
      some (known ++ [(d.name, ⟨acts, d.spotlight.getD b.spotlight, d.cleanup.getD b.cleanup⟩)])

def defineRoles : List (String × Role) → List RoleDef → Option (List (String × Role))
  | known, [] => some known
  | known, d :: r =>
    match defineRole known d with
    | none => none
    | some k => defineRoles k r

/-- one line of the `cast` section -/
structure CastDef where
  base : String
  mul : Option Nat             -- `base* play N role` : some N ; `base plays role` : none
  role : String
  withText : String
deriving Repr

/-- `strings.TrimSuffix(name, "s")` -/
def dropPlural (n : String) : String :=
  if n.endsWith "s" then (n.dropEnd 1).toString else n

/-- the role a cast line names (`parseActors`): the name as written, or — in a `base* play N roles` line only — the
name without its plural `s` when the name as written is no role -/
def roleOfCast {β : Type} (c : CastDef) (roles : List (String × β)) : Option β :=
  match lookup c.role roles with
  | some r => some r
  | none => if c.mul.isSome then lookup (dropPlural c.role) roles else none

/-- names and indices the line defines: `base` alone, or `base1 … baseN` with `i = 0 … N-1` -/
def expandCast (c : CastDef) : List (String × Option Nat) :=
  match c.mul with
  | none => [(c.base, none)]
  | some n => (List.range n).map fun k => (c.base ++ toString (k + 1), some k)

/-- the files `prepareActionCommands` writes into `<workDir>/actions/`, as (base name, content), in
the order they are written: one per action of the role (Go iterates a map: any order, the names are
distinct), then `_spotlight`, then `_cleanup`.  The file is `<base name>.sh`. -/
def written (a : Actor) (r : Role) : List (String × List Line) :=
  (r.actions.map fun (n, c) => (n, script a n c true))
    ++ (if r.spotlight = "" then [] else [("_spotlight", script a "_spotlight" r.spotlight false)])
    ++ (if r.cleanup = "" then [] else [("_cleanup", script a "_cleanup" r.cleanup true)])

/-- the content a file name ends up with: the last write wins -/
def fileOf {β : Type} (k : String) : List (String × β) → Option β
  | [] => none
  | (k', v) :: r =>
    match fileOf k r with
    | some x => some x
    | none => if k' = k then some v else none

/-- what the actor's `actionScripts[n]`, `spotlightScript`, `cleanupScript` hold after
prepareActionCommands, keyed like the harness reports them -/
def files (a : Actor) (r : Role) : List (String × Option (List Line)) :=
  (r.actions.map fun (n, _) => ("action:" ++ n, fileOf n (written a r)))
    ++ (if r.spotlight = "" then [] else [("spotlight", fileOf "_spotlight" (written a r))])
    ++ (if r.cleanup = "" then [] else [("cleanup", fileOf "_cleanup" (written a r))])

/-! ## The specification of the layout (evaluated on real scripts as well) -/

/-- `x` occurs in `l` and `y` occurs somewhere after the first `x` -/
def precedes (x y : Line) (l : List Line) : Bool :=
  match l.dropWhile (fun z => decide (z ≠ x)) with
  | [] => false
  | _ :: r => r.contains y

def isRedirect : Line → Bool
  | .redirect _ => true
  | _ => false

def isCd : Line → Bool
  | .cd _ => true
  | _ => false

def isEnv : Line → Bool
  | .env _ => true
  | _ => false

def isOther : Line → Bool
  | .other _ => true
  | _ => false

/-- the layout the property asks for: only known lines; the command is last; exactly one `cd`, to the
actor's own directory, before `TMPDIR=$PWD HOME=$PWD/..`; the redirection to `<act>.log` after that
and present iff the script is not a spotlight; then (`set -x` and) the `with` text iff there is one;
then the command. -/
def layoutOk (l : List Line) (wd act env cmd : String) (spot : Bool) : Bool :=
  !(l.any isOther)
  && l.getLast? == some (.command cmd)
  && (l.filter isCd == [.cd wd])
  && precedes (.cd wd) .tmpHome l
  && (if spot then !(l.any isRedirect)
      else (l.filter isRedirect == [.redirect act]) && precedes .tmpHome (.redirect act) l
           && precedes (.redirect act) .trace l)
  && precedes .tmpHome .trace l
  && (if env = "" then !(l.any isEnv)
      else (l.filter isEnv == [.env env]) && precedes .trace (.env env) l
           && precedes (.env env) (.command cmd) l)
  && precedes .trace (.command cmd) l

end Shk.Script
