/-!
# C14 — data-race freedom: access table, fork/join execution model, discipline checker

`harness/cmd/vaccess` (the translator) lists, from the SSA form of `pkg/cmd` as it is NOW,
the goroutine roots and every access to shared memory (`ShkModel/Gen/Access.lean`).
This file defines

* the shape of those facts (`Root`, `Access`, `Table`);
* an abstract execution model for programs of this shape: thread instances organised in a
  fork tree, events = accesses / fork / end signal (`done`) / join, happens-before defined
  inductively (program order, fork, join, lock hand-over, transitivity), `Race`;
* what the extracted facts MEAN for an execution (`Exec`: one field per kind of fact);
* the discipline checker `disciplineOk` (a total Bool function the kernel evaluates on the
  regenerated table);
* the soundness theorem is in `Props/C14.lean`, the lemmas in `Lemmas/Race.lean`, the hand-written
  policy in `Model/RacePolicy.lean`.

## What is assumed about the code and NOT checked here (trusted: translator + Go memory model)

* A1 (skeleton).  The translator's facts are right: the fork tree (`parents`), `once`/`multi`,
  the relation of an access of a parent to the fork and join of each child (`pre`/`post`/`sep`/
  `mid`), `preDone`, `joinBeforeDone`, the lock sets, `atomic`.  They are derived from the code
  on every run (positions of `go` / `runWorker` / `runAsyncTask` calls, of `wg.Wait()`,
  `<-ch`, `wg.Done()`, `close(ch)` in the control-flow graph), not written by hand.
  `go` statements, `WaitGroup.Done → Wait`, channel send/close → receive, `Mutex.Unlock → Lock`
  and `sync/atomic` synchronise as the Go memory model says.  Panics are ignored.
* A2 (no hidden aliasing).  Memory is named by struct type and field (`T.f`, `T.f[]`), package
  variable, or captured local variable; code of other packages is opaque (it neither starts
  goroutines that call back into `pkg/cmd` nor keeps pointers it was handed, except where the
  table says `ext:`).  For `perInstance` locations: an object is touched only by ONE instance
  of an owner root and the goroutines that instance forks (field `Exec.own`); the translator
  cannot see which object a pointer denotes.
* A3 (channel hand-over), reduced.  CHECKED by the translator (fact `sentThenWritten`, obligation
  `stwOk`, meaning `Exec.sendSem`): in no function of `pkg/cmd` is a field of an object written after the
  pointer to it was sent on a channel there (directly or through a callee that sends its parameter).
  Still ASSUMED (`Exec.msgSem`): a `message` object reaches another goroutine only through such a
  send and the matching receive, and that goroutine touches it only after the receive — i.e. no
  aliases the translator does not follow (pointers parked in fields, maps, slices), no objects that
  leave `pkg/cmd`; and the receiving side does not write fields the sender still reads after the send.
* A4 (allowed leaks).  Exits of a joining function that skip the join are listed per root
  (`leaks`); `disciplineOk` accepts only the ones in `allowedLeaks`; executions taking such an
  exit (the one-minute hard-shutdown time limit of `runConduct`) are outside the theorem.
-/
namespace Shk.Race

/-- relation of an access of a parent thread to the instances of one child root -/
inductive Rel
  | pre   -- before every fork of such a child (by this thread)
  | mid   -- possibly concurrent
  | post  -- after the join of every such child
  | sep   -- for each such child: before its fork or after its join
  deriving DecidableEq, Repr

/-- a goroutine root; identified by its index in `Table.roots`; index 0 is the main goroutine -/
structure Root where
  parents : List Nat
  /-- several instances forked by one parent instance may be live at once -/
  multi : Bool
  /-- a parent instance forks at most one instance, ever -/
  once : Bool
  /-- the parent waits for the end signal of each instance -/
  joined : Bool
  /-- parent roots whose own end signal comes after that wait -/
  joinBeforeDone : List Nat
  /-- exits of the joining function that skip the join (source text) -/
  leaks : List String
  deriving Repr

structure Access where
  root : Nat
  loc : Nat
  write : Bool
  atomic : Bool
  locks : List Nat
  /-- certainly before the root's end signal -/
  preDone : Bool
  /-- child root ↦ relation; a child root not listed is `sep` -/
  rel : List (Nat × Rel)
  deriving Repr, DecidableEq

/-- the access rows come grouped by location: `groups[l]` are the rows of location `l` -/
structure Table where
  roots : List Root
  groups : List (List Access)
  /-- locations that some function writes after it has sent a pointer to the object on a channel -/
  sentThenWritten : List Nat

def Table.accs (T : Table) : List Access := T.groups.flatten
def Table.nlocs (T : Table) : Nat := T.groups.length

def Access.relTo (a : Access) (c : Nat) : Rel := (a.rel.lookup c).getD .sep

def Table.parents (T : Table) (r : Nat) : List Nat :=
  match T.roots[r]? with
  | some R => R.parents
  | none => []

/-! ## Executions -/

abbrev Tid := Nat

inductive Act
  | acc (a : Access) (obj : Nat)
  | fork (c : Tid)
  | done
  | join (c : Tid)
  /-- the pointer to object `obj` is sent on / received from a channel -/
  | send (obj : Nat)
  | recv (obj : Nat)
  deriving DecidableEq

structure Event where
  tid : Tid
  act : Act
  deriving DecidableEq

abbrev Trace := List Event

/-- event number `i` of the trace is `act` by thread `t` -/
def At (tr : Trace) (i : Nat) (t : Tid) (act : Act) : Prop := tr[i]? = some ⟨t, act⟩

/-- the thread occurs in the trace -/
def Active (tr : Trace) (t : Tid) : Prop := ∃ i a, At tr i t a

/-- happens-before, on positions of the trace -/
inductive HB (tr : Trace) : Nat → Nat → Prop
  | po {i j : Nat} {t : Tid} {a₁ a₂ : Act} : At tr i t a₁ → At tr j t a₂ → i < j → HB tr i j
  | fork {i j : Nat} {t c : Tid} {a : Act} :
      At tr i t (.fork c) → At tr j c a → i < j → HB tr i j
  | join {i j : Nat} {t c : Tid} :
      At tr i c (.done) → At tr j t (.join c) → i < j → HB tr i j
  | lock {i j : Nat} {t u : Tid} {a b : Access} {o o' m : Nat} :
      At tr i t (.acc a o) → At tr j u (.acc b o') → m ∈ a.locks → m ∈ b.locks → i < j → HB tr i j
  | chan {i j : Nat} {t u : Tid} {o : Nat} :
      At tr i t (.send o) → At tr j u (.recv o) → i < j → HB tr i j
  | trans {i j k : Nat} : HB tr i j → HB tr j k → HB tr i k

/-- two accesses of different thread instances to the same cell of the same object, one a write,
not both atomic, unordered -/
def Race (tr : Trace) (i j : Nat) : Prop :=
  ∃ t u a b o, At tr i t (.acc a o) ∧ At tr j u (.acc b o) ∧ a.loc = b.loc ∧
    (a.write = true ∨ b.write = true) ∧ ¬ (a.atomic = true ∧ b.atomic = true) ∧ t ≠ u ∧
    ¬ HB tr i j ∧ ¬ HB tr j i

/-- strict descendant in the fork tree -/
inductive Anc (par : Tid → Option Tid) : Tid → Tid → Prop
  | base {u t : Tid} : par u = some t → Anc par u t
  | step {u p t : Tid} : par u = some p → Anc par p t → Anc par u t

/-! ## Policy -/

inductive Discipline
  /-- every access goes through `sync/atomic` -/
  | atomic
  /-- every access holds this mutex -/
  | locked (m : Nat)
  /-- only ever touched by this root, of which there is one instance -/
  | confined (r : Nat)
  /-- written by one single-instance root before it forks the readers (or before an ancestor
  that reads it has joined it); otherwise only read -/
  | initThenReadOnly (w : Nat)
  /-- written by workers, touched by their ancestors only before the fork or after the join -/
  | handoff
  /-- each instance of an owner root (and the goroutine it forks and joins) has its own object -/
  | perInstance (owners : List Nat)
  /-- objects handed from one goroutine to another through a channel -/
  | message
  deriving Repr

/-! ## The checker -/

/-- there is exactly one thread instance of this root -/
def single (T : Table) : Nat → Nat → Bool
  | 0, _ => false
  | f+1, r => r == 0 ||
      match T.roots[r]? with
      | some R => R.once && !R.multi && (match R.parents with
          | [p] => single T f p
          | _ => false)
      | none => false

/-- every instance of root `r` is a strict descendant of an instance of root `w` -/
def under (T : Table) (w : Nat) : Nat → Nat → Bool
  | 0, _ => false
  | f+1, r => r != 0 && (T.parents r).all fun p => p == w || under T w f p

/-- no instance of root `r` is an instance of root `c` or a descendant of one -/
def cannotReach (T : Table) (c : Nat) : Nat → Nat → Bool
  | 0, _ => false
  | f+1, r => r != c && (T.parents r).all fun p => cannotReach T c f p

def jbd (T : Table) (r p : Nat) : Bool :=
  match T.roots[r]? with
  | some R => R.joined && R.joinBeforeDone.contains p
  | none => false

/-- an instance of `r` below an instance `c₀` of root `c` has given its end signal before `c₀` gives its own -/
def settled (T : Table) (c : Nat) : Nat → Nat → Bool
  | 0, _ => false
  | f+1, r => (T.parents r).all fun p => cannotReach T c T.roots.length p || (jbd T r p && settled T c f p)

def isChildOf (T : Table) (c w : Nat) : Bool := (T.parents c).contains w

/-- `x` is by a single-instance root above `y`'s root, and ordered with `y` by fork or join -/
def downOk (T : Table) (x y : Access) : Bool :=
  let n := T.roots.length
  single T n x.root && under T x.root n y.root &&
  (List.range n).all fun c =>
    !isChildOf T c x.root || cannotReach T c n y.root ||
      match x.relTo c with
      | .pre => true
      | .mid => false
      | _ => y.preDone && settled T c n y.root

def commonLock (x y : Access) : Bool := x.locks.any fun m => y.locks.contains m

def pairOk (T : Table) (x y : Access) : Bool :=
  (x.atomic && y.atomic) || commonLock x y ||
  (x.root == y.root && single T T.roots.length x.root) || downOk T x y || downOk T y x

def accsAt (T : Table) (l : Nat) : List Access := (T.groups[l]?).getD []

/-- every row sits in the group of its location -/
def groupsOk (T : Table) : Bool :=
  (List.range T.nlocs).all fun l => (accsAt T l).all (·.loc == l)

def orderedLoc (T : Table) (l : Nat) : Bool :=
  (accsAt T l).all fun x => (accsAt T l).all fun y => !(x.write || y.write) || pairOk T x y

def famOk (T : Table) (l : Nat) (owners : List Nat) : Bool :=
  let kids := (accsAt T l).filter fun x => !owners.contains x.root
  (owners.all fun o => (T.parents o).all fun p => !owners.contains p) &&
  -- the forked goroutines that touch it: one root per owner root
  (kids.all fun a => kids.all fun b => a.root == b.root ||
    (T.parents a.root).all fun p => !(T.parents b.root).contains p) &&
  (kids.all fun y => y.preDone && (match T.roots[y.root]? with
      | some R => R.joined && !R.multi && !R.parents.isEmpty && R.parents.all owners.contains
      | none => false)) &&
  ((accsAt T l).all fun x => !owners.contains x.root || kids.all fun y => x.relTo y.root != .mid)

def checkLoc (T : Table) (pol : Nat → Option Discipline) (l : Nat) : Bool :=
  match pol l with
  | some .atomic => (accsAt T l).all (·.atomic)
  | some (.locked m) => (accsAt T l).all (·.locks.contains m)
  | some (.confined r) => single T T.roots.length r && (accsAt T l).all (·.root == r)
  | some (.initThenReadOnly w) =>
      ((accsAt T l).all fun x => !x.write || x.root == w) && orderedLoc T l
  | some .handoff => orderedLoc T l
  | some (.perInstance owners) => famOk T l owners
  | some .message => true
  | none =>
      -- not classified: accepted only when a single thread instance touches it
      match accsAt T l with
      | [] => true
      | x :: xs => single T T.roots.length x.root && xs.all (·.root == x.root)

def leaksOk (T : Table) (allowed : List String) : Bool :=
  T.roots.all fun R => R.leaks.all allowed.contains

/-- a location written after the object was sent must be protected by something else than the hand-over -/
def stwOk (T : Table) (pol : Nat → Option Discipline) : Bool :=
  T.sentThenWritten.all fun l =>
    match pol l with
    | some .atomic => true
    | some (.locked _) => true
    | _ => false

def disciplineOk (T : Table) (pol : Nat → Option Discipline) (allowed : List String) : Bool :=
  leaksOk T allowed && groupsOk T && stwOk T pol && (List.range T.nlocs).all (checkLoc T pol)

/-- for the evidence: the locations that fail -/
def failing (T : Table) (pol : Nat → Option Discipline) : List Nat :=
  (List.range T.nlocs).filter fun l => !checkLoc T pol l

/-! ## What the facts mean: executions of a program described by table `T` under policy `pol` -/

structure Exec (T : Table) (pol : Nat → Option Discipline) where
  tr : Trace
  rootOf : Tid → Nat
  par : Tid → Option Tid
  /-- every access event instantiates a row of the table, by a thread of that root -/
  typed : ∀ i t a o, At tr i t (.acc a o) → a ∈ T.accs ∧ a.root = rootOf t
  /-- the fork tree follows the root graph -/
  parTyped : ∀ c t, par c = some t → rootOf t ∈ T.parents (rootOf c)
  /-- (about the threads that occur in the trace) every thread but the main one has a parent -/
  hasParent : ∀ u, Active tr u → rootOf u ≠ 0 → ∃ p, par u = some p
  mainUnique : ∀ t u, Active tr t → Active tr u → rootOf t = 0 → rootOf u = 0 → t = u
  /-- `once`: a parent instance forks at most one instance of the root -/
  onceSem : ∀ c₁ c₂ t R, par c₁ = some t → par c₂ = some t → rootOf c₁ = rootOf c₂ →
    T.roots[rootOf c₁]? = some R → R.once = true → R.multi = false → c₁ = c₂
  /-- a child is forked by its parent, before anything the child does -/
  forkExists : ∀ c t, par c = some t → ∃ k, At tr k t (.fork c)
  forkFirst : ∀ k t c j a, At tr k t (.fork c) → At tr j c a → k < j
  /-- `pre` / `post` / `sep` -/
  relSem : ∀ i t a o c, At tr i t (.acc a o) → par c = some t →
    match a.relTo (rootOf c) with
    | .pre => ∀ k, At tr k t (.fork c) → i < k
    | .post => ∃ k, k < i ∧ At tr k t (.join c)
    | .sep => (∀ k, At tr k t (.fork c) → i < k) ∨ (∃ k, k < i ∧ At tr k t (.join c))
    | .mid => True
  /-- a join has observed the end signal -/
  joinObs : ∀ k t c, At tr k t (.join c) → ∃ d, d < k ∧ At tr d c (.done)
  /-- `preDone` -/
  preDoneSem : ∀ i c a o d, At tr i c (.acc a o) → a.preDone = true → At tr d c (.done) → i < d
  /-- `joinBeforeDone` -/
  jbdSem : ∀ u p R d, par u = some p → T.roots[rootOf u]? = some R → R.joined = true →
    rootOf p ∈ R.joinBeforeDone → At tr d p (.done) → ∃ k, k < d ∧ At tr k p (.join u)
  /-- not `multi` and joined: the instances forked by one parent instance follow one another -/
  seqSem : ∀ c₁ c₂ t R, c₁ ≠ c₂ → par c₁ = some t → par c₂ = some t → rootOf c₁ = rootOf c₂ →
    T.roots[rootOf c₁]? = some R → R.joined = true → R.multi = false →
    (∃ k k', At tr k t (.join c₁) ∧ At tr k' t (.fork c₂) ∧ k < k') ∨
    (∃ k k', At tr k t (.join c₂) ∧ At tr k' t (.fork c₁) ∧ k < k')
  /-- A2: per-instance objects -/
  own : ∀ i j t u a b o owners, At tr i t (.acc a o) → At tr j u (.acc b o) → a.loc = b.loc →
    pol a.loc = some (.perInstance owners) →
    ∃ w, rootOf w ∈ owners ∧ (t = w ∨ par t = some w) ∧ (u = w ∨ par u = some w)
  /-- `sentThenWritten`: unless the location is listed, a thread writes an object only before it
  sends it -/
  sendSem : ∀ i k t a o, At tr i t (.acc a o) → a.write = true → At tr k t (.send o) →
    a.loc ∈ T.sentThenWritten ∨ i < k
  /-- A3 (what is left of it): two threads touch a `message` object, one of them writing, only if
  one handed it to the other through a channel; the receiver touches it after the receive, and a
  sender that only reads has read before the send -/
  msgSem : ∀ i j t u a b o, At tr i t (.acc a o) → At tr j u (.acc b o) → a.loc = b.loc →
    pol a.loc = some .message → t ≠ u → (a.write = true ∨ b.write = true) →
    (∃ k k', At tr k t (.send o) ∧ At tr k' u (.recv o) ∧ k < k' ∧ k' < j ∧ (a.write = false → i < k)) ∨
    (∃ k k', At tr k u (.send o) ∧ At tr k' t (.recv o) ∧ k < k' ∧ k' < i ∧ (b.write = false → j < k))

end Shk.Race
