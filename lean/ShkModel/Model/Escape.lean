import ShkModel.Model.Reader
/-! The text layer between `printCfg` and the reader (C10): `escapeNl` of `pkg/cmd/config.go`.

A clause text can hold newlines (it was written on continuation lines); `printCfg` writes every
such text through `escapeNl`, which puts a backslash before each newline and — since the repair
6cb11bb — a blank after a final backslash.  The printed bytes are cut into physical lines at the
newlines (`splitNl`, what `ReadString('\n')` yields) and joined again by the reader's `gather`.
`escapeNlOld` is the function before the repair.  Core only. -/
namespace Shk.Escape
open Shk.Preproc Shk.Reader

/-- `strings.ReplaceAll(s, "\n", "\\\n")` -/
def escBody : Bytes → Bytes
  | [] => []
  | b :: t => if b = 10 then 92 :: 10 :: escBody t else b :: escBody t

/-- the blank `escapeNl` appends when the text ends in a backslash -/
def fin (t : Bytes) : Bytes := if endsBackslash t then [32] else []

def escapeNl (t : Bytes) : Bytes := escBody t ++ fin t

def escapeNlOld (t : Bytes) : Bytes := escBody t

/-- cut at the newlines; `cur` is the line read so far (the last piece is the unterminated rest) -/
def splitNl : Bytes → Bytes → List Bytes
  | cur, [] => [cur]
  | cur, b :: bs => if b = 10 then cur :: splitNl [] bs else splitNl (cur ++ [b]) bs

/-- number of newlines of a text -/
def nls : Bytes → Nat
  | [] => 0
  | b :: t => (if b = 10 then 1 else 0) + nls t

end Shk.Escape
