/-!
# C03 — interpretation clauses, the collector's verdict, and the error funnel

`applyOps` mirrors the parser (`addOrGetAudienceMember` defaults, `parseInterpretation`);
`fouls` mirrors `checkAuditViolations`; `earlyStop` mirrors `processAuditResult` under `-S`;
`conductErr`/`exitCode` mirror the error funnel conduct → runConduct → run → main.
Core only.
-/
namespace Shk.Verdict

inductive FoulCond | ignore | uponNonZero | uponZero
deriving DecidableEq, Repr

inductive Res | disappointment | satisfaction
deriving DecidableEq, Repr

structure Interp where
  onBad : FoulCond := .uponNonZero      -- default: foul upon disappointment
  onGood : FoulCond := .ignore          -- default: ignore satisfaction
deriving DecidableEq, Repr

/-- configuration steps that matter for the interpretation, in file order -/
inductive Op
  | member (name : String)                           -- first mention of an audience member
  | ignoreAll (r : Res)                              -- `ignore <result>` shorthand
  | set (mode : FoulCond) (target : String) (r : Res)
deriving DecidableEq, Repr

abbrev Table := List (String × Interp)

def Interp.with (i : Interp) (r : Res) (f : FoulCond) : Interp :=
  match r with
  | .disappointment => { i with onBad := f }
  | .satisfaction => { i with onGood := f }

def Interp.get (i : Interp) : Res → FoulCond
  | .disappointment => i.onBad
  | .satisfaction => i.onGood

/-- one step; `none` = the parser rejects the clause (unknown audience member) -/
def applyOp (t : Table) : Op → Option Table
  | .member n => if (t.lookup n).isSome then some t else some (t ++ [(n, {})])
  | .ignoreAll r => some (t.map fun p => (p.1, p.2.with r .ignore))
  | .set mode n r =>
    if (t.lookup n).isSome then some (t.map fun p => (p.1, if p.1 = n then p.2.with r mode else p.2))
    else none

def applyOps : Table → List Op → Option Table
  | t, [] => some t
  | t, o :: os => (applyOp t o).bind fun t' => applyOps t' os

/-- the specification of "later clauses override earlier ones per (auditor, result) pair":
the mode given by the last clause that addresses (n, r) — a `set` naming n, or a shorthand
issued while n existed — else the default. `defined` tracks whether n exists yet. -/
def lastWins (n : String) (r : Res) : Bool → FoulCond → List Op → FoulCond
  | _, cur, [] => cur
  | d, cur, .member m :: os => lastWins n r (d || m == n) cur os
  | d, cur, .ignoreAll r' :: os => lastWins n r d (if d && r' == r then .ignore else cur) os
  | d, cur, .set mode m r' :: os => lastWins n r d (if m == n && r' == r then mode else cur) os

def defaultOf : Res → FoulCond
  | .disappointment => .uponNonZero
  | .satisfaction => .ignore

/-! ## the collector -/

structure Tally where
  good : Nat := 0
  bad : Nat := 0
  hasData : Bool := false
deriving DecidableEq, Repr

/-- `isPlayFouledByDisappointment/Satisfaction` -/
def fouledBy (c : FoulCond) (cnt : Nat) (atEnd : Bool) : Bool :=
  match c with
  | .uponNonZero => cnt > 0
  | .uponZero => cnt == 0 && atEnd
  | .ignore => false

/-- `checkAuditViolations`: does the collector report an audit violation? -/
def fouls (t : Table) (tally : String → Tally) (numErrors : Nat) : Bool :=
  numErrors > 0 ||
  t.any fun p => (tally p.1).hasData &&
    (fouledBy p.2.onBad (tally p.1).bad true || fouledBy p.2.onGood (tally p.1).good true)

/-- an audit report as the collector receives it: auditor, result code (0 ok, 1 error, 2 failure, 3 info) -/
structure Report where
  auditor : String
  code : Nat
deriving DecidableEq, Repr

structure ColSt where
  tally : String → Tally := fun _ => {}
  errors : Nat := 0

/-- the tally of the reporting auditor after the report (`hasData` is set first) -/
def bump (ty : Tally) (code : Nat) : Tally :=
  if code == 0 then { ty with hasData := true, good := ty.good + 1 }
  else if code == 2 then { ty with hasData := true, bad := ty.bad + 1 }
  else { ty with hasData := true }

/-- does `processAuditResult` ask for an early exit? -/
def stopNow (i : Option Interp) (earlyExit : Bool) (code : Nat) (ty : Tally) : Bool :=
  if code == 3 then false
  else if code == 1 then earlyExit
  else if earlyExit then
    match i with
    | some i => fouledBy i.onBad ty.bad false || fouledBy i.onGood ty.good false
    | none => false
  else false

/-- `collectAuditionReport` + `processAuditResult`: new state and "stop now" (only with `-S`) -/
def collectReport (t : Table) (earlyExit : Bool) (s : ColSt) (r : Report) : ColSt × Bool :=
  ({ tally := fun n => if n = r.auditor then bump (s.tally r.auditor) r.code else s.tally n,
     errors := if r.code == 1 then s.errors + 1 else s.errors },
   stopNow (t.lookup r.auditor) earlyExit r.code (bump (s.tally r.auditor) r.code))

/-- the collector loop over a stream of reports; stops at the first early exit -/
def collectAll (t : Table) (earlyExit : Bool) : ColSt → List Report → ColSt × Bool
  | s, [] => (s, false)
  | s, r :: rs =>
    let x := collectReport t earlyExit s r
    if x.2 then (x.1, true) else collectAll t earlyExit x.1 rs

/-! ## the funnel -/

/-- an error as far as the funnel cares -/
structure Err where
  isCancel : Bool := false        -- errors.Is(err, context.Canceled)
  isAudit : Bool := false         -- errors.Is(err, errAuditViolation)
deriving DecidableEq, Repr

def ignCancel (e : Option Err) : Option Err :=
  match e with
  | some x => if x.isCancel then none else some x
  | none => none

/-- `combineErrors`: nil-aware; the combination is an audit violation if its last member is
(`errorCollection.Unwrap` returns the last error) — conservatively: if any is. -/
def combine (a b : Option Err) : Option Err :=
  match a, b with
  | none, b => b
  | a, none => a
  | some x, some y => some { isCancel := x.isCancel && y.isCancel, isAudit := y.isAudit }

/-- `conduct`, the four shutdown stages: component errors in the order the stages read them.
`first` = the component whose error arrived first (0 prompter, 1 spotlights, 2 auditors,
3 collector). -/
def stageErr (pr sp au col : Option Err) (first : Nat) : Option Err :=
  if first == 0 then
    -- the normal cascade: each stage's own error is kept as it is, the collector's through ignCancel
    combine (ignCancel col) (combine au (combine sp (combine pr none)))
  else
    -- something else finished first: its error is kept, the rest goes through ignCancel
    combine ((([pr, sp, au, col].zipIdx.filter fun p => p.2 != first).map (·.1)).foldl
        (fun acc e => combine (ignCancel e) acc) none)
      (combine ([pr, sp, au, col].getD first none) none)

/-- the two deferred functions of `conduct`: the re-check of the tallies when the error is not
already an audit violation, then the final cleanup. -/
def finish (stage : Option Err) (verdictFouls : Bool) (cleanupErr : Option Err) : Option Err :=
  combine
    (match stage with
     | some e => if e.isAudit then some e else combine (some e) (if verdictFouls then some { isAudit := true } else none)
     | none => if verdictFouls then some { isAudit := true } else none)
    cleanupErr

def conductErr (pr sp au col : Option Err) (first : Nat) (verdictFouls : Bool) (cleanupErr : Option Err) :
    Option Err :=
  finish (stageErr pr sp au col first) verdictFouls cleanupErr

def exitCode (e : Option Err) : Nat := if e.isSome then 1 else 0

end Shk.Verdict
