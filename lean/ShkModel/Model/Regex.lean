/-!
# Regular expressions of the configuration parser (`pkg/cmd/parsecfg.go`) — syntax, meaning, matcher

The 33 clause regexps of the parser are translated on every run from the Go source into the
abstract syntax `Re` below (`lean/ShkModel/Gen/ClauseRe.lean`, written by `harness/cmd/vregex`
from what `regexp/syntax` parses and simplifies, exactly the tree `regexp.MustCompile` compiles).

* `M s r i j` / `Matches r s` — the declarative meaning: the piece `s[i..j)` belongs to the language
  of `r`; `^`/`$` (begin / end of text, the only anchors of the `(?s:…)` regexps) look at the whole
  string `s`.  Nothing about priorities.
* `ms s r st` — every way `r` can match from state `st`, as a list **in priority order**: first
  alternative first, a greedy operator tries the longest first, a lazy one the shortest.  This is
  the backtracking search of Perl / the leftmost-first rule of Go (`regexp` documents: "the match
  that a backtracking engine would have found first").  A repetition never repeats an iteration
  that consumed nothing (Go prunes the revisited program state, Perl breaks the loop).
* `run r s` — first way (in priority order) that consumes the whole string; `find r s` — what
  `FindStringSubmatch` does: leftmost start, first way from there, whatever is left over.  For
  a regexp of the shape `^…$` they coincide (`ReProps.find_anchored`).

Core Lean only (linked into `shkdrv`).
-/
namespace Shk.Re

/-- abstract syntax.  Characters are code points; a class is a list of inclusive ranges (negation
already resolved by `regexp/syntax`); a non-capturing group leaves no trace. -/
inductive Re where
  | empty : Re
  | chr (c : Nat) : Re
  | cls (rs : List (Nat × Nat)) : Re
  | any : Re                                 -- any character, newline included  (`.` under `(?s)`)
  | anyNoNL : Re                             -- any character but newline
  | cat (a b : Re) : Re
  | alt (a b : Re) : Re                      -- ordered: `a` is preferred
  | star (greedy : Bool) (r : Re) : Re
  | plus (greedy : Bool) (r : Re) : Re
  | opt (greedy : Bool) (r : Re) : Re
  | group (idx : Nat) (name : Option String) (r : Re) : Re
  | bot : Re                                 -- `^`  (begin of text)
  | eot : Re                                 -- `$`  (end of text)
  deriving Repr, DecidableEq, Inhabited

/-- a literal string -/
def Re.str : List Nat → Re
  | [] => .empty
  | [c] => .chr c
  | c :: cs => .cat (.chr c) (Re.str cs)

/-- a literal string followed by `k` (what a literal inside a concatenation is rendered as, so
that concatenations are right-nested down to single characters) -/
def Re.strThen : List Nat → Re → Re
  | [], k => k
  | c :: cs, k => .cat (.chr c) (Re.strThen cs k)

/-- `r{min,max}` the way `regexp/syntax.Simplify` expands it (the translator receives the tree
after `Simplify`, as the compiler does, so counted repetition is derived syntax). -/
def Re.repOpt (g : Bool) (r : Re) : Nat → Re
  | 0 => .empty
  | 1 => .opt g r
  | n + 1 => .opt g (.cat r (Re.repOpt g r n))

def Re.repMin (r : Re) : Nat → Re → Re
  | 0, tail => tail
  | n + 1, tail => .cat r (Re.repMin r n tail)

def Re.rep (g : Bool) (r : Re) (min : Nat) : Option Nat → Re
  | none => Re.repMin r min (.star g r)
  | some max => Re.repMin r min (Re.repOpt g r (max - min))

def inRanges (rs : List (Nat × Nat)) (n : Nat) : Bool := rs.any fun p => p.1 ≤ n && n ≤ p.2

/-! ## declarative meaning -/

/-- zero or more consecutive pieces, each in `P` -/
inductive Star (P : Nat → Nat → Prop) : Nat → Nat → Prop
  | nil (i : Nat) : Star P i i
  | cons {i k j : Nat} : P i k → Star P k j → Star P i j

/-- one character at position `i` satisfying `p` -/
def chrAt (s : List Char) (p : Nat → Bool) (i j : Nat) : Prop :=
  j = i + 1 ∧ ∃ c, s[i]? = some c ∧ p c.toNat = true

/-- `s[i..j)` is in the language of the regexp (anchors refer to the whole of `s`) -/
def M (s : List Char) : Re → Nat → Nat → Prop
  | .empty, i, j => i = j
  | .chr n, i, j => chrAt s (fun m => m == n) i j
  | .cls rs, i, j => chrAt s (inRanges rs) i j
  | .any, i, j => chrAt s (fun _ => true) i j
  | .anyNoNL, i, j => chrAt s (fun m => m != 10) i j
  | .cat a b, i, j => ∃ k, M s a i k ∧ M s b k j
  | .alt a b, i, j => M s a i j ∨ M s b i j
  | .star _ r, i, j => Star (M s r) i j
  | .plus _ r, i, j => ∃ k, M s r i k ∧ Star (M s r) k j
  | .opt _ r, i, j => i = j ∨ M s r i j
  | .group _ _ r, i, j => M s r i j
  | .bot, i, j => i = j ∧ i = 0
  | .eot, i, j => i = j ∧ i = s.length

/-- the whole string is in the language -/
def Matches (r : Re) (s : List Char) : Prop := M s r 0 s.length

/-! ## the backtracking matcher -/

/-- capture registers: newest first, `(group, start, end)`; a group that matched again shadows
its earlier span (last iteration wins), a group that did not take part keeps what it had. -/
abbrev Caps := List (Nat × (Nat × Nat))

structure St where
  pos : Nat
  caps : Caps
  deriving Repr, DecidableEq

def stepChar (s : List Char) (p : Nat → Bool) (st : St) : List St :=
  match s[st.pos]? with
  | some c => if p c.toNat then [{ st with pos := st.pos + 1 }] else []
  | none => []

/-- repetition with `n` iterations of fuel; an iteration that consumed nothing is not repeated -/
def starN (step : St → List St) (greedy : Bool) : Nat → St → List St
  | 0, st => [st]
  | n + 1, st =>
    if greedy then ((step st).filter fun t => st.pos < t.pos).flatMap (starN step greedy n) ++ [st]
    else st :: ((step st).filter fun t => st.pos < t.pos).flatMap (starN step greedy n)

/-- all the ways `r` matches from `st`, in priority order -/
def ms (s : List Char) : Re → St → List St
  | .empty, st => [st]
  | .chr n, st => stepChar s (fun m => m == n) st
  | .cls rs, st => stepChar s (inRanges rs) st
  | .any, st => stepChar s (fun _ => true) st
  | .anyNoNL, st => stepChar s (fun m => m != 10) st
  | .cat a b, st => (ms s a st).flatMap (ms s b)
  | .alt a b, st => ms s a st ++ ms s b st
  | .star g r, st => starN (ms s r) g (s.length - st.pos) st
  | .plus g r, st => (ms s r st).flatMap fun t => starN (ms s r) g (s.length - t.pos) t
  | .opt g r, st => if g then ms s r st ++ [st] else st :: ms s r st
  | .group i _ r, st => (ms s r st).map fun t => { t with caps := (i, (st.pos, t.pos)) :: t.caps }
  | .bot, st => if st.pos = 0 then [st] else []
  | .eot, st => if st.pos = s.length then [st] else []

/-- highest group number -/
def ngroups : Re → Nat
  | .cat a b | .alt a b => max (ngroups a) (ngroups b)
  | .star _ r | .plus _ r | .opt _ r => ngroups r
  | .group i _ r => max i (ngroups r)
  | _ => 0

/-- what `FindStringSubmatch` returns: span 0 is the whole match, then one entry per group,
`none` for a group that took no part -/
abbrev Captures := List (Option (Nat × Nat))

def spans (ng start : Nat) (t : St) : Captures :=
  some (start, t.pos) :: (List.range ng).map fun i => t.caps.lookup (i + 1)

/-- whole-string match: the first way, in priority order, that consumes all of `s` -/
def run (r : Re) (s : List Char) : Option Captures :=
  ((ms s r ⟨0, []⟩).find? fun t => t.pos == s.length).map (spans (ngroups r) 0)

def findFrom (s : List Char) (r : Re) : Nat → Nat → Option Captures
  | 0, _ => none
  | n + 1, start =>
    match (ms s r ⟨start, []⟩).head? with
    | some t => some (spans (ngroups r) start t)
    | none => findFrom s r n (start + 1)

/-- `FindStringSubmatch`: leftmost start, then the first way in priority order -/
def find (r : Re) (s : List Char) : Option Captures := findFrom s r (s.length + 1) 0

/-! ## syntactic classes -/

def nullable : Re → Bool
  | .empty | .bot | .eot => true
  | .chr _ | .cls _ | .any | .anyNoNL => false
  | .cat a b => nullable a && nullable b
  | .alt a b => nullable a || nullable b
  | .star _ _ | .opt _ _ => true
  | .plus _ r | .group _ _ r => nullable r

/-- no repeated sub-expression can match the empty string: the class in which the rule
"an empty iteration is not repeated" never fires, so that `ms` is plain backtracking and the
engines (Go's three matchers, Perl, PCRE) cannot differ on it -/
def inClass : Re → Bool
  | .cat a b | .alt a b => inClass a && inClass b
  | .star _ r | .plus _ r => !nullable r && inClass r
  | .opt _ r | .group _ _ r => inClass r
  | _ => true

def endsEot : Re → Bool
  | .eot => true
  | .cat _ b => endsEot b
  | _ => false

/-- of the shape `^ … $` -/
def anchored : Re → Bool
  | .cat .bot r => endsEot r
  | _ => false

/-- group numbers in order of their opening parenthesis -/
def groupIdxs : Re → List Nat
  | .cat a b | .alt a b => groupIdxs a ++ groupIdxs b
  | .star _ r | .plus _ r | .opt _ r => groupIdxs r
  | .group i _ r => i :: groupIdxs r
  | _ => []

/-- groups are numbered 1, 2, … n, each opened once -/
def wellNumbered (r : Re) : Bool := groupIdxs r == List.range' 1 (ngroups r)

/-- `q` occurs in `r` -/
def Occ (q : Re) : Re → Prop
  | .cat a b => q = .cat a b ∨ Occ q a ∨ Occ q b
  | .alt a b => q = .alt a b ∨ Occ q a ∨ Occ q b
  | .star g r => q = .star g r ∨ Occ q r
  | .plus g r => q = .plus g r ∨ Occ q r
  | .opt g r => q = .opt g r ∨ Occ q r
  | .group i n r => q = .group i n r ∨ Occ q r
  | r => q = r

/-- the characters every match must begin with (after `^`): a literal prefix read off the syntax -/
def litPrefix : Re → List Nat
  | .chr c => [c]
  | .cat .bot b => litPrefix b
  | .cat (.chr c) b => c :: litPrefix b
  | .cat (.group _ _ a) _ => litPrefix a
  | .group _ _ a => litPrefix a
  | _ => []

/-- `some w` when the regexp is exactly `^w$` for a literal `w` -/
def litBody : Re → Option (List Nat)
  | .eot => some []
  | .cat (.chr c) b => (litBody b).map (c :: ·)
  | _ => none

def isLiteral : Re → Option (List Nat)
  | .cat .bot r => litBody r
  | _ => none

/-- Perl's `\s` as `regexp/syntax` tabulates it (`[\t\n\f\r ]`), and `\S` -/
def WS : List (Nat × Nat) := [(9, 10), (12, 13), (32, 32)]
def NS : List (Nat × Nat) := [(0, 8), (11, 11), (14, 31), (33, 1114111)]

/-- the literal a chain begins with, and what follows it -/
def splitLit : Re → List Nat × Re
  | .cat (.chr c) b => (c :: (splitLit b).1, (splitLit b).2)
  | r => ([], r)

/-- `some verb` for a regexp of the shape `^(\S+)\s+verb\s+…`: a first word, blanks, a literal, blanks -/
def wordVerb : Re → Option (List Nat)
  | .cat .bot (.cat (.group _ _ (.plus _ (.cls ns))) (.cat (.plus _ (.cls ws)) rest)) =>
    match splitLit rest with
    | (v, .cat (.plus _ (.cls ws2)) _) =>
      if ns == NS && ws == WS && ws2 == WS && !v.isEmpty then some v else none
    | _ => none
  | _ => none

/-- `some kw` for a regexp of the shape `^kw\s+…` or `^kw$`: a keyword, then blanks or the end -/
def keywordFirst : Re → Option (List Nat)
  | .cat .bot rest =>
    match splitLit rest with
    | (v, .cat (.plus _ (.cls ws)) _) => if ws == WS && !v.isEmpty then some v else none
    | (v, .eot) => if !v.isEmpty then some v else none
    | _ => none
  | _ => none

/-! ## Go strings

`regexp` reads a string rune by rune with `utf8.DecodeRuneInString`: a byte that does not begin a
well-formed sequence is the rune U+FFFD of width 1.  Spans are byte offsets. -/

def cont (b : Nat) : Bool := 0x80 ≤ b && b ≤ 0xBF

/-- one rune off the front: (code point, width) -/
def decode1 : List Nat → Nat × Nat
  | [] => (0xFFFD, 1)
  | b0 :: rest =>
    if b0 < 0x80 then (b0, 1)
    else if 0xC2 ≤ b0 && b0 ≤ 0xDF then
      match rest with
      | b1 :: _ => if cont b1 then ((b0 % 32) * 64 + b1 % 64, 2) else (0xFFFD, 1)
      | _ => (0xFFFD, 1)
    else if 0xE0 ≤ b0 && b0 ≤ 0xEF then
      match rest with
      | b1 :: b2 :: _ =>
        let lo := if b0 == 0xE0 then 0xA0 else 0x80
        let hi := if b0 == 0xED then 0x9F else 0xBF
        if lo ≤ b1 && b1 ≤ hi && cont b2 then ((b0 % 16) * 4096 + (b1 % 64) * 64 + b2 % 64, 3)
        else (0xFFFD, 1)
      | _ => (0xFFFD, 1)
    else if 0xF0 ≤ b0 && b0 ≤ 0xF4 then
      match rest with
      | b1 :: b2 :: b3 :: _ =>
        let lo := if b0 == 0xF0 then 0x90 else 0x80
        let hi := if b0 == 0xF4 then 0x8F else 0xBF
        if lo ≤ b1 && b1 ≤ hi && cont b2 && cont b3 then
          ((b0 % 8) * 262144 + (b1 % 64) * 4096 + (b2 % 64) * 64 + b3 % 64, 4)
        else (0xFFFD, 1)
      | _ => (0xFFFD, 1)
    else (0xFFFD, 1)

/-- the runes of a Go string with their widths -/
def decodeGo : Nat → List Nat → List (Nat × Nat)
  | 0, _ => []
  | _, [] => []
  | n + 1, bs => let d := decode1 bs; d :: decodeGo n (bs.drop d.2)

def runes (bs : List Nat) : List (Nat × Nat) := decodeGo bs.length bs

/-- byte offset of rune index `i` -/
def byteOff (ws : List Nat) (i : Nat) : Nat := (ws.take i).foldl (· + ·) 0

/-- `FindStringSubmatchIndex` on the bytes of a Go string -/
def findBytes (r : Re) (bs : List Nat) : Option Captures :=
  let rs := runes bs
  let ws := rs.map (·.2)
  (find r (rs.map fun p => Char.ofNat p.1)).map fun c =>
    c.map fun o => o.map fun (a, b) => (byteOff ws a, byteOff ws b)

end Shk.Re
