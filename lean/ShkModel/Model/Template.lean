import ShkModel.Model.Regex
/-! Clause templates (C10, C09): the family of clause regexps that are a sequence of keywords,
`\s+`, `(\S+)` words, and end in `(.*)$`, `$` or `\s*$` — and the line `printCfg` writes for such a
clause: the keywords and fields separated by single blanks.

`compile T f` is the regexp (in the shape `harness/cmd/vregex` emits, so that the regenerated
`Gen.*Re` can be compared with `decide`); `render T f words rest` is the printed line;
`capsOf … p` are the capture registers the matcher ends with when the line starts at position `p`.
Core only. -/
namespace Shk.Tpl
open Shk.Re

inductive Tok where
  | lit (w : List Char)                       -- a keyword (or `:`), matched literally
  | ws                                        -- `\s+`, printed as one blank
  | word (i : Nat) (nm : Option String)       -- `(?P<nm>\S+)`, group number `i`
  | num (i : Nat) (nm : Option String)        -- `(?P<nm>\d+)`
deriving Repr, DecidableEq

inductive Fin where
  | rest (i : Nat) (nm : Option String)       -- `(?P<nm>.*)$`
  | eot                                       -- `$`
  | wsEot                                     -- `\s*$`
deriving Repr, DecidableEq

/-- `\d` as `regexp/syntax` tabulates it -/
def DG : List (Nat × Nat) := [(48, 57)]

def compile : List Tok → Fin → Re
  | [], .rest i nm => .cat (.group i nm (.star true .any)) .eot
  | [], .eot => .eot
  | [], .wsEot => .cat (.star true (.cls WS)) .eot
  | .lit w :: T, f => Re.strThen (w.map Char.toNat) (compile T f)
  | .ws :: T, f => .cat (.plus true (.cls WS)) (compile T f)
  | .word i nm :: T, f => .cat (.group i nm (.plus true (.cls NS))) (compile T f)
  | .num i nm :: T, f => .cat (.group i nm (.plus true (.cls DG))) (compile T f)

/-- the whole clause regexp `^…` -/
def re (T : List Tok) (f : Fin) : Re := .cat .bot (compile T f)

/-- the printed line -/
def render : List Tok → Fin → List (List Char) → List Char → List Char
  | [], .rest _ _, _, r => r
  | [], _, _, _ => []
  | .lit w :: T, f, ws, r => w ++ render T f ws r
  | .ws :: T, f, ws, r => ' ' :: render T f ws r
  | .word _ _ :: T, f, w :: ws, r => w ++ render T f ws r
  | .word _ _ :: T, f, [], r => render T f [] r
  | .num _ _ :: T, f, w :: ws, r => w ++ render T f ws r
  | .num _ _ :: T, f, [], r => render T f [] r

/-- the capture registers after the match (newest first), the line starting at position `p` -/
def capsOf : List Tok → Fin → List (List Char) → List Char → Nat → Caps
  | [], .rest i _, _, r, p => [(i, (p, p + r.length))]
  | [], _, _, _, _ => []
  | .lit w :: T, f, ws, r, p => capsOf T f ws r (p + w.length)
  | .ws :: T, f, ws, r, p => capsOf T f ws r (p + 1)
  | .word i _ :: T, f, w :: ws, r, p => capsOf T f ws r (p + w.length) ++ [(i, (p, p + w.length))]
  | .word _ _ :: T, f, [], r, p => capsOf T f [] r p
  | .num i _ :: T, f, w :: ws, r, p => capsOf T f ws r (p + w.length) ++ [(i, (p, p + w.length))]
  | .num _ _ :: T, f, [], r, p => capsOf T f [] r p

/-- the fields by group number, in the order of `capsOf` -/
def fieldsOf : List Tok → Fin → List (List Char) → List Char → List (Nat × List Char)
  | [], .rest i _, _, r => [(i, r)]
  | [], _, _, _ => []
  | .lit _ :: T, f, ws, r => fieldsOf T f ws r
  | .ws :: T, f, ws, r => fieldsOf T f ws r
  | .word i _ :: T, f, w :: ws, r => fieldsOf T f ws r ++ [(i, w)]
  | .word _ _ :: T, f, [], r => fieldsOf T f [] r
  | .num i _ :: T, f, w :: ws, r => fieldsOf T f ws r ++ [(i, w)]
  | .num _ _ :: T, f, [], r => fieldsOf T f [] r

def isNS (c : Char) : Bool := inRanges NS c.toNat
def isWS (c : Char) : Bool := inRanges WS c.toNat
def isDG (c : Char) : Bool := inRanges DG c.toNat

/-- the first character of what follows a token is not white space (or nothing follows) -/
def headNotWS : List Char → Bool
  | [] => true
  | c :: _ => !isWS c

/-- what may follow a `(\S+)` word: blanks, or the end of the clause (`$`, `\s*$`) -/
def afterWord : List Tok → Fin → Bool
  | [], .eot => true
  | [], .wsEot => true
  | .ws :: _, _ => true
  | _, _ => false

/-- the fields fit the template: as many words as `word` tokens, every word non-empty and free of
white space; a word is followed by `\s+` or the end; what follows a `\s+` does not start with
white space (fields are trimmed, keywords are words) -/
def Ok : List Tok → Fin → List (List Char) → List Char → Bool
  | [], _, ws, _ => ws.isEmpty
  | .lit _ :: T, f, ws, r => Ok T f ws r
  | .ws :: T, f, ws, r => headNotWS (render T f ws r) && Ok T f ws r
  | .word _ _ :: T, f, w :: ws, r => !w.isEmpty && w.all isNS && afterWord T f && Ok T f ws r
  | .word _ _ :: _, _, [], _ => false
  | .num _ _ :: T, f, w :: ws, r => !w.isEmpty && w.all isDG && afterWord T f && Ok T f ws r
  | .num _ _ :: _, _, [], _ => false

end Shk.Tpl

namespace Shk.Tpl
open Shk.Re

/-- the group numbers of a template, in the order of `capsOf` / `fieldsOf` -/
def groupsOf : List Tok → Fin → List Nat
  | [], .rest i _ => [i]
  | [], _ => []
  | .lit _ :: T, f => groupsOf T f
  | .ws :: T, f => groupsOf T f
  | .word i _ :: T, f => groupsOf T f ++ [i]
  | .num i _ :: T, f => groupsOf T f ++ [i]

/-- the piece `s[a..b)` -/
def slice (s : List Char) (a b : Nat) : List Char := (s.drop a).take (b - a)

end Shk.Tpl

namespace Shk.Tpl
open Shk.Re

/-- put a literal character in front of a template -/
def consLit (c : Char) : List Tok × Fin → List Tok × Fin
  | (.lit w :: T, f) => (.lit (c :: w) :: T, f)
  | (T, f) => (.lit [c] :: T, f)

/-- read a template off a regexp (the inverse of `compile`); `none` when the regexp is not in the family -/
def decompile : Re → Option (List Tok × Fin)
  | .eot => some ([], .eot)
  | .cat (.group i nm (.star true .any)) .eot => some ([], .rest i nm)
  | .cat (.star true (.cls ws)) .eot => if ws = WS then some ([], .wsEot) else none
  | .cat (.plus true (.cls ws)) K =>
    if ws = WS then (decompile K).map fun p => (.ws :: p.1, p.2) else none
  | .cat (.group i nm (.plus true (.cls ns))) K =>
    if ns = NS then (decompile K).map fun p => (.word i nm :: p.1, p.2)
    else if ns = DG then (decompile K).map fun p => (.num i nm :: p.1, p.2) else none
  | .cat (.chr c) K =>
    if (Char.ofNat c).toNat = c then (decompile K).map (consLit (Char.ofNat c)) else none
  | _ => none

def templateOf : Re → Option (List Tok × Fin)
  | .cat .bot r => decompile r
  | _ => none

end Shk.Tpl
