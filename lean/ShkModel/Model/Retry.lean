/-!
# C17 — `pkg/crdb/retry`: the exponential back-off retry loop

Model of `retry.go` as the code is written (not as it should be).  Durations are nanoseconds;
floating point is idealised as exact rationals (`math.Pow` = exact power).  The random draw
`rand.Float64()` is the parameter `u ∈ [0,1)`.  Each blocking `select` in `Next` is resolved by an
environment choice `Wait`: the timer elapses, or the closer / the context fires during the wait.
Core only.
-/
namespace Shk.Retry

/-- `retry.Options` (the closer channel is part of the environment, see `Wait`). -/
structure Opts where
  initial : Rat          -- InitialBackoff, ns
  maxB : Rat             -- MaxBackoff, ns
  mult : Rat             -- Multiplier
  rand : Rat             -- RandomizationFactor
  maxRetries : Int       -- MaxRetries (`<= 0`: unbounded)
deriving Repr

/-- the defaults filled in by `StartWithCtx` (a zero value cannot be chosen). -/
def Opts.norm (o : Opts) : Opts where
  initial := if o.initial = 0 then 50000000 else o.initial
  maxB := if o.maxB = 0 then 2000000000 else o.maxB
  mult := if o.mult = 0 then 2 else o.mult
  rand := if o.rand = 0 then 3 / 20 else o.rand
  maxRetries := o.maxRetries

/-- `backoff := Initial * Multiplier^n; if backoff > Max { backoff = Max }` -/
def backoff (o : Opts) (n : Nat) : Rat :=
  if o.maxB < o.initial * o.mult ^ n then o.maxB else o.initial * o.mult ^ n

/-- the float expression handed to `time.Duration(...)` in `retryIn`, attempt counter `n`, draw `u`. -/
def retryInExact (o : Opts) (n : Nat) (u : Rat) : Rat :=
  backoff o n - o.rand * backoff o n + u * (2 * (o.rand * backoff o n) + 1)

/-- Go's float → int64 conversion: truncation towards zero. -/
def truncNs (x : Rat) : Int := if x < 0 then -((-x).floor) else x.floor

/-- `retryIn()` in whole nanoseconds. -/
def retryIn (o : Opts) (n : Nat) (u : Rat) : Int := truncNs (retryInExact o n u)

/-! ## The specification's band (property C17): around `min(Initial * Multiplier^n, Max)` -/

def specBackoff (o : Opts) (n : Nat) : Rat := min (o.initial * o.mult ^ n) o.maxB
/-- lower edge (inclusive) -/
def bandLo (o : Opts) (n : Nat) : Rat := specBackoff o n - o.rand * specBackoff o n
/-- upper edge (exclusive; the `+1` is the nanosecond granularity of the draw) -/
def bandHi (o : Opts) (n : Nat) : Rat := specBackoff o n + o.rand * specBackoff o n + 1

/-! ## The state machine -/

structure St where
  attempt : Nat := 0         -- `currentAttempt`
  isReset : Bool := false    -- `isReset`
  closed : Bool := false     -- `opts.Closer` has been closed
  cancelled : Bool := false  -- the context is done
  waited : Nat := 0          -- ghost: timer waits handed out since the last effective Reset
deriving Repr, DecidableEq

def St.stopped (s : St) : Bool := s.closed || s.cancelled

/-- `Reset()`: nothing happens once the closer / context has fired. -/
def reset (s : St) : St :=
  if s.stopped then s else { s with attempt := 0, isReset := true, waited := 0 }

/-- `StartWithCtx` (after the defaults): `Retry{opts}` then `Reset()`. -/
def start (closed cancelled : Bool) : St :=
  reset { attempt := 0, isReset := false, closed := closed, cancelled := cancelled, waited := 0 }

/-- how the environment resolves one `select` of `Next` -/
inductive Wait
  | elapses (u : Rat)     -- the timer fires first; `u` is the jitter draw of this `retryIn`
  | closerFires           -- the closer is closed during the wait
  | ctxFires              -- the context is cancelled during the wait
deriving Repr, DecidableEq

inductive Out
  | yieldNow                        -- `Next` = true without waiting
  | yieldAfter (n : Nat) (u : Rat)  -- `Next` = true after `retryIn` with counter `n`, draw `u`
  | done                            -- `Next` = false: attempts exhausted
  | halted                          -- `Next` = false: closer / context
  | chClosed                        -- `NextCh` = the closed channel (immediately)
  | chTimer (n : Nat) (u : Rat)     -- `NextCh` = `time.After(retryIn)` with counter `n`, draw `u`
  | chNil                           -- `NextCh` = nil
  | ack                             -- Reset / close / cancel
deriving Repr, DecidableEq

/-- `Next()`.  Assumption on Go's `select` (stated in the evidence): when the closer / context has
already fired at entry the timer branch is not taken (the delay is positive, so the timer channel
is not ready). -/
def next (o : Opts) (s : St) (w : Wait) : St × Out :=
  if s.isReset then ({ s with isReset := false }, .yieldNow)
  else if 0 < o.maxRetries ∧ o.maxRetries ≤ (s.attempt : Int) then (s, .done)
  else if s.stopped then (s, .halted)
  else match w with
    | .elapses u => ({ s with attempt := s.attempt + 1, waited := s.waited + 1 }, .yieldAfter s.attempt u)
    | .closerFires => ({ s with closed := true }, .halted)
    | .ctxFires => ({ s with cancelled := true }, .halted)

/-- `NextCh()` as repaired (fix: 7aa7712): like `Next`, the bound is checked against, and the wait
drawn from, the number of retries made so far; only then is the new one counted. -/
def nextCh (o : Opts) (s : St) (u : Rat) : St × Out :=
  if s.isReset then ({ s with isReset := false }, .chClosed)
  else if 0 < o.maxRetries ∧ o.maxRetries ≤ (s.attempt : Int) then
    ({ s with attempt := s.attempt + 1 }, .chNil)
  else ({ s with attempt := s.attempt + 1, waited := s.waited + 1 }, .chTimer s.attempt u)

/-- `NextCh()` as the pinned commit had it: the counter is incremented *before* the bound check
and before `retryIn`, so the wait in front of attempt k+1 used exponent k+1. -/
def nextChOld (o : Opts) (s : St) (u : Rat) : St × Out :=
  if s.isReset then ({ s with isReset := false }, .chClosed)
  else if 0 < o.maxRetries ∧ o.maxRetries < ((s.attempt + 1 : Nat) : Int) then
    ({ s with attempt := s.attempt + 1 }, .chNil)
  else ({ s with attempt := s.attempt + 1, waited := s.waited + 1 }, .chTimer (s.attempt + 1) u)

inductive Op
  | next (w : Wait)
  | nextCh (u : Rat)
  | reset
  | close      -- the closer is closed between two calls
  | cancel     -- the context is cancelled between two calls
deriving Repr, DecidableEq

def step (o : Opts) (s : St) : Op → St × Out
  | .next w => next o s w
  | .nextCh u => nextCh o s u
  | .reset => (reset s, .ack)
  | .close => ({ s with closed := true }, .ack)
  | .cancel => ({ s with cancelled := true }, .ack)

def run (o : Opts) (s : St) : List Op → St × List Out
  | [] => (s, [])
  | op :: ops => ((run o (step o s op).1 ops).1, (step o s op).2 :: (run o (step o s op).1 ops).2)

/-- an attempt was handed to the caller -/
def Out.isYield : Out → Bool
  | .yieldNow | .yieldAfter _ _ | .chClosed | .chTimer _ _ => true
  | _ => false

/-- … after a timer wait -/
def Out.isWait : Out → Bool
  | .yieldAfter _ _ | .chTimer _ _ => true
  | _ => false

def yields (l : List Out) : Nat := (l.filter Out.isYield).length

/-- the delay (ns) in front of a yielded attempt -/
def Out.delay (o : Opts) : Out → Int
  | .yieldAfter n u | .chTimer n u => retryIn o n u
  | _ => 0

/-! ## `WithMaxAttempts`

`env` lists, per loop iteration, how the `select` of that `Next` is resolved and whether `fn`
succeeds.  The list is a finite prefix of the environment: `result = none` means the loop is still
running when the prefix ends. -/

structure WmaRes where
  calls : Nat                -- number of calls of `fn`
  succeeded : Bool           -- some call returned nil
  result : Option Bool       -- `some true`: returned nil; `some false`: returned an error; `none`: still looping
deriving Repr, DecidableEq

/-- the loop as repaired (fix: 00a346b, 2a10cc6): `for …; calls < n && r.Next(); calls++`, and a
loop left without any call returns a non-nil error whether or not the context is cancelled. -/
def wmaLoop (o : Opts) (n : Int) (s : St) (calls : Nat) : List (Wait × Bool) → WmaRes
  | [] => { calls := calls, succeeded := false, result := none }
  | (w, ok) :: env =>
    if (calls : Int) < n ∧ (next o s w).2.isYield = true then
      if ok then { calls := calls + 1, succeeded := true, result := some true }
      else wmaLoop o n (next o s w).1 (calls + 1) env
    else
      -- loop left: `err` is the last error, or "did not run function" when there was no call
      { calls := calls, succeeded := false, result := some false }

/-- `WithMaxAttempts(ctx, opts, n, fn)`; `closed`/`cancelled`: closer / context fired before the call. -/
def withMaxAttempts (o : Opts) (n : Int) (closed cancelled : Bool) (env : List (Wait × Bool)) : WmaRes :=
  if n ≤ 0 then { calls := 0, succeeded := false, result := some false }
  else wmaLoop { o with maxRetries := n - 1 } n (start closed cancelled) 0 env

/-- the loop as the pinned commit had it: only `Next` bounds it (`MaxRetries = n − 1`, and 0 means
unbounded), and with no call at all the result is `errors.Wrap(ctx.Err(), …)`, nil for a live context. -/
def wmaLoopOld (o : Opts) (s : St) (calls : Nat) : List (Wait × Bool) → WmaRes
  | [] => { calls := calls, succeeded := false, result := none }
  | (w, ok) :: env =>
    if (next o s w).2.isYield then
      if ok then { calls := calls + 1, succeeded := true, result := some true }
      else wmaLoopOld o (next o s w).1 (calls + 1) env
    else
      { calls := calls, succeeded := false,
        result := some (calls == 0 && !(next o s w).1.cancelled) }

def withMaxAttemptsOld (o : Opts) (n : Int) (closed cancelled : Bool) (env : List (Wait × Bool)) : WmaRes :=
  if n ≤ 0 then { calls := 0, succeeded := false, result := some false }
  else wmaLoopOld { o with maxRetries := n - 1 } (start closed cancelled) 0 env

/-- the property's clause on `WithMaxAttempts(n)`, on what a caller observes: number of calls of
`fn`, whether nil was returned, whether some call of `fn` returned nil.  `stoppedBefore`: the
closer / context had fired before the call — then "at least once" and "stop when told" pull in
opposite directions and not calling `fn` is accepted (but nil must still mean success). -/
def wmaSpec (n : Int) (stoppedBefore : Bool) (calls : Nat) (isNil succeeded : Bool) : Bool :=
  (decide (1 ≤ calls) || stoppedBefore) && decide ((calls : Int) ≤ n) && (isNil == succeeded)

/-! ## The property as a monitor over observed events (the oracle)

Events are what a caller can see: an attempt was yielded `gap` ns after it was asked for, no
attempt was yielded, `Reset` was called, the closer / context fired.  `k` counts the attempts
yielded since the start or the last Reset that took effect. -/

inductive Ev
  | yield (gap : Int)
  | noYield
  | reset
  | stop
deriving Repr, DecidableEq

inductive Clause
  | afterStop      -- an attempt was yielded although the closer / context had fired
  | tooMany        -- more than MaxRetries+1 attempts
  | early          -- attempt n+1 earlier than the lower edge of its band
  | firstMissing   -- the first attempt (after start / Reset) was not yielded
  | prematureEnd   -- the loop ended although attempts remain and nobody told it to stop
deriving Repr, DecidableEq

structure Mon where
  k : Nat := 0
  stopped : Bool := false
  fresh : Bool := true       -- an immediate attempt is due (start or effective Reset)
  first : Bool := true       -- no attempt has been yielded yet since the start
deriving Repr, DecidableEq

def Mon.init (stoppedAtStart : Bool) : Mon :=
  { k := 0, stopped := stoppedAtStart, fresh := !stoppedAtStart, first := true }

/-- lower bound (ns) demanded for the wait in front of attempt `k` (counted from 0) with relative
slack `slack` (0 in the theorems; the float tolerance when applied to measured gaps) -/
def lowerNs (o : Opts) (slack : Rat) (k : Nat) : Int := (bandLo o (k - 1) * (1 - slack)).floor

/-- The very first attempt of a loop is accepted even after a stop ("yields its first attempt
immediately" against "stops when told": the statement decides neither way, the code yields it when
the stop comes after `Start` and does not when it comes before).
`lenient`: also tolerate the one immediate attempt that a Reset issued before the stop still yields. -/
def monBad (o : Opts) (slack : Rat) (lenient : Bool) (m : Mon) : Ev → Option Clause
  | .yield gap =>
    if m.stopped && !m.first && !(lenient && m.fresh) then some .afterStop
    else if 0 < o.maxRetries ∧ o.maxRetries + 1 ≤ (m.k : Int) then some .tooMany
    else if !m.fresh && gap < lowerNs o slack m.k then some .early
    else none
  | .noYield =>
    if m.stopped then none
    else if m.fresh then some .firstMissing
    else if 0 < o.maxRetries ∧ o.maxRetries + 1 ≤ (m.k : Int) then none
    else some .prematureEnd
  | .reset => none
  | .stop => none

def monStep (m : Mon) : Ev → Mon
  | .yield _ => { m with k := m.k + 1, fresh := false, first := false }
  | .noYield => m
  | .reset => if m.stopped then m else { m with k := 0, fresh := true }
  | .stop => { m with stopped := true }

/-- first violated clause with the index of the offending event -/
def monRun (o : Opts) (slack : Rat) (lenient : Bool) (m : Mon) (i : Nat) : List Ev → Option (Nat × Clause)
  | [] => none
  | e :: es =>
    match monBad o slack lenient m e with
    | some c => some (i, c)
    | none => monRun o slack lenient (monStep m e) (i + 1) es

/-- the events of one model step -/
def evsOf (o : Opts) (s : St) (op : Op) : List Ev :=
  match op with
  | .reset => [.reset]
  | .close => [.stop]
  | .cancel => [.stop]
  | .nextCh u =>
    match (nextCh o s u).2 with
    | .chNil => [.noYield]
    | out => [.yield (out.delay o)]
  | .next w =>
    match (next o s w).2 with
    | .yieldNow => [.yield 0]
    | .yieldAfter n u => [.yield (retryIn o n u)]
    | .done => [.noYield]
    | _ =>
      -- halted: by a stop that had fired before, or by one that fires during this wait
      if s.stopped then [.noYield] else [.stop, .noYield]

def trace (o : Opts) (s : St) : List Op → List Ev
  | [] => []
  | op :: ops => evsOf o s op ++ trace o (step o s op).1 ops

end Shk.Retry
