import ShkModel.Model.Audition
/-!
# C08 — from spotlight lines to data points (`pkg/cmd/spotlight.go` detectSignals)

Signal patterns are restricted to the record family
`^(?P<ts_now>)<name>=(?P<kind>\S+)$` and `^(?P<ts_K>) <name>=(?P<kind>\S+)$`
(K = deltasecs, rfc3339, log) — the shape of all shipped examples — where the record is the
whole line (`pos = 0`), the part of the line before its first ` | ` (`pos = 1`, pattern
`^R(?: \| .*)?$`) or the part after its last ` | ` (`pos = 2`, pattern `^.* \| R$`): one line
may so carry two records with their own dates.  Matching itself is re-implemented here for
that family (Go's `regexp` is trusted for the rest).
Core only.
-/
namespace Shk.Spot
open Shk Shk.Aud

inductive TsKind | now | deltasecs | rfc3339 | log
deriving DecidableEq, Repr

structure SigDef where
  name : String
  /-- the literal text before `=` in the pattern (several signals may share it) -/
  tag : String
  typ : Typ
  ts : TsKind
  /-- which record of the line the pattern describes: 0 whole line, 1 first, 2 last; 3 = an unanchored
  pattern that matches a part of the line -/
  pos : Nat := 0
deriving Repr

def isDig (c : Char) : Bool := '0' ≤ c && c ≤ '9'
/-- complement of Go's `\S` -/
def isSp (c : Char) : Bool := c == ' ' || c == '\t' || c == '\n' || c == '\x0c' || c == '\r'
def digVal (c : Char) : Nat := c.toNat - '0'.toNat
def natOf (ds : List Char) : Nat := ds.foldl (fun n c => n * 10 + digVal c) 0

def pow10 (n : Nat) : Rat := ((10 ^ n : Nat) : Rat)

/-- unsigned decimal mantissa `digits [. digits]` or `. digits` (at least one digit) -/
def parseMantissa (cs : List Char) : Option Rat :=
  let ip := cs.takeWhile isDig
  let rest := cs.dropWhile isDig
  match rest with
  | [] => if ip.isEmpty then none else some (natOf ip : Nat)
  | '.' :: fr =>
    if fr.all isDig && !(ip.isEmpty && fr.isEmpty) then
      some ((natOf ip : Nat) + (natOf fr : Nat) / pow10 fr.length)
    else none
  | _ => none

/-- `strconv.ParseFloat` fails with a range error when the number rounds to ±Inf: from `MaxFloat64` plus half a unit in
the last place on, i.e. 2^1024 − 2^970 (the line is then dropped like a malformed one) -/
def overflows (q : Rat) : Bool := decide ((2 : Rat) ^ 1024 - (2 : Rat) ^ 970 ≤ (if q < 0 then -q else q))

def inRange (q : Rat) : Option Rat := if overflows q then none else some q

/-- the decimal subset of `strconv.ParseFloat`: sign, mantissa, optional exponent — the exact value written -/
def parseFloatRaw (cs : List Char) : Option Rat :=
  let (neg, body) := match cs with
    | '-' :: r => (true, r)
    | '+' :: r => (false, r)
    | r => (false, r)
  let mant := body.takeWhile fun c => c != 'e' && c != 'E'
  let ex := body.dropWhile fun c => c != 'e' && c != 'E'
  match parseMantissa mant with
  | none => none
  | some m =>
    let signed : Rat := if neg then -m else m
    match ex with
    | [] => some signed
    | _ :: e =>
      let (eneg, ed) := match e with
        | '-' :: r => (true, r)
        | '+' :: r => (false, r)
        | r => (false, r)
      if ed.isEmpty || !ed.all isDig then none
      else if eneg then some (signed / pow10 (natOf ed)) else some (signed * pow10 (natOf ed))

/-- `strconv.ParseFloat`: the value written, unless it is beyond the range of float64 (range error) -/
def parseFloat (cs : List Char) : Option Rat := (parseFloatRaw cs).bind inRange

/-- `(?:\d+(?:\.\d+)?|\.\d+)` -/
def isDeltaSecs (cs : List Char) : Bool :=
  let ip := cs.takeWhile isDig
  match cs.dropWhile isDig with
  | [] => !ip.isEmpty
  | '.' :: fr => !fr.isEmpty && fr.all isDig
  | _ => false

def isLeap (y : Nat) : Bool := (y % 4 == 0 && y % 100 != 0) || y % 400 == 0
def daysIn (y m : Nat) : Nat :=
  if m == 2 then (if isLeap y then 29 else 28)
  else if m == 4 || m == 6 || m == 9 || m == 11 then 30 else 31

/-- days since 1970-01-01 of a proleptic Gregorian date (Hinnant's algorithm) -/
def daysFromCivil (y m d : Nat) : Int :=
  let y' : Int := if m ≤ 2 then (y : Int) - 1 else y
  let era : Int := (if y' ≥ 0 then y' else y' - 399) / 400
  let yoe : Int := y' - era * 400
  let mp : Int := ((m : Int) + 9) % 12
  let doy : Int := (153 * mp + 2) / 5 + (d : Int) - 1
  let doe : Int := yoe * 365 + yoe / 4 - yoe / 100 + doy
  era * 146097 + doe - 719468

/-- Unix seconds of a broken-down UTC time, `none` when `time.Parse` rejects a field -/
def unixOf (y mo d h mi s : Nat) (frac : Rat) : Option Rat :=
  if mo < 1 || mo > 12 || d < 1 || d > daysIn y mo || h ≥ 24 || mi ≥ 60 || s ≥ 60 then none
  else some ((daysFromCivil y mo d * 86400 + (h * 3600 + mi * 60 + s : Nat) : Int) + frac)

def fracOf (ds : List Char) : Rat := (natOf ds : Nat) / pow10 ds.length

/-- shape `\d\d\d\d-\d\d-\d\dT\d\d:\d\d:\d\d(?:\.\d+)?Z`: `none` = the pattern does not match;
`some none` = it matches but `time.Parse(RFC3339Nano)` fails; `some (some t)` = Unix seconds. -/
def parseRfc3339 (cs : List Char) : Option (Option Rat) :=
  match cs with
  | y1 :: y2 :: y3 :: y4 :: '-' :: m1 :: m2 :: '-' :: d1 :: d2 :: 'T' :: h1 :: h2 :: ':' ::
      i1 :: i2 :: ':' :: s1 :: s2 :: rest =>
    if [y1, y2, y3, y4, m1, m2, d1, d2, h1, h2, i1, i2, s1, s2].all isDig then
      let fin := fun (frac : List Char) =>
        unixOf (natOf [y1, y2, y3, y4]) (natOf [m1, m2]) (natOf [d1, d2]) (natOf [h1, h2])
          (natOf [i1, i2]) (natOf [s1, s2]) (fracOf frac)
      match rest with
      | ['Z'] => some (fin [])
      | '.' :: fr =>
        match fr.reverse with
        | 'Z' :: rd => if !rd.isEmpty && rd.all isDig then some (fin rd.reverse) else none
        | _ => none
      | _ => none
    else none
  | _ => none

/-- shape `\d{6} \d\d:\d\d:\d\d\.\d{6}` with layout `060102 15:04:05.999999` -/
def parseLogTs (cs : List Char) : Option (Option Rat) :=
  match cs with
  | [y1, y2, m1, m2, d1, d2, ' ', h1, h2, ':', i1, i2, ':', s1, s2, '.', f1, f2, f3, f4, f5, f6] =>
    if [y1, y2, m1, m2, d1, d2, h1, h2, i1, i2, s1, s2, f1, f2, f3, f4, f5, f6].all isDig then
      let yy := natOf [y1, y2]
      some (unixOf (if yy ≥ 69 then 1900 + yy else 2000 + yy) (natOf [m1, m2]) (natOf [d1, d2])
        (natOf [h1, h2]) (natOf [i1, i2]) (natOf [s1, s2]) (fracOf [f1, f2, f3, f4, f5, f6]))
    else none
  | _ => none

/-- `<name>=<value>` with a non-empty value free of white space, up to the end of the line -/
def matchTagged (name : String) (cs : List Char) : Option (List Char) :=
  let pre := name.toList ++ ['=']
  if cs.take pre.length == pre then
    let v := cs.drop pre.length
    if !v.isEmpty && v.all (fun c => !isSp c) then some v else none
  else none

/-- time stamp of a point -/
inductive Stamp
  | now                 -- reception time
  | at (elapsed : Rat)  -- seconds since the play started
deriving DecidableEq, Repr

/-- does the signal's pattern match the line? `none` = no.  `some (st, v)`: `st = none` when the
captured time stamp is rejected by the parser (malformed date); `v` = the captured text. -/
def matchRec (epoch : Rat) (sd : SigDef) (line : List Char) : Option (Option Stamp × List Char) :=
  match sd.ts with
  | .now => (matchTagged sd.tag line).map fun v => (some .now, v)
  | .deltasecs =>
    let tsT := line.takeWhile (· != ' ')
    match line.dropWhile (· != ' ') with
    | ' ' :: rest =>
      if isDeltaSecs tsT then
        (matchTagged sd.tag rest).map fun v => ((parseFloat tsT).map Stamp.at, v)
      else none
    | _ => none
  | .rfc3339 =>
    let tsT := line.takeWhile (· != ' ')
    match line.dropWhile (· != ' ') with
    | ' ' :: rest =>
      match parseRfc3339 tsT with
      | some r => (matchTagged sd.tag rest).map fun v => (r.map fun u => Stamp.at (u - epoch), v)
      | none => none
    | _ => none
  | .log =>
    match parseLogTs (line.take 22), line.drop 22 with
    | some r, ' ' :: rest => (matchTagged sd.tag rest).map fun v => (r.map fun u => Stamp.at (u - epoch), v)
    | _, _ => none

/-- the part of the line before its first ` | ` (the whole line without one) -/
def firstRec : List Char → List Char
  | [] => []
  | c :: cs => if (c :: cs).take 3 == [' ', '|', ' '] then [] else c :: firstRec cs

/-- the part of the line after its last ` | `, if there is one -/
def lastRec : List Char → Option (List Char)
  | [] => none
  | c :: cs =>
    match lastRec cs with
    | some r => some r
    | none => if (c :: cs).take 3 == [' ', '|', ' '] then some (cs.drop 2) else none

/-- the record of the line a pattern of position `pos` describes -/
def recordOf (pos : Nat) (line : List Char) : Option (List Char) :=
  match pos with
  | 0 => some line
  | 1 => some (firstRec line)
  | _ => lastRec line

/-! ### patterns that match only a part of the line (`pos = 3`)

`(?P<ts_now>)<tag>=(?P<scalar>[0-9]+)` (`delta` alike) and `(?P<ts_now>)<tag>=(?P<event>[a-z]+)`,
unanchored: Go's leftmost-first search finds the first place where `<tag>=` is followed by at least
one character of the class, and the group captures the longest run of the class there.  What the
signal yields is the CAPTURED text (not the line with the match substituted). -/

def isLow (c : Char) : Bool := 'a' ≤ c && c ≤ 'z'

def valClass : Typ → Char → Bool
  | .event => isLow
  | _ => isDig

def findTagged (pre : List Char) (isVal : Char → Bool) : List Char → Option (List Char)
  | [] => none
  | c :: cs =>
    if (c :: cs).take pre.length == pre && (((c :: cs).drop pre.length).head?.map isVal).getD false then
      some (((c :: cs).drop pre.length).takeWhile isVal)
    else findTagged pre isVal cs

def matchFree (sd : SigDef) (line : List Char) : Option (Option Stamp × List Char) :=
  (findTagged (sd.tag.toList ++ ['=']) (valClass sd.typ) line).map fun v => (some Stamp.now, v)

def matchSig (epoch : Rat) (sd : SigDef) (line : List Char) : Option (Option Stamp × List Char) :=
  if sd.pos = 3 then matchFree sd line
  else (recordOf sd.pos line).bind (matchRec epoch sd)

/-! ## Specification: the data points a sequence of lines denotes (oracle and theorem RHS) -/

structure Point where
  stamp : Stamp
  val : Sc
deriving Repr, DecidableEq

/-- the point one line yields for one signal given the previous raw sample (for deltas):
`(new last raw, point?)` -/
def sampleOf (epoch : Rat) (sd : SigDef) (last : Rat) (line : List Char) : Rat × Option Point :=
  match matchSig epoch sd line with
  | none => (last, none)
  | some (none, _) => (last, none)                  -- malformed date: the point is dropped
  | some (some st, v) =>
    match sd.typ with
    | .event => (last, some ⟨st, .str (String.ofList v)⟩)
    | .scalar =>
      match parseFloat v with
      | some x => (last, some ⟨st, .num x⟩)
      | none => (last, none)                        -- malformed number: dropped
    | .delta =>
      match parseFloat v with
      | some x => (x, some ⟨st, .num (x - last)⟩)
      | none => (last, none)

/-- **the denotation**: lines ↦ points of one signal of one actor, in order, one per matching
parsable line. -/
def pointsOf (epoch : Rat) (sd : SigDef) : Rat → List (List Char) → List Point
  | _, [] => []
  | last, l :: ls =>
    match sampleOf epoch sd last l with
    | (last', some p) => p :: pointsOf epoch sd last' ls
    | (last', none) => pointsOf epoch sd last' ls

/-! ## Model of `detectSignals` -/

structure Emitted where
  stamp : Stamp
  samples : List Sample
deriving Repr

abbrev Lasts := List ((String × String) × Rat)

def Lasts.get (l : Lasts) (k : String × String) : Rat := (l.lookup k).getD 0
def Lasts.set (l : Lasts) (k : String × String) (v : Rat) : Lasts := (k, v) :: l.filter (·.1 != k)

def stampLe : Stamp → Stamp → Bool
  | .at a, .at b => a ≤ b
  | .at _, .now => true
  | .now, .now => true
  | .now, .at _ => false

def insertEv (e : Emitted) : List Emitted → List Emitted
  | [] => [e]
  | x :: xs => if stampLe x.stamp e.stamp then x :: insertEv e xs else e :: x :: xs

/-- add a value to the event of its time stamp, creating it if needed (map `evs` + `tss`) -/
def addTo (st : Stamp) (s : Option Sample) (evs : List Emitted) : List Emitted :=
  if evs.any (·.stamp == st) then
    evs.map fun e => if e.stamp == st then { e with samples := e.samples ++ s.toList } else e
  else evs ++ [⟨st, s.toList⟩]

/-- one call of `detectSignals`: every signal of the role that has a sink, in declaration
order; events sorted by time stamp. -/
def detectLine (epoch : Rat) (sigs : List SigDef) (hasSink : String → Bool) (actor : String)
    (lasts : Lasts) (line : List Char) : Lasts × List Emitted :=
  let r := sigs.foldl (fun (acc : Lasts × List Emitted) sd =>
    if !hasSink sd.name then acc else
    match matchSig epoch sd line with
    | none => acc
    | some (none, _) => acc
    | some (some st, v) =>
      match sd.typ with
      | .event => (acc.1, addTo st (some ⟨.event, ⟨actor, sd.name⟩, .sc (.str (String.ofList v))⟩) acc.2)
      | .scalar =>
        match parseFloat v with
        | some x => (acc.1, addTo st (some ⟨.scalar, ⟨actor, sd.name⟩, .sc (.num x)⟩) acc.2)
        | none => acc      -- dropped entirely (before e3e8ea0 an event without values was still registered)
      | .delta =>
        match parseFloat v with
        | some x => (acc.1.set (actor, sd.name) x,
                     addTo st (some ⟨.delta, ⟨actor, sd.name⟩, .sc (.num (x - acc.1.get (actor, sd.name)))⟩) acc.2)
        | none => acc) (lasts, [])
  (r.1, r.2.foldr insertEv [])

end Shk.Spot
