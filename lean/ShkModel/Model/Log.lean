/-!
# C16 — `pkg/crdb/log`: entry format / decode, file rotation, garbage collection

Texts are lists of code points (`List Char`).  An entry carries its time as broken-down UTC
fields; the conversion between Unix nanoseconds and broken-down time is Go's `time` package
(trusted, done by the harness).  Core only.
-/
namespace Shk.Log

/-! ## Digits (`twoDigits`, `nDigits`, `someDigits`, `\d`) -/

def digitChar (d : Nat) : Char := Char.ofNat (48 + d)
def isDigit (c : Char) : Bool := 48 ≤ c.toNat && c.toNat ≤ 57
def digitVal (c : Char) : Nat := c.toNat - 48

/-- `someDigits`: variable width, at least one digit, most significant first (the first
argument bounds the recursion; `n` itself is always enough). -/
def toDecF : Nat → Nat → List Char
  | 0, n => [digitChar (n % 10)]
  | f+1, n => if n < 10 then [digitChar n] else toDecF f (n / 10) ++ [digitChar (n % 10)]

def toDec (n : Nat) : List Char := toDecF n n

/-- `twoDigits` / `nDigits 6 … '0'`: fixed width `w`, zero padded, the value taken mod `10^w`. -/
def toFixed : Nat → Nat → List Char
  | 0, _ => []
  | w+1, n => toFixed w (n / 10) ++ [digitChar (n % 10)]

/-- value of a digit string (`strconv.Atoi` without the range check) -/
def digitsVal (acc : Nat) : List Char → Nat
  | [] => acc
  | c :: l => digitsVal (acc * 10 + digitVal c) l

/-- exactly `w` digits: `\d{w}` -/
def parseFixed : Nat → Nat → List Char → Option (Nat × List Char)
  | 0, acc, l => some (acc, l)
  | w+1, acc, c :: l => if isDigit c then parseFixed w (acc * 10 + digitVal c) l else none
  | _+1, _, [] => none

/-! ## Entries and `formatHeader` / `formatLogEntry` (nil colour profile) -/

structure Entry where
  sev : Int                 -- `Severity` (int32)
  year : Nat
  month : Nat
  day : Nat
  hour : Nat
  minute : Nat
  second : Nat
  micro : Nat               -- `Nanosecond()/1000`
  gid : Int                 -- `int(entry.Goroutine)`
  file : List Char
  line : Int
  msg : List Char
deriving Repr, DecidableEq

/-- `if s > Severity_FATAL || s <= Severity_UNKNOWN { s = Severity_INFO }`, then `"IWEF"[s-1]` -/
def sevChar (s : Int) : Char :=
  if s = 2 then 'W' else if s = 3 then 'E' else if s = 4 then 'F' else 'I'

/-- `yymmdd hh:mm:ss.uuuuuu`; years before 2000 are printed as 00 (`if year < 2000 { year = 2000 }`,
here by truncated subtraction), `twoDigits` keeps the last two digits. -/
def fmtTime (e : Entry) : List Char :=
  toFixed 2 (e.year - 2000) ++ (toFixed 2 e.month ++ (toFixed 2 e.day ++ (' ' ::
  (toFixed 2 e.hour ++ (':' :: (toFixed 2 e.minute ++ (':' :: (toFixed 2 e.second ++ ('.' ::
  toFixed 6 e.micro)))))))))

/-- goroutine id (only when positive), file, `:`, line (negative lines are printed as 0) -/
def fmtLoc (e : Entry) : List Char :=
  (if e.gid > 0 then toDec e.gid.toNat ++ [' '] else []) ++ (e.file ++ (':' :: toDec e.line.toNat))

/-- the part of a formatted entry that `entryRE` matches -/
def fmtPre (e : Entry) : List Char := sevChar e.sev :: (fmtTime e ++ (' ' :: fmtLoc e))

/-- `formatLogEntry`: header, two blanks, message, and a newline unless the message ends in one. -/
def format (e : Entry) : List Char :=
  fmtPre e ++ (' ' :: ' ' :: (e.msg ++ (if e.msg.getLast? = some '\n' then [] else ['\n'])))

/-! ## `entryRE`, written out as a parser

`(?m)^([IWEF])(\d{6} \d{2}:\d{2}:\d{2}.\d{6}) (?:(\d+) )?([^:]+):(\d+)` with leftmost-first
semantics.  The only real choice point is the optional goroutine group (tried first; if the
remainder then fails, the match is retried without it).  `.` is any code point except newline;
`[^:]` includes newline. -/

def sevOf : List Char → Option (Int × List Char)
  | c :: l => if c = 'I' then some (1, l) else if c = 'W' then some (2, l)
              else if c = 'E' then some (3, l) else if c = 'F' then some (4, l) else none
  | [] => none

def lit (c : Char) : List Char → Option (List Char)
  | d :: l => if d = c then some l else none
  | [] => none

/-- `.` -/
def anyNotNL : List Char → Option (Char × List Char)
  | d :: l => if d = '\n' then none else some (d, l)
  | [] => none

/-- the raw time fields of a header: yy mm dd hh mi ss, the separator, uuuuuu -/
structure RawTime where
  yy : Nat
  mo : Nat
  dd : Nat
  hh : Nat
  mi : Nat
  ss : Nat
  sep : Char
  us : Nat
deriving Repr, DecidableEq

def matchTime (l0 : List Char) : Option (RawTime × List Char) :=
  match parseFixed 2 0 l0 with
  | none => none
  | some (yy, l1) =>
  match parseFixed 2 0 l1 with
  | none => none
  | some (mo, l2) =>
  match parseFixed 2 0 l2 with
  | none => none
  | some (dd, l3) =>
  match lit ' ' l3 with
  | none => none
  | some l4 =>
  match parseFixed 2 0 l4 with
  | none => none
  | some (hh, l5) =>
  match lit ':' l5 with
  | none => none
  | some l6 =>
  match parseFixed 2 0 l6 with
  | none => none
  | some (mi, l7) =>
  match lit ':' l7 with
  | none => none
  | some l8 =>
  match parseFixed 2 0 l8 with
  | none => none
  | some (ss, l9) =>
  match anyNotNL l9 with
  | none => none
  | some (sep, l10) =>
  match parseFixed 6 0 l10 with
  | none => none
  | some (us, l11) => some (⟨yy, mo, dd, hh, mi, ss, sep, us⟩, l11)

/-- `([^:]+):(\d+)`: file, line digits, rest -/
def fileLine (l : List Char) : Option (List Char × List Char × List Char) :=
  match l.span (fun c => c != ':') with
  | ([], _) => none
  | (f, ':' :: r) =>
    match r.span isDigit with
    | ([], _) => none
    | (ds, r') => some (f, ds, r')
  | _ => none

/-- `(?:(\d+) )?([^:]+):(\d+)`: optional goroutine digits, file, line digits, rest -/
def gidFileLine (l : List Char) : Option (List Char × List Char × List Char × List Char) :=
  match l.span isDigit with
  | (g :: gs, ' ' :: r) =>
    match fileLine r with
    | some (f, ds, r') => some (g :: gs, f, ds, r')
    | none => match fileLine l with
      | some (f, ds, r') => some ([], f, ds, r')
      | none => none
  | _ => match fileLine l with
    | some (f, ds, r') => some ([], f, ds, r')
    | none => none

structure Hdr where
  sev : Int
  tm : RawTime
  gidDigits : List Char     -- `[]` when the group did not take part
  file : List Char
  lineDigits : List Char
deriving Repr, DecidableEq

/-- a match of `entryRE` anchored at the head of the text; returns the groups and the text after
the match -/
def matchHdr (l : List Char) : Option (Hdr × List Char) :=
  match sevOf l with
  | none => none
  | some (sv, l1) =>
  match matchTime l1 with
  | none => none
  | some (tm, l2) =>
  match lit ' ' l2 with
  | none => none
  | some l3 =>
  match gidFileLine l3 with
  | none => none
  | some (g, f, ds, r) => some (⟨sv, tm, g, f, ds⟩, r)

/-- leftmost position (counted from `i`) at which `entryRE` matches: `^` holds at the very
beginning of the searched text and after every newline. -/
def findFrom (i : Nat) (lineStart : Bool) : List Char → Option Nat
  | [] => none
  | c :: l =>
    if lineStart && (matchHdr (c :: l)).isSome then some i
    else findFrom (i + 1) (c == '\n') l

/-! ## `EntryDecoder.Decode` on one token -/

def isLeap (y : Nat) : Bool := y % 4 == 0 && (y % 100 != 0 || y % 400 == 0)

def daysIn (m y : Nat) : Nat :=
  if m == 2 then (if isLeap y then 29 else 28)
  else if m == 4 || m == 6 || m == 9 || m == 11 then 30 else 31

/-- `time.Parse("060102 15:04:05.999999", …)`: two-digit years 69–99 are 19yy, 00–68 are 20yy;
fields out of range, or a separator other than `.` / `,`, are an error. -/
def timeOk (t : RawTime) : Bool :=
  1 ≤ t.mo && t.mo ≤ 12 && 1 ≤ t.dd && t.dd ≤ daysIn t.mo (if t.yy ≥ 69 then 1900 + t.yy else 2000 + t.yy)
  && t.hh < 24 && t.mi < 60 && t.ss < 60 && (t.sep == '.' || t.sep == ',')

/-- `unicode.IsSpace` -/
def isSpace (c : Char) : Bool :=
  c == ' ' || (9 ≤ c.toNat && c.toNat ≤ 13) || c.toNat == 0x85 || c.toNat == 0xA0 ||
  c.toNat == 0x1680 || (0x2000 ≤ c.toNat && c.toNat ≤ 0x200a) || c.toNat == 0x2028 ||
  c.toNat == 0x2029 || c.toNat == 0x202f || c.toNat == 0x205f || c.toNat == 0x3000

/-- `strings.TrimSpace` -/
def trim (l : List Char) : List Char :=
  ((l.dropWhile isSpace).reverse.dropWhile isSpace).reverse

def maxInt64 : Nat := 9223372036854775807

inductive TokRes
  | skip                    -- no header in the token: `continue`
  | err                     -- `time.Parse` / `strconv.Atoi` failed: Decode returns the error
  | entry (e : Entry)
deriving Repr, DecidableEq

def decodeToken (tok : List Char) : TokRes :=
  match findFrom 0 true tok with
  | none => .skip
  | some i =>
    match matchHdr (tok.drop i) with
    | none => .skip
    | some (h, rest) =>
      if !timeOk h.tm then .err
      else if digitsVal 0 h.gidDigits > maxInt64 then .err
      else if digitsVal 0 h.lineDigits > maxInt64 then .err
      else .entry {
        sev := h.sev
        year := if h.tm.yy ≥ 69 then 1900 + h.tm.yy else 2000 + h.tm.yy
        month := h.tm.mo, day := h.tm.dd, hour := h.tm.hh, minute := h.tm.mi, second := h.tm.ss
        micro := h.tm.us
        gid := Int.ofNat (digitsVal 0 h.gidDigits)
        file := h.file
        line := Int.ofNat (digitsVal 0 h.lineDigits)
        msg := trim rest }

/-! ## `EntryDecoder.split` under `bufio.Scanner`

`cap` is `bufio.MaxScanTokenSize` (65536).  The split function sees the text through a window of
at most `cap` code units that starts at the current position (the growth of the scanner's
buffer up to that size is abstracted: the search is done once on the full window).  An entry
with no following header inside the window is cut at `cap` and the decoder then skips to the
next header (`truncatedLastEntry`). -/

def tokAux (cap : Nat) : Nat → Bool → List Char → List (List Char)
  | 0, _, _ => []
  | fuel+1, trunc, data =>
    if data.isEmpty then []
    else if trunc then
      match findFrom 0 true (data.take cap) with
      | none => tokAux cap fuel true (data.drop cap)
      | some 0 => tokAux cap fuel false data
      | some (i+1) => tokAux cap fuel false (data.drop (i+1))
    else
      match findFrom 0 true (data.take cap).tail with
      | some i => data.take (i+1) :: tokAux cap fuel false (data.drop (i+1))
      | none =>
        if data.length < cap then [data]
        else data.take cap :: tokAux cap fuel true (data.drop cap)

def tokens (cap : Nat) (data : List Char) : List (List Char) :=
  tokAux cap (2 * data.length + 2) false data

def pushE (e : Entry) (r : List Entry × Bool) : List Entry × Bool := (e :: r.1, r.2)

/-- successive `Decode` calls until EOF (`false`) or the first error (`true`) -/
def decodeToks : List (List Char) → List Entry × Bool
  | [] => ([], false)
  | t :: ts =>
    match decodeToken t with
    | .skip => decodeToks ts
    | .err => ([], true)
    | .entry e => pushE e (decodeToks ts)

def decode (cap : Nat) (data : List Char) : List Entry × Bool := decodeToks (tokens cap data)

/-! ## The domain of the round-trip theorems -/

/-- the file name does not look like `<digits><blank>…` (which `entryRE` would read as a goroutine id) -/
def noGidLook (f : List Char) : Bool :=
  match f.span isDigit with
  | (_ :: _, ' ' :: _) => false
  | _ => true

def fileOk (e : Entry) : Bool :=
  !e.file.isEmpty && !e.file.contains ':' && !e.file.contains '\n' && (e.gid > 0 || noGidLook e.file)

/-- single line, no leading or trailing white space (the decoder trims) -/
def msgOk (m : List Char) : Bool :=
  !m.contains '\n' && (match m.head? with | some c => !isSpace c | none => true) &&
  (match m.getLast? with | some c => !isSpace c | none => true)

def wf (e : Entry) : Bool :=
  1 ≤ e.sev && e.sev ≤ 4 && 2000 ≤ e.year && e.year ≤ 2068 && 1 ≤ e.month && e.month ≤ 12 &&
  1 ≤ e.day && e.day ≤ daysIn e.month e.year && e.hour < 24 && e.minute < 60 && e.second < 60 &&
  e.micro < 1000000 && 0 ≤ e.gid && e.gid ≤ maxInt64 && 0 ≤ e.line && e.line ≤ maxInt64 &&
  fileOk e && msgOk e.msg

/-- every entry together with its successor fits the scanner window -/
def fits (cap : Nat) : List Entry → Bool
  | [] => true
  | [e] => (format e).length ≤ cap
  | e :: e' :: es => (format e).length + (format e').length ≤ cap && fits cap (e' :: es)

/-! ## Rotation (`syncBuffer.Write`, `rotateFile`, `create`)

A log file is a stamp (the time in its name, seconds) and the items written to it, newest item
first; `hdr = true` marks the entries that `rotateFile` writes at the top of each new file.
`size` measures an item (formatted length). -/

structure LItem (α : Type) where
  hdr : Bool
  val : α
deriving Repr, DecidableEq

structure LFile (α : Type) where
  stamp : Nat
  items : List (LItem α)      -- in file order
deriving Repr, DecidableEq

structure Rot (α : Type) where
  files : List (LFile α) := []   -- newest first; the head is the open file
  nbytes : Nat := 0              -- `sb.nbytes`
  last : Nat := 0                -- `sb.lastRotation`
deriving Repr

/-- one `outputLogEntry`: the message, and for each of the two places that can rotate
(`createFile` when no file is open, `syncBuffer.Write` when the threshold is reached) the clock
reading in seconds and the header entries written then. -/
structure Wr (α : Type) where
  msg : α
  now0 : Nat
  hdrs0 : List α
  now1 : Nat
  hdrs1 : List α
deriving Repr

def sizeSum {α : Type} (size : α → Nat) (l : List α) : Nat := (l.map size).sum

/-- `create`: the stamp is the clock, pushed past the previous stamp; then the header entries
are written (`sb.nbytes` restarts from their size). -/
def rotate {α : Type} (size : α → Nat) (s : Rot α) (now : Nat) (hdrs : List α) : Rot α :=
  { files := { stamp := if now ≤ s.last then s.last + 1 else now,
               items := hdrs.map (fun h => ⟨true, h⟩) } :: s.files,
    nbytes := sizeSum size hdrs,
    last := if now ≤ s.last then s.last + 1 else now }

def append {α : Type} (size : α → Nat) (s : Rot α) (m : α) : Rot α :=
  match s.files with
  | [] => s     -- unreachable: a file is always open when something is written
  | f :: fs => { s with files := { f with items := f.items ++ [⟨false, m⟩] } :: fs,
                        nbytes := s.nbytes + size m }

/-- `syncBuffer.Write`: the threshold test comes before the write -/
def sbWrite {α : Type} (size : α → Nat) (max : Nat) (s : Rot α) (w : Wr α) : Rot α :=
  if s.nbytes + size w.msg ≥ max then append size (rotate size s w.now1 w.hdrs1) w.msg
  else append size s w.msg

/-- `outputLogEntry` (file part): `ensureFile`, then `writeToFile` -/
def write {α : Type} (size : α → Nat) (max : Nat) (s : Rot α) (w : Wr α) : Rot α :=
  if s.files.isEmpty then sbWrite size max (rotate size s w.now0 w.hdrs0) w
  else sbWrite size max s w

/-! ## Garbage collection (`gcOldFiles`) -/

/-- sizes newest first; the running sum keeps growing over the files that are removed -/
def gcGo (bound : Nat) : Nat → List Nat → List Bool
  | _, [] => []
  | sum, s :: r => decide (sum + s < bound) :: gcGo bound (sum + s) r

/-- which files survive one GC pass (`true` = kept) -/
def gcKeep (bound : Nat) : List Nat → List Bool
  | [] => []
  | s :: r => true :: gcGo bound s r

def fileSize {α : Type} (size : α → Nat) (f : LFile α) : Nat := sizeSum size (f.items.map (·.val))

def keepBy {β : Type} : List β → List Bool → List β
  | x :: xs, b :: bs => if b then x :: keepBy xs bs else keepBy xs bs
  | _, _ => []

/-- a GC pass over the directory of a logger -/
def gc {α : Type} (size : α → Nat) (bound : Nat) (s : Rot α) : Rot α :=
  { s with files := keepBy s.files (gcKeep bound (s.files.map (fileSize size))) }

inductive Op (α : Type)
  | write (w : Wr α)
  | gc (bound : Nat)

def step {α : Type} (size : α → Nat) (max : Nat) (s : Rot α) : Op α → Rot α
  | .write w => write size max s w
  | .gc b => gc size b s

def run {α : Type} (size : α → Nat) (max : Nat) (s : Rot α) (ops : List (Op α)) : Rot α :=
  ops.foldl (step size max) s

/-- the messages of a file, header entries removed -/
def userMsgs {α : Type} (f : LFile α) : List α := (f.items.filter (fun i => !i.hdr)).map (·.val)

/-- reading the files back in name order (oldest first) -/
def readBack {α : Type} (s : Rot α) : List α := s.files.reverse.flatMap userMsgs

def writesOf {α : Type} : List (Op α) → List α
  | [] => []
  | .write w :: r => w.msg :: writesOf r
  | .gc _ :: r => writesOf r

end Shk.Log
