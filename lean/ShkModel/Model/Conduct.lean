/-!
# C03 / C07 — the conductor's four shutdown stages as a function of the order in which the
components' results become visible to its `select` statements

`conduct` (pkg/cmd/conductor.go) waits for prompter, spotlights, audition and collector in
turn; at each stage it also listens to the components of the later stages.  Which of several
ready channels a `select` picks is up to the Go runtime: the model takes that order as an
input (`List Arrival`, consumed left to right; arrivals on channels the current stage does
not listen to are simply not seen yet), so a statement "for every list" covers every schedule.
`awaitStage` is the repaired rule (commit 3ddb114), `awaitStageOld` the pinned one.  Core only.
-/
namespace Shk.Conduct

inductive Comp | pr | sp | au | col
deriving DecidableEq, Repr

/-- the result of a component becomes visible: `err` = it is a non-nil error -/
structure Arrival where
  comp : Comp
  err : Bool
deriving DecidableEq, Repr

structure StageRes where
  interrupt : Bool          -- the caller cancels everything
  err : Bool                -- a non-nil error was collected
  rest : List Arrival       -- arrivals not consumed yet
  seen : List Comp          -- components whose (only) result was already received: their channel is closed
  blocked : Bool := false   -- nothing arrives any more and the stage's own component never reported
deriving DecidableEq, Repr

/-- the repaired rule: wait for `own`; a later component finishing first *with an error*
interrupts; finishing without error is the natural cascade running ahead and is waited through.
`seen`: components whose result an earlier stage already received — their error channel is
closed, so receiving from it again yields nil at once. -/
def awaitStage (own : Comp) (later : List Comp) (seen : List Comp) : List Arrival → StageRes
  | [] => ⟨false, false, [], seen, !seen.contains own⟩
  | a :: rest =>
    if seen.contains own then ⟨false, false, a :: rest, seen, false⟩
    else if a.comp = own then ⟨false, a.err, rest, own :: seen, false⟩
    else if later.contains a.comp then
      if a.err then ⟨true, true, rest, a.comp :: seen, false⟩ else awaitStage own later (a.comp :: seen) rest
    else
      -- not listened to at this stage: stays pending for a later stage
      let r := awaitStage own later seen rest
      { r with rest := a :: r.rest }

/-- the pinned rule: whatever arrives first decides; a later component means "something went wrong" -/
def awaitStageOld (own : Comp) (later : List Comp) (seen : List Comp) : List Arrival → StageRes
  | [] => ⟨false, false, [], seen, !seen.contains own⟩
  | a :: rest =>
    if seen.contains own then ⟨false, false, a :: rest, seen, false⟩
    else if a.comp = own then ⟨false, a.err, rest, own :: seen, false⟩
    else if later.contains a.comp then ⟨true, a.err, rest, a.comp :: seen, false⟩
    else
      let r := awaitStageOld own later seen rest
      { r with rest := a :: r.rest }

structure Outcome where
  /-- the collector was cancelled by the conductor (colDone() in an interrupt block) before the
  conductor had seen the collector's own result -/
  cancelledCollector : Bool
  err : Bool
  /-- a stage waited for a component that never reported (cannot happen under assumption A) -/
  blocked : Bool := false
deriving DecidableEq, Repr

/-- the stages in order; the first interrupt cancels everything that is left, collector included -/
def conductWith (stage : Comp → List Comp → List Comp → List Arrival → StageRes) (arrs : List Arrival) : Outcome :=
  let s1 := stage .pr [.sp, .au, .col] [] arrs
  if s1.blocked then ⟨false, s1.err, true⟩ else
  if s1.interrupt then ⟨true, s1.err, false⟩ else
  let s2 := stage .sp [.au, .col] s1.seen s1.rest
  if s2.blocked then ⟨false, s1.err || s2.err, true⟩ else
  if s2.interrupt then ⟨true, s1.err || s2.err, false⟩ else
  let s3 := stage .au [.col] s2.seen s2.rest
  if s3.blocked then ⟨false, s1.err || s2.err || s3.err, true⟩ else
  if s3.interrupt then ⟨true, s1.err || s2.err || s3.err, false⟩ else
  let s4 := stage .col [] s3.seen s3.rest
  ⟨false, s1.err || s2.err || s3.err || s4.err, s4.blocked⟩

def conduct := conductWith awaitStage
def conductOld := conductWith awaitStageOld

/-- every component reports exactly once (its error channel carries one value) -/
def complete (arrs : List Arrival) : Bool :=
  [Comp.pr, .sp, .au, .col].all fun c => (arrs.filter (·.comp == c)).length == 1

/-- all ways to insert `x` into a list -/
def inserts {α} (x : α) : List α → List (List α)
  | [] => [[x]]
  | y :: ys => (x :: y :: ys) :: (inserts x ys).map (y :: ·)

def perms {α} : List α → List (List α)
  | [] => [[]]
  | x :: xs => (perms xs).flatMap (inserts x)

/-- every order in which the four components' results can become visible, with every
combination of nil / non-nil errors: 4! × 2⁴ = 384 schedules -/
def schedules : List (List Arrival) :=
  (perms [Comp.pr, .sp, .au, .col]).flatMap fun order =>
    [true, false].flatMap fun e1 => [true, false].flatMap fun e2 => [true, false].flatMap fun e3 =>
      [true, false].map fun e4 =>
        (order.zip [e1, e2, e3, e4]).map fun p => ⟨p.1, p.2⟩

end Shk.Conduct
