/-!
# C03 / C07 — the conductor's four shutdown stages as a function of the order in which the
components' results become visible to its `select` statements

`conduct` (pkg/cmd/conductor.go) waits for prompter, spotlights, audition and collector in
turn; at each stage it also listens to the components of the later stages.  Which of several
ready channels a `select` picks is up to the Go runtime: the model takes that order as an
input (`List Arrival`, consumed left to right; arrivals on channels the current stage does
not listen to are simply not seen yet), so a statement "for every list" covers every schedule.
`awaitStage` is the repaired rule (commit 3ddb114), `awaitStageOld` the pinned one.  Core only.
-/
namespace Shk.Conduct

inductive Comp | pr | sp | au | col
deriving DecidableEq, Repr

/-- the result of a component becomes visible: `err` = it is a non-nil error -/
structure Arrival where
  comp : Comp
  err : Bool
deriving DecidableEq, Repr

structure StageRes where
  interrupt : Bool          -- the caller cancels everything
  err : Bool                -- a non-nil error was collected
  rest : List Arrival       -- arrivals not consumed yet
deriving DecidableEq, Repr

/-- the repaired rule: wait for `own`; a later component finishing first *with an error*
interrupts; finishing without error is the natural cascade running ahead and is waited through -/
def awaitStage (own : Comp) (later : List Comp) : List Arrival → StageRes
  | [] => ⟨false, false, []⟩                         -- (blocked: nothing more arrives)
  | a :: rest =>
    if a.comp = own then ⟨false, a.err, rest⟩
    else if later.contains a.comp then
      if a.err then ⟨true, true, rest⟩ else awaitStage own later rest
    else
      -- not listened to at this stage: stays pending for a later stage
      let r := awaitStage own later rest
      { r with rest := a :: r.rest }

/-- the pinned rule: whatever arrives first decides; a later component means "something went wrong" -/
def awaitStageOld (own : Comp) (later : List Comp) : List Arrival → StageRes
  | [] => ⟨false, false, []⟩
  | a :: rest =>
    if a.comp = own then ⟨false, a.err, rest⟩
    else if later.contains a.comp then ⟨true, a.err, rest⟩
    else
      let r := awaitStageOld own later rest
      { r with rest := a :: r.rest }

structure Outcome where
  /-- the collector was cancelled by the conductor (colDone() in an interrupt block) before the
  conductor had seen the collector's own result -/
  cancelledCollector : Bool
  err : Bool
deriving DecidableEq, Repr

/-- the stages in order; the first interrupt cancels everything that is left, collector included -/
def conductWith (stage : Comp → List Comp → List Arrival → StageRes) (arrs : List Arrival) : Outcome :=
  let s1 := stage .pr [.sp, .au, .col] arrs
  if s1.interrupt then ⟨true, s1.err⟩ else
  let s2 := stage .sp [.au, .col] s1.rest
  if s2.interrupt then ⟨true, s1.err || s2.err⟩ else
  let s3 := stage .au [.col] s2.rest
  if s3.interrupt then ⟨true, s1.err || s2.err || s3.err⟩ else
  let s4 := stage .col [] s3.rest
  ⟨false, s1.err || s2.err || s3.err || s4.err⟩

def conduct := conductWith awaitStage
def conductOld := conductWith awaitStageOld

end Shk.Conduct
