import ShkModel.Model.Preproc
/-! Model of the configuration reader of `pkg/cmd/reader.go` (C09, C20), core Lean only.

One call of `readLine` below is one call of `(*subreader).readLine` through `(*reader).readLine`:
it reads one logical line (continuation lines joined), skips blanks and comments, pops a finished
included file, pushes an included file, or hands a clause to the parser.  `run` is the loop of
`parseCfg` / `parseSection` around it; the clause parsers (regexp driven) are NOT modelled: they
are the parameter `Parser.classify`, which accepts a clause (and may change the parser's state,
in particular the parameter table used for include names), rejects it (`pos.wrapErr(err)`) or
aborts without a position (the errors `parseRole` returns undecorated).

The file system is a function from names to entries; a name can be a readable file, a file whose
reading fails after its complete lines, a directory, a name whose `open` fails with something
else than "does not exist", or nothing.  `old = true` selects the behaviour before the repair
(fix-3): a directory is opened like a file and fails at the first read, and the failing read is
not recorded in `lines`.

Bytes are `Nat`s.  A file is given as its complete lines (without the terminating newline) and
the unterminated remainder `tail` (possibly empty): Go's `ReadString('\n')` yields each complete
line, then `tail` together with `io.EOF`, then `""` with `io.EOF` for ever. -/
namespace Shk.Reader
open Shk.Preproc

abbrev Name := Bytes

/-! ### Go's `path/filepath` (Unix): `Clean`, `Join`, `Dir` -/

abbrev slash : Nat := 47
abbrev dot : Nat := 46

/-- split at every `/` -/
def splitSlash : Bytes → List Bytes
  | [] => [[]]
  | c :: rest =>
    if c == slash then [] :: splitSlash rest
    else match splitSlash rest with
      | [] => [[c]]
      | w :: ws => (c :: w) :: ws

/-- component stack of `Clean` (top first); `..` pops a real component, is dropped at the root,
and is kept in front of a relative path. -/
def cleanStep (rooted : Bool) (out : List Bytes) (comp : Bytes) : List Bytes :=
  if comp = [] || comp = [dot] then out
  else if comp = [dot, dot] then
    match out with
    | [] => if rooted then [] else [comp]
    | top :: below => if top = [dot, dot] then comp :: out else below
  else comp :: out

def joinSlash : List Bytes → Bytes
  | [] => []
  | [a] => a
  | a :: rest => a ++ slash :: joinSlash rest

/-- `filepath.Clean` -/
def goClean (p : Bytes) : Bytes :=
  match p with
  | [] => [dot]
  | c :: _ =>
    if c == slash then slash :: joinSlash ((splitSlash p).foldl (cleanStep true) []).reverse
    else match ((splitSlash p).foldl (cleanStep false) []).reverse with
      | [] => [dot]
      | comps => joinSlash comps

/-- `filepath.Join(dir, name)`: empty elements are ignored, the rest is joined and cleaned. -/
def goJoin (dir name : Bytes) : Bytes :=
  if dir = [] then (if name = [] then [] else goClean name)
  else goClean (dir ++ slash :: name)

/-- the part of `p` up to and including its last `/` -/
def uptoLastSlash (p : Bytes) : Bytes :=
  (p.reverse.dropWhile (· != slash)).reverse

/-- `filepath.Dir` -/
def goDir (p : Bytes) : Bytes := goClean (uptoLastSlash p)

/-! ### `strings.TrimSpace` on UTF-8 bytes -/

/-- the encodings of the code points with `unicode.IsSpace` -/
def spaceSeqs : List Bytes :=
  [[9], [10], [11], [12], [13], [32], [194, 133], [194, 160], [225, 154, 128],
   [226, 128, 128], [226, 128, 129], [226, 128, 130], [226, 128, 131], [226, 128, 132],
   [226, 128, 133], [226, 128, 134], [226, 128, 135], [226, 128, 136], [226, 128, 137],
   [226, 128, 138], [226, 128, 168], [226, 128, 169], [226, 128, 175], [226, 129, 159],
   [227, 128, 128]]

def stripPrefix? : Bytes → Bytes → Option Bytes
  | [], s => some s
  | _ :: _, [] => none
  | a :: p, b :: s => if a = b then stripPrefix? p s else none

def stripAny : List Bytes → Bytes → Option Bytes
  | [], _ => none
  | q :: qs, s => match stripPrefix? q s with
    | some r => some r
    | none => stripAny qs s

def trimLeftWith (seqs : List Bytes) : Nat → Bytes → Bytes
  | 0, s => s
  | n + 1, s => match stripAny seqs s with
    | some r => trimLeftWith seqs n r
    | none => s

def trimSpace (s : Bytes) : Bytes :=
  (trimLeftWith (spaceSeqs.map List.reverse) s.length
    (trimLeftWith spaceSeqs s.length s).reverse).reverse

/-! ### Files, frames, diagnostics -/

inductive Entry where
  /-- complete lines, unterminated remainder, `bad`: reading fails after the complete lines -/
  | file (body : List Bytes) (tail : Bytes) (bad : Bool)
  | dir
  /-- `os.Open` fails and the error is not `IsNotExist` (ENOTDIR, ENAMETOOLONG, NUL in the name …) -/
  | denied
  | missing
deriving DecidableEq, Repr

abbrev FS := Name → Entry

/-- `subreader`: `rest`/`tail` is what `rd` still holds, `nl` is `len(lines)`. -/
structure Frame where
  file : Name
  rest : List Bytes
  tail : Bytes
  bad : Bool
  lineno : Nat
  nl : Nat
deriving DecidableEq, Repr

inductive ErrKind where
  | read
  | eofCont
  | depth
  | undef (names : List Bytes)
  | notFound (name : Name)
  | openErr (cand : Name)
  | isDir (cand : Name)
  | clause
deriving DecidableEq, Repr

/-- What `pos.wrapErr` renders: `file:line`, the context window `lines[ctxLo..ctxHi]`
(0-based, inclusive) and the chain of including files (`file:lineno` of every parent). -/
structure Diag where
  file : Name
  line : Nat
  ctxLo : Nat
  ctxHi : Nat
  nl : Nat
  chain : List (Name × Nat)
  kind : ErrKind
deriving DecidableEq, Repr

/-- `contextLineStart` for `lineIdx` -/
def ctxLo (idx : Nat) : Nat := if 0 < idx then idx - 2 else idx

/-- `contextLineEnd` for `lineIdx` and `len(lines)` -/
def ctxHi (idx nl : Nat) : Nat :=
  if idx + 1 < nl then (if idx + 2 < nl then idx + 2 else nl - 1) else idx

def chainOf (below : List Frame) : List (Name × Nat) := below.map fun f => (f.file, f.lineno)

/-- `pos.wrapErr`: `none` when `p.r.lines[lineIdx]` is out of range (Go panics). -/
def wrapErr (r : Frame) (below : List Frame) (lineno : Nat) (kind : ErrKind) : Option Diag :=
  if lineno - 1 < r.nl then
    some { file := r.file, line := lineno, ctxLo := ctxLo (lineno - 1), ctxHi := ctxHi (lineno - 1) r.nl,
           nl := r.nl, chain := chainOf below, kind := kind }
  else none

/-! ### Reading one logical line -/

def endsBackslash (l : Bytes) : Bool := l.getLast? == some 92

inductive Gathered where
  /-- a logical line, what is left of the complete lines, pieces consumed, and whether EOF was hit -/
  | line (text : Bytes) (rest : List Bytes) (k : Nat) (eof : Bool)
  /-- EOF while a continuation was pending (`k` pieces consumed, the EOF piece included) -/
  | eofCont (k : Nat)
  /-- read error after `k` pieces -/
  | readErr (k : Nat)
deriving DecidableEq, Repr

/-- the `for` loop of `readLine`: `acc` is `line` so far, `k` counts `ReadString` calls -/
def gather (tail : Bytes) (bad : Bool) : Bytes → List Bytes → Nat → Gathered
  | acc, [], k =>
    if bad then .readErr k
    -- (since the repair: a continuation is missing only when nothing at all follows the backslash-newline; an
    -- unterminated last line continues the clause like any other line)
    else if acc ≠ [] ∧ tail = [] then .eofCont (k + 1)
    else .line (acc ++ tail) [] (k + 1) true
  | acc, l :: rest, k =>
    if endsBackslash l then gather tail bad (acc ++ l.dropLast ++ [10]) rest (k + 1)
    else .line (acc ++ l) rest (k + 1) false

def ignoreLine (l : Bytes) : Bool :=
  match l with
  | [] => true
  | c :: _ => c == 35

/-- `"include "` -/
def includePrefix : Bytes := [105, 110, 99, 108, 117, 100, 101, 32]

/-- the file name of an include directive (not trimmed further, as in Go) -/
def includeArg (l : Bytes) : Option Bytes := stripPrefix? includePrefix l

inductive Found where
  | hit (cand : Name) (body : List Bytes) (tail : Bytes) (bad : Bool)
  | notFound
  | openErr (cand : Name)
  | isDir (cand : Name)
deriving DecidableEq, Repr

/-- `newSubReader`: the first candidate that is not "does not exist" decides. -/
def search (old : Bool) (fs : FS) (name : Bytes) : List Name → Found
  | [] => .notFound
  | p :: ps =>
    match fs (goJoin p name) with
    | .missing => search old fs name ps
    | .denied => .openErr (goJoin p name)
    | .dir => if old then .hit (goJoin p name) [] [] true else .isDir (goJoin p name)
    | .file b t bad => .hit (goJoin p name) b t bad

def newFrame (cand : Name) (body : List Bytes) (tail : Bytes) (bad : Bool) : Frame :=
  { file := cand, rest := body, tail := tail, bad := bad, lineno := 1, nl := 0 }

/-- `initArgs`: the search path always contains `.` -/
def withLocalDir (ipath : List Name) : List Name :=
  if ipath.contains [dot] then ipath else ipath ++ [[dot]]

inductive RL where
  | clause (text : Bytes) (line : Nat) (r : Frame) (below : List Frame)
  | skip (stack : List Frame)
  | stop
  | err (d : Diag)
  | panic
deriving DecidableEq, Repr

def orPanic : Option Diag → RL
  | some d => .err d
  | none => .panic

/-- the frame after `k` more `ReadString` calls -/
def Frame.advance (r : Frame) (rest : List Bytes) (k : Nat) (eof : Bool) : Frame :=
  { r with rest := rest, tail := if eof then [] else r.tail, lineno := r.lineno + k, nl := r.nl + k }

/-- what `readLine` does with a gathered, trimmed, non-blank line -/
def dispatch (old : Bool) (fs : FS) (ipath : List Name) (tbl : Table)
    (r' : Frame) (below : List Frame) (start : Nat) (line : Bytes) : RL :=
  match includeArg line with
  | none => .clause line start r' below
  | some arg =>
    if 10 ≤ below.length + 1 then orPanic (wrapErr r' below start .depth)
    else if (preprocReplace tbl arg).2 ≠ [] then
      orPanic (wrapErr r' below start (.undef (preprocReplace tbl arg).2))
    else
      match search old fs (preprocReplace tbl arg).1 (goDir r'.file :: ipath) with
      | .hit cand b t bad => .skip (newFrame cand b t bad :: r' :: below)
      | .notFound => orPanic (wrapErr r' below start (.notFound (preprocReplace tbl arg).1))
      | .openErr cand => orPanic (wrapErr r' below start (.openErr cand))
      | .isDir cand => orPanic (wrapErr r' below start (.isDir cand))

/-- `(*reader).readLine` on the stack of readers (top first). -/
def readLineG (old : Bool) (fs : FS) (ipath : List Name) (tbl : Table) : List Frame → RL
  | [] => .stop
  | r :: below =>
    match gather r.tail r.bad [] r.rest 0 with
    | .readErr k =>
      orPanic (wrapErr { r with nl := r.nl + k + (if old then 0 else 1) } below r.lineno .read)
    | .eofCont k => orPanic (wrapErr (r.advance [] k true) below r.lineno .eofCont)
    | .line text rest k eof =>
      if ignoreLine (trimSpace text) then
        (if eof then (if below.isEmpty then .stop else .skip below)
         else .skip (r.advance rest k eof :: below))
      else dispatch old fs ipath tbl (r.advance rest k eof) below r.lineno (trimSpace text)

/-! ### The parser loop -/

inductive Verdict (σ : Type) where
  | accept (s : σ)
  | reject
  | abort

/-- the clause parsers, abstractly -/
structure Parser (σ : Type) where
  classify : σ → Bytes → Verdict σ
  params : σ → Table

inductive Outcome (σ : Type) where
  | ok (s : σ)
  | error (d : Diag)
  | abort
  | panic
  | running
deriving DecidableEq, Repr

/-- `parseCfg` with `fuel` calls of `readLine` -/
def runG {σ : Type} (old : Bool) (P : Parser σ) (fs : FS) (ipath : List Name) :
    Nat → List Frame → σ → Outcome σ
  | 0, _, _ => .running
  | n + 1, st, s =>
    match readLineG old fs ipath (P.params s) st with
    | .stop => .ok s
    | .skip st' => runG old P fs ipath n st' s
    | .err d => .error d
    | .panic => .panic
    | .clause text line r below =>
      match P.classify s text with
      | .accept s' => runG old P fs ipath n (r :: below) s'
      | .abort => .abort
      | .reject =>
        match wrapErr r below line .clause with
        | some d => .error d
        | none => .panic

/-- `newReader` + `parseCfg`: open the main file through the search path, then parse. -/
def loadG {σ : Type} (old : Bool) (P : Parser σ) (fs : FS) (ipath : List Name) (main : Name)
    (fuel : Nat) (s : σ) : Outcome σ :=
  match search old fs main ipath with
  | .hit cand b t bad => runG old P fs ipath fuel [newFrame cand b t bad] s
  | _ => .abort

abbrev readLine := readLineG false
abbrev readLineOld := readLineG true
abbrev run {σ : Type} := @runG σ false
abbrev runOld {σ : Type} := @runG σ true
abbrev load {σ : Type} := @loadG σ false
abbrev loadOld {σ : Type} := @loadG σ true

/-! ### Specification vocabulary -/

/-- number of physical lines of a file (a failing read counts as the line it fails on) -/
def nphys (body : List Bytes) (tail : Bytes) (bad : Bool) : Nat :=
  body.length + (if bad || tail ≠ [] then 1 else 0)

/-- the logical line that starts at physical line `line` (1-based) of a file -/
def clauseAt (body : List Bytes) (tail : Bytes) (bad : Bool) (line : Nat) : Gathered :=
  gather tail bad [] (body.drop (line - 1)) 0

/-- weight of one `readLine` call on a frame that has `k` levels of inclusion left, when no file
has more than `L` complete lines: the call itself plus a whole included file. -/
def weight (L : Nat) : Nat → Nat
  | 0 => 1
  | k + 1 => 1 + (L + 2) * weight L k

/-- a sufficient number of `readLine` calls for a whole load (main file at level 9) -/
def bound (L : Nat) : Nat := (L + 2) * weight L 9 + 1

end Shk.Reader
