import ShkModel.Model.Preproc
/-! Model of the syntax check of the `edit s/<regexp>/<subst>/` clause in `parseScript`
(parsecfg.go), core Lean only.  `old = true` is the code before fix-1: the error of the syntax
check was built but not returned, so a command with fewer than two separators went on to
`parts[1], parts[2]` (index out of range), and `s/a/b` without the closing separator or with other
flags than `g` was accepted. -/
namespace Shk.EditCmd
open Shk.Preproc

/-- `strings.SplitN(s, sep, n)` for a one-byte separator and `n ≥ 1` pieces -/
def splitN1 (sep : Nat) : Nat → Bytes → List Bytes
  | 0, s => [s]
  | n + 1, s =>
    match s.dropWhile (· != sep) with
    | [] => [s]
    | _ :: r => s.takeWhile (· != sep) :: splitN1 sep n r

inductive EditRes where
  | ok (orig repl : Bytes)
  | invalid
  | panic
deriving DecidableEq, Repr

/-- from `editcmd` to the two operands handed to `regexp.Compile` / `ReplaceAllString` -/
def editCheck (old : Bool) (cmd : Bytes) : EditRes :=
  match cmd with
  | c0 :: sep :: _ :: _ :: _ =>
    if c0 ≠ 115 then .invalid
    else match splitN1 sep 3 cmd with
      | [_, a, b, f] => if f = [] ∨ f = [103] ∨ old = true then .ok a b else .invalid
      | [_, a, b] => if old then .ok a b else .invalid
      | _ => if old then .panic else .invalid
  | _ => .invalid

end Shk.EditCmd
