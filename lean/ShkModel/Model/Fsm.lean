/-!
# C01 — modality automata: the driver of `pkg/cmd/audit.go` over a transition table

`Table` is the shape of `fsm` in `pkg/cmd/pred_fsm.go`; `fire` is one call of
`audition.processFsmStateChange`; `period` is what one activation period reports
for a list of observed truth values followed by the `end` label.
Core only: this file is linked into the `shkdrv` executable.
-/
namespace Shk

structure Table where
  start : Nat
  names : List String          -- state names
  edges : List (List Nat)      -- per state: successor for labels [t, f, end, reset]
deriving Repr, BEq

inductive Rep | good | bad | info
deriving DecidableEq, Repr

def Rep.isBad : Rep → Bool | .bad => true | _ => false
def Rep.isGood : Rep → Bool | .good => true | _ => false
/-- the status written in `audit-<auditor>.csv` (`result` in collector.go). -/
def Rep.code : Rep → Nat | .good => 0 | .bad => 2 | .info => 3

namespace Table
def name (T : Table) (s : Nat) : String := T.names.getD s "?"
def next (T : Table) (s : Nat) (lbl : Nat) : Nat := (T.edges.getD s []).getD lbl s

/-- one `processFsmStateChange`: advance on the label, report by the *name* of the
state reached, and take the `reset` edge after a bad report.  Result: (state after, report). -/
def fire (T : Table) (s : Nat) (lbl : Nat) : Nat × Rep :=
  if T.name (T.next s lbl) == "good" then (T.next s lbl, .good)
  else if T.name (T.next s lbl) == "bad" then (T.next (T.next s lbl) 3, .bad)
  else (T.next s lbl, .info)

def lbl (b : Bool) : Nat := if b then 0 else 1

/-- reports of one activation period started in state `s`: one per observation, then `end`. -/
def period (T : Table) : Nat → List Bool → List Rep
  | s, [] => [(T.fire s 2).2]
  | s, b :: l => (T.fire s (lbl b)).2 :: T.period (T.fire s (lbl b)).1 l

def disappointed (T : Table) (l : List Bool) : Bool := (T.period T.start l).any Rep.isBad
def endsGood (T : Table) (l : List Bool) : Bool := (T.period T.start l).getLast? == some .good
end Table

/-- A deterministic monitor over Boolean words with an end-of-word output. -/
structure Mon (σ : Type) where
  init : σ
  step : σ → Bool → σ
  out  : σ → Bool

def Mon.run {σ} (a : Mon σ) : σ → List Bool → Bool
  | s, [] => a.out s
  | s, b :: l => a.run (a.step s b) l

/-- the implementation as a monitor: (table state, disappointed so far); output: disappointed
once the period has been closed. -/
def implMon (T : Table) : Mon (Nat × Bool) where
  init := (T.start, false)
  step := fun p b => ((T.fire p.1 (Table.lbl b)).1, p.2 || (T.fire p.1 (Table.lbl b)).2.isBad)
  out := fun p => p.2 || (T.fire p.1 2).2.isBad

/-- second observable: "no disappointment in the period and yet the last report is not a
satisfaction".  The property says this never happens. -/
def implEndMon (T : Table) : Mon (Nat × Bool) where
  init := (T.start, false)
  step := fun p b => ((T.fire p.1 (Table.lbl b)).1, p.2 || (T.fire p.1 (Table.lbl b)).2.isBad)
  out := fun p => !(p.2 || (T.fire p.1 2).2.isBad) && !(T.fire p.1 2).2.isGood

/-- certificate check: `c` contains the start pair, is closed under both letters, and the
outputs agree on it. -/
def certOk {σ τ} [BEq σ] [BEq τ] (a : Mon σ) (b : Mon τ) (c : List (σ × τ)) : Bool :=
  c.contains (a.init, b.init) &&
  c.all fun p => a.out p.1 == b.out p.2 &&
    c.contains (a.step p.1 true, b.step p.2 true) &&
    c.contains (a.step p.1 false, b.step p.2 false)

/-- reachable part of the product automaton (fuel-bounded work-list). -/
def closure {σ τ} [BEq σ] [BEq τ] (a : Mon σ) (b : Mon τ) :
    Nat → List (σ × τ) → List (σ × τ) → List (σ × τ)
  | 0, seen, _ => seen
  | _, seen, [] => seen
  | n+1, seen, p :: todo =>
    let s1 := (a.step p.1 true, b.step p.2 true)
    let s2 := (a.step p.1 false, b.step p.2 false)
    let new1 := if seen.contains s1 then [] else [s1]
    let new2 := if (seen ++ new1).contains s2 then [] else [s2]
    closure a b n (seen ++ new1 ++ new2) (todo ++ new1 ++ new2)

def equivCheck {σ τ} [BEq σ] [BEq τ] (a : Mon σ) (b : Mon τ) : Bool :=
  certOk a b (closure a b 400 [(a.init, b.init)] [(a.init, b.init)])

/-- shortest word on which two monitors differ (breadth-first over the product), if any
within the fuel.  Used to explain a failing `equivCheck`. -/
def distinguish {σ τ} [BEq σ] [BEq τ] (a : Mon σ) (b : Mon τ) (fuel : Nat := 400) :
    Option (List Bool) :=
  let rec go : Nat → List (σ × τ) → List ((σ × τ) × List Bool) → Option (List Bool)
    | 0, _, _ => none
    | _, _, [] => none
    | n+1, seen, (p, w) :: todo =>
      if a.out p.1 != b.out p.2 then some w.reverse else
      let s1 := (a.step p.1 true, b.step p.2 true)
      let s2 := (a.step p.1 false, b.step p.2 false)
      let new1 := if seen.contains s1 then [] else [(s1, true :: w)]
      let seen1 := seen ++ new1.map (·.1)
      let new2 := if seen1.contains s2 then [] else [(s2, false :: w)]
      go n (seen1 ++ new2.map (·.1)) (todo ++ new1 ++ new2)
  go fuel [(a.init, b.init)] [((a.init, b.init), [])]

/-! ## The plain meaning of the ten modalities (the specification) -/

inductive Modality
  | always | never | notAlways | eventually | alwaysEventually | eventuallyAlways
  | once | twice | thrice | atMostOnce
deriving DecidableEq, Repr

def Modality.ofName : String → Option Modality
  | "always" => some .always
  | "never" => some .never
  | "not always" => some .notAlways
  | "eventually" => some .eventually
  | "always eventually" => some .alwaysEventually
  | "eventually always" => some .eventuallyAlways
  | "once" => some .once
  | "twice" => some .twice
  | "thrice" => some .thrice
  | "at most once" => some .atMostOnce
  | _ => none

def Modality.name : Modality → String
  | .always => "always" | .never => "never" | .notAlways => "not always"
  | .eventually => "eventually" | .alwaysEventually => "always eventually"
  | .eventuallyAlways => "eventually always" | .once => "once" | .twice => "twice"
  | .thrice => "thrice" | .atMostOnce => "at most once"

def Modality.all : List Modality :=
  [.always, .alwaysEventually, .atMostOnce, .eventually, .eventuallyAlways, .never,
   .notAlways, .once, .thrice, .twice]

/-- `meaning m l = true` iff the truth values `l` observed in one period satisfy `m`
(docs/manual.md, "expects"). -/
def meaning : Modality → List Bool → Bool
  | .always, l => l.all id
  | .never, l => l.all not
  | .notAlways, l => l.any not
  | .eventually, l => l.any id
  | .alwaysEventually, l => l.getLast? == some true
  | .eventuallyAlways, l => !(l.dropWhile not).isEmpty && (l.dropWhile not).all id
  | .once, l => l.count true == 1
  | .twice, l => l.count true == 2
  | .thrice, l => l.count true == 3
  | .atMostOnce, l => decide (l.count true ≤ 1)

/-- spec monitors: small automata whose output is "`l` violates the meaning". -/
def specAlways : Mon Bool := ⟨false, fun v b => v || !b, fun v => v⟩
def specNever : Mon Bool := ⟨false, fun v b => v || b, fun v => v⟩
def specNotAlways : Mon Bool := ⟨false, fun v b => v || !b, fun v => !v⟩
def specEventually : Mon Bool := ⟨false, fun v b => v || b, fun v => !v⟩
/-- 0 = nothing seen, 1 = last was true, 2 = last was false -/
def specAlwaysEventually : Mon Nat := ⟨0, fun _ b => if b then 1 else 2, fun s => s != 1⟩
/-- 0 = only false so far, 1 = inside the final run of trues, 2 = broken -/
def specEventuallyAlways : Mon Nat :=
  ⟨0, fun s b => if s == 0 then (if b then 1 else 0) else if s == 1 then (if b then 1 else 2) else 2,
   fun s => s != 1⟩
/-- number of trues, saturating at k+1 -/
def specCount (k : Nat) : Mon Nat := ⟨0, fun n b => if b then min (n+1) (k+1) else n, fun n => n != k⟩
def specAtMostOnce : Mon Nat := ⟨0, fun n b => if b then min (n+1) 2 else n, fun n => n == 2⟩

end Shk
