import ShkModel.Lemmas.Retry
/-!
# C17 — retry loops respect their attempt and back-off bounds and stop when told

Model: `ShkModel/Model/Retry.lean` (what `pkg/crdb/retry/retry.go` does).  Every theorem is for all
option sets, all jitter draws `u ∈ [0,1)`, all operation sequences and all resolutions of the waits
(timer elapses / closer fires / context fires).  Floating point is idealised as exact rationals.

The model follows the code as repaired by the `fix:` commits 7aa7712 (`NextCh`), 00a346b and
2a10cc6 (`WithMaxAttempts`).  The definitions of the pinned commit are kept as `nextChOld` and
`withMaxAttemptsOld`, and the contradictions they had with the property remain theorems about
them (`nextChOld_…`, `withMaxAttemptsOld_…`).  One contradiction is still in the code and is a
theorem with a concrete witness (`closed_stops_full_false`, `spec_strict_violated`), next to the
part that does hold (`closed_stops_partial`).
-/
namespace Shk.C17
open Shk.Retry

/-! ## first attempt -/

/-- A loop started while neither closer nor context has fired yields its first attempt at once
(`Next` without any wait, `NextCh` with the closed channel), whatever the options. -/
theorem first_immediate (o : Opts) (w : Wait) (u : Rat) :
    (next o (start false false) w).2 = .yieldNow ∧ (nextCh o (start false false) u).2 = .chClosed := by
  simp [next, nextCh, start, reset, St.stopped]

/-! ## attempt bound -/

/-- **attempts_le**: with `MaxRetries = m > 0`, any stretch of operations without a Reset — from
*any* state, hence in particular from the start and between two Resets, `Next` and `NextCh` mixed,
the closer / context firing anywhere — yields at most `m + 1` attempts. -/
theorem attempts_le (o : Opts) (hm : 0 < o.maxRetries) (s : St) (ops : List Op)
    (hnr : ∀ op ∈ ops, op ≠ Op.reset) :
    (yields (run o s ops).2 : Int) ≤ o.maxRetries + 1 := by
  have ho : o.maxRetries = ((o.maxRetries.toNat : Nat) : Int) := by omega
  have := yields_le_budget o o.maxRetries.toNat ho (by omega) ops hnr s
  cases h : s.isReset <;> simp [h] at this <;> omega

/-- the bound is reached: `m + 1` attempts when every wait elapses (here m = 3, five calls). -/
example : (run ⟨10, 100, 2, 1/10, 3⟩ (start false false)
    (List.replicate 5 (.next (.elapses (1/2))))).2 =
    [.yieldNow, .yieldAfter 0 (1/2), .yieldAfter 1 (1/2), .yieldAfter 2 (1/2), .done] := by decide +kernel

/-- `MaxRetries = 0` means unbounded: every call yields. -/
theorem unbounded_when_zero (o : Opts) (h0 : o.maxRetries ≤ 0) (us : List Rat) :
    yields (run o (start false false) (us.map fun u => .next (.elapses u))).2 = us.length := by
  suffices ∀ s : St, s.stopped = false →
      yields (run o s (us.map fun u => .next (.elapses u))).2 = us.length from
    this _ (by simp [start, reset, St.stopped])
  induction us with
  | nil => intro s _; simp [run, yields]
  | cons u us ih =>
    intro s hs
    obtain ⟨a, r, c, x, wd⟩ := s
    have hc : c = false := by cases c <;> simp_all [St.stopped]
    have hx : x = false := by cases x <;> simp_all [St.stopped]
    subst hc hx
    have hn : ¬ ((0 : Int) < o.maxRetries ∧ o.maxRetries ≤ (a : Int)) := by omega
    simp only [List.map_cons, run, yields_cons, step, List.length_cons]
    cases r with
    | true =>
      simp only [next_fresh, Out.isYield]
      rw [ih _ (by simp [St.stopped])]; simp; omega
    | false =>
      simp only [next_elapses _ _ _ _ hn, Out.isYield]
      rw [ih _ (by simp [St.stopped])]; simp; omega

/-! ## the back-off band -/

/-- the code's `if backoff > max` is the `min` of the statement -/
theorem backoff_is_min (o : Opts) (n : Nat) :
    backoff o n = min (o.initial * o.mult ^ n) o.maxB := backoff_eq_spec o n

/-- **backoff_band**: for counter `n` and every draw `u ∈ [0,1)`, the delay computed by `retryIn`
(before truncation to whole ns) lies in `[b(1−r), b(1+r)+1)` with `b = min(I·Mⁿ, Max)`. -/
theorem backoff_band (o : Opts) (hv : Valid o) (n : Nat) (u : Rat) (hu0 : 0 ≤ u) (hu1 : u < 1) :
    bandLo o n ≤ retryInExact o n u ∧ retryInExact o n u < bandHi o n :=
  retryInExact_band o hv n u hu0 hu1

/-- with a multiplier of at least 1 the nominal back-off never shrinks from one attempt to the next … -/
theorem backoff_monotone (o : Opts) (hv : Valid o) (hm : 1 ≤ o.mult) (n : Nat) :
    backoff o n ≤ backoff o (n + 1) := by
  have h0 : 0 ≤ o.mult ^ n := Rat.pow_nonneg hv.mult
  have hp : o.mult ^ n ≤ o.mult ^ (n + 1) := by
    rw [Rat.pow_succ]
    have : o.mult ^ n * 1 ≤ o.mult ^ n * o.mult := Rat.mul_le_mul_of_nonneg_left hm h0
    grind
  have h1 : o.initial * o.mult ^ n ≤ o.initial * o.mult ^ (n + 1) :=
    Rat.mul_le_mul_of_nonneg_left hp hv.initial
  simp only [backoff]
  split <;> split <;> grind

/-- … and whatever the attempt number and the draw, no wait reaches `Max·(1 + r) + 1 ns`: the cap of the property
holds for the whole unbounded sequence of attempts, not just until the product first exceeds `Max`. -/
theorem delay_below_cap (o : Opts) (hv : Valid o) (n : Nat) (u : Rat) (hu0 : 0 ≤ u) (hu1 : u < 1) :
    retryInExact o n u < o.maxB + o.rand * o.maxB + 1 := by
  have hb := (retryInExact_band o hv n u hu0 hu1).2
  have hle := backoff_le_max o n
  rw [backoff_eq_spec] at hle
  have : o.rand * specBackoff o n ≤ o.rand * o.maxB := Rat.mul_le_mul_of_nonneg_left hle hv.rand
  simp only [bandHi] at hb
  grind

/-- **lower_edge**: in whole nanoseconds (what `time.After` gets), never below the lower edge
rounded down to a whole ns, never at or above the upper edge, for `r ≤ 1`. -/
theorem lower_edge (o : Opts) (hv : Valid o) (hr1 : o.rand ≤ 1) (n : Nat) (u : Rat)
    (hu0 : 0 ≤ u) (hu1 : u < 1) :
    (bandLo o n).floor ≤ retryIn o n u ∧ bandLo o n - 1 < (retryIn o n u : Rat) ∧
    (retryIn o n u : Rat) < bandHi o n :=
  retryIn_band o hv hr1 n u hu0 hu1

/-- the delay is positive as soon as the lower edge is at least 1 ns (the assumption under which
`next` lets a stop that already fired win the `select`). -/
theorem delay_pos (o : Opts) (hv : Valid o) (hr1 : o.rand ≤ 1) (n : Nat) (u : Rat)
    (hu0 : 0 ≤ u) (hu1 : u < 1) (h1 : 1 ≤ bandLo o n) : 0 < retryIn o n u := by
  have h := (lower_edge o hv hr1 n u hu0 hu1).1
  have : (1 : Int) ≤ (bandLo o n).floor := Rat.le_floor_iff.mpr (by simpa using h1)
  omega

/-! ## which counter a wait uses: the schedule -/

/-- **next_schedule**: in every reachable state, the wait that `Next` performs in front of attempt
`k + 1` (`k` = waits since the last effective Reset, so attempts are counted from 0) uses counter
`k`; by `backoff_band` its delay is in the band around `min(I·Mᵏ, Max)` — the schedule of the
property. -/
theorem next_schedule (o : Opts) (c x : Bool) (ops : List Op) (w : Wait) (n : Nat) (u : Rat) :
    (next o (run o (start c x) ops).1 w).2 = .yieldAfter n u → n = (run o (start c x) ops).1.waited := by
  have h := schedInv_run o _ ops (schedInv_start o c x)
  generalize (run o (start c x) ops).1 = s at h
  obtain ⟨a, r, cl, cx, wd⟩ := s
  simp only [SchedInv] at h
  cases r with
  | true => simp [next_fresh]
  | false =>
    by_cases hd : 0 < o.maxRetries ∧ o.maxRetries ≤ (a : Int)
    · simp [next_done _ _ _ _ _ _ hd]
    · cases cl <;> cases cx
      · cases w with
        | elapses u' =>
          simp only [next_elapses _ _ _ _ hd]
          intro heq
          have hna : n = a := by injection heq with h1 _; exact h1.symm
          by_cases he : a = wd
          · omega
          · have := h.2 he; omega
        | closerFires => simp [next_closerFires _ _ _ hd]
        | ctxFires => simp [next_ctxFires _ _ _ hd]
      · simp [next_halted o a false true wd w hd rfl]
      · simp [next_halted o a true false wd w hd rfl]
      · simp [next_halted o a true true wd w hd rfl]

/-- **nextCh_schedule**: `NextCh` (as repaired) uses the same counter `k` for the same wait, so
`backoff_band` and `lower_edge` give its delay the same band as `Next`'s. -/
theorem nextCh_schedule (o : Opts) (c x : Bool) (ops : List Op) (n : Nat) (u u' : Rat) :
    (nextCh o (run o (start c x) ops).1 u).2 = .chTimer n u' →
    n = (run o (start c x) ops).1.waited := by
  have h := schedInv_run o _ ops (schedInv_start o c x)
  generalize (run o (start c x) ops).1 = s at h
  obtain ⟨a, r, cl, cx, wd⟩ := s
  simp only [SchedInv] at h
  cases r with
  | true => simp [nextCh_fresh]
  | false =>
    by_cases hd : 0 < o.maxRetries ∧ o.maxRetries ≤ (a : Int)
    · simp [nextCh_nil _ _ _ _ _ _ hd]
    · simp only [nextCh_timer _ _ _ _ _ _ hd]
      intro heq
      have hna : n = a := by injection heq with h1 _; exact h1.symm
      by_cases he : a = wd
      · omega
      · have := h.2 he; omega

/-- `Next` and `NextCh` hand out the same schedule (here I = 40 ms, M = 1/4). -/
example : (run ⟨40000000, 2000000000, 1/4, 3/20, 2⟩ (start false false) [.nextCh 0, .nextCh 0, .nextCh 0, .nextCh 0]).2 =
    [.chClosed, .chTimer 0 0, .chTimer 1 0, .chNil] := by decide +kernel
example : (run ⟨40000000, 2000000000, 1/4, 3/20, 2⟩ (start false false)
    [.next (.elapses 0), .next (.elapses 0), .next (.elapses 0), .next (.elapses 0)]).2 =
    [.yieldNow, .yieldAfter 0 0, .yieldAfter 1 0, .done] := by decide +kernel

/-- **Witness against the pinned `NextCh`** (I = 40 ms, M = 1/4, r = 3/20, Max = 2 s): its first
wait after the immediate attempt was `chTimer 1 u`, and for every draw that delay is below the lower
edge of the band of that attempt (`34 ms`): it is at most `11.5 ms + 1 ns`. -/
theorem nextChOld_band_violated :
    let o : Opts := ⟨40000000, 2000000000, 1/4, 3/20, 0⟩
    (nextChOld o (nextChOld o (start false false) 0).1 0).2 = .chTimer 1 0 ∧
    bandLo o 0 = 34000000 ∧
    ∀ u : Rat, 0 ≤ u → u < 1 → retryInExact o 1 u < bandLo o 0 := by
  refine ⟨by decide +kernel, by decide +kernel, ?_⟩
  intro u hu0 hu1
  have hv : Valid ⟨40000000, 2000000000, 1/4, 3/20, 0⟩ := ⟨by decide +kernel, by decide +kernel, by decide +kernel, by decide +kernel⟩
  have h := (backoff_band ⟨40000000, 2000000000, 1/4, 3/20, 0⟩ hv 1 u hu0 hu1).2
  have e1 : bandHi ⟨40000000, 2000000000, 1/4, 3/20, 0⟩ 1 = 11500001 := by decide +kernel
  have e2 : bandLo ⟨40000000, 2000000000, 1/4, 3/20, 0⟩ 0 = 34000000 := by decide +kernel
  rw [e1] at h; rw [e2]
  grind

/-- with a multiplier above 1 that wait was *above* the band (I = 10 ms, M = 2: at least 17 ms
where the band ends at 11.5 ms + 1 ns). -/
theorem nextChOld_above_band :
    let o : Opts := ⟨10000000, 2000000000, 2, 3/20, 0⟩
    (nextChOld o (nextChOld o (start false false) 0).1 0).2 = .chTimer 1 0 ∧
    ∀ u : Rat, 0 ≤ u → u < 1 → bandHi o 0 < retryInExact o 1 u := by
  refine ⟨by decide +kernel, ?_⟩
  intro u hu0 hu1
  have hv : Valid ⟨10000000, 2000000000, 2, 3/20, 0⟩ := ⟨by decide +kernel, by decide +kernel, by decide +kernel, by decide +kernel⟩
  have h := (backoff_band ⟨10000000, 2000000000, 2, 3/20, 0⟩ hv 1 u hu0 hu1).1
  have e1 : bandLo ⟨10000000, 2000000000, 2, 3/20, 0⟩ 1 = 17000000 := by decide +kernel
  have e2 : bandHi ⟨10000000, 2000000000, 2, 3/20, 0⟩ 0 = 11500001 := by decide +kernel
  rw [e1] at h; rw [e2]
  grind

/-! ## stopping -/

/-- **closed_stops (the waiting case)**: once the closer or the context has fired, a `Next` that
has no Reset pending yields nothing, whatever the timer would do, and stays that way. -/
theorem closed_stops_waiting (o : Opts) (s : St) (w : Wait) (hs : s.stopped = true) (hr : s.isReset = false) :
    (next o s w).2.isYield = false ∧ (next o s w).1 = s := by
  obtain ⟨a, r, c, x, wd⟩ := s
  simp only at hr; subst hr
  have hs' : (c || x) = true := by simpa [St.stopped] using hs
  by_cases hd : 0 < o.maxRetries ∧ o.maxRetries ≤ (a : Int)
  · simp [next_done _ _ _ _ _ _ hd, Out.isYield]
  · simp [next_halted _ _ _ _ _ _ hd hs', Out.isYield]

/-- a stop that fires *during* a wait ends that wait without an attempt, and the loop is stopped
from then on. -/
theorem stop_during_wait (o : Opts) (s : St) (hr : s.isReset = false) :
    (next o s .closerFires).2.isYield = false ∧ (next o s .ctxFires).2.isYield = false ∧
    ((next o s .closerFires).2 = .halted → (next o s .closerFires).1.stopped = true) ∧
    ((next o s .ctxFires).2 = .halted → (next o s .ctxFires).1.stopped = true) := by
  obtain ⟨a, r, c, x, wd⟩ := s
  simp only at hr; subst hr
  by_cases hd : 0 < o.maxRetries ∧ o.maxRetries ≤ (a : Int)
  · simp [next_done _ _ _ _ _ _ hd, Out.isYield]
  · cases c <;> cases x
    · simp [next_closerFires _ _ _ hd, next_ctxFires _ _ _ hd, Out.isYield, St.stopped]
    · simp [next_halted o a false true wd _ hd rfl, Out.isYield, St.stopped]
    · simp [next_halted o a true false wd _ hd rfl, Out.isYield, St.stopped]
    · simp [next_halted o a true true wd _ hd rfl, Out.isYield, St.stopped]

/-- the statement as the property has it, over `Next`/Reset/close/cancel sequences:
`∀ s ops, s.stopped → yields (run o s ops).2 = 0`.  It does not hold (next theorem); what holds is
**closed_stops_partial**: after the stop has fired, whatever is called (including Reset, which no
longer has any effect), `Next` never yields an attempt after a wait, and yields at most one
attempt in total — the immediate one of a Reset that was issued *before* the stop and not yet
consumed. -/
theorem closed_stops_partial (o : Opts) (s : St) (ops : List Op) (hs : s.stopped = true)
    (hn : ∀ op ∈ ops, ∀ u, op ≠ Op.nextCh u) :
    yields (run o s ops).2 ≤ s.isReset.toNat ∧
    ∀ out ∈ (run o s ops).2, out.isWait = false := by
  induction ops generalizing s with
  | nil => simp [run, yields]
  | cons op ops ih =>
    have ih' := fun s' hs' => ih s' hs' (fun x hx => hn x (List.mem_cons_of_mem _ hx))
    have hop := hn op List.mem_cons_self
    obtain ⟨a, r, c, x, wd⟩ := s
    have hs' : (c || x) = true := by simpa [St.stopped] using hs
    simp only [run, yields_cons, List.mem_cons, forall_eq_or_imp]
    cases op with
    | nextCh u => exact absurd rfl (hop u)
    | reset =>
      simp only [step, reset_stopped _ _ _ _ _ hs', Out.isYield, Out.isWait]
      have := ih' ⟨a, r, c, x, wd⟩ hs
      exact ⟨by simpa using this.1, by trivial, this.2⟩
    | close =>
      simp only [step, Out.isYield, Out.isWait]
      have := ih' ⟨a, r, true, x, wd⟩ (by simp [St.stopped])
      exact ⟨by simpa using this.1, by trivial, this.2⟩
    | cancel =>
      simp only [step, Out.isYield, Out.isWait]
      have := ih' ⟨a, r, c, true, wd⟩ (by simp [St.stopped])
      exact ⟨by simpa using this.1, by trivial, this.2⟩
    | next w =>
      cases r with
      | true =>
        simp only [step, next_fresh, Out.isYield, Out.isWait]
        have := ih' ⟨a, false, c, x, wd⟩ (by simpa [St.stopped] using hs')
        refine ⟨?_, by trivial, this.2⟩
        have h1 := this.1
        simp at h1 ⊢; omega
      | false =>
        by_cases hd : 0 < o.maxRetries ∧ o.maxRetries ≤ (a : Int)
        · simp only [step, next_done _ _ _ _ _ _ hd, Out.isYield, Out.isWait]
          have := ih' ⟨a, false, c, x, wd⟩ hs
          exact ⟨by simpa using this.1, by trivial, this.2⟩
        · simp only [step, next_halted _ _ _ _ _ _ hd hs', Out.isYield, Out.isWait]
          have := ih' ⟨a, false, c, x, wd⟩ hs
          exact ⟨by simpa using this.1, by trivial, this.2⟩

/-- **The full statement is false for the code**: Start, first attempt, `Reset()`, then the closer
is closed, then `Next()` — a further attempt is yielded although the closer is closed. -/
theorem closed_stops_full_false :
    ∃ (o : Opts) (ops : List Op), ((run o (start false false) ops).1.stopped = true) ∧
      (step o (run o (start false false) ops).1 (.next (.elapses 0))).2 = .yieldNow :=
  ⟨⟨10, 100, 2, 1/10, 0⟩, [.next (.elapses 0), .reset, .close], by decide +kernel, by decide +kernel⟩

/-- likewise the very first attempt is yielded when the closer is closed between `Start` and the
first `Next`; a closer closed *before* `Start` yields nothing at all. -/
theorem first_attempt_vs_stop (o : Opts) (w : Wait) :
    (next o (step o (start false false) .close).1 w).2 = .yieldNow ∧
    (next o (start true false) w).2.isYield = false ∧ (next o (start false true) w).2.isYield = false := by
  refine ⟨by simp [next, step, start, reset, St.stopped], ?_, ?_⟩
  · exact (closed_stops_waiting o _ w (by simp [start, reset, St.stopped]) (by simp [start, reset, St.stopped])).1
  · exact (closed_stops_waiting o _ w (by simp [start, reset, St.stopped]) (by simp [start, reset, St.stopped])).1

/-! ## Reset -/

/-- **reset_restores**: a Reset issued while nothing has fired puts the loop back into its start
state — so everything that follows (immediate first attempt, counters 0,1,2… for the waits, the
attempt bound) is exactly what a fresh loop does, for every continuation. -/
theorem reset_restores (o : Opts) (s : St) (hs : s.stopped = false) (ops : List Op) :
    reset s = start false false ∧
    (run o (step o s .reset).1 ops).2 = (run o (start false false) ops).2 := by
  obtain ⟨attempt, isReset, closed, cancelled, waited⟩ := s
  simp only [St.stopped, Bool.or_eq_false_iff] at hs
  obtain ⟨h1, h2⟩ := hs
  subst h1 h2
  have : reset ⟨attempt, isReset, false, false, waited⟩ = start false false := by
    simp [reset, start, St.stopped]
  exact ⟨this, by simp only [step, this]⟩

/-- … and once the closer / context has fired, Reset changes nothing. -/
theorem reset_after_stop (s : St) (hs : s.stopped = true) : reset s = s := by
  simp [reset, hs]


/-! ## the property as one monitor over observable events -/

/-- **model_refines_spec**: every run of the loop through `Next` / Reset / close / cancel — any
sequence, every resolution of the waits, every draw in `[0,1)` — produces an event trace that the
monitor of the property accepts in its *lenient* form (which tolerates the one immediate attempt of
a Reset issued before the stop): first attempt present, never more than `MaxRetries+1` attempts
between Resets, every wait at least the (whole-ns) lower edge of the band of *its* attempt, no
premature end, nothing after a stop. -/
theorem model_refines_spec (o : Opts) (hv : Valid o) (hr1 : o.rand ≤ 1) (c x : Bool) (ops : List Op)
    (hnc : ∀ op ∈ ops, ∀ u, op ≠ Op.nextCh u)
    (hu : ∀ op ∈ ops, ∀ u, op = Op.next (.elapses u) → 0 ≤ u ∧ u < 1) :
    monRun o 0 true (Mon.init (c || x)) 0 (trace o (start c x) ops) = none := by
  suffices ∀ (s : St) (m : Mon) (i : Nat), Sim o s m → monRun o 0 true m i (trace o s ops) = none from
    this _ _ 0 (sim_start o c x)
  induction ops with
  | nil => intro s m i _; simp [trace, monRun]
  | cons op ops ih =>
    intro s m i hs
    obtain ⟨m', j, hs', hrun⟩ := sim_step o hv hr1 s m i op hs
      (fun u h => absurd h (hnc op List.mem_cons_self u)) (hu op List.mem_cons_self)
    simp only [trace, hrun]
    exact ih (fun x hx => hnc x (List.mem_cons_of_mem _ hx)) (fun x hx => hu x (List.mem_cons_of_mem _ hx))
      _ _ _ hs'

/-- **model_refines_spec_live**: while neither closer nor context fires, every run through `Next`,
`NextCh` and Reset in any mixture is accepted by the *strict* monitor — the property as stated:
`NextCh` (as repaired) keeps the same first attempt, attempt bound and band as `Next`. -/
theorem model_refines_spec_live (o : Opts) (hv : Valid o) (hr1 : o.rand ≤ 1) (ops : List Op)
    (hlive : ∀ op ∈ ops, LiveOp op)
    (hu : ∀ op ∈ ops, ∀ u, (op = Op.next (.elapses u) ∨ op = Op.nextCh u) → 0 ≤ u ∧ u < 1) :
    monRun o 0 false (Mon.init false) 0 (trace o (start false false) ops) = none := by
  have hl0 : (start false false).stopped = false := by simp [start, reset, St.stopped]
  rw [monRun_strict_of_live o 0 _ 0 _ (by simp [Mon.init]) (live_trace_no_stop o _ ops hl0 hlive)]
  suffices ∀ (s : St) (m : Mon) (i : Nat), Sim o s m → s.stopped = false →
      monRun o 0 true m i (trace o s ops) = none from
    this _ _ 0 (sim_start o false false) hl0
  induction ops with
  | nil => intro s m i _ _; simp [trace, monRun]
  | cons op ops ih =>
    intro s m i hs hl
    have hop := hlive op List.mem_cons_self
    obtain ⟨m', j, hs', hrun⟩ := sim_step o hv hr1 s m i op hs
      (fun u h => ⟨hl, hu op List.mem_cons_self u (Or.inr h)⟩)
      (fun u h => hu op List.mem_cons_self u (Or.inl h))
    simp only [trace, hrun]
    exact ih (fun x hx => hlive x (List.mem_cons_of_mem _ hx)) (fun x hx => hu x (List.mem_cons_of_mem _ hx))
      _ _ _ hs' (live_step o s op hl hop)

/-- the *strict* monitor (the property as stated) rejects the code: Reset, stop, `Next`. -/
theorem spec_strict_violated :
    let o : Opts := ⟨10000000, 100000000, 2, 1/10, 0⟩
    monRun o 0 false (Mon.init false) 0
      (trace o (start false false) [.next (.elapses 0), .reset, .close, .next (.elapses 0)])
      = some (3, .afterStop) := by decide +kernel

/-- the monitor rejected the pinned `NextCh` with a multiplier below 1: the second attempt came
earlier than the lower edge of its band; it accepts the repaired one on the same calls. -/
theorem nextChOld_spec_violated :
    let o : Opts := ⟨40000000, 2000000000, 1/4, 3/20, 0⟩
    monRun o 0 false (Mon.init false) 0
      [.yield ((nextChOld o (start false false) 0).2.delay o),
       .yield ((nextChOld o (nextChOld o (start false false) 0).1 (1/2)).2.delay o)]
      = some (1, .early) ∧
    monRun o 0 false (Mon.init false) 0 (trace o (start false false) [.nextCh 0, .nextCh (1/2)]) = none := by
  exact ⟨by decide +kernel, by decide +kernel⟩

/-! ## WithMaxAttempts -/

/-- **withMaxAttempts_spec**: for every `n ≥ 1`, whether or not the closer / context had fired
before the call, for every resolution of the waits and every success pattern of `fn`:
`fn` is called at most `n` times; once the call has returned, `fn` was called at least once —
unless the stop preceded the call — and the result is nil iff a call of `fn` succeeded; and the
call has returned once the environment has resolved `n + 1` iterations. -/
theorem withMaxAttempts_spec (o : Opts) (n : Int) (hn : 1 ≤ n) (c x : Bool) (env : List (Wait × Bool)) :
    ((withMaxAttempts o n c x env).calls : Int) ≤ n ∧
    ((withMaxAttempts o n c x env).result ≠ none →
      (1 ≤ (withMaxAttempts o n c x env).calls ∨ (c || x) = true) ∧
      ((withMaxAttempts o n c x env).result = some true ↔
        (withMaxAttempts o n c x env).succeeded = true)) ∧
    (n < env.length → (withMaxAttempts o n c x env).result ≠ none) := by
  have hn0 : ¬ n ≤ 0 := by omega
  simp only [withMaxAttempts, hn0, if_false]
  have h := wmaLoop_spec { o with maxRetries := n - 1 } n env (start c x) 0 (by omega)
  refine ⟨h.1, fun ht => ⟨?_, h.2.2.1⟩, fun hl => h.2.2.2 (by omega)⟩
  cases env with
  | nil => simp [wmaLoop] at ht
  | cons e env =>
    by_cases hst : (c || x) = true
    · exact Or.inr hst
    · have hc' : c = false := by cases c <;> simp_all
      have hx' : x = false := by cases x <;> simp_all
      subst hc' hx'
      have hs : start false false = ⟨0, true, false, false, 0⟩ := by simp [start, reset, St.stopped]
      rw [hs]
      exact Or.inl (wmaLoop_calls_pos _ n hn 0 false false 0 e env)

/-- the same in terms of the oracle `wmaSpec` that the check evaluates on the real code. -/
theorem withMaxAttempts_meets_spec (o : Opts) (n : Int) (hn : 1 ≤ n) (c x : Bool) (env : List (Wait × Bool))
    (ht : (withMaxAttempts o n c x env).result ≠ none) :
    wmaSpec n (c || x) (withMaxAttempts o n c x env).calls
      ((withMaxAttempts o n c x env).result == some true)
      (withMaxAttempts o n c x env).succeeded = true := by
  have h := withMaxAttempts_spec o n hn c x env
  have h2 := h.2.1 ht
  simp only [wmaSpec, Bool.and_eq_true, Bool.or_eq_true, decide_eq_true_eq, beq_iff_eq]
  refine ⟨⟨by simpa using h2.1, h.1⟩, ?_⟩
  cases hs : (withMaxAttempts o n c x env).succeeded
  · have : ¬ (withMaxAttempts o n c x env).result = some true := fun e => by
      have := h2.2.mp e; simp [hs] at this
    simp [this]
  · have := h2.2.mpr hs; simp [this]

/-- a stop that preceded the call: `fn` is not called and an error is returned — also when only
the closer was closed (fix: 2a10cc6). -/
theorem withMaxAttempts_stopped_before (o : Opts) (n : Int) (hn : 1 ≤ n) (c x : Bool)
    (hst : (c || x) = true) (e : Wait × Bool) (env : List (Wait × Bool)) :
    withMaxAttempts o n c x (e :: env) = ⟨0, false, some false⟩ := by
  obtain ⟨w, ok⟩ := e
  have hn0 : ¬ n ≤ 0 := by omega
  have hd : ¬ ((0 : Int) < ({ o with maxRetries := n - 1 } : Opts).maxRetries ∧
      ({ o with maxRetries := n - 1 } : Opts).maxRetries ≤ ((0 : Nat) : Int)) := by simp
  have hs : start c x = ⟨0, false, c, x, 0⟩ := by
    cases c <;> cases x <;> simp_all [start, reset, St.stopped]
  simp only [withMaxAttempts, hn0, if_false, hs, wmaLoop, next_halted _ 0 c x 0 w hd hst, Out.isYield]
  simp

/-- `n ≤ 0`: an error, `fn` is not called. -/
theorem withMaxAttempts_nonpositive (o : Opts) (n : Int) (hn : n ≤ 0) (c x : Bool) (env : List (Wait × Bool)) :
    withMaxAttempts o n c x env = ⟨0, false, some false⟩ := by
  simp [withMaxAttempts, hn]

/-- **The pinned code, defect 1 — `WithMaxAttempts(…, 1, fn)` was unbounded**: `MaxRetries = n − 1 = 0`
means "no limit", so a function that keeps failing was called as often as the environment let the
timer elapse — `k` times for every `k`, not at most once. -/
theorem withMaxAttemptsOld_one_unbounded (o : Opts) (k : Nat) :
    (withMaxAttemptsOld o 1 false false (List.replicate k (.elapses 0, false))).calls = k := by
  simp only [withMaxAttemptsOld, show ¬ (1 : Int) ≤ 0 by omega, if_false]
  suffices ∀ (s : St) (c : Nat), s.stopped = false →
      (wmaLoopOld { o with maxRetries := 1 - 1 } s c (List.replicate k (.elapses 0, false))).calls = c + k from by
    simpa using this (start false false) 0 (by simp [start, reset, St.stopped])
  induction k with
  | zero => intro s c _; simp [wmaLoopOld]
  | succ k ih =>
    intro s c hs
    obtain ⟨attempt, isReset, closed, cancelled, waited⟩ := s
    simp only [List.replicate_succ, wmaLoopOld, next]
    cases isReset with
    | true =>
      simp only [if_true, Out.isYield, Bool.false_eq_true, if_false]
      rw [ih _ _ (by simpa [St.stopped] using hs)]; omega
    | false =>
      simp only [Bool.false_eq_true, if_false, hs, Out.isYield, if_true,
        show ¬ ((0 : Int) < 1 - 1 ∧ (1 : Int) - 1 ≤ (attempt : Int)) by omega]
      rw [ih _ _ (by simpa [St.stopped] using hs)]; omega

/-- the repaired code on the same input: one call. -/
example : withMaxAttempts ⟨10, 100, 2, 1/10, 0⟩ 1 false false
    [(.elapses 0, false), (.elapses 0, false), (.elapses 0, false)] = ⟨1, false, some false⟩ := by decide +kernel

/-- **The pinned code, defect 2 — nil without a call**: with the closer already closed (context
alive) it did not call `fn` at all and returned nil (`errors.Wrap(ctx.Err()=nil, …)` is nil), for
every `n ≥ 1` and every environment that resolves at least one iteration. -/
theorem withMaxAttemptsOld_nil_without_call (o : Opts) (n : Int) (hn : 1 ≤ n) (e : Wait × Bool)
    (env : List (Wait × Bool)) :
    withMaxAttemptsOld o n true false (e :: env) = ⟨0, false, some true⟩ := by
  obtain ⟨w, ok⟩ := e
  have hn0 : ¬ n ≤ 0 := by omega
  have hd : ¬ ((0 : Int) < ({ o with maxRetries := n - 1 } : Opts).maxRetries ∧
      ({ o with maxRetries := n - 1 } : Opts).maxRetries ≤ ((0 : Nat) : Int)) := by simp
  have hst : start true false = ⟨0, false, true, false, 0⟩ := by simp [start, reset, St.stopped]
  simp only [withMaxAttemptsOld, hn0, if_false, hst, wmaLoopOld, next_halted _ 0 true false 0 w hd rfl, Out.isYield]
  simp

/-- non-vacuity: three attempts allowed, the third call succeeds / all fail / stopped in between. -/
example : withMaxAttempts ⟨10, 100, 2, 1/10, 0⟩ 3 false false
    [(.elapses 0, false), (.elapses 0, false), (.elapses 0, true)] = ⟨3, true, some true⟩ := by decide +kernel
example : withMaxAttempts ⟨10, 100, 2, 1/10, 0⟩ 3 false false
    [(.elapses 0, false), (.elapses 0, false), (.elapses 0, false), (.elapses 0, false)] =
    ⟨3, false, some false⟩ := by decide +kernel
example : withMaxAttempts ⟨10, 100, 2, 1/10, 0⟩ 3 false false
    [(.elapses 0, false), (.ctxFires, false)] = ⟨1, false, some false⟩ := by decide +kernel
example : withMaxAttempts ⟨10, 100, 2, 1/10, 0⟩ 3 true false [(.elapses 0, true)] = ⟨0, false, some false⟩ := by
  decide +kernel

/-! ## non-vacuity of the hypotheses used above -/

example : Valid ⟨10000000, 100000000, 2, 3 / 20, 3⟩ := ⟨by decide +kernel, by decide +kernel, by decide +kernel, by decide +kernel⟩
example : Valid (Opts.norm ⟨0, 0, 0, 0, 0⟩) := ⟨by decide +kernel, by decide +kernel, by decide +kernel, by decide +kernel⟩
/-- a trace with every kind of event that the lenient monitor accepts and on which it is not trivial -/
example : trace ⟨10, 100, 2, 1/10, 2⟩ (start false false)
    [.next (.elapses 0), .next (.elapses (1/2)), .reset, .next (.elapses 0), .next (.elapses 0),
     .next (.elapses 0), .next (.elapses 0), .next .closerFires, .reset, .next (.elapses 0)] =
    [.yield 0, .yield 10, .reset, .yield 0, .yield 9, .yield 18, .noYield, .noYield, .reset, .yield 0] := by
  decide +kernel
/-- a stop during a wait shows as `stop` followed by `noYield` -/
example : trace ⟨10, 100, 2, 1/10, 0⟩ (start false false) [.next (.elapses 0), .next .ctxFires, .next (.elapses 0)] =
    [.yield 0, .stop, .noYield, .noYield] := by decide +kernel
/-- the monitor is not vacuous: it rejects a wait that is one nanosecond short -/
example : monRun ⟨10, 100, 2, 1/10, 0⟩ 0 true (Mon.init false) 0 [.yield 0, .yield 8] = some (1, .early) := by
  decide +kernel
example : monRun ⟨10, 100, 2, 1/10, 0⟩ 0 true (Mon.init false) 0 [.yield 0, .yield 9] = none := by decide +kernel
example : monRun ⟨10, 100, 2, 1/10, 1⟩ 0 true (Mon.init false) 0 [.yield 0, .yield 9, .yield 18] = some (2, .tooMany) := by
  decide +kernel
example : monRun ⟨10, 100, 2, 1/10, 1⟩ 0 true (Mon.init false) 0 [.yield 0, .noYield] = some (1, .prematureEnd) := by
  decide +kernel
example : monRun ⟨10, 100, 2, 1/10, 1⟩ 0 true (Mon.init false) 0 [.noYield] = some (0, .firstMissing) := by
  decide +kernel

end Shk.C17
