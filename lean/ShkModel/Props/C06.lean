import ShkModel.Lemmas.Story
/-!
# C06 — storylines compile to exactly the timed scenes they denote

Model: `ShkModel/Model/Story.lean` part 1 (`comb` = `combineActs`, `combineStory`, `validate`,
`compile` = `compileV2`, `step`/`run` = the `scene`/`storyline`/`edit` clauses of `parseScript`).
Specification: part 2 of the same file (`columns`, `zipLong`, `zipActs`, `writtenActs`, `validAct`,
`unionCols`, `specTable`, `denote`).  A compiled play and the specification are compared as
*schedules*: per act the ordered list of effects (`mood m`, `perform lines`, `endAct`), each with
the earliest offset at which it may start (`flatten`).

An `edit` is a function applied from outside; the theorems speak of the storyline *after* the edit.
-/
namespace Shk.C06
open Shk.Story

/-! ## Well-formed acts -/

/-- The inductive notion used in the proofs (`Wf`: units `c(+d)*`) is the plain one:
no `+` first, no `+` last, no `++`. -/
theorem wf_iff_written (a : List Char) :
    Wf a ↔ (a.head? ≠ some '+' ∧ a.getLast? ≠ some '+' ∧ noPlusPlus a = true) := wf_iff a

example : Wf "a+b.c+.+d".toList := (wf_iff_written _).mpr (by decide)

/-! ## Merging (`combineActs`, `combineStoryLines`) -/

/-- Merging two acts yields, column by column, the scenes of the first followed by those of the
second; the longer act supplies the remaining columns. -/
theorem columns_comb {a b : List Char} (ha : Wf a) (hb : Wf b) :
    columns (comb a b) = zipLong (columns a) (columns b) := by
  have h := comb_wf_cols ha hb
  rw [← cols_eq_columns h.1, h.2, cols_eq_columns ha, cols_eq_columns hb]

/-- … and the result is well-formed again, so that any number of clauses can be merged. -/
theorem comb_wf {a b : List Char} (ha : Wf a) (hb : Wf b) : Wf (comb a b) := (comb_wf_cols ha hb).1

/-- Storylines are merged act by act; an act missing on one side is taken from the other. -/
theorem combineStory_denotes {s1 s2 : List Act} (h1 : ∀ a ∈ s1, Wf a) (h2 : ∀ b ∈ s2, Wf b) :
    (combineStory s1 s2).map columns = zipActs (s1.map columns) (s2.map columns) ∧
    ∀ x ∈ combineStory s1 s2, Wf x :=
  ⟨combineStory_columns h1 h2, (combineStory_wf_cols s1 s2 h1 h2).1⟩

theorem zipLong_nil (xs : List (List Char)) : zipLong xs [] = xs := by cases xs <;> rfl

/-- the column-wise union is associative … -/
theorem zipLong_assoc (xs ys zs : List (List Char)) :
    zipLong (zipLong xs ys) zs = zipLong xs (zipLong ys zs) := by
  induction xs generalizing ys zs with
  | nil => rfl
  | cons x xs ih =>
    cases ys with
    | nil => rfl
    | cons y ys =>
      cases zs with
      | nil => rfl
      | cons z zs => simp only [zipLong, List.append_assoc, ih]

/-- … and so is the act-wise union of storylines. -/
theorem zipActs_assoc (xs ys zs : List (List (List Char))) :
    zipActs (zipActs xs ys) zs = zipActs xs (zipActs ys zs) := by
  induction xs generalizing ys zs with
  | nil => rfl
  | cons x xs ih =>
    cases ys with
    | nil => rfl
    | cons y ys =>
      cases zs with
      | nil => rfl
      | cons z zs => simp only [zipActs, zipLong_assoc, ih]

/-- **The grouping of merges does not matter**: three acts merged left to right (what successive `storyline`
clauses do) or right to left denote the same columns — the same scenes at the same times, in the same order
within a column.  (The merged *texts* may differ in `.` place holders; what is performed does not.) -/
theorem columns_comb_assoc {a b c : List Char} (ha : Wf a) (hb : Wf b) (hc : Wf c) :
    columns (comb (comb a b) c) = columns (comb a (comb b c)) := by
  rw [columns_comb (comb_wf ha hb) hc, columns_comb ha hb, columns_comb ha (comb_wf hb hc), columns_comb hb hc,
    zipLong_assoc]

/-- … and the same for whole storylines. -/
theorem combineStory_assoc {s1 s2 s3 : List Act} (h1 : ∀ a ∈ s1, Wf a) (h2 : ∀ b ∈ s2, Wf b) (h3 : ∀ c ∈ s3, Wf c) :
    (combineStory (combineStory s1 s2) s3).map columns = (combineStory s1 (combineStory s2 s3)).map columns := by
  have h12 := combineStory_denotes h1 h2
  have h23 := combineStory_denotes h2 h3
  rw [(combineStory_denotes h12.2 h3).1, h12.1, (combineStory_denotes h1 h23.2).1, h23.1, zipActs_assoc]

/-- merging with the empty act or the empty storyline changes nothing (no clause yet / a clause with fewer acts) -/
theorem comb_nil_columns {a : List Char} (ha : Wf a) :
    columns (comb a []) = columns a ∧ comb [] a = a := by
  refine ⟨?_, by simp [comb]⟩
  rw [columns_comb ha Wf.nil, show columns [] = [] from rfl, zipLong_nil]

-- the manual's example, and `.`+x
example : comb "..a".toList "a".toList = "a.a".toList := by simp [comb, extract, more, piece]
example : comb ".+a.".toList "b+.".toList = ".+a+b+..".toList := by simp [comb, extract, more, piece]
example : columns ".+a+b+..".toList = [['a', 'b'], []] := by decide

/-! ## Validation (`validateStoryLine`) -/

/-- A storyline text is accepted iff every written act (blank-separated, `_` removed) has no `+`
first or last, no `++`, and otherwise only `.` and defined scenes; the result is the written acts. -/
theorem validate_iff (defd : Char → Bool) (text : List Char) (acts : List Act) :
    validate defd text = .ok acts ↔
      (acts = writtenActs text ∧ ∀ a ∈ acts, validAct defd a = true) :=
  Shk.Story.validate_iff defd text acts

/-- Accepted ⇒ the acts are non-empty and well-formed, contain neither `_` nor blanks, and every
scene character is defined. -/
theorem validate_sound (defd : Char → Bool) (text : List Char) (acts : List Act)
    (h : validate defd text = .ok acts) :
    acts.map columns = clauseCols text ∧
    ∀ a ∈ acts, a ≠ [] ∧ Wf a ∧ ∀ c ∈ a, c ≠ '_' ∧ c ≠ ' ' ∧ (c = '.' ∨ c = '+' ∨ defd c = true) := by
  obtain ⟨rfl, hv⟩ := (Shk.Story.validate_iff _ _ _).mp h
  refine ⟨rfl, fun a ha => ?_⟩
  obtain ⟨hne, hsp, hus⟩ := mem_writtenActs ha
  obtain ⟨hw, hc⟩ := (validAct_iff defd a).mp (hv a ha)
  exact ⟨hne, hw, fun c hca => ⟨fun e => hus (e ▸ hca), fun e => hsp (e ▸ hca), hc c hca⟩⟩

example : validate (fun c => c == 'a' || c == 'b') "a_+b  .+a_ _".toList
    = .ok ["a+b".toList, ".+a".toList] := by rfl
example : validate (fun c => c == 'a') "a+".toList = .error .plusEnd := by rfl

/-! ## Compilation (`compileV2`) -/

/-- **compile_denotes.**  For every scene table, tempo and storyline whose acts are well-formed
over defined scenes (which is what validation guarantees), `compileV2` succeeds and every act of
the compiled play makes happen exactly what its columns denote: column `k` at `k × tempo` — first
`mood starts`, then one line per entailed actor with the scene's actions and `?` marks, then the
last `mood ends` — and the end of the act at (number of columns) × tempo. -/
theorem compile_denotes (tbl : Table) (tempo : Nat) (story : List Act)
    (h : ∀ a ∈ story, Wf a ∧ ∀ c ∈ a, c ≠ '_' ∧ (c = '.' ∨ c = '+' ∨ (tbl c).isSome = true)) :
    ∃ play, compile tbl tempo story = some play ∧
      play.map flatten = denote tbl tempo (story.map columns) := by
  obtain ⟨play, e, f⟩ := compile_denotes_cols tbl tempo story h
  exact ⟨play, e, by rw [f, denote, List.map_map]; rfl⟩

/-- "the act ends at (number of columns) × tempo" -/
theorem denote_act_end (tbl : Table) (tempo : Nat) (cols : List (List Char)) :
    (denoteAct tbl tempo cols).getLast? = some (cols.length * tempo, Effect.endAct) := by
  have h : ∀ (cs : List (List Char)) (k : Nat),
      (denoteCols tbl tempo k cs).getLast? = some ((k + cs.length) * tempo, Effect.endAct) := by
    intro cs
    induction cs with
    | nil => intro k; simp [denoteCols]
    | cons c cs ih =>
      intro k
      rw [denoteCols, List.getLast?_append, ih]
      simp only [List.length_cons, Option.some_or]
      congr 3
      omega
  simpa [denoteAct] using h cols 0

/-! ## The clauses of the script -/

/-- Whatever the clauses (definitions, storylines, edits in any order): what `parseScript`
accepted is a storyline to which `compile_denotes` applies. -/
theorem run_valid (cfg : Cfg) (cls : List Clause) (st : St) (h : run cfg cls = some st) :
    ∀ a ∈ st.story, Wf a ∧ ∀ c ∈ a, c ≠ '_' ∧ (c = '.' ∨ c = '+' ∨ (st.table c).isSome = true) :=
  runFrom_valid cfg cls St.init st h (fun _ ha => by simp [St.init] at ha)

/-- A `storyline` clause is accepted iff its written acts are valid over the scenes defined so far … -/
theorem storyline_clause_accepted_iff (cfg : Cfg) (st : St) (t : List Char) :
    (step cfg st (.storyline t)).isSome = true ↔
      ∀ a ∈ writtenActs t, validAct (defd st.table) a = true := by
  simp only [step]
  constructor
  · intro h
    split at h
    · rename_i acts hval
      obtain ⟨rfl, hv⟩ := (Shk.Story.validate_iff _ _ _).mp hval
      exact hv
    · cases h
  · intro h
    rw [(Shk.Story.validate_iff _ _ _).mpr ⟨rfl, h⟩]
    rfl

/-- … and then adds its columns to those of the storyline so far (act by act, column by column,
after the scenes already there). -/
theorem storyline_clause_denotes (cfg : Cfg) (pre : List Clause) (s0 st : St) (t : List Char)
    (h0 : run cfg pre = some s0) (h : step cfg s0 (.storyline t) = some st) :
    st.table = s0.table ∧
    st.story.map columns = zipActs (s0.story.map columns) (clauseCols t) :=
  ⟨(step_storyline h).1, step_storyline_cols (run_valid cfg pre s0 h0) h⟩

/-- An `edit` replaces the storyline by the acts written in the text it yields (if valid). -/
theorem edit_clause_denotes (cfg : Cfg) (s0 st : St) (f : List Char → List Char)
    (h : step cfg s0 (.edit f) = some st) :
    st.table = s0.table ∧ st.story = writtenActs (f (joinSp s0.story)) ∧
    (∀ a ∈ st.story, validAct (defd s0.table) a = true) ∧
    st.story.map columns = clauseCols (f (joinSp s0.story)) := by
  simp only [step] at h
  split at h
  · rename_i acts hval
    injection h with h; subst h
    obtain ⟨rfl, hv⟩ := (Shk.Story.validate_iff _ _ _).mp hval
    exact ⟨rfl, rfl, hv, rfl⟩
  · cases h

/-- The scene table is what the `scene` clauses say: the entails of a scene in clause order, one
entry per actor of the target (`every <role>` = the actors of that role in cast order), the last
`mood starts` / `mood ends`; a scene is defined iff some clause gave it an actor or a mood. -/
theorem table_spec (cfg : Cfg) (cls : List Clause) (st : St) (h : run cfg cls = some st) :
    st.table = specTable cfg cls :=
  funext fun c => runFrom_table cfg cls St.init st h c

/-- **The play is the column-wise union of the storyline clauses.**  After any accepted prefix
`pre` (which may contain edits) with storyline `s0.story`, further clauses without an edit —
definitions and storylines in any order — compile to the schedule denoted by the union of the
columns of `s0.story` and of the texts of the `storyline` clauses, over the final scene table. -/
theorem play_denotes (cfg : Cfg) (pre cls : List Clause) (s0 st : St)
    (h0 : run cfg pre = some s0) (hne : noEdit cls = true) (h : runFrom cfg s0 cls = some st) :
    ∃ p, compile st.table cfg.tempo st.story = some p ∧
      p.map flatten =
        denote st.table cfg.tempo (unionCols (s0.story.map columns) (storyTexts cls)) := by
  have hv0 := run_valid cfg pre s0 h0
  obtain ⟨p, e, f⟩ := compile_denotes st.table cfg.tempo st.story (runFrom_valid cfg cls s0 st h hv0)
  exact ⟨p, e, by rw [f, runFrom_cols cfg cls s0 st hne hv0 h]⟩

/-- Without any edit: the performed play is determined by the source clauses alone. -/
theorem play_denotes_source (cfg : Cfg) (cls : List Clause) (st : St)
    (hne : noEdit cls = true) (h : run cfg cls = some st) :
    ∃ p, play cfg cls = some p ∧
      p.map flatten = denote (specTable cfg cls) cfg.tempo (unionCols [] (storyTexts cls)) := by
  obtain ⟨p, e, f⟩ := play_denotes cfg [] cls St.init st rfl hne h
  refine ⟨p, by simp only [play, h, e], ?_⟩
  rw [f, table_spec cfg cls st h]
  rfl

/-- With an edit: the storyline after the edit, whatever the edit is, united with the clauses
that follow. -/
theorem play_denotes_after_edit (cfg : Cfg) (pre cls : List Clause) (f : List Char → List Char)
    (s0 st : St) (h0 : run cfg (pre ++ [.edit f]) = some s0) (hne : noEdit cls = true)
    (h : runFrom cfg s0 cls = some st) :
    ∃ sp p, run cfg pre = some sp ∧ compile st.table cfg.tempo st.story = some p ∧
      p.map flatten = denote st.table cfg.tempo
        (unionCols (clauseCols (f (joinSp sp.story))) (storyTexts cls)) := by
  obtain ⟨p, e, hf⟩ := play_denotes cfg _ cls s0 st h0 hne h
  have hsplit : ∀ (l : List Clause) (s : St), runFrom cfg s (l ++ [.edit f]) = some s0 →
      ∃ sp, runFrom cfg s l = some sp ∧ step cfg sp (.edit f) = some s0 := by
    intro l
    induction l with
    | nil =>
      intro s hs
      refine ⟨s, rfl, ?_⟩
      simp only [List.nil_append, runFrom] at hs
      cases h1 : step cfg s (.edit f) with
      | none => rw [h1] at hs; cases hs
      | some s1 => rw [h1] at hs; exact hs
    | cons cl rest ih =>
      intro s hs
      simp only [List.cons_append, runFrom] at hs ⊢
      split at hs
      · rename_i s1 h1
        exact ih s1 hs
      · cases hs
  obtain ⟨sp, hsp, hed⟩ := hsplit pre St.init h0
  obtain ⟨_, _, _, hc⟩ := edit_clause_denotes cfg sp s0 f hed
  exact ⟨sp, p, hsp, e, by rw [hf, hc]⟩

/-! ## Non-vacuity: a concrete script that is accepted, and what it compiles to -/

def exCfg : Cfg := ⟨[("doc", ["cure", "nap"])], [("bob", "doc"), ("al1", "doc"), ("al2", "doc")], 100⟩
def exCls : List Clause :=
  [.entails 'a' (.actor "bob") ["cure", "nap?"], .mood 'a' true "red",
   .entails 'b' (.every "doc") ["nap"], .mood 'c' false "blue",
   .storyline "..a bc".toList, .storyline "a_ b+c c".toList]

example : noEdit exCls = true := by decide
-- the hypotheses of `play_denotes_source` / `run_valid` / `table_spec` are met by `exCls` …
example : (run exCfg exCls).isSome = true := by decide
-- … those of `play_denotes_after_edit` by `exCls` followed by an edit and one more clause
example : (run exCfg (exCls ++ [.edit fun _ => "a.b c".toList])).isSome = true := by decide
example : ∀ s0, run exCfg (exCls ++ [.edit fun _ => "a.b c".toList]) = some s0 →
    (runFrom exCfg s0 [.storyline ".c".toList]).isSome = true := by
  intro s0 h
  have hs : (step exCfg s0 (.storyline ".c".toList)).isSome = true := by
    rw [storyline_clause_accepted_iff]
    have ht := table_spec exCfg _ s0 h
    intro a ha
    have : a = ".c".toList := by
      have : writtenActs ".c".toList = [".c".toList] := by decide
      rw [this] at ha; simpa using ha
    subst this
    rw [ht]
    decide
  simp only [runFrom]
  cases hq : step exCfg s0 (.storyline ".c".toList) with
  | none => rw [hq] at hs; cases hs
  | some s1 => rfl
-- a rejected one: scene `d` is not defined
example : run exCfg (exCls ++ [.storyline "d".toList]) = none := by
  have h1 : (run exCfg exCls).isSome = true := by decide
  cases hr : run exCfg exCls with
  | none => rw [hr] at h1; cases h1
  | some st =>
    have hn : (step exCfg st (.storyline "d".toList)).isSome = false := by
      apply Bool.eq_false_iff.mpr
      intro hacc
      have hall := (storyline_clause_accepted_iff _ _ _).mp hacc
      have ht := table_spec exCfg _ st hr
      have := hall "d".toList (by decide)
      rw [ht] at this
      revert this
      decide
    have happ : ∀ (l : List Clause) (s s' : St), runFrom exCfg s l = some s' →
        runFrom exCfg s (l ++ [.storyline "d".toList]) = runFrom exCfg s' [.storyline "d".toList] := by
      intro l
      induction l with
      | nil => intro s s' h; simp only [runFrom] at h; injection h with h; subst h; rfl
      | cons cl rest ih =>
        intro s s' h
        simp only [List.cons_append, runFrom] at h ⊢
        split at h
        · rename_i s1 h1; exact ih s1 s' h
        · cases h
    rw [run, happ exCls St.init st hr]
    simp only [runFrom]
    cases hq : step exCfg st (.storyline "d".toList) with
    | none => rfl
    | some s1 => rw [hq] at hn; cases hn

end Shk.C06
