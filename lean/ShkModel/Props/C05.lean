import ShkModel.Lemmas.Prompt
import ShkModel.Props.C03
/-!
# C05 — a play runs to the end of its script unless a failure is reported

Model and conventions as in `C04.lean`.  `perform env play rp fuel = (trace, ok, finished)`:
`ok = false` is the error result of `prompt` (non-zero exit status), `finished = false` means the
fuel ran out (only possible with an unbounded `repeat`).  Exit status 0 of a play that ended is
`(trace, true, true)`.

`expectedTrace play rp passes` lists, in execution order, the positions of a play that runs to its
end in `passes` passes (the acts from `rp.fromAct` on being played `passes` times);
`actMultiplicity play rp passes j` is the number of times act `j` is played then.
-/
namespace Shk.C05
open Shk.Prompt

variable (env : Env) (play : Play) (rp : Repeat) (fuel : Nat)

/-! ## Failures -/

/-- A non-tolerated action failure yields the error result, and nothing later is performed: no
action of a later scene group (later act occurrence, or later scene of the same occurrence), and
no later step of the failed action's own line. -/
theorem failure_stops (r : Rec) (hr : r ∈ (perform env play rp fuel).1)
    (hok : r.ok = false) (hf : r.failOk = false) :
    (perform env play rp fuel).2.1 = false ∧
    ∀ q ∈ (perform env play rp fuel).1, r.pos.groupBefore q.pos = false ∧
      (q.pos.actOcc = r.pos.actOcc → q.pos.scene = r.pos.scene → q.pos.line = r.pos.line →
        q.pos.step ≤ r.pos.step) := by
  obtain ⟨h1, h2⟩ := (perform_step env play rp fuel).bad r hr ⟨hok, hf⟩
  exact ⟨h1, fun q hq => ⟨(h2 q hq).1, fun a b c => (h2 q hq).2 ⟨a.symm, b.symm, c.symm⟩⟩⟩

/-- The play reports an error exactly when some performed action failed without being tolerated. -/
theorem error_iff_untolerated_failure :
    (perform env play rp fuel).2.1 = false ↔
      ∃ r ∈ (perform env play rp fuel).1, r.ok = false ∧ r.failOk = false :=
  ⟨(perform_step env play rp fuel).failed,
   fun ⟨r, hr, h1, h2⟩ => (failure_stops env play rp fuel r hr h1 h2).1⟩

/-- Failures of actions marked `?` do not affect the status: if every failed action is tolerated the
result is not an error. -/
theorem tolerated_continues (h : ∀ r ∈ (perform env play rp fuel).1, r.ok = false → r.failOk = true) :
    (perform env play rp fuel).2.1 = true := by
  cases hres : (perform env play rp fuel).2.1 with
  | true => rfl
  | false =>
    obtain ⟨r, hr, h1, h2⟩ := (error_iff_untolerated_failure env play rp fuel).mp hres
    rw [h r hr h1] at h2; cases h2

/-- … nor do they stop the line: after an action that succeeded, or whose failure is tolerated, the
next step of the line (if the script has one) is performed. -/
theorem tolerated_next_step (r : Rec) (hr : r ∈ (perform env play rp fuel).1)
    (htol : r.ok = true ∨ r.failOk = true)
    (hnext : ∀ act s l, play[r.pos.act]? = some act → act[r.pos.scene]? = some s →
      s.lines[r.pos.line]? = some l → r.pos.step + 1 < l.steps.length) :
    ∃ q ∈ (perform env play rp fuel).1, q.pos = { r.pos with step := r.pos.step + 1 } := by
  obtain ⟨act, s, l, _, t1, h1, h2, h3, _, _, h6, h7⟩ := (perform_step env play rp fuel).src r hr
  have hnb : ¬ r.bad := by
    intro hb; rcases htol with h | h
    · rw [hb.1] at h; cases h
    · rw [hb.2] at h; cases h
  obtain ⟨q, hq, hp⟩ := runLine_next env _ _ _ _ l.actor 0 t1 l.steps r h6 hnb
    (by have := hnext act s l h1 h2 h3; omega)
  exact ⟨q, h7 q hq, hp⟩

/-! ## Exit status 0: everything was performed, the prescribed number of times -/

/-- If the play ends with status 0, the trace is exactly the expected one for some number of passes
≥ 1 (at most `N` with `repeat N times`): every act occurrence consists of exactly the positions
`actPositions` of its act, each once, in script order; the acts are played in order, and the acts
from the repeat point on once per pass. -/
theorem exit0_all_performed (tr : List Rec) (h : perform env play rp fuel = (tr, true, true)) :
    ∃ passes, 1 ≤ passes ∧ tr.map (·.pos) = expectedTrace play rp passes ∧
      (1 ≤ rp.count → (passes : Int) ≤ rp.count) := by
  have hs := perform_step env play rp fuel
  rw [h] at hs
  have hp := hs.ok_pos rfl
  obtain ⟨m, hm, h0, hc⟩ := hs.shape rfl rfl
  refine ⟨m + 1, by omega, ?_, fun h1 => ?_⟩
  · simp only [] at hp
    rw [hp, hm, expectedActs_shape h0]; rfl
  · rcases hc h1 with hc | hc
    · simp only [Nat.zero_add] at hc; exact hc
    · subst hc; simpa using h1

/-- … in particular the trace is a permutation of the expected positions. -/
theorem exit0_all_performed_perm (tr : List Rec) (h : perform env play rp fuel = (tr, true, true)) :
    ∃ passes, 1 ≤ passes ∧ (tr.map (·.pos)).Perm (expectedTrace play rp passes) := by
  obtain ⟨p, h1, h2, _⟩ := exit0_all_performed env play rp fuel tr h
  exact ⟨p, h1, h2 ▸ List.Perm.refl _⟩

/-- With `repeat N times` (N ≥ 1) and no time limit the number of passes is `N`: the acts from the
repeat point on are played `N` times in total (not `N + 1`). -/
theorem exit0_repeat_N (tr : List Rec) (h : perform env play rp fuel = (tr, true, true)) (N : Nat)
    (hfa : 0 < rp.fromAct) (hto : rp.hasTimeout = false) (hN : rp.count = (N : Int)) (h1 : 1 ≤ N) :
    tr.map (·.pos) = expectedTrace play rp N := by
  have hs := perform_step env play rp fuel
  rw [h] at hs
  have hp := hs.ok_pos rfl
  have hm := hs.shapeN hfa hto hN h1 (by omega) rfl rfl
  have hsh := expectedActs_shape (play := play) (rp := rp) (m := N - 1) (fun h => by omega)
  simp only [Nat.sub_zero] at hm hsh
  rw [show N - 1 + 1 = N by omega] at hsh
  simp only [] at hp
  rw [hp, hm, hsh]; rfl

/-- Without a `repeat` clause every act is played exactly once. -/
theorem exit0_no_repeat (tr : List Rec) (h : perform env play rp fuel = (tr, true, true))
    (hfa : rp.fromAct = 0) : tr.map (·.pos) = expectedTrace play rp 1 := by
  obtain ⟨p, _, h2, _⟩ := exit0_all_performed env play rp fuel tr h
  rw [h2]; simp [expectedTrace, expectedActs, hfa]

/-- Multiplicities in an expected trace: every step of the script (step `k` of line `ln` of scene
`sc` of act `j`) occurs exactly `actMultiplicity play rp passes j` times. -/
theorem multiplicity_of_expected (tr : List Rec) (passes : Nat) (hp : 1 ≤ passes)
    (h : tr.map (·.pos) = expectedTrace play rp passes)
    (j sc ln k : Nat) (act : Act) (s : Scene) (l : Line)
    (hj : play[j]? = some act) (hsc : act[sc]? = some s) (hln : s.lines[ln]? = some l)
    (hk : k < l.steps.length) :
    tr.countP (fun r => r.pos.act == j && r.pos.scene == sc && r.pos.line == ln && r.pos.step == k) =
      actMultiplicity play rp passes j := by
  have hmem : (sc, ln, k) ∈ actPositions act := (actPositions_mem_iff act sc ln k).mpr ⟨s, l, hsc, hln, hk⟩
  have h1 : (tr.map (·.pos)).countP (posIs j sc ln k) = actMultiplicity play rp passes j := by
    rw [h, expectedTrace, countP_expectedFrom, hj, Option.getD_some, count_actPositions hmem,
      Nat.mul_one, count_expectedActs play rp passes j (some_lt hj) hp]
  rw [List.countP_map] at h1
  exact h1

/-- Status 0, `repeat N times`: every step of an act before the repeat point is performed once,
every step of a repeated act `N` times. -/
theorem exit0_multiplicity_N (tr : List Rec) (h : perform env play rp fuel = (tr, true, true)) (N : Nat)
    (hfa : 0 < rp.fromAct) (hto : rp.hasTimeout = false) (hN : rp.count = (N : Int)) (h1 : 1 ≤ N)
    (j sc ln k : Nat) (act : Act) (s : Scene) (l : Line)
    (hj : play[j]? = some act) (hsc : act[sc]? = some s) (hln : s.lines[ln]? = some l)
    (hk : k < l.steps.length) :
    tr.countP (fun r => r.pos.act == j && r.pos.scene == sc && r.pos.line == ln && r.pos.step == k) =
      if j + 1 ≥ rp.fromAct then N else 1 := by
  rw [multiplicity_of_expected play rp tr N h1 (exit0_repeat_N env play rp fuel tr h N hfa hto hN h1)
    j sc ln k act s l hj hsc hln hk]
  simp [actMultiplicity, hfa]

/-- Status 0, no `repeat` clause: every step of the script is performed exactly once. -/
theorem exit0_multiplicity_once (tr : List Rec) (h : perform env play rp fuel = (tr, true, true))
    (hfa : rp.fromAct = 0)
    (j sc ln k : Nat) (act : Act) (s : Scene) (l : Line)
    (hj : play[j]? = some act) (hsc : act[sc]? = some s) (hln : s.lines[ln]? = some l)
    (hk : k < l.steps.length) :
    tr.countP (fun r => r.pos.act == j && r.pos.scene == sc && r.pos.line == ln && r.pos.step == k) = 1 := by
  rw [multiplicity_of_expected play rp tr 1 (Nat.le_refl _) (exit0_no_repeat env play rp fuel tr h hfa)
    j sc ln k act s l hj hsc hln hk]
  simp [actMultiplicity, hfa]

/-! ## The repeat counter -/

/-- `repeat N times`, N ≥ 1 (with or without a time limit): the loop ends by itself within
`play.length + N * (play.length - fromAct + 1)` act occurrences; and, with no time limit, if no
error is reported the repeated acts have been played `N` times in total — the off-by-one that the
code's test `numRepeats + 1 >= repeatCount` encodes. -/
theorem repeat_count_total (N : Nat) (hfa : 0 < rp.fromAct) (hN : rp.count = (N : Int)) (h1 : 1 ≤ N)
    (hfuel : play.length + N * (play.length - rp.fromAct + 1) ≤ fuel) :
    (perform env play rp fuel).2.2 = true ∧
    (rp.hasTimeout = false → (perform env play rp fuel).2.1 = true →
      (perform env play rp fuel).1.map (·.pos) = expectedTrace play rp N) := by
  have hfin : (perform env play rp fuel).2.2 = true := by
    apply (perform_step env play rp fuel).finishes hfa hN h1
    have h5 : N = (N - 1) + 1 := by omega
    rw [h5, Nat.succ_mul] at hfuel
    simp only [Nat.sub_zero] at hfuel ⊢
    generalize (N - 1) * (play.length - rp.fromAct + 1) = P at hfuel ⊢
    omega
  refine ⟨hfin, fun hto hok => ?_⟩
  have : perform env play rp fuel = ((perform env play rp fuel).1, true, true) :=
    Prod.ext rfl (Prod.ext hok hfin)
  exact exit0_repeat_N env play rp fuel _ this N hfa hto hN h1

/-- The "repeat 0 times" quirk: with `repeat 0 times` or `repeat always` (count ≤ 0; the parser
accepts any integer) and no time limit, the loop never ends by itself — it can only end on an
error.  (`fromAct ≤ play.length` always holds for a compiled play: the repeat point is an act of the
storyline.)

The statement without the two hypotheses on `fromAct` ("count ≤ 0, no time limit, non-empty play, no
failure ⇒ never finished") is false of the model: without a `repeat` clause (`fromAct = 0`, where the
default count is -1) the play simply ends, and with a repeat point beyond the last act the jump
leaves the play: `perform Ex.env Ex.play ⟨3, 0, false⟩ 50 = (_, true, true)` (example below). -/
theorem repeat_zero_unbounded (hfa : 0 < rp.fromAct) (hle : rp.fromAct ≤ play.length)
    (hc : rp.count ≤ 0) (hto : rp.hasTimeout = false)
    (hnofail : ∀ r ∈ (perform env play rp fuel).1, r.ok = false → r.failOk = true) :
    (perform env play rp fuel).2.2 = false := by
  cases hfin : (perform env play rp fuel).2.2 with
  | false => rfl
  | true =>
    have h1 := (perform_step env play rp fuel).never_finishes hfa hle hc hto (by omega) hfin
    rw [tolerated_continues env play rp fuel hnofail] at h1; cases h1

/-! ## Non-vacuity (`Shk.Prompt.Ex`: two acts, concurrent lines, a tolerated failure, `repeat 2 times`) -/

-- the play of the example ends with status 0 although the tolerated action `y?` failed …
example : (perform Ex.env Ex.play Ex.rp 20).2 = (true, true) := by decide
example : ∃ r ∈ (perform Ex.env Ex.play Ex.rp 20).1, r.ok = false ∧ r.failOk = true := by decide
example : ∀ r ∈ (perform Ex.env Ex.play Ex.rp 20).1, r.ok = false → r.failOk = true := by decide
-- `tolerated_next_step`: in `Ex.playTol` the tolerated failure (step 1) is followed by step 2, performed
example : (perform Ex.env Ex.playTol Ex.rp 20).1.map (fun r => (r.pos, r.ok, r.failOk)) =
    [(⟨0, 0, 0, 0, 0⟩, true, false), (⟨0, 0, 0, 0, 1⟩, true, true), (⟨0, 0, 0, 1, 0⟩, true, false),
     (⟨0, 0, 1, 0, 0⟩, true, false), (⟨0, 0, 1, 0, 1⟩, false, true), (⟨0, 0, 1, 0, 2⟩, true, false),
     (⟨1, 1, 0, 0, 0⟩, true, false), (⟨2, 1, 0, 0, 0⟩, true, false)] := by decide
-- the hypotheses of `exit0_repeat_N` / `exit0_multiplicity_N` / `repeat_count_total` hold for `Ex.rp`, N = 2
example : 0 < Ex.rp.fromAct ∧ Ex.rp.hasTimeout = false ∧ Ex.rp.count = ((2 : Nat) : Int) ∧
    Ex.play.length + 2 * (Ex.play.length - Ex.rp.fromAct + 1) ≤ 4 := by decide
-- … and the multiplicities: the action of act 2 is performed twice, `y?` of act 1 scene 2 once
example : (perform Ex.env Ex.play Ex.rp 20).1.countP
    (fun r => r.pos.act == 1 && r.pos.scene == 0 && r.pos.line == 0 && r.pos.step == 0) = 2 := by decide
example : (perform Ex.env Ex.play Ex.rp 20).1.countP
    (fun r => r.pos.act == 0 && r.pos.scene == 1 && r.pos.line == 0 && r.pos.step == 1) = 1 := by decide
-- … its trace is the expected one for 2 passes: act 2 is played twice (act occurrences 1 and 2)
example : (perform Ex.env Ex.play Ex.rp 20).1.map (·.pos) = expectedTrace Ex.play Ex.rp 2 := by decide
example : expectedTrace Ex.play Ex.rp 2 =
    [⟨0, 0, 0, 0, 0⟩, ⟨0, 0, 0, 0, 1⟩, ⟨0, 0, 0, 1, 0⟩, ⟨0, 0, 1, 0, 0⟩, ⟨0, 0, 1, 0, 1⟩,
     ⟨1, 1, 0, 0, 0⟩, ⟨2, 1, 0, 0, 0⟩] := by decide
example : actMultiplicity Ex.play Ex.rp 2 0 = 1 ∧ actMultiplicity Ex.play Ex.rp 2 1 = 2 := by decide
-- the fuel bound of `repeat_count_total` for the example is 2 + 2 * (2 - 2 + 1) = 4
example : (perform Ex.env Ex.play Ex.rp 4).2.2 = true ∧ (perform Ex.env Ex.play Ex.rp 2).2.2 = false := by
  decide
-- the same failure, not tolerated: error result; the third step of the line, scene 3 and act 2 are
-- not performed
example : (perform Ex.env Ex.playStrict Ex.rp 20).2 = (false, true) := by decide
example : (perform Ex.env Ex.playStrict Ex.rp 20).1.map (·.pos) =
    [⟨0, 0, 0, 0, 0⟩, ⟨0, 0, 0, 0, 1⟩, ⟨0, 0, 0, 1, 0⟩, ⟨0, 0, 1, 0, 0⟩, ⟨0, 0, 1, 0, 1⟩] := by decide
example : ∃ r ∈ (perform Ex.env Ex.playStrict Ex.rp 20).1, r.ok = false ∧ r.failOk = false := by decide
-- `repeat 0 times` / `repeat always` without time limit: never finished, whatever the fuel (here 50);
-- the hypotheses of `repeat_zero_unbounded` hold
example : (0 < (⟨2, 0, false⟩ : Repeat).fromAct ∧ (⟨2, 0, false⟩ : Repeat).fromAct ≤ Ex.play.length) ∧
    ∀ r ∈ (perform Ex.env Ex.play ⟨2, 0, false⟩ 50).1, r.ok = false → r.failOk = true := by decide
example : (perform Ex.env Ex.play ⟨2, 0, false⟩ 50).2 = (true, false) := by decide
example : (perform Ex.env Ex.play ⟨2, -1, false⟩ 50).2 = (true, false) := by decide
-- the hypothesis `fromAct ≤ play.length` of `repeat_zero_unbounded` is needed: a repeat point beyond
-- the last act (impossible for a compiled play) ends the loop
example : (perform Ex.env Ex.play ⟨3, 0, false⟩ 50).2 = (true, true) := by decide
-- a time limit ends the repetition: `repeat always` + limit striking after the second pass: 2 passes
example : (perform Ex.envTimeout Ex.play ⟨2, -1, true⟩ 50).1.map (·.pos) = expectedTrace Ex.play ⟨2, -1, true⟩ 2 := by
  decide
-- without repeat clause: one pass
example : (perform Ex.env Ex.play ⟨0, -1, false⟩ 50).1.map (·.pos) = expectedTrace Ex.play ⟨0, -1, false⟩ 1 := by
  decide

/-! ## The other processes of the play: spotlights that keep running, exit by themselves with status 0, or are absent

While the prompter performs the script the conductor sits in its first stage (`awaitStage .pr`), listening to the
prompter and to the components behind it.  The spotlights' manager reporting *without an error* — a spotlight command that
exits with status 0 on its own, or a cast without spotlights, whose manager returns at once — is waited through: the stage
still ends with the prompter's own result, so the play runs to the end of its script.  (Spotlights that keep running
simply do not report before the prompter.) -/

open Shk.Conduct in
/-- a spotlight manager that finishes without error while the play is being performed does not end it: the conductor
goes on waiting for the prompter, with the rest of what the runtime shows it -/
theorem bystanders_do_not_end_play (seen : List Comp) (rest : List Arrival) (hpr : seen.contains Comp.pr = false) :
    awaitStage .pr [.sp, .au, .col] seen (⟨.sp, false⟩ :: rest) =
      awaitStage .pr [.sp, .au, .col] (.sp :: seen) rest := by
  have hmem : Comp.pr ∉ seen := by
    intro hm
    have : seen.contains Comp.pr = true := List.contains_iff_mem.mpr hm
    rw [hpr] at this; cases this
  rw [awaitStage]
  simp [hmem]

open Shk.Conduct in
/-- … whatever else is reported and in whatever order: only a component reporting an *error* makes the conductor stop
the play before the prompter has finished -/
theorem only_an_error_ends_the_play_early (seen : List Comp) (arrs : List Arrival)
    (h : (awaitStage .pr [.sp, .au, .col] seen arrs).interrupt = true) : ∃ a ∈ arrs, a.err = true :=
  Shk.C03.awaitStage_interrupt_needs_error .pr [.sp, .au, .col] seen arrs h

open Shk.Conduct in
/-- the rule of the pinned commit did end the play when a spotlight exited with status 0 before the prompter was done
(the defect repaired by d953693 / 3ddb114): witness -/
theorem old_rule_ended_the_play_on_a_quiet_spotlight :
    (awaitStageOld .pr [.sp, .au, .col] [] [⟨.sp, false⟩, ⟨.pr, false⟩]).interrupt = true ∧
    (awaitStage .pr [.sp, .au, .col] [] [⟨.sp, false⟩, ⟨.pr, false⟩]).interrupt = false := by decide

end Shk.C05
