import ShkModel.Lemmas.Plot
/-!
# C19 — the plot script shows exactly the data that was collected

Model: `ShkModel/Model/Plot.lean`.  `plotModel` follows the loops, skip tests and counters of
`plot.go`; `plotSpec` is written from the property text.  Every theorem is for all facts: any cast,
any audience, any number of watched variables, mood periods, acts, any time range.

The abstract plot ends where gnuplot begins (claim level: partial).  Times are exact rationals.
Hypotheses on the time range are the ones `assemble` (result.go) establishes for every play:
`result_range` proves them for `rangeOf`, the model of `expandTimeRange` + `assemble`.
-/
namespace Shk.C19
open Shk.Plot

/-- the members that get a box: received data and not `only helps` -/
def shown (f : Facts) : List Member := f.audience.filter fun m => m.hasData && !m.onlyHelps

/-! ## the whole script -/

/-- **model_meets_spec**: what `plot.go` writes is what the property describes — x range, action
lanes, boxes with their curves, bands, act lines, the zoomed copy and the `load` list of
`runme.gp` — for every play. -/
theorem model_meets_spec (f : Facts) : plotModel f = plotSpec f := by
  simp only [plotModel, plotSpec, subPlots_eq]
  cases h : f.repeatStart <;> simp [loadsOnce, specSub]

/-! ## x range -/

/-- **xrange_margin**: the axis is `[MinTime, MaxTime]` widened by exactly one twentieth (5 %) of
`MaxTime - MinTime` on each side (`.05 * visibleDuration` in the code). -/
theorem xrange_margin (f : Facts) :
    (plotModel f).main.xmin = f.minTime - (f.maxTime - f.minTime) / 20 ∧
    (plotModel f).main.xmax = f.maxTime + (f.maxTime - f.minTime) / 20 := by
  simp [plotModel, subPlots, widenLo_eq, widenHi_eq]

/-- the range `assemble` hands over has width at least 1, so the margin is real: the axis
strictly contains `[MinTime, MaxTime]`. -/
theorem xrange_contains (f : Facts) (hw : f.minTime + 1 ≤ f.maxTime) :
    (plotModel f).main.xmin < f.minTime ∧ f.maxTime < (plotModel f).main.xmax := by
  obtain ⟨h1, h2⟩ := xrange_margin f
  rw [h1, h2]
  constructor <;> grind

/-- **result_range**: what `expandTimeRange` + `assemble` make of the instants of all collected
events: `MinTime ≤ 0`, `MinTime + 1 ≤ MaxTime`, and every collected instant lies in
`[MinTime, MaxTime]`. -/
theorem result_range (instants : List Rat) :
    (rangeOf instants).1 ≤ 0 ∧ (rangeOf instants).1 + 1 ≤ (rangeOf instants).2 ∧
    ∀ t ∈ instants, (rangeOf instants).1 ≤ t ∧ t ≤ (rangeOf instants).2 := by
  rcases rangeOf_cases instants with ⟨h0, h⟩ | ⟨mn, mx, h, hle, hall⟩
  · subst h0
    rw [h]
    exact ⟨sanitize_fst_le _ _, sanitize_width _ _, by simp⟩
  · rw [h]
    exact ⟨sanitize_fst_le _ _, sanitize_width _ _,
      fun t ht => sanitize_covers mn mx t (hall t ht).1 (hall t ht).2⟩

/-! ## action box -/

/-- **lanes**: one lane per actor that performed an action, in cast order, numbered 1, 2, …; the
box is as high as the number of lanes + 1. -/
theorem lanes (f : Facts) :
    (plotModel f).main.lanes = ((f.cast.filter (·.hasData)).map (·.name)).zipIdx 1 ∧
    (plotModel f).main.laneTop = (f.cast.filter (·.hasData)).length + 1 := by
  rw [model_meets_spec]
  simp [plotSpec, specSub, activeActors]

/-- the same, read off lane by lane -/
theorem lanes_pointwise (f : Facts) :
    (plotModel f).main.lanes.map (·.1) = (f.cast.filter (·.hasData)).map (·.name) ∧
    (plotModel f).main.lanes.map (·.2) = List.range' 1 (f.cast.filter (·.hasData)).length := by
  rw [(lanes f).1]
  exact ⟨by simp, by simp⟩

/-- an actor that never acted has no lane -/
theorem silent_actor_no_lane (f : Facts) (a : Actor) (ha : a ∈ f.cast) (hd : a.hasData = false)
    (huniq : ∀ b ∈ f.cast, b.name = a.name → b = a) :
    a.name ∉ (plotModel f).main.lanes.map (·.1) := by
  rw [(lanes_pointwise f).1]
  intro h
  obtain ⟨b, hb, hn⟩ := List.mem_map.mp h
  obtain ⟨hb1, hb2⟩ := List.mem_filter.mp hb
  have := huniq b hb1 hn
  subst this
  simp [hd] at hb2

/-! ## audience boxes -/

/-- **boxes**: one box per member that received data and is not `only helps`, in declaration
order; the layout has one row more (the action box). -/
theorem boxes (f : Facts) :
    (plotModel f).main.boxes = (shown f).map specBox ∧
    (plotModel f).main.boxes.map (·.member) = (shown f).map (·.name) ∧
    (plotModel f).main.rows = (shown f).length + 1 := by
  rw [model_meets_spec]
  refine ⟨rfl, ?_, ?_⟩
  · simp only [plotSpec, specSub, shown, List.map_map]
    apply List.map_congr_left
    intro m _
    rfl
  · simp only [plotSpec, specSub, shown]
    omega

/-- under the collector's bookkeeping no box is empty (gnuplot would reject `plot` without a
curve) -/
theorem boxes_nonempty (f : Facts) (hc : ∀ m ∈ f.audience, m.consistent) :
    ∀ b ∈ (plotModel f).main.boxes, b.curves ≠ [] := by
  rw [(boxes f).1]
  intro b hb
  obtain ⟨m, hm, rfl⟩ := List.mem_map.mp hb
  obtain ⟨hm1, hm2⟩ := List.mem_filter.mp hm
  have hcons := hc m hm1
  simp only [Member.consistent] at hcons
  simp only [Bool.and_eq_true, Bool.not_eq_eq_eq_not, Bool.not_true] at hm2
  rw [hm2.1] at hcons
  simp only [specBox]
  cases ha : m.audited with
  | true => simp
  | false =>
    rw [ha, Bool.or_false] at hcons
    obtain ⟨w, hw, hwd⟩ := List.any_eq_true.mp hcons.symm
    have hmem : w ∈ withData m := List.mem_filter.mpr ⟨hw, hwd⟩
    cases hwl : withData m with
    | nil => rw [hwl] at hmem; simp at hmem
    | cons x xs => simp [specCurves]

/-! ## curves of a box -/

/-- **curves**: the box of a member holds one curve per watched variable that received data, in
watch order, then the two curves of the audit file exactly when the auditor reported. -/
theorem curves (m : Member) :
    (groupOf m).curves = specCurves 0 (withData m) ++ (if m.audited then [Curve.faces, Curve.verdicts] else []) ∧
    (groupOf m).yTop = (if eventCount (withData m) > 0 then some (eventCount (withData m) + 1) else none) := by
  rw [groupOf_eq]
  simp [specBox]

/-- the i-th curve is that of the i-th watched variable with data: an event signal as labelled
points on lane 1 + (number of event signals in front of it), anything else as a line. -/
theorem curves_pointwise (m : Member) (i : Nat) (h : i < (withData m).length) :
    (groupOf m).curves[i]? = some (curveOf (withData m)[i] (eventCount ((withData m).take i))) := by
  rw [(curves m).1, List.getElem?_append_left (by rw [specCurves_length]; exact h)]
  rw [List.getElem?_eq_getElem (by rw [specCurves_length]; exact h), specCurves_get 0 _ i h]
  simp

/-- the event lanes of a box are 1, 2, …, n without gap or repetition -/
theorem event_lanes (ws : List Watched) (k : Nat) :
    (specCurves k ws).filterMap (fun c => match c with | .events _ _ l => some l | _ => none) =
      List.range' (k + 1) (eventCount ws) := by
  induction ws generalizing k with
  | nil => simp [specCurves, eventCount]
  | cons w ws ih =>
    obtain ⟨a, s, kd, d⟩ := w
    cases kd with
    | event =>
      have he : (Watched.mk a s .event d).isEvent = true := rfl
      simp only [specCurves, curveOf, List.filterMap_cons, eventCount_cons, he, if_true]
      rw [ih, Nat.add_comm 1 (eventCount ws), List.range'_succ]
    | scalar =>
      have he : (Watched.mk a s .scalar d).isEvent = false := rfl
      simp only [specCurves, curveOf, List.filterMap_cons, eventCount_cons, he]
      rw [ih]
      simp

/-- **audit_curves_iff**: the audit verdicts are drawn ⇔ the auditor reported -/
theorem audit_curves_iff (m : Member) :
    (Curve.faces ∈ (groupOf m).curves ↔ m.audited = true) ∧
    (Curve.verdicts ∈ (groupOf m).curves ↔ m.audited = true) := by
  rw [(curves m).1]
  have h := specCurves_no_audit 0 (withData m)
  cases m.audited <;> simp [h.1, h.2]

/-- a watched variable without data has no curve: the number of variable curves is the number of
variables with data -/
theorem curves_count (m : Member) :
    (groupOf m).curves.length = (withData m).length + (if m.audited then 2 else 0) := by
  rw [(curves m).1, List.length_append, specCurves_length]
  cases m.audited <;> simp

/-! ## mood bands -/

/-- the bands of a script: the periods that meet its x range, each cut at the borders -/
theorem bands (f : Facts) :
    (plotModel f).main.bands =
      (f.moods.filter fun p => p.meets (plotModel f).main.xmin (plotModel f).main.xmax).map
        (specBand (plotModel f).main.xmin (plotModel f).main.xmax) := by
  rw [model_meets_spec]
  simp [plotSpec, specSub]

/-- **every_mood_banded**: in `plot.gp` every recorded (= non-clear) mood period that starts inside
`[MinTime, MaxTime]` gets a band of its mood that begins at its start; the skip test cannot fire
because the range `assemble` hands over has positive width, so `MaxTime` lies strictly inside the
axis.  (Hypotheses: `MinTime + 1 ≤ MaxTime` — `result_range`; the period is not reversed.) -/
theorem every_mood_banded (f : Facts) (hw : f.minTime + 1 ≤ f.maxTime) (p : Period) (hp : p ∈ f.moods)
    (h1 : f.minTime ≤ p.start) (h2 : p.start ≤ f.maxTime) (h3 : p.start ≤ p.stop) :
    ∃ b ∈ (plotModel f).main.bands, b.lo = .at p.start ∧ b.mood = p.mood ∧
      b.hi = (if (plotModel f).main.xmax < p.stop then .right else .at p.stop) := by
  obtain ⟨hx1, hx2⟩ := xrange_contains f hw
  rw [bands]
  refine ⟨specBand _ _ p, List.mem_map.mpr ⟨p, List.mem_filter.mpr ⟨hp, ?_⟩, rfl⟩, ?_, rfl, rfl⟩
  · simp only [Period.meets, Bool.and_eq_true, decide_eq_true_eq]
    constructor <;> grind
  · have : ¬ p.start < (plotModel f).main.xmin := by grind
    simp [specBand, this]

/-- when all periods start inside the result's range (every mood change is a collected event),
no period is dropped and the order is kept -/
theorem all_moods_banded (f : Facts) (hw : f.minTime + 1 ≤ f.maxTime)
    (hall : ∀ p ∈ f.moods, f.minTime ≤ p.start ∧ p.start ≤ f.maxTime ∧ p.start ≤ p.stop) :
    (plotModel f).main.bands =
      f.moods.map (specBand (plotModel f).main.xmin (plotModel f).main.xmax) := by
  obtain ⟨hx1, hx2⟩ := xrange_contains f hw
  rw [bands]
  congr 1
  apply List.filter_eq_self.mpr
  intro p hp
  obtain ⟨h1, h2, h3⟩ := hall p hp
  simp only [Period.meets, Bool.and_eq_true, decide_eq_true_eq]
  constructor <;> grind

/-- a band is the period cut to the axis: it lies at `max xmin start … min xmax stop` -/
theorem band_extent (xmin xmax : Rat) (p : Period) :
    (specBand xmin xmax p).lo.pos xmin xmax = max xmin p.start ∧
    (specBand xmin xmax p).hi.pos xmin xmax = min xmax p.stop := by
  simp only [specBand, Rat.max_def, Rat.min_def]
  constructor
  · by_cases h : p.start < xmin
    · have : ¬ xmin ≤ p.start := Rat.not_le.mpr h
      simp [h, this, Edge.pos]
    · have : xmin ≤ p.start := Rat.not_lt.mp h
      simp [h, this, Edge.pos]
  · by_cases h : xmax < p.stop
    · have : xmax ≤ p.stop := by grind
      simp [h, this, Edge.pos]
    · have h' : p.stop ≤ xmax := Rat.not_lt.mp h
      by_cases he : xmax ≤ p.stop
      · have : xmax = p.stop := by grind
        simp [Edge.pos, this]
      · simp [h, he, Edge.pos]

/-- **periods_cover**: what `audit.go` records: on a stage whose mood changes are `changes` (in
time order) and whose audition ends at `elapsed`, every instant before the end whose mood is not
`clear` lies in a recorded period of exactly that mood. -/
theorem periods_cover (changes : List (Rat × String)) (elapsed x : Rat)
    (hs : changes.Pairwise fun a b => a.1 ≤ b.1) (hx : x < elapsed)
    (hm : moodAt "clear" changes x ≠ "clear") :
    ∃ p ∈ periodsOf changes elapsed, p.mood = moodAt "clear" changes x ∧ p.start ≤ x ∧ x < p.stop :=
  periods_cover_from changes ⟨"clear", 0, []⟩ x elapsed hs hx (by simp) hm

/-- **mood_instant_banded**: audition and plot together: every instant of `[MinTime, MaxTime]`
(before the end of the audition) at which the mood is not `clear` lies under a band of that
mood in `plot.gp`. -/
theorem mood_instant_banded (f : Facts) (changes : List (Rat × String)) (elapsed x : Rat)
    (hf : f.moods = periodsOf changes elapsed) (hw : f.minTime + 1 ≤ f.maxTime)
    (hs : changes.Pairwise fun a b => a.1 ≤ b.1) (hx : x < elapsed)
    (hx1 : f.minTime ≤ x) (hx2 : x ≤ f.maxTime) (hm : moodAt "clear" changes x ≠ "clear") :
    ∃ b ∈ (plotModel f).main.bands, b.mood = moodAt "clear" changes x ∧
      b.lo.pos (plotModel f).main.xmin (plotModel f).main.xmax ≤ x ∧
      x < b.hi.pos (plotModel f).main.xmin (plotModel f).main.xmax := by
  obtain ⟨p, hp, hpm, hp1, hp2⟩ := periods_cover changes elapsed x hs hx hm
  obtain ⟨hxa, hxb⟩ := xrange_contains f hw
  rw [bands]
  refine ⟨specBand _ _ p, List.mem_map.mpr ⟨p, List.mem_filter.mpr ⟨by rw [hf]; exact hp, ?_⟩, rfl⟩, hpm, ?_, ?_⟩
  · simp only [Period.meets, Bool.and_eq_true, decide_eq_true_eq]
    constructor <;> grind
  · rw [(band_extent _ _ p).1, Rat.max_def]
    split <;> grind
  · rw [(band_extent _ _ p).2, Rat.min_def]
    split <;> grind

/-! ## act lines -/

/-- the act lines of a script: every act start after the first that is not left of the axis -/
theorem act_lines_general (f : Facts) :
    (plotModel f).main.actLines =
      ((f.acts.drop 1).filter fun a => (plotModel f).main.xmin ≤ a.ts).map (·.ts) := by
  rw [model_meets_spec]
  simp [plotSpec, specSub]

/-- **act_lines**: in `plot.gp` there is one vertical line per act start after the first —
repeated acts included, each start of a repeated act is a line — because no act starts before
`MinTime` (`MinTime ≤ 0 ≤` any instant measured from the start of the play). -/
theorem act_lines (f : Facts) (hw : f.minTime ≤ f.maxTime) (hall : ∀ a ∈ f.acts, f.minTime ≤ a.ts) :
    (plotModel f).main.actLines = (f.acts.drop 1).map (·.ts) := by
  rw [act_lines_general]
  congr 1
  apply List.filter_eq_self.mpr
  intro a ha
  have h1 := hall a (List.mem_of_mem_drop ha)
  have h2 := (xrange_margin f).1
  simp only [decide_eq_true_eq]
  rw [h2]
  grind

/-- … and every act line is **on** the axis: since the repair c9d1f38 `assemble` widens the time range by the act
starts (an act without actions used to start beyond `MaxTime`), so `MinTime ≤ a.ts ≤ MaxTime` for every act start -/
theorem act_lines_on_the_axis (f : Facts) (hw : f.minTime ≤ f.maxTime)
    (hall : ∀ a ∈ f.acts, f.minTime ≤ a.ts ∧ a.ts ≤ f.maxTime) :
    ∀ x ∈ (plotModel f).main.actLines, (plotModel f).main.xmin ≤ x ∧ x ≤ (plotModel f).main.xmax := by
  intro x hx
  rw [act_lines f hw (fun a ha => (hall a ha).1)] at hx
  obtain ⟨a, ha, rfl⟩ := List.mem_map.mp hx
  have h := hall a (List.mem_of_mem_drop ha)
  obtain ⟨h1, h2⟩ := xrange_margin f
  rw [h1, h2]
  constructor <;> grind

/-- the first act start is never a line, whatever its instant -/
theorem first_act_no_line (f : Facts) (a : ActStart) (as : List ActStart) (h : f.acts = a :: as) :
    (plotModel f).main.actLines.length ≤ as.length := by
  rw [act_lines_general, h]
  simp only [List.drop_succ_cons, List.drop_zero, List.length_map]
  exact List.length_filter_le _ _

/-! ## the zoomed copy -/

/-- **zoom_iff_repeat**: `lastplot.gp` is written, and loaded by `runme.gp`, exactly when the
result has a repeated section. -/
theorem zoom_iff_repeat (f : Facts) :
    ((plotModel f).zoom.isSome ↔ f.repeatStart.isSome) ∧
    ("lastplot.gp" ∈ (plotModel f).loads ↔ f.repeatStart.isSome) := by
  cases h : f.repeatStart <;> simp [plotModel, h, loadsOnce]

/-- the zoomed copy is the same plot — same lanes, same boxes with the same curves — on the axis
`[Repeat.StartTime, MaxTime]` with its own 5 % margin, with the bands and act lines that meet
that axis. -/
theorem zoom_same (f : Facts) (s : Rat) (h : f.repeatStart = some s) :
    ∃ z, (plotModel f).zoom = some z ∧
      z.lanes = (plotModel f).main.lanes ∧ z.laneTop = (plotModel f).main.laneTop ∧
      z.boxes = (plotModel f).main.boxes ∧ z.rows = (plotModel f).main.rows ∧
      z.xmin = s - (f.maxTime - s) / 20 ∧ z.xmax = f.maxTime + (f.maxTime - s) / 20 ∧
      z.bands = (f.moods.filter fun p => p.meets z.xmin z.xmax).map (specBand z.xmin z.xmax) ∧
      z.actLines = ((f.acts.drop 1).filter fun a => z.xmin ≤ a.ts).map (·.ts) := by
  refine ⟨subPlots f s f.maxTime, by simp [plotModel, h], ?_⟩
  simp only [subPlots_eq, plotModel]
  simp [specSub]

/-- the axis of the zoomed copy is not reversed: the repeated section starts inside the time range (it starts at an act
start, and act starts are in the range since c9d1f38; before, `set xrange [1.21:0.99]` was written for a repeated act
without actions) -/
theorem zoom_axis_ordered (f : Facts) (s : Rat) (h : f.repeatStart = some s) (hs : s ≤ f.maxTime) :
    ∃ z, (plotModel f).zoom = some z ∧ z.xmin ≤ z.xmax := by
  obtain ⟨z, hz, _, _, _, _, h1, h2, _⟩ := zoom_same f s h
  refine ⟨z, hz, ?_⟩
  rw [h1, h2]
  grind

/-- … and it is a real interval as soon as the repeated section starts before the end of the time range (it is a single
point when the section starts *at* `MaxTime` — `repeat 1 times` with an empty last act —, which gnuplot refuses: the code
does not exclude that, see DESIGN 10.3) -/
theorem zoom_axis_nonempty (f : Facts) (s : Rat) (h : f.repeatStart = some s) (hs : s < f.maxTime) :
    ∃ z, (plotModel f).zoom = some z ∧ z.xmin < z.xmax := by
  obtain ⟨z, hz, _, _, _, _, h1, h2, _⟩ := zoom_same f s h
  refine ⟨z, hz, ?_⟩
  rw [h1, h2]
  grind

/-- … and it was reversed whenever the section started beyond `MaxTime` (witness of the old behaviour) -/
theorem zoom_axis_reversed_beyond_the_range (f : Facts) (s : Rat) (h : f.repeatStart = some s) (hs : f.maxTime < s) :
    ∃ z, (plotModel f).zoom = some z ∧ z.xmax < z.xmin := by
  obtain ⟨z, hz, _, _, _, _, h1, h2, _⟩ := zoom_same f s h
  refine ⟨z, hz, ?_⟩
  rw [h1, h2]
  grind

/-- **repeat_start**: where the zoom begins: with no repeated act there is no repeated section;
otherwise it begins at the next-to-last start of the act named by `repeat from` (at its only
start when it started once). -/
theorem repeat_start (n : Nat) (acts : List ActStart) :
    repeatStartOf n acts = specRepeatStart n acts := by
  simp only [specRepeatStart]
  by_cases hn : n = 0
  · simp [repeatStartOf, hn]
  · have hn' : n > 0 := Nat.pos_of_ne_zero hn
    simp only [repeatStartOf, hn', if_true, hn, if_false, repeatLoop_eq]
    generalize (acts.filter fun a => a.num = n).map (·.ts) = occ
    rcases List.eq_nil_or_concat occ with rfl | ⟨l, x, rfl⟩
    · simp
    · rw [List.concat_eq_append, foldl_repStep_concat, List.reverse_append]
      rcases List.eq_nil_or_concat l with rfl | ⟨l', y, rfl⟩
      · simp
      · rw [List.concat_eq_append, foldl_repStep_concat, List.reverse_append]
        simp

/-! ## non-vacuity: a concrete play -/

/-- two actors of which one acted; an observer with an event and a scalar signal and a silent
variable; an `only helps` member; an auditor with verdicts only; a member without data; two mood
periods; four act starts of which the second act repeats. -/
def demo : Facts :=
  { cast := [⟨"a", true⟩, ⟨"s", false⟩, ⟨"b", true⟩]
    audience := [
      ⟨"al", false, true, [⟨"a", "val", .scalar, true⟩, ⟨"b", "ev", .event, false⟩, ⟨"a", "ev", .event, true⟩,
                            ⟨"", "dbl", .scalar, true⟩, ⟨"b", "ping", .event, true⟩], true⟩,
      ⟨"bo", true, true, [⟨"a", "val", .scalar, true⟩], false⟩,
      ⟨"ca", false, true, [], true⟩,
      ⟨"da", false, false, [⟨"b", "val", .scalar, false⟩], false⟩]
    moods := [⟨1/10, 3/10, "red"⟩, ⟨1/2, 2, "blue"⟩]
    acts := [⟨0, 1⟩, ⟨1/5, 2⟩, ⟨2/5, 2⟩, ⟨3/5, 2⟩]
    minTime := 0
    maxTime := 1
    repeatStart := some (2/5) }

example : plotModel demo =
    { main :=
        { xmin := -1/20, xmax := 21/20, rows := 3, actLines := [1/5, 2/5, 3/5]
          lanes := [("a", 1), ("b", 2)], laneTop := 3
          bands := [⟨.at (1/10), .at (3/10), "red"⟩, ⟨.at (1/2), .right, "blue"⟩]
          boxes := [⟨"al", [.line "a" "val", .events "a" "ev" 1, .line "" "dbl", .events "b" "ping" 2,
                            .faces, .verdicts], some 3⟩,
                    ⟨"ca", [.faces, .verdicts], none⟩] }
      zoom := some
        { xmin := 37/100, xmax := 103/100, rows := 3, actLines := [2/5, 3/5]
          lanes := [("a", 1), ("b", 2)], laneTop := 3
          bands := [⟨.at (1/2), .right, "blue"⟩]
          boxes := [⟨"al", [.line "a" "val", .events "a" "ev" 1, .line "" "dbl", .events "b" "ping" 2,
                            .faces, .verdicts], some 3⟩,
                    ⟨"ca", [.faces, .verdicts], none⟩] }
      loads := ["plot.gp", "lastplot.gp", "plot.gp", "lastplot.gp", "plot.gp", "lastplot.gp"]
      pageRows := 3 } := by decide +kernel

/-- the hypotheses of the theorems hold for it -/
example : demo.minTime + 1 ≤ demo.maxTime ∧ (∀ m ∈ demo.audience, m.consistent) ∧
    (∀ p ∈ demo.moods, demo.minTime ≤ p.start ∧ p.start ≤ demo.maxTime ∧ p.start ≤ p.stop) := by
  refine ⟨by decide +kernel, ?_, ?_⟩
  · intro m hm
    simp only [demo, List.mem_cons, List.not_mem_nil, or_false] at hm
    rcases hm with rfl | rfl | rfl | rfl <;> simp only [Member.consistent] <;> decide
  · intro p hp
    simp only [demo, List.mem_cons, List.not_mem_nil, or_false] at hp
    rcases hp with rfl | rfl <;> decide +kernel

/-- the skip test is live code: in the zoomed script the first period is left out -/
example : (bandsLoop (37/100) (103/100) demo.moods).length = 1 := by decide +kernel

/-- `assemble` on an empty play, on a short one and on a long one -/
example : rangeOf [] = (0, 1) ∧ rangeOf [1/4, 1/10, 3/5] = (0, 1) ∧ rangeOf [1/4, 7/2, -2] = (-2, 7/2) := by
  decide +kernel

/-- the zoom starts at the next-to-last start of the repeated act -/
example : repeatStartOf 2 demo.acts = some (2/5) ∧ repeatStartOf 1 demo.acts = some 0 ∧
    repeatStartOf 3 demo.acts = none ∧ repeatStartOf 0 demo.acts = none := by decide +kernel

/-- the periods `audit.go` records: repeated moods do not split a period, `clear` closes one, an
open period is closed at the end of the audition -/
example : periodsOf [(1/10, "red"), (2/10, "red"), (3/10, "clear"), (1/2, "blue"), (7/10, "green")] 2 =
    [⟨1/10, 3/10, "red"⟩, ⟨1/2, 7/10, "blue"⟩, ⟨7/10, 2, "green"⟩] := by decide +kernel

end Shk.C19
