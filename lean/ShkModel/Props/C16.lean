import ShkModel.Lemmas.Log
/-!
# C16 — log entries survive formatting, decoding, rotation and garbage collection

Model: `ShkModel/Model/Log.lean` (`format` = `formatHeader`/`formatLogEntry` with a nil colour
profile, `decode` = `EntryDecoder` = `entryRE` + `split` under `bufio.Scanner` + `Decode`,
`write`/`rotate` = `syncBuffer.Write`/`rotateFile`/`create`, `gcKeep` = `gcOldFiles`).

`wf e` is the domain of the property: severity 1–4, a valid date in 2000–2068, time of day to the
microsecond, goroutine id and line number in 0 … 2⁶³−1, a non-empty file name without `:` or
newline that (when the goroutine id is 0) does not look like `<digits><blank>…`, and a
single-line message without leading or trailing white space (the decoder trims).  The message is
otherwise arbitrary: it may contain header-like text or whole formatted entries.

`cap` is the size of the window through which the decoder sees its input
(`bufio.MaxScanTokenSize` = 65536 in the real code); the theorems hold for every `cap`.
-/
namespace Shk.C16
open Shk.Log

/-- **Format, then decode: the same fields.**  For every entry in the domain whose formatted
form fits the scanner window. -/
theorem decode_format (cap : Nat) (e : Entry) (hwf : wf e = true)
    (hfit : (format e).length ≤ cap) : decode cap (format e) = ([e], false) := by
  have hw : allWF [e] := by
    intro x hx
    have hxe : x = e := by simpa using hx
    rw [hxe]; exact wf_WF e hwf
  have hf : fits cap [e] = true := by simpa [fits] using hfit
  have h := decode_concat_WF cap [e] hw hf
  simpa using h

/-- … and an entry that does not fit the window is *not* decoded back (it is cut at the window
size): the hypothesis of `decode_format` is the representable message size of the decoder.
Witness with a window of 30 code units. -/
theorem decode_format_needs_window :
    ∃ cap e, wf e = true ∧ cap < (format e).length ∧ decode cap (format e) ≠ ([e], false) :=
  ⟨30, { sev := 1, year := 2000, month := 1, day := 1, hour := 0, minute := 0, second := 0, micro := 0,
         gid := 0, file := ['f'], line := 1, msg := ['a', 'a', 'a', 'a', 'a', 'a'] }, by decide⟩

/-
Full statement of the concatenation part of the property (for every `cap`, in particular 65536):

    ∀ es, (∀ e ∈ es, wf e = true) → (∀ e ∈ es, (format e).length ≤ cap) →
      decode cap (es.flatMap format) = (es, false)

It is FALSE for the code as it is (`decode_concat_full_fails` below, and on the real decoder: an
entry whose formatted length is 65500 … 65535 bytes swallows the entry that follows it).  What
holds is the statement under the stronger hypothesis `fits`: every entry *together with its
successor* fits the window.
-/

/-- **Concatenations decode entry by entry**, also when messages contain header-like text
(a header can only match at a line start, and a single-line message never starts a line).
Partial: needs `fits cap es` (each entry and the one after it fit the window together) instead
of just "each entry fits". -/
theorem decode_concat_partial (cap : Nat) (es : List Entry) (hwf : ∀ e ∈ es, wf e = true)
    (hfit : fits cap es = true) : decode cap (es.flatMap format) = (es, false) :=
  decode_concat_WF cap es (fun e he => wf_WF e (hwf e he)) hfit

/-- The full statement fails: two entries in the domain, each fitting the window on its own
(36 and 31 code units, window 40), whose concatenation is decoded to ONE entry with a garbled
message — the header of the second entry straddles the end of the window, so `split` finds no
next header, cuts the token at the window size and then skips to the next header it can find.
The real decoder shows the same behaviour at 65536 (see the check's window probes). -/
theorem decode_concat_full_fails :
    ∃ cap e₁ e₂, wf e₁ = true ∧ wf e₂ = true ∧ (format e₁).length ≤ cap ∧ (format e₂).length ≤ cap ∧
      decode cap (format e₁ ++ format e₂) ≠ ([e₁, e₂], false) :=
  ⟨40,
   { sev := 1, year := 2000, month := 1, day := 1, hour := 0, minute := 0, second := 0, micro := 0,
     gid := 0, file := ['f'], line := 1, msg := ['a', 'a', 'a', 'a', 'a', 'a'] },
   { sev := 1, year := 2000, month := 1, day := 1, hour := 0, minute := 0, second := 0, micro := 0,
     gid := 0, file := ['f'], line := 1, msg := ['b'] }, by decide⟩

/-! ### non-vacuity: entries with header-like messages, extreme fields -/

def ex1 : Entry :=
  { sev := 4, year := 2068, month := 12, day := 31, hour := 23, minute := 59, second := 59, micro := 999999,
    gid := 9223372036854775807, file := "a/7 b.go".toList, line := 9223372036854775807,
    msg := "x  I200101 00:00:00.000000 12 f.go:1  inner".toList }

def ex2 : Entry :=
  { sev := 2, year := 2000, month := 2, day := 29, hour := 0, minute := 0, second := 0, micro := 0,
    gid := 0, file := "12".toList, line := 0, msg := "W000229 00:00:00.000000 12:0".toList }

set_option maxRecDepth 100000 in
example : wf ex1 = true ∧ wf ex2 = true ∧ fits 65536 [ex1, ex2, ex1] = true := by decide
set_option maxRecDepth 100000 in
example : decode 65536 (format ex1 ++ format ex2 ++ format ex1) = ([ex1, ex2, ex1], false) := by decide
-- outside the domain the round trip really fails (year 2069 comes back as 1969)
set_option maxRecDepth 100000 in
example : decode 65536 (format { ex2 with year := 2069, day := 28 }) ≠ ([{ ex2 with year := 2069, day := 28 }], false) := by
  decide

/-! ## Rotation -/

/-- **Rotation loses nothing**: for every threshold, every sequence of messages (of any sizes
relative to the threshold), every clock and every header size, the files read in name order
with the per-file header entries removed are exactly the messages, each once, in order; a
message is an item of exactly one file, so it is never split. -/
theorem rotation_lossless {α : Type} (size : α → Nat) (max : Nat) (ws : List (Wr α)) :
    readBack (run size max {} (ws.map Op.write)) = ws.map (·.msg) := by
  have := readBack_run_writes size max {} ws
  simpa [readBack] using this

/-! ### Rotation, down to the bytes

`rotation_lossless` is about items; here the items are log entries, a file is the concatenation of its formatted entries
(header entries of `rotateFile` included), `size` is the formatted length (what `sb.nbytes` counts), and reading back
means decoding those bytes. -/

/-- the bytes of a log file -/
def fileBytes (f : LFile Entry) : List Char := (f.items.map (·.val)).flatMap format

/-- every entry involved in a sequence of writes: the messages and the header entries of the rotations -/
def entriesOf (ws : List (Wr Entry)) : List Entry := ws.flatMap fun w => w.msg :: (w.hdrs0 ++ w.hdrs1)

/-- whatever holds of all the entries written holds of every item of every file (nothing else gets into a file) -/
theorem write_items {α : Type} (Q : α → Prop) (size : α → Nat) (max : Nat) (s : Rot α) (w : Wr α)
    (hs : ∀ f ∈ s.files, ∀ i ∈ f.items, Q i.val) (hm : Q w.msg)
    (h0 : ∀ h ∈ w.hdrs0, Q h) (h1 : ∀ h ∈ w.hdrs1, Q h) :
    ∀ f ∈ (write size max s w).files, ∀ i ∈ f.items, Q i.val := by
  have happ : ∀ (t : Rot α), (∀ f ∈ t.files, ∀ i ∈ f.items, Q i.val) →
      ∀ f ∈ (append size t w.msg).files, ∀ i ∈ f.items, Q i.val := by
    intro t ht f hf i hi
    unfold append at hf
    cases hfs : t.files with
    | nil =>
      simp only [hfs] at hf
      exact ht f (by rw [hfs]; exact hf) i hi
    | cons f0 fs =>
      simp only [hfs] at hf
      rw [hfs] at ht
      simp only [List.mem_cons] at hf
      rcases hf with rfl | hf
      · simp only [List.mem_append, List.mem_singleton] at hi
        rcases hi with hi | rfl
        · exact ht f0 (by simp) i hi
        · exact hm
      · exact ht f (by simp [hf]) i hi
  have hrot : ∀ (t : Rot α) (now : Nat) (hd : List α), (∀ f ∈ t.files, ∀ i ∈ f.items, Q i.val) → (∀ h ∈ hd, Q h) →
      ∀ f ∈ (rotate size t now hd).files, ∀ i ∈ f.items, Q i.val := by
    intro t now hd ht hh f hf i hi
    simp only [rotate, List.mem_cons] at hf
    rcases hf with rfl | hf
    · simp only [List.mem_map] at hi
      obtain ⟨h, hh', rfl⟩ := hi
      exact hh h hh'
    · exact ht f hf i hi
  have hsb : ∀ (t : Rot α), (∀ f ∈ t.files, ∀ i ∈ f.items, Q i.val) →
      ∀ f ∈ (sbWrite size max t w).files, ∀ i ∈ f.items, Q i.val := by
    intro t ht
    unfold sbWrite
    split
    · exact happ _ (hrot t _ _ ht h1)
    · exact happ _ ht
  unfold write
  split
  · exact hsb _ (hrot s _ _ hs h0)
  · exact hsb _ hs

theorem run_items {α : Type} (Q : α → Prop) (size : α → Nat) (max : Nat) :
    ∀ (ws : List (Wr α)) (s : Rot α), (∀ f ∈ s.files, ∀ i ∈ f.items, Q i.val) →
      (∀ w ∈ ws, Q w.msg ∧ (∀ h ∈ w.hdrs0, Q h) ∧ (∀ h ∈ w.hdrs1, Q h)) →
      ∀ f ∈ (run size max s (ws.map Op.write)).files, ∀ i ∈ f.items, Q i.val := by
  intro ws
  induction ws with
  | nil => intro s hs _; simpa [run] using hs
  | cons w ws ih =>
    intro s hs hw
    have hw0 := hw w (by simp)
    simp only [List.map_cons, run, List.foldl_cons, step]
    exact ih _ (write_items Q size max s w hs hw0.1 hw0.2.1 hw0.2.2) (fun w' hw' => hw w' (by simp [hw']))

/-- entries that take at most half the window: any two of them fit it together -/
theorem fits_of_small (cap : Nat) : ∀ (es : List Entry), (∀ e ∈ es, 2 * (format e).length ≤ cap) → fits cap es = true := by
  intro es
  induction es with
  | nil => intro _; rfl
  | cons e es ih =>
    intro h
    cases es with
    | nil => have := h e (by simp); simp [fits]; omega
    | cons e' es' =>
      have h1 := h e (by simp)
      have h2 := h e' (by simp)
      have := ih (fun x hx => h x (by simp [hx]))
      simp [fits, this]; omega

/-- **Every file decodes to its entries**: whatever the threshold and the clock, if every entry written (messages and
rotation headers) is in the domain of the round trip and takes at most half the scanner window, then every log file the
sequence of writes leaves behind decodes — from its bytes — to exactly the entries that were written to it, in order and
without an error.  With `rotation_lossless` (the items of the files, headers removed, are the messages, each once, in
order) this is "after a flush every message logged so far can be read back exactly once and in order across file
rotations", stated on bytes. -/
theorem rotated_files_decode (cap max : Nat) (ws : List (Wr Entry))
    (hwf : ∀ e ∈ entriesOf ws, wf e = true) (hsmall : ∀ e ∈ entriesOf ws, 2 * (format e).length ≤ cap) :
    ∀ f ∈ (run (fun e => (format e).length) max {} (ws.map Op.write)).files,
      decode cap (fileBytes f) = (f.items.map (·.val), false) := by
  intro f hf
  have hQ := run_items (fun e => wf e = true ∧ 2 * (format e).length ≤ cap) (fun e => (format e).length) max ws {}
    (by intro f hf; simp at hf)
    (by
      intro w hw
      have hin : ∀ e, e = w.msg ∨ e ∈ w.hdrs0 ∨ e ∈ w.hdrs1 → e ∈ entriesOf ws := by
        intro e he
        simp only [entriesOf, List.mem_flatMap]
        refine ⟨w, hw, ?_⟩
        simp only [List.mem_cons, List.mem_append]
        rcases he with rfl | he | he
        · exact Or.inl rfl
        · exact Or.inr (Or.inl he)
        · exact Or.inr (Or.inr he)
      refine ⟨⟨hwf _ (hin _ (Or.inl rfl)), hsmall _ (hin _ (Or.inl rfl))⟩, ?_, ?_⟩
      · intro h hh; exact ⟨hwf _ (hin _ (Or.inr (Or.inl hh))), hsmall _ (hin _ (Or.inr (Or.inl hh)))⟩
      · intro h hh; exact ⟨hwf _ (hin _ (Or.inr (Or.inr hh))), hsmall _ (hin _ (Or.inr (Or.inr hh)))⟩)
    f hf
  unfold fileBytes
  apply decode_concat_partial
  · intro e he
    obtain ⟨i, hi, rfl⟩ := List.mem_map.mp he
    exact (hQ i hi).1
  · apply fits_of_small
    intro e he
    obtain ⟨i, hi, rfl⟩ := List.mem_map.mp he
    exact (hQ i hi).2

-- the premises are met by real entries: a message and a rotation header, far below half a window of 65536
set_option maxRecDepth 100000 in
example : ∀ e ∈ entriesOf [⟨ex2, 5, [ex2], 6, []⟩], wf e = true ∧ 2 * (format e).length ≤ 65536 := by decide

/-- **File names increase**: whatever the clock does (also when it stands still or goes back),
the stamps of the files are strictly increasing in creation order — also with GC runs in between. -/
theorem names_increasing {α : Type} (size : α → Nat) (max : Nat) (ops : List (Op α)) :
    ((run size max {} ops).files.map (·.stamp)).Pairwise (· > ·) :=
  (stamped_run size max {} ops ⟨by simp, by simp⟩).1

/-- **With GC runs anywhere in between**, what can be read back is a gap-free tail of what was
logged (each message at most once, in order). -/
theorem readback_is_tail {α : Type} (size : α → Nat) (max : Nat) (ops : List (Op α)) :
    readBack (run size max {} ops) <:+ writesOf ops := by
  have := readBack_run_suffix size max {} ops [] (by simp [readBack])
  simpa using this

/-- **The newest message always survives**: after any history, a message just logged is the last
one read back, whatever GC passes (with whatever bounds) follow. -/
theorem newest_message_survives {α : Type} (size : α → Nat) (max : Nat) (ops : List (Op α)) (w : Wr α)
    (bounds : List Nat) :
    (readBack (run size max {} (ops ++ .write w :: bounds.map Op.gc))).getLast? = some w.msg := by
  rw [run_append, run_cons]
  exact headEnds_readBack _ _ (headEnds_run_gcs size max _ _ bounds (headEnds_write size max _ w))

/-- A GC pass never touches the open (newest) file. -/
theorem gc_keeps_open_file {α : Type} (size : α → Nat) (bound : Nat) (s : Rot α) :
    (gc size bound s).files.head? = s.files.head? := gc_head size bound s

/-! ## GC selection (sizes newest first) -/

/-- **The newest file is always kept.** -/
theorem gc_keeps_newest (bound s : Nat) (r : List Nat) : (gcKeep bound (s :: r))[0]? = some true := rfl

/-- **Kept ⇔ newest, or cumulative size counted from the newest (the file itself included) stays
below the bound.** -/
theorem gc_prefix (bound : Nat) (sizes : List Nat) (i : Nat) (hi : i < sizes.length) :
    (gcKeep bound sizes)[i]? = some (i == 0 || decide ((sizes.take (i + 1)).sum < bound)) := by
  cases sizes with
  | nil => simp at hi
  | cons s r =>
    cases i with
    | zero => simp [gcKeep]
    | succ j =>
      simp only [List.length_cons] at hi
      simp only [gcKeep, List.getElem?_cons_succ, List.take_succ_cons, List.sum_cons]
      rw [gcGo_get bound s r j (by omega)]
      have h0 : (j + 1 == 0) = false := rfl
      rw [h0, Bool.false_or]
      congr 1

/-- hence the kept files are the newest `k` ones, for some `k ≥ 1`. -/
theorem gc_kept_is_prefix (bound : Nat) (sizes : List Nat) (h : sizes ≠ []) :
    ∃ k, 1 ≤ k ∧ k ≤ sizes.length ∧
      gcKeep bound sizes = List.replicate k true ++ List.replicate (sizes.length - k) false :=
  gcKeep_prefix bound sizes h

/-- **A larger bound never removes more**: a file kept under `b₁` is kept under every `b₂ ≥ b₁`. -/
theorem gc_monotone (b1 b2 : Nat) (hb : b1 ≤ b2) (sizes : List Nat) (i : Nat) (hi : i < sizes.length)
    (h : (gcKeep b1 sizes)[i]? = some true) : (gcKeep b2 sizes)[i]? = some true := by
  rw [gc_prefix b1 sizes i hi] at h
  rw [gc_prefix b2 sizes i hi]
  simp only [Option.some.injEq, Bool.or_eq_true, beq_iff_eq, decide_eq_true_eq] at h ⊢
  omega

/-- **A bound above the total size keeps every file**, a bound of 0 only the newest. -/
theorem gc_keeps_all (bound : Nat) (sizes : List Nat) (hb : sizes.sum < bound) (i : Nat) (hi : i < sizes.length) :
    (gcKeep bound sizes)[i]? = some true := by
  rw [gc_prefix bound sizes i hi]
  have h1 : (sizes.take (i + 1)).sum ≤ sizes.sum := by
    conv => rhs; rw [← List.take_append_drop (i + 1) sizes, List.sum_append]
    omega
  simp only [Option.some.injEq, Bool.or_eq_true, beq_iff_eq, decide_eq_true_eq]
  omega

theorem gc_zero_keeps_only_newest (sizes : List Nat) (i : Nat) (hi : i < sizes.length) :
    (gcKeep 0 sizes)[i]? = some (i == 0) := by
  rw [gc_prefix 0 sizes i hi]; simp

/-! ### non-vacuity -/

example : gcKeep 10 [3, 4, 5, 1, 0] = [true, true, false, false, false] := by decide
example : gcKeep 0 [3, 4] = [true, false] := by decide

/-- five messages of size 20 against a threshold of 100 with 40 bytes of header entries per file,
the clock standing still at 7, then a GC pass with bound 150: three files `7, 8, 9` holding
`[1,2] [3,4] [5]`; the oldest is removed, the last three messages remain. -/
example :
    let sz : Nat → Nat := fun m => if m = 1000 then 40 else 20
    let w (m : Nat) : Wr Nat := { msg := m, now0 := 7, hdrs0 := [1000], now1 := 7, hdrs1 := [1000] }
    let s := run sz 100 {} [.write (w 1), .write (w 2), .write (w 3), .write (w 4), .write (w 5)]
    s.files.map (·.stamp) = [9, 8, 7] ∧ readBack s = [1, 2, 3, 4, 5] ∧
    readBack (step sz 100 s (.gc 150)) = [3, 4, 5] := by decide

end Shk.C16
