import ShkModel.Model.Runner
import ShkModel.Lemmas.Life
/-!
# C07 — termination, cleanup, no process left behind: the command runner

The runner model is a finite transition system; every statement below is for **every** sequence
of events (output lines, the command closing its output, the command exiting, stop, cancel /
time-out, term, two seconds passing) in any order and of any length.  The proofs evaluate, in
the kernel, a closure certificate (the reachable set, closed under all events) per parameter
combination and lift it by `reach_sound`.
-/
namespace Shk.C07
open Shk.Runner

/-- a set that contains the initial state and is closed under every event contains every
state any event sequence leads to -/
theorem closed_sound (p : Params) (S : List St) (h : closed p S = true) (evs : List Ev) :
    run p evs ∈ S := by
  simp only [closed, Bool.and_eq_true, List.all_eq_true] at h
  obtain ⟨h0, hc⟩ := h
  have hall : ∀ e : Ev, e ∈ allEvents := by intro e; cases e <;> simp [allEvents]
  suffices ∀ (evs : List Ev) (s : St), s ∈ S → evs.foldl (step p) s ∈ S by
    exact this evs {} (by simpa using h0)
  intro evs
  induction evs with
  | nil => intro s hs; simpa using hs
  | cons e es ih =>
    intro s hs
    have := hc s hs e (hall e)
    exact ih _ (by simpa using this)

/-- a predicate that holds on a closed set holds after every event sequence -/
theorem inv_of_closed (p : Params) (P : St → Bool)
    (h : (closed p (reachable p) && (reachable p).all P) = true) (evs : List Ev) :
    P (run p evs) = true := by
  simp only [Bool.and_eq_true, List.all_eq_true] at h
  exact h.2 _ (closed_sound p _ h.1 evs)

theorem params_complete (p : Params) : p ∈ allParams := by
  obtain ⟨a, b, d⟩ := p
  cases a <;> cases b <;> cases d <;> decide

/-- the certificate: for the repaired runner, every reachable state satisfies the four
properties, for every parameter combination -/
theorem certificate :
    (allParams.filter (·.watcher)).all (fun p =>
      closed p (reachable p) && (reachable p).all fun s =>
        interruptReaches p s && killedAfterGrace p s && returnsAfterExit s && noLateSignal s) = true := by
  decide +kernel

private theorem cert_for (p : Params) (hw : p.watcher = true) :
    (closed p (reachable p) && (reachable p).all fun s =>
        interruptReaches p s && killedAfterGrace p s && returnsAfterExit s && noLateSignal s) = true := by
  have h := List.all_eq_true.mp certificate p (by simp [params_complete, hw])
  exact h

/-- **Whatever the command does with its output** (keeps it, closes it early as every action
and cleanup script does, …): once the stopper quiesces (interruptible commands), the context is
cancelled or its deadline passes (the 10 s cleanup time-out), or the prompter's termination
channel closes (spotlights), a command that is still running has had SIGHUP sent to its process
group (or was killed). -/
theorem interrupt_reaches_group (p : Params) (hw : p.watcher = true) (evs : List Ev) :
    interruptReaches p (run p evs) = true := by
  have := inv_of_closed p _ (cert_for p hw) evs
  simp only [Bool.and_eq_true] at this
  exact this.1.1.1

/-- … and it is killed once two seconds have passed since the SIGHUP. -/
theorem killed_after_grace (p : Params) (hw : p.watcher = true) (evs : List Ev) :
    killedAfterGrace p (run p evs) = true := by
  have := inv_of_closed p _ (cert_for p hw) evs
  simp only [Bool.and_eq_true] at this
  exact this.1.1.2

/-- the runner returns only after the process has exited and its output is closed -/
theorem returns_after_exit_and_eof (p : Params) (hw : p.watcher = true) (evs : List Ev) :
    returnsAfterExit (run p evs) = true := by
  have := inv_of_closed p _ (cert_for p hw) evs
  simp only [Bool.and_eq_true] at this
  exact this.1.2

/-- no signal is sent to a process (group) that has already exited -/
theorem no_signal_after_exit (p : Params) (hw : p.watcher = true) (evs : List Ev) :
    noLateSignal (run p evs) = true := by
  have := inv_of_closed p _ (cert_for p hw) evs
  simp only [Bool.and_eq_true] at this
  exact this.2

/-- second certificate, for every parameter combination (the pinned runner included): in every reachable state, the exit
of the whole process group makes the runner return; and while children of an exited shell hold the output the runner does
not return (it returns when they close it) -/
theorem certificate_exit :
    allParams.all (fun p =>
      closed p (reachable p) && (reachable p).all fun s =>
        (step p s .exit).phase == .returned &&
        (!(s.orphans && s.pipe) || s.phase != .returned)) = true := by
  decide +kernel

/-- **a command that exits ends the runner, whatever else happened before**: no event sequence keeps the runner of a
command whose whole process group is gone from returning -/
theorem exit_returns (p : Params) (evs : List Ev) : (run p (evs ++ [.exit])).phase = .returned := by
  have h := List.all_eq_true.mp certificate_exit p (params_complete p)
  have := inv_of_closed p _ h evs
  simp only [Bool.and_eq_true, beq_iff_eq] at this
  simp only [run, List.foldl_append, List.foldl_cons, List.foldl_nil]
  exact this.1

/-- … whereas a shell that exits while children it left in the background hold its output does not: the runner goes on
reading (and, since bfee10c, signals those children when it is asked to stop: `interrupt_reaches_group` counts them) -/
theorem orphans_keep_the_runner (p : Params) (evs : List Ev)
    (h : (run p evs).orphans = true ∧ (run p evs).pipe = true) : (run p evs).phase ≠ .returned := by
  have hc := List.all_eq_true.mp certificate_exit p (params_complete p)
  have := inv_of_closed p _ hc evs
  simp only [Bool.and_eq_true, Bool.or_eq_true, Bool.not_eq_true', bne_iff_ne, ne_eq, Bool.and_eq_false_iff] at this
  rcases this.2 with h' | h'
  · rcases h' with h' | h'
    · rw [h.1] at h'; cases h'
    · rw [h.2] at h'; cases h'
  · exact h'

example : (run ⟨true, true, true⟩ [.exitKeep]).orphans = true ∧ (run ⟨true, true, true⟩ [.exitKeep]).phase = .reading ∧
    (run ⟨true, true, true⟩ [.exitKeep, .term]).hup = true ∧
    (run ⟨true, true, true⟩ [.exitKeep, .term, .eof]).phase = .returned := by decide

/-- **The pinned code violated the property**: an action or cleanup script redirects its own
output (`exec >>x.log`), the pipe reaches EOF, the runner leaves both loops with
`interrupt = false`, and a later stop finds nobody listening. -/
theorem old_runner_deaf_after_eof :
    interruptReaches ⟨true, false, false⟩ (run ⟨true, false, false⟩ [.eof, .stop]) = false := by decide

/-- the same for the cleanup time-out (commands that are not interruptible by the stopper) -/
theorem old_runner_ignores_timeout :
    interruptReaches ⟨false, false, false⟩ (run ⟨false, false, false⟩ [.eof, .cancel]) = false := by decide

/-- non-vacuity: the repaired runner on the same histories -/
example : (run ⟨true, false, true⟩ [.eof, .stop]).hup = true := by decide
example : (run ⟨true, false, true⟩ [.eof, .stop, .twoSec]).killed = true := by decide
example : (run ⟨false, false, true⟩ [.eof, .cancel, .twoSec, .exit]).phase = .returned := by decide


/-! ## The life cycle around the body: cleanups run once before and once after, whatever happens -/

open Shk.Life

/-- **shape of every run**: the initial cleanups of all actors, then — only if all of them
succeeded — the body followed by the final cleanups of all actors; nothing else, in this order,
for every outcome of the body, every outcome of the cleanups and every signal. -/
theorem run_shape (s : Scenario) :
    (runConduct s).1 = initEvs s.cleanups.length ++
      (if allInitOk s then .body :: finalEvs s.cleanups.length else []) := by
  unfold runConduct conduct
  by_cases h : allInitOk s <;> simp [h]

/-- **cleanup once before**: every actor's cleanup command runs exactly once before the body -/
theorem init_cleanup_each_once (s : Scenario) (i : Nat) (hi : i < s.cleanups.length) :
    (runConduct s).1.count (.initCleanup i) = 1 := by
  rw [run_shape]
  by_cases h : allInitOk s
  · simp [h, List.count_append, List.count_cons, count_init, count_init_in_final, hi]
  · simp [h, count_init, hi]

/-- **… and once more after the last action**, provided the initial cleanups succeeded — also
when the body failed, when a final cleanup of another actor fails, and under every signal -/
theorem final_cleanup_each_once (s : Scenario) (i : Nat) (hi : i < s.cleanups.length) :
    (runConduct s).1.count (.finalCleanup i) = if allInitOk s then 1 else 0 := by
  rw [run_shape]
  by_cases h : allInitOk s
  · simp [h, List.count_append, List.count_cons, count_final, count_final_in_init, hi]
  · simp [h, count_final_in_init]

/-- a signal never changes which cleanups run -/
theorem signal_never_skips_cleanup (s : Scenario) (g : Option Sig) :
    (runConduct { s with sig := g }).1 = (runConduct s).1 := by
  simp [runConduct, conduct, allInitOk, allFinalOk]

/-- **exit status**: non-zero exactly when an initial cleanup failed, the body reported an error,
a final cleanup failed, or the play was interrupted by SIGINT (SIGTERM and SIGHUP by themselves
leave the status alone) -/
theorem exit_status (s : Scenario) :
    (runConduct s).2 = (!allInitOk s || s.bodyErr || !allFinalOk s || s.sig == some .int) := by
  unfold runConduct conduct
  by_cases h : allInitOk s <;> simp [h]

theorem sigterm_alone_is_success (s : Scenario) (h1 : allInitOk s = true) (h2 : s.bodyErr = false)
    (h3 : allFinalOk s = true) (h4 : s.sig = some .term) : (runConduct s).2 = false := by
  rw [exit_status]; simp [h1, h2, h3, h4]

/-- non-vacuity: two actors, SIGTERM, everything else fine: four cleanup runs around the body -/
example : runConduct ⟨[⟨true, true⟩, ⟨true, true⟩], false, some .term⟩ =
    ([.initCleanup 0, .initCleanup 1, .body, .finalCleanup 0, .finalCleanup 1], false) := by decide

/-- an initial cleanup fails: no body, no second round, error -/
example : runConduct ⟨[⟨true, true⟩, ⟨false, true⟩], false, none⟩ =
    ([.initCleanup 0, .initCleanup 1], true) := by decide

/-- witness for the interruptible-cleanup variant (the round-2 seed of C07): under a signal the
second round is lost -/
theorem interruptible_cleanup_loses_final :
    (runConductInterruptibleCleanup ⟨[⟨true, true⟩], false, some .term⟩).1.count (.finalCleanup 0) = 0 := by
  decide


end Shk.C07
