import ShkModel.Model.FuncSpec
/-! # C11 — collected and computed variables (theorems under construction) -/
namespace Shk.C11
open Shk Shk.FuncSpec

/-- `first N`: nil values are ignored -/
theorem first_nil (n : Nat) (a : List Sc) : collectStep .first n a .nil = some a := by
  simp [collectStep]

end Shk.C11
