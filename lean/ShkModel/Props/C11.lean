import ShkModel.Lemmas.Funcs
import ShkModel.Lemmas.AudVals
/-!
# C11 — collected and computed variables hold exactly what the clauses say

1. `collects … first|last|top|bottom N` = `collectSpec`, for every N ≥ 1, every value sequence and
   every split of the sequence; the spec's sort is a sorted permutation, so top/bottom are "the N
   largest, descending / N smallest, ascending".
2. the array functions meet `funcOk`; the scalar functions meet their definitions.
3. `computes` holds the latest non-nil value.
4. nothing but an assignment to the variable changes a computed / collected variable.
5. an assignment is visible to every later member of the same round.

Numbers are exact rationals (NaN / infinities are outside the model).
-/
namespace Shk.C11
open Shk Shk.FuncSpec Shk.Aud Shk.Sort Shk.Collect Shk.Funcs Shk.AudVals

/-! ## 1a. the specification's sort really sorts -/

/-- `sortAsc` returns an ascending list … -/
theorem sortAsc_sorted (l : List Rat) : (sortAsc l).Pairwise (· ≤ ·) := Sort.sortAsc_sorted l

/-- … that is a permutation of its input -/
theorem sortAsc_perm (l : List Rat) : (sortAsc l).Perm l := Sort.sortAsc_perm l

/-- `sortDesc` returns a descending permutation of its input -/
theorem sortDesc_sorted (l : List Rat) : (sortDesc l).Pairwise (· ≥ ·) := Sort.sortDesc_sorted l

theorem sortDesc_perm (l : List Rat) : (sortDesc l).Perm l := Sort.sortDesc_perm l

/-- and there is no other sorted permutation: `sortAsc l` is *the* ascending arrangement of `l` -/
theorem sortAsc_unique (l r : List Rat) (hs : r.Pairwise (· ≤ ·)) (hp : r.Perm l) : r = sortAsc l :=
  sorted_unique hs (Sort.sortAsc_sorted l) (hp.trans (Sort.sortAsc_perm l).symm)

example : [(1 : Rat), 2, 2].Pairwise (· ≤ ·) ∧ [(1 : Rat), 2, 2].Perm [2, 1, 2] := by decide

/-- `top N` keeps the N largest: every kept value dominates every dropped value -/
theorem top_kept_dominates (l : List Rat) (n : Nat) :
    ∀ a ∈ (sortDesc l).take n, ∀ b ∈ (sortDesc l).drop n, b ≤ a :=
  take_drop_rel (Sort.sortDesc_sorted l) n

/-- `bottom N` keeps the N smallest: every kept value is below every dropped value -/
theorem bottom_kept_dominates (l : List Rat) (n : Nat) :
    ∀ a ∈ (sortAsc l).take n, ∀ b ∈ (sortAsc l).drop n, a ≤ b :=
  take_drop_rel (Sort.sortAsc_sorted l) n

/-! ## 1b. the four aggregation modes

`collectRun m n a xs` (Lemmas/Collect) = the successive `collectStep m n` calls on `xs` from the
array `a`; `none` = one call reported an error. -/

/-- `first N`: exactly the first N non-nil values, for every N (N ≥ 1 included) and every sequence -/
theorem collect_first (n : Nat) (xs : List Sc) :
    collectRun .first n [] xs = some (collectSpec .first n xs) := by
  simpa [collectSpec] using
    run_of_step .first n (fun _ => True) (fun pre x _ => step_first n pre x) [] xs (fun _ _ => trivial)

/-- `last N`: exactly the last N non-nil values, for every N ≥ 1 -/
theorem collect_last (n : Nat) (hn : 1 ≤ n) (xs : List Sc) :
    collectRun .last n [] xs = some (collectSpec .last n xs) := by
  simpa [collectSpec] using
    run_of_step .last n (fun _ => True) (fun pre x _ => step_last n hn pre x) [] xs (fun _ _ => trivial)

/-- without `N ≥ 1` the `last` statement is false (the parser refuses `last 0`) -/
example : collectRun .last 0 [] [.num 1] ≠ some (collectSpec .last 0 [.num 1]) := by decide

/-- `top N`: the N largest values in descending order (booleans count as 0/1), provided no
value is a string -/
theorem collect_top (n : Nat) (xs : List Sc) (hxs : ∀ x ∈ xs, Sc.isStr x = false) :
    collectRun .top n [] xs = some (collectSpec .top n xs) := by
  simpa [collectSpec, numsOfAll, sortDesc, sortAsc] using
    run_of_step .top n (fun x => Sc.isStr x = false) (fun pre x hx => step_top n pre x hx) [] xs hxs

/-- `bottom N`: the N smallest values in ascending order, provided no value is a string -/
theorem collect_bottom (n : Nat) (xs : List Sc) (hxs : ∀ x ∈ xs, Sc.isStr x = false) :
    collectRun .bottom n [] xs = some (collectSpec .bottom n xs) := by
  simpa [collectSpec, numsOfAll, sortAsc] using
    run_of_step .bottom n (fun x => Sc.isStr x = false) (fun pre x hx => step_bottom n pre x hx) [] xs hxs

example : ∀ x ∈ [Sc.num 3, .nil, .bool true, .num (-7/2), .bool false], Sc.isStr x = false := by decide

example : collectRun .top 2 [] [.num 3, .nil, .bool true, .num (-7/2), .num 5] = some [.num 5, .num 3] := by
  decide +kernel

/-- a string makes the `top` / `bottom` call return the error of the code, for every array … -/
theorem collect_top_string_step (n : Nat) (a : List Sc) (s : String) :
    collectStep .top n a (.str s) = none ∧ collectStep .bottom n a (.str s) = none := ⟨rfl, rfl⟩

/-- … hence the guard of `collect_top` / `collect_bottom` is exact: the run succeeds iff no value is a
string -/
theorem collect_top_ok_iff (n : Nat) (xs : List Sc) :
    (collectRun .top n [] xs).isSome = true ↔ ∀ x ∈ xs, Sc.isStr x = false := by
  constructor
  · intro h x hx
    cases x with
    | str s => rw [run_none_of_str .top (.inl rfl) n [] xs s hx] at h; cases h
    | _ => rfl
  · intro h; rw [collect_top n xs h]; rfl

theorem collect_bottom_ok_iff (n : Nat) (xs : List Sc) :
    (collectRun .bottom n [] xs).isSome = true ↔ ∀ x ∈ xs, Sc.isStr x = false := by
  constructor
  · intro h x hx
    cases x with
    | str s => rw [run_none_of_str .bottom (.inr rfl) n [] xs s hx] at h; cases h
    | _ => rfl
  · intro h; rw [collect_bottom n xs h]; rfl

/-- `top N` spelled out without reference to any sorting function: the result is a descending list
`K` of `min N (number of values)` numbers that, together with some rest `D`, is a rearrangement of
the numeric values produced, every element of `K` dominating every element of `D`. -/
theorem collect_top_char (n : Nat) (xs : List Sc) (hxs : ∀ x ∈ xs, Sc.isStr x = false) :
    ∃ K D : List Rat, collectRun .top n [] xs = some (K.map Sc.num) ∧
      K.Pairwise (· ≥ ·) ∧ (K ++ D).Perm (numsOfAll xs) ∧
      K.length = min n (numsOfAll xs).length ∧ ∀ a ∈ K, ∀ b ∈ D, b ≤ a := by
  refine ⟨(sortDesc (numsOfAll xs)).take n, (sortDesc (numsOfAll xs)).drop n,
    collect_top n xs hxs, ?_, ?_, ?_, top_kept_dominates _ n⟩
  · exact (Sort.sortDesc_sorted _).sublist (List.take_sublist _ _)
  · rw [List.take_append_drop]; exact Sort.sortDesc_perm _
  · rw [List.length_take, sortDesc_length]

theorem collect_bottom_char (n : Nat) (xs : List Sc) (hxs : ∀ x ∈ xs, Sc.isStr x = false) :
    ∃ K D : List Rat, collectRun .bottom n [] xs = some (K.map Sc.num) ∧
      K.Pairwise (· ≤ ·) ∧ (K ++ D).Perm (numsOfAll xs) ∧
      K.length = min n (numsOfAll xs).length ∧ ∀ a ∈ K, ∀ b ∈ D, a ≤ b := by
  refine ⟨(sortAsc (numsOfAll xs)).take n, (sortAsc (numsOfAll xs)).drop n,
    collect_bottom n xs hxs, ?_, ?_, ?_, bottom_kept_dominates _ n⟩
  · exact (Sort.sortAsc_sorted _).sublist (List.take_sublist _ _)
  · rw [List.take_append_drop]; exact Sort.sortAsc_perm _
  · rw [List.length_take, sortAsc_length]

/-- under the guard the values entering `top` / `bottom` are exactly the numeric views of the non-nil
elements: nothing is lost by `numsOfAll`'s `filterMap` -/
theorem numsOfAll_complete (xs : List Sc) (hxs : ∀ x ∈ xs, Sc.isStr x = false) :
    (nonNil xs).mapM Sc.numOf = some (numsOfAll xs) := by
  have h := (numsOf_isSome_iff xs).2 hxs
  cases hn : numsOf xs with
  | none => rw [hn] at h; cases h
  | some ns => rw [← numsOf_def, hn, numsOf_eq_numsOfAll hn]

/-- every split of the sequence into activation periods: continuing from the value held after `pre`
with the values `xs` of a later period gives the value for `pre ++ xs` -/
theorem collect_split (m : Mode) (n : Nat) (hn : 1 ≤ n) (pre xs : List Sc)
    (hxs : m = .top ∨ m = .bottom → ∀ x ∈ xs, Sc.isStr x = false) :
    collectRun m n (collectSpec m n pre) xs = some (collectSpec m n (pre ++ xs)) := by
  cases m with
  | single =>
    induction xs with
    | nil => simp [collectSpec]
    | cons x xs ih => simpa [collectSpec, collectStep] using ih (by simp)
  | first => exact run_of_step .first n (fun _ => True) (fun p x _ => step_first n p x) pre xs (fun _ _ => trivial)
  | last => exact run_of_step .last n (fun _ => True) (fun p x _ => step_last n hn p x) pre xs (fun _ _ => trivial)
  | top => exact run_of_step .top n _ (fun p x hx => step_top n p x hx) pre xs (hxs (.inl rfl))
  | bottom => exact run_of_step .bottom n _ (fun p x hx => step_bottom n p x hx) pre xs (hxs (.inr rfl))

/-- and the run itself does not care where the sequence is cut -/
theorem collect_periods (m : Mode) (n : Nat) (a : List Sc) (xs ys : List Sc) :
    collectRun m n a (xs ++ ys) = (collectRun m n a xs).bind fun a' => collectRun m n a' ys :=
  run_append m n a xs ys

/-- invariant: the array never exceeds N elements — for the specified value … -/
theorem collect_length_spec (m : Mode) (n : Nat) (xs : List Sc) : (collectSpec m n xs).length ≤ n :=
  spec_length m n xs

/-- … and for every run from every array within the bound -/
theorem collect_length (m : Mode) (n : Nat) (hn : 1 ≤ n) (a l : List Sc) (xs : List Sc)
    (ha : a.length ≤ n) (h : collectRun m n a xs = some l) : l.length ≤ n :=
  run_length m n hn a l xs ha h

example : collectRun .bottom 2 [.num 1] [.num 3, .num 0, .nil] = some [.num 0, .num 1] := by
  decide +kernel

/-! ## 2. the functions -/

/-- every array function of the model meets its specification, on every argument list
(for `sum avg med min max sorted` the specification speaks about string-free arguments only;
`sorted_spec` below states that case in full) -/
theorem callFn_ok (f : String) (args : List Sc) (r : Val) (h : callFn f args = .ok r) :
    funcOk f args r = true := by
  unfold funcOk
  split
  · -- count
    simp [callFn] at h; subst h; simp
  · simp [callFn] at h; subst h; simp
  · simp [callFn] at h; subst h; simp
  · -- sum
    simp only [callFn, numsOf_def] at h
    simp only []
    split at h
    · cases h
    · rename_i e; rw [e]; simp at h; subst h; simp
    · rename_i ns hne e; rw [e]; simp at h; subst h
      cases ns with
      | nil => exact absurd rfl hne
      | cons a t => simp [ratSum_eq]
  · -- avg
    simp only [callFn, numsOf_def] at h
    simp only []
    split at h
    · cases h
    · rename_i e; rw [e]; simp at h; subst h; simp
    · rename_i ns hne e; rw [e]; simp at h; subst h
      cases ns with
      | nil => exact absurd rfl hne
      | cons a t => simp [ratSum_eq]
  · -- average
    simp only [callFn, numsOf_def] at h
    simp only []
    split at h
    · cases h
    · rename_i e; rw [e]; simp at h; subst h; simp
    · rename_i ns hne e; rw [e]; simp at h; subst h
      cases ns with
      | nil => exact absurd rfl hne
      | cons a t => simp [ratSum_eq]
  · -- min
    simp only [callFn, numsOf_def] at h
    simp only []
    split at h
    · cases h
    · rename_i e; rw [e]; simp at h; subst h; simp
    · rename_i n ns e; rw [e]; simp at h; subst h
      have h1 := foldl_min_mem n ns
      have h2 := foldl_min_le n ns
      simp only [List.mem_cons] at h1
      simp only [List.contains_eq_mem, List.mem_cons, Bool.and_eq_true, decide_eq_true_eq,
        List.all_eq_true]
      exact ⟨h1, fun x hx => h2 x (List.mem_cons.2 hx)⟩
  · -- max
    simp only [callFn, numsOf_def] at h
    simp only []
    split at h
    · cases h
    · rename_i e; rw [e]; simp at h; subst h; simp
    · rename_i n ns e; rw [e]; simp at h; subst h
      have h1 := foldl_max_mem n ns
      have h2 := foldl_max_ge n ns
      simp only [List.mem_cons] at h1
      simp only [List.contains_eq_mem, List.mem_cons, Bool.and_eq_true, decide_eq_true_eq,
        List.all_eq_true]
      exact ⟨h1, fun x hx => h2 x (List.mem_cons.2 hx)⟩
  · -- med
    simp only [callFn, numsOf_def] at h
    simp only []
    split at h
    · cases h
    · rename_i e; rw [e]; simp at h; subst h; simp
    · rename_i ns hne e; rw [e]
      have hne' : ns ≠ [] := hne
      have hm := isMedian_medOf ns hne'
      cases ns with
      | nil => exact absurd rfl hne'
      | cons a t =>
        simp only []
        have : r = .sc (.num (medOf (sortAsc (a :: t)))) := by
          simp only [medOf]; split at h <;> rename_i hp <;> simp [hp] at h ⊢ <;> exact h.symm
        subst this; exact hm
  · -- median
    simp only [callFn, numsOf_def] at h
    simp only []
    split at h
    · cases h
    · rename_i e; rw [e]; simp at h; subst h; simp
    · rename_i ns hne e; rw [e]
      have hne' : ns ≠ [] := hne
      have hm := isMedian_medOf ns hne'
      cases ns with
      | nil => exact absurd rfl hne'
      | cons a t =>
        simp only []
        have : r = .sc (.num (medOf (sortAsc (a :: t)))) := by
          simp only [medOf]; split at h <;> rename_i hp <;> simp [hp] at h ⊢ <;> exact h.symm
        subst this; exact hm
  · -- sorted
    simp only [callFn] at h
    simp only []
    cases hn : numsOf args with
    | none => rw [← numsOf_def, hn]
    | some ns =>
      rw [← numsOf_def, hn]
      split at h
      · rename_i he
        have : args = [] := by simpa using he
        subst this; simp at hn; subst hn; simp at h; subst h; simp
      · simp at h; subst h
        have hs := numsOf_sortSc hn
        cases ns with
        | nil =>
          simp only []
          have := numsOf_length hs
          simp [sortAsc] at this
          have hnil : nonNil (sortSc args) = [] := List.length_eq_zero_iff.1 this.symm
          simp [hnil]
        | cons a t =>
          simp only []
          rw [← numsOf_def, hs]
          simp only [Bool.and_eq_true]
          exact ⟨(isSortedAsc_iff _).2 (Sort.sortAsc_sorted _), (sameElems_iff _ _).2 (Sort.sortAsc_perm _)⟩
  · rfl

/-- the boolean predicates used by `funcOk "sorted"` mean "ascending" and "same multiset" -/
theorem funcOk_sorted_meaning (a b : List Rat) :
    (isSortedAsc a = true ↔ a.Pairwise (· ≤ ·)) ∧ (sameElems a b = true ↔ a.Perm b) :=
  ⟨isSortedAsc_iff a, sameElems_iff a b⟩

/-- `isMedian` is about the unique sorted arrangement: with `s` the ascending permutation of `xs`,
`r` is the middle element (odd length) or the mean of the two middle elements (even length) -/
theorem isMedian_meaning (r : Rat) (xs s : List Rat) (hs : s.Pairwise (· ≤ ·)) (hp : s.Perm xs) :
    isMedian r xs = true ↔
      (s.length % 2 = 1 ∧ s[(s.length - 1) / 2]? = some r) ∨
      (s.length % 2 = 0 ∧ ∃ a b, s[s.length / 2 - 1]? = some a ∧ s[s.length / 2]? = some b ∧
        r = (a + b) / 2) := by
  rw [sortAsc_unique xs s hs hp]
  simp only [isMedian]
  generalize sortAsc xs = t
  by_cases hpar : t.length % 2 = 1
  · simp [hpar]
    exact eq_comm
  · have h0 : t.length % 2 = 0 := by omega
    simp only [h0, Nat.zero_ne_one, false_and, true_and, false_or]
    simp only [show ((0 : Nat) == 1) = false from rfl, Bool.false_eq_true, if_false]
    cases t[t.length / 2 - 1]? <;> cases t[t.length / 2]? <;> simp

/-- `sorted` in full, on arguments whose non-nil elements are numbers or booleans (`numsOf` succeeds):
the result is an array, a permutation of the arguments, whose numeric view is the ascending
arrangement of the numeric view of the arguments (nils come first and are ignored by the view). -/
theorem sorted_spec (args : List Sc) (ns : List Rat) (hne : args ≠ []) (hn : numsOf args = some ns) :
    ∃ r, callFn "sorted" args = .ok (.arr r) ∧ r.Perm args ∧
      ∃ rs, numsOf r = some rs ∧ rs.Pairwise (· ≤ ·) ∧ rs.Perm ns := by
  refine ⟨sortSc args, ?_, sortSc_perm args, sortAsc ns, numsOf_sortSc hn,
    Sort.sortAsc_sorted ns, Sort.sortAsc_perm ns⟩
  cases args with
  | nil => exact absurd rfl hne
  | cons a t => simp [callFn]

example : numsOf [.num 3, .nil, .bool true, .num (1/2)] = some [3, 1, 1/2] := by decide +kernel

/-- the guard of `sorted_spec` says exactly: no string among the arguments -/
theorem numsOf_guard (args : List Sc) :
    (∃ ns, numsOf args = some ns) ↔ ∀ x ∈ args, Sc.isStr x = false := by
  rw [← numsOf_isSome_iff, Option.isSome_iff_exists]

/-- empty or all-nil input: `count` is 0, every other array function is nil (`sorted` of a non-empty
all-nil list returns those nils, i.e. an array without non-nil element) -/
theorem callFn_empty (args : List Sc) (h : nonNil args = []) :
    callFn "count" args = .ok (.sc (.num 0)) ∧
    (∀ f ∈ ["first", "last", "sum", "avg", "average", "med", "median", "min", "max"],
      callFn f args = .ok (.sc .nil)) ∧
    (args = [] → callFn "sorted" args = .ok (.sc .nil)) ∧
    (args ≠ [] → ∃ r, callFn "sorted" args = .ok (.arr r) ∧ nonNil r = []) := by
  refine ⟨by simp [callFn, h], ?_, ?_, ?_⟩
  · intro f hf
    simp only [List.mem_cons, List.not_mem_nil, or_false] at hf
    rcases hf with rfl | rfl | rfl | rfl | rfl | rfl | rfl | rfl | rfl <;> simp [callFn, numsOf, h]
  · rintro rfl; rfl
  · intro hne
    refine ⟨sortSc args, ?_, ?_⟩
    · cases args with
      | nil => exact absurd rfl hne
      | cons a t => simp [callFn]
    · apply List.eq_nil_iff_forall_not_mem.2
      intro x hx
      rw [mem_nonNil, (sortSc_perm args).mem_iff] at hx
      have : x ∈ nonNil args := mem_nonNil.2 hx
      rw [h] at this; cases this

example : nonNil [Sc.nil, .nil] = [] := by decide

/-- explicit values, for reference: over the numeric view `ns ≠ []` of the non-nil arguments -/
theorem callFn_values (args : List Sc) (n : Rat) (ns : List Rat) (hn : numsOf args = some (n :: ns)) :
    callFn "count" args = .ok (.sc (.num ((n :: ns).length : Nat))) ∧
    callFn "sum" args = .ok (.sc (.num ((n :: ns).foldr (· + ·) 0))) ∧
    callFn "avg" args = .ok (.sc (.num ((n :: ns).foldr (· + ·) 0 / ((n :: ns).length : Nat)))) ∧
    (∃ v, callFn "min" args = .ok (.sc (.num v)) ∧ v ∈ n :: ns ∧ ∀ x ∈ n :: ns, v ≤ x) ∧
    (∃ v, callFn "max" args = .ok (.sc (.num v)) ∧ v ∈ n :: ns ∧ ∀ x ∈ n :: ns, x ≤ v) ∧
    (∃ v, callFn "med" args = .ok (.sc (.num v)) ∧ isMedian v (n :: ns) = true) := by
  refine ⟨?_, ?_, ?_, ⟨_, ?_, foldl_min_mem n ns, foldl_min_le n ns⟩,
    ⟨_, ?_, foldl_max_mem n ns, foldl_max_ge n ns⟩, ⟨medOf (sortAsc (n :: ns)), ?_,
      isMedian_medOf _ (by simp)⟩⟩
  · simp [callFn, ← numsOf_length hn]
  · simp [callFn, hn, ratSum_eq]
  · simp [callFn, hn, ratSum_eq]
  · simp [callFn, hn]
  · simp [callFn, hn]
  · simp only [callFn, hn, medOf]; split <;> rfl

/-! ### scalar functions -/

/-- `abs ceil floor round` of nil (or of nothing) is nil; of a number, the mathematical value:
`abs x` is non-negative and `±x`; `floor x` / `ceil x` are the integers with
`floor x ≤ x < floor x + 1`, `ceil x - 1 < x ≤ ceil x`. -/
theorem scalar_nil (f : String) (hf : f ∈ ["abs", "ceil", "floor", "round"]) :
    callFn f [] = .ok (.sc .nil) ∧ callFn f [.nil] = .ok (.sc .nil) := by
  simp only [List.mem_cons, List.not_mem_nil, or_false] at hf
  rcases hf with rfl | rfl | rfl | rfl <;> exact ⟨rfl, rfl⟩

theorem abs_spec (x : Rat) :
    ∃ r, callFn "abs" [.num x] = .ok (.sc (.num r)) ∧ 0 ≤ r ∧ (r = x ∨ r = -x) ∧ (0 ≤ x → r = x) := by
  refine ⟨if 0 ≤ x then x else -x, by simp [callFn, scalarFn], ?_, ?_, ?_⟩
  · split
    · assumption
    · rename_i h
      have := Rat.not_le.1 h
      simpa using Rat.neg_le_neg (Rat.le_of_lt this)
  · split <;> simp
  · intro h; simp [h]

theorem floor_spec (x : Rat) :
    ∃ k : Int, callFn "floor" [.num x] = .ok (.sc (.num k)) ∧ (k : Rat) ≤ x ∧ x < ((k + 1 : Int) : Rat) :=
  ⟨x.floor, by simp [callFn, scalarFn], Rat.floor_le x, Rat.lt_floor_add_one x⟩

theorem ceil_spec (x : Rat) :
    ∃ k : Int, callFn "ceil" [.num x] = .ok (.sc (.num k)) ∧ x ≤ (k : Rat) ∧ (k : Rat) < x + 1 :=
  ⟨x.ceil, by simp [callFn, scalarFn], Rat.le_ceil, Rat.ceil_lt⟩

/-- `round` is the nearest integer, halves away from zero -/
theorem round_spec (x : Rat) :
    ∃ k : Int, callFn "round" [.num x] = .ok (.sc (.num k)) ∧
      (0 ≤ x → x - 1/2 < (k : Rat) ∧ (k : Rat) ≤ x + 1/2) ∧
      (x < 0 → x - 1/2 ≤ (k : Rat) ∧ (k : Rat) < x + 1/2) := by
  by_cases h : 0 ≤ x
  · refine ⟨(x + 1/2).floor, by simp [callFn, scalarFn, roundHalfAway, h], ?_, ?_⟩
    · intro _
      have h1 := Rat.floor_le (x + 1/2)
      have h2 := Rat.lt_floor_add_one (x + 1/2)
      rw [Rat.intCast_add] at h2
      constructor <;> grind
    · intro h'; exact absurd h (Rat.not_le.2 h')
  · refine ⟨-((-x) + 1/2).floor, by simp [callFn, scalarFn, roundHalfAway, h], ?_, ?_⟩
    · intro h'; exact absurd h' h
    · intro _
      have h1 := Rat.floor_le (-x + 1/2)
      have h2 := Rat.lt_floor_add_one (-x + 1/2)
      rw [Rat.intCast_add] at h2
      rw [Rat.intCast_neg]
      constructor <;> grind

/-! ## 3. `computes` -/

/-- the assignment of a `computes` clause when everything is in order: it is `setAndActivateVar` -/
theorem assignOne_single (c : Cfg) (ts : Rat) (s : St) (a : Assign) (v : Val)
    (hab : s.abort = none) (hd : hasDeps s a.expr = true) (he : eval s.vals a.expr = .ok v)
    (hm : a.mode = .single) :
    assignOne c ts s a = setVar c s ts (valTyp v) ⟨"", a.target⟩ v true := by
  unfold assignOne; simp [hab, hd, he, hm]

/-- `computes`: a non-nil result `v` is what the variable holds afterwards, the variable is
marked activated, and no other variable changes; a nil result, or unsatisfied dependencies, leave
the whole state (hence the previous value) untouched. -/
theorem computes_latest (c : Cfg) (ts : Rat) (s : St) (a : Assign) (hm : a.mode = .single)
    (hab : s.abort = none) :
    (∀ v, hasDeps s a.expr = true → eval s.vals a.expr = .ok v → v.isNil = false →
        (assignOne c ts s a).vals ⟨"", a.target⟩ = v ∧
        (assignOne c ts s a).activated ⟨"", a.target⟩ = true ∧
        (assignOne c ts s a).abort = none) ∧
    (∀ v, hasDeps s a.expr = true → eval s.vals a.expr = .ok v → v.isNil = true →
        assignOne c ts s a = s) ∧
    (hasDeps s a.expr = false → assignOne c ts s a = s) ∧
    (∀ w, w ≠ ⟨"", a.target⟩ → (assignOne c ts s a).vals w = s.vals w) := by
  refine ⟨?_, ?_, ?_, ?_⟩
  · intro v hd he hv
    rw [assignOne_single c ts s a v hab hd he hm, setVar_vals _ _ _ _ _ _ _ hv,
      setVar_activated _ _ _ _ _ _ _ hv, setVar_abort]
    simp [hab]
  · intro v hd he hv
    rw [assignOne_single c ts s a v hab hd he hm, setVar_nil _ _ _ _ _ _ _ hv]
  · intro hd; unfold assignOne; simp [hab, hd]
  · intro w hw
    exact (assignOne_ext (· = (⟨"", a.target⟩ : VarName)) c ts s a rfl).vals w hw

/-- over any sequence of results `vs` (with their time stamps) written to a variable `x`, the
variable ends up holding the latest non-nil one, or its old value if there is none -/
theorem computes_holds_latest (c : Cfg) (x : VarName) (s : St) (vs : List (Rat × Val)) :
    (vs.foldl (fun st p => setVar c st p.1 (valTyp p.2) x p.2 true) s).vals x =
      (((vs.map (·.2)).reverse.find? fun v => !v.isNil).getD (s.vals x)) := by
  induction vs generalizing s with
  | nil => rfl
  | cons p vs ih =>
    rw [List.foldl_cons, ih]
    simp only [List.map_cons, List.reverse_cons, List.find?_append]
    cases hf : List.find? (fun v => !v.isNil) (List.map (·.2) vs).reverse with
    | some w => simp
    | none =>
      simp only [Option.getD_none, Option.none_or, List.find?_cons, List.find?_nil]
      cases hv : p.2.isNil with
      | true => simp [setVar_nil _ _ _ _ _ _ _ hv]
      | false => simp [setVar_vals _ _ _ _ _ _ _ hv]

/-- a state and a clause that satisfy the hypotheses of `computes_latest` / `visible_same_round`:
`x computes t + 1` at a moment where `t = 2` is known -/
def exS : St := { activated := fun _ => true, vals := fun _ => .sc (.num 2) }
def exA : Assign := ⟨"x", .bin .add (.var ⟨"", "t"⟩) (.lit (.num 1)), .single, 1⟩

example : exS.abort = none ∧ hasDeps exS exA.expr = true ∧
    eval exS.vals exA.expr = .ok (.sc (.num 3)) ∧ (Val.sc (.num 3)).isNil = false ∧
    exA.mode = .single := by decide +kernel

/-! ### the `collects` assignment keeps "holds the specified value of the history" -/

/-- if a `collects` variable holds the specified value for the history `xs` of its expression and
the expression now yields the scalar `x` (not a string for top/bottom), then after the assignment
it holds the specified value for `xs ++ [x]` — the induction step over any run of the audition,
whatever happens in between (section 4) and however the history is cut into periods. -/
theorem collects_step (c : Cfg) (ts : Rat) (s : St) (a : Assign) (xs : List Sc) (x : Sc)
    (hm : a.mode ≠ .single) (hn : 1 ≤ a.n) (hab : s.abort = none) (hd : hasDeps s a.expr = true)
    (he : eval s.vals a.expr = .ok (.sc x))
    (hx : a.mode = .top ∨ a.mode = .bottom → Sc.isStr x = false)
    (hinv : curArray (s.vals ⟨"", a.target⟩) = collectSpec a.mode a.n xs) :
    (assignOne c ts s a).vals ⟨"", a.target⟩ = .arr (collectSpec a.mode a.n (xs ++ [x])) ∧
    (assignOne c ts s a).activated ⟨"", a.target⟩ = true ∧
    (assignOne c ts s a).abort = none := by
  have hstep : collectStep a.mode a.n (collectSpec a.mode a.n xs) x
      = some (collectSpec a.mode a.n (xs ++ [x])) := by
    have := collect_split a.mode a.n hn xs [x] (by
      intro h y hy; simp at hy; subst hy; exact hx h)
    simpa [collectRun_cons] using this
  have : assignOne c ts s a =
      setVar c s ts .event ⟨"", a.target⟩ (.arr (collectSpec a.mode a.n (xs ++ [x]))) true := by
    unfold assignOne
    simp only [hab, hd, he, hinv, hstep]
    cases hmode : a.mode <;> simp_all
  rw [this, setVar_vals _ _ _ _ _ _ _ rfl, setVar_activated _ _ _ _ _ _ _ rfl, setVar_abort]
  simp [hab]

/-- the invariant holds at the start (an unassigned variable is nil) and reads back unchanged -/
theorem collects_init (m : Mode) (n : Nat) : curArray (.sc .nil) = collectSpec m n [] := by
  cases m <;> simp [curArray, collectSpec, numsOfAll, sortDesc, sortAsc]

theorem curArray_arr (l : List Sc) : curArray (.arr l) = l := rfl

/-- a string reaching `top` / `bottom` is the code's evaluation error -/
theorem collects_string (c : Cfg) (ts : Rat) (s : St) (a : Assign) (str : String)
    (hm : a.mode = .top ∨ a.mode = .bottom) (hab : s.abort = none) (hd : hasDeps s a.expr = true)
    (he : eval s.vals a.expr = .ok (.sc (.str str))) :
    (assignOne c ts s a).abort = some .evalError ∧ (assignOne c ts s a).vals = s.vals := by
  unfold assignOne
  rcases hm with hm | hm <;> simp [hab, hd, he, hm, collectStep, Sc.numOf]

/-! ## 4. persistence -/

/-- the period brackets do not touch any variable -/
theorem startPeriod_vals (s : St) (m : Member) : (startPeriod s m).vals = s.vals := rfl

theorem endPeriod_vals (s : St) (ts : Rat) (m : Member) : (endPeriod s ts m).vals = s.vals := by
  unfold endPeriod
  split
  · rfl
  · unfold stopPeriod endJudge
    cases m.expect <;> rfl

/-- nor does the evaluation of the `expects` predicate -/
theorem checkExpect_vals (s : St) (ts : Rat) (m : Member) : (checkExpect s ts m).vals = s.vals := by
  funext w; exact (checkExpect_ext (fun _ => False) s ts m).vals w id

/-- the head of a round assigns only `t`, `mood`, `moodt` and the round's samples: every other
variable — in particular every computed / collected variable — keeps its value -/
theorem beginRound_keeps (c : Cfg) (ts : Rat) (samples : List Sample) (s : St) (w : VarName)
    (ht : w ≠ ⟨"", "t"⟩) (hm : w ≠ ⟨"", "mood"⟩) (hmt : w ≠ ⟨"", "moodt"⟩)
    (hs : ∀ x ∈ samples, x.v ≠ w) : (beginRound c ts samples s).vals w = s.vals w :=
  beginRound_vals c ts samples s w ht hm hmt hs

/-- a member's visit (period start, inside, closing round, or no period at all) changes a variable
only through that member's own assignments to it -/
theorem visit_keeps (c : Cfg) (final : Bool) (ts : Rat) (s : St) (m : Member) (w : VarName)
    (hw : ∀ a ∈ m.assigns, w ≠ ⟨"", a.target⟩) : (visit c final ts s m).vals w = s.vals w :=
  (visit_ext (fun v => ∃ a ∈ m.assigns, v = ⟨"", a.target⟩) c final ts s m
    (fun a ha => ⟨a, ha, rfl⟩)).vals w (fun ⟨a, ha, e⟩ => hw a ha e)

/-- while a member is outside an activation period and its condition is false (or the final round
comes), its visit changes nothing at all: what it collected stays -/
theorem visit_inactive (c : Cfg) (final : Bool) (ts : Rat) (s : St) (m : Member)
    (hcond : condOf final s m = some (.ok false) ∨ condOf final s m = none)
    (hna : (s.aud m.name).auditing = false) : visit c final ts s m = s := by
  unfold visit
  rcases hcond with h | h <;> simp [h, hna]

/-- a whole round: a variable that is neither `t`/`mood`/`moodt`, nor sampled in this round, nor
the target of a clause of a member, keeps its value; and a variable that is a target changes only
through `assignOne` on it (`visit_keeps`). -/
theorem persist_across_periods (c : Cfg) (final : Bool) (ts : Rat) (samples : List Sample) (s : St)
    (w : VarName) (ht : w ≠ ⟨"", "t"⟩) (hm : w ≠ ⟨"", "mood"⟩) (hmt : w ≠ ⟨"", "moodt"⟩)
    (hs : ∀ x ∈ samples, x.v ≠ w) (hw : ∀ m ∈ c.members, ∀ a ∈ m.assigns, w ≠ ⟨"", a.target⟩) :
    (round c final ts samples s).vals w = s.vals w := by
  rw [round_eq]; split
  · rfl
  · rw [(roundFold_ext (fun v => ∃ m ∈ c.members, ∃ a ∈ m.assigns, v = ⟨"", a.target⟩) c final ts _
      c.members (fun m hm a ha => ⟨m, hm, a, ha, rfl⟩)).vals w
        (fun ⟨m, hm, a, ha, e⟩ => hw m hm a ha e)]
    exact beginRound_vals c ts samples s w ht hm hmt hs

/-- the members of a round other than the owners of the variable leave it alone: across the rounds in
which its auditor is not visited or is inactive, a collected variable keeps its value -/
theorem persist_other_members (c : Cfg) (final : Bool) (ts : Rat) (s : St) (ms : List Member)
    (w : VarName) (hw : ∀ m ∈ ms, ∀ a ∈ m.assigns, w ≠ ⟨"", a.target⟩) :
    (ms.foldl (roundStep c final ts) s).vals w = s.vals w :=
  (roundFold_ext (fun v => ∃ m ∈ ms, ∃ a ∈ m.assigns, v = ⟨"", a.target⟩) c final ts s ms
    (fun m hm a ha => ⟨m, hm, a, ha, rfl⟩)).vals w (fun ⟨m, hm, a, ha, e⟩ => hw m hm a ha e)

/-- **keeps its value across activation periods** — for a computed / collected variable itself (the statement
`persist_across_periods` above is about variables nobody assigns).  Let `w` be assigned by the member `m0` only
(`pre` and `post` are the other members, before and after it in the audience).  In a round in which `m0` is dormant when
its turn comes — it is not visited, or it is outside a period and its `audits` condition is false, cannot be evaluated yet,
or the round is the final one — `w` has the same value after the round as before it: whatever the other members do, whatever
samples arrive.  Together with `collects_step` (what a visit inside a period does to it) this is the whole life of the
variable. -/
theorem persists_while_dormant (c : Cfg) (final : Bool) (ts : Rat) (samples : List Sample) (s : St)
    (pre post : List Member) (m0 : Member) (w : VarName)
    (hc : c.members = pre ++ m0 :: post)
    (ht : w ≠ ⟨"", "t"⟩) (hm : w ≠ ⟨"", "mood"⟩) (hmt : w ≠ ⟨"", "moodt"⟩) (hs : ∀ x ∈ samples, x.v ≠ w)
    (hpre : ∀ m ∈ pre, ∀ a ∈ m.assigns, w ≠ ⟨"", a.target⟩)
    (hpost : ∀ m ∈ post, ∀ a ∈ m.assigns, w ≠ ⟨"", a.target⟩)
    (hdorm : let s1 := pre.foldl (roundStep c final ts) (beginRound c ts samples s)
             visited final s1 m0 = false ∨
             ((s1.aud m0.name).auditing = false ∧
               (condOf final s1 m0 = some (.ok false) ∨ condOf final s1 m0 = none))) :
    (round c final ts samples s).vals w = s.vals w := by
  rw [round_eq]; split
  · rfl
  · rw [hc, List.foldl_append, List.foldl_cons, persist_other_members c final ts _ post w hpost]
    have hstep : roundStep c final ts (pre.foldl (roundStep c final ts) (beginRound c ts samples s)) m0
        = pre.foldl (roundStep c final ts) (beginRound c ts samples s) := by
      simp only at hdorm
      generalize pre.foldl (roundStep c final ts) (beginRound c ts samples s) = s1 at hdorm ⊢
      unfold roundStep
      rcases hdorm with h | ⟨hna, hcond⟩
      · simp [h]
      · split
        · exact visit_inactive c final ts _ m0 hcond hna
        · rfl
    rw [hstep, persist_other_members c final ts _ pre w hpre]
    exact beginRound_vals c ts samples s w ht hm hmt hs

/-- the dormancy premise is met, e.g., by every member outside a period in the final round -/
example (s : St) (m : Member) : condOf true s m = some (.ok false) := by simp [condOf]

example : (⟨"", "x"⟩ : VarName) ≠ ⟨"", "t"⟩ ∧ (⟨"", "x"⟩ : VarName) ≠ ⟨"", "mood"⟩ ∧
    (⟨"", "x"⟩ : VarName) ≠ ⟨"", "moodt"⟩ ∧
    ∀ x ∈ [(⟨.scalar, ⟨"a", "sig"⟩, .sc (.num 1)⟩ : Sample)], x.v ≠ ⟨"", "x"⟩ := by decide

/-! ## 5. visibility inside the round -/

/-- right after a successful assignment (non-nil result `v`) of `x` by a `computes` clause:
`x` is activated and holds `v`; any expression whose only dependency is `x` has its dependencies
satisfied; reading `x` yields `v`; and every auditor that mentions `x` is woken, i.e. will be
visited when the `round` fold reaches it. -/
theorem visible_same_round (c : Cfg) (final : Bool) (ts : Rat) (s : St) (a : Assign) (v : Val)
    (hm : a.mode = .single) (hab : s.abort = none) (hd : hasDeps s a.expr = true)
    (he : eval s.vals a.expr = .ok v) (hv : v.isNil = false) :
    (∀ e : Expr, (∀ d ∈ e.deps, d = ⟨"", a.target⟩) → hasDeps (assignOne c ts s a) e = true) ∧
    eval (assignOne c ts s a).vals (.var ⟨"", a.target⟩) = .ok v ∧
    (∀ w ∈ c.members, (⟨"", a.target⟩ : VarName) ∈ w.mentions → w.isAuditor = true →
      visited final (assignOne c ts s a) w = true) := by
  rw [assignOne_single c ts s a v hab hd he hm]
  refine ⟨?_, ?_, ?_⟩
  · intro e hdeps
    simp only [hasDeps, List.all_eq_true]
    intro d hdm
    rw [hdeps d hdm, setVar_activated _ _ _ _ _ _ _ hv]; simp
  · simp [eval, setVar_vals _ _ _ _ _ _ _ hv]
  · intro w hw hmen haud
    simp [visited, haud, setVar_woke c s ts _ _ v true hv w hw hmen haud]

/-- and it stays so for the rest of the round: after the remaining clauses of the same member and
after any later members `ms` have had their turn — none of them re-assigning `x` — `x` still holds
`v`, is still activated (so `hasDeps` holds for expressions depending on `x` only), and the auditors
mentioning `x` are still woken.  `s1` is any state in which `x` holds `v`, e.g. the one of
`visible_same_round`. -/
theorem visible_later_members (c : Cfg) (final : Bool) (ts : Rat) (s1 : St) (x : VarName) (v : Val)
    (rest : List Assign) (m0 : Member) (ms : List Member)
    (hrest : ∀ b ∈ rest, x ≠ ⟨"", b.target⟩) (hms : ∀ m ∈ ms, ∀ b ∈ m.assigns, x ≠ ⟨"", b.target⟩)
    (hval : s1.vals x = v) (hact : s1.activated x = true) :
    let s2 := ms.foldl (roundStep c final ts) (checkExpect (assignAll c ts s1 rest) ts m0)
    s2.vals x = v ∧ eval s2.vals (.var x) = .ok v ∧
    (∀ e : Expr, (∀ d ∈ e.deps, d = x) → hasDeps s2 e = true) ∧
    (∀ w : Member, (s1.aud w.name).activated = true → (s2.aud w.name).activated = true) := by
  intro s2
  have hext : Ext (fun w => x ≠ w) s1 s2 :=
    ((assignAll_ext _ c ts s1 rest (fun b hb => hrest b hb)).trans
      (checkExpect_ext _ _ ts m0)).trans
      (roundFold_ext _ c final ts _ ms (fun m hm b hb => hms m hm b hb))
  have hv2 : s2.vals x = v := by rw [hext.vals x (fun h => h rfl)]; exact hval
  refine ⟨hv2, by simp [eval, hv2], ?_, fun w hw => hext.woke _ hw⟩
  intro e hdeps
  simp only [hasDeps, List.all_eq_true]
  intro d hdm
  rw [hdeps d hdm]; exact hext.act x hact

/-- `round` is the fold of `roundStep` (one member's turn) over the audience, after `beginRound` -/
theorem round_is_fold (c : Cfg) (final : Bool) (ts : Rat) (samples : List Sample) (s : St)
    (h : s.abort = none) :
    round c final ts samples s = c.members.foldl (roundStep c final ts) (beginRound c ts samples s) := by
  rw [round_eq]; simp [h]

/-- a chain of dependent clauses: `y computes x + 1` in a later member sees the `x` computed earlier
in the same round.  Concrete instance of the hypotheses (member `m2` mentions `x`). -/
def exM2 : Member :=
  { name := "m2", cond := .lit (.bool true),
    assigns := [⟨"y", .bin .add (.var ⟨"", "x"⟩) (.lit (.num 1)), .single, 1⟩],
    expect := none, watches := [] }

example : (⟨"", exA.target⟩ : VarName) ∈ exM2.mentions ∧ exM2.isAuditor = true ∧
    (∀ d ∈ (Expr.bin .add (.var ⟨"", "x"⟩) (.lit (.num 1))).deps, d = ⟨"", exA.target⟩) := by decide

/-! ## 6. A `collects` variable over whole rounds

The variable grows by the values its own expression yields in the visits of its owner — in a period, its opening and its
closing round included — and by nothing else; `collects_step` was the single assignment, `persists_while_dormant` the rounds
in which the owner sleeps; here is every round, and with it every run. -/

/-- the step of the collector agrees with the specification on every value it accepts (a string offered to `top` /
`bottom` is not accepted: it is the evaluation error) -/
theorem collectStep_spec (m : Mode) (n : Nat) (hn : 1 ≤ n) (xs : List Sc) (y : Sc) (l : List Sc)
    (h : collectStep m n (collectSpec m n xs) y = some l) : l = collectSpec m n (xs ++ [y]) := by
  by_cases hstr : (m = .top ∨ m = .bottom) ∧ Sc.isStr y = true
  · exfalso
    obtain ⟨hm, hy⟩ := hstr
    cases y <;> simp [Sc.isStr] at hy
    rcases hm with rfl | rfl <;> simp [collectStep, Sc.numOf] at h
  · have hx : m = .top ∨ m = .bottom → ∀ z ∈ [y], Sc.isStr z = false := by
      intro hm z hz
      simp only [List.mem_singleton] at hz
      subst hz
      cases hs : Sc.isStr z with
      | false => rfl
      | true => exact absurd ⟨hm, hs⟩ hstr
    have := collect_split m n hn xs [y] hx
    rw [collectRun_cons, h] at this
    simpa using this

/-- the variable of the clause `a` holds the specified aggregate of a history that extends `xs` by at most one value, and
that value is what `a.expr` evaluated to in a state in which the owner was inside a period -/
def Grows (a : Assign) (owner : String) (xs : List Sc) (s' : St) : Prop :=
  ∃ ys : List Sc, ys.length ≤ 1 ∧
    curArray (s'.vals ⟨"", a.target⟩) = collectSpec a.mode a.n (xs ++ ys) ∧
    ∀ y ∈ ys, ∃ s1 : St, eval s1.vals a.expr = .ok (.sc y) ∧ (s1.aud owner).auditing = true

theorem Grows.of_same {a : Assign} {owner : String} {xs : List Sc} {s s' : St}
    (h : curArray (s.vals ⟨"", a.target⟩) = collectSpec a.mode a.n xs)
    (hv : s'.vals ⟨"", a.target⟩ = s.vals ⟨"", a.target⟩) : Grows a owner xs s' :=
  ⟨[], by simp, by simpa [hv] using h, by simp⟩

theorem Grows.of_later {a : Assign} {owner : String} {xs : List Sc} {s s' : St}
    (h : Grows a owner xs s) (hv : s'.vals ⟨"", a.target⟩ = s.vals ⟨"", a.target⟩) : Grows a owner xs s' := by
  obtain ⟨ys, h1, h2, h3⟩ := h
  exact ⟨ys, h1, by rw [hv]; exact h2, h3⟩

theorem assignOne_auditing (c : Cfg) (ts : Rat) (s : St) (a : Assign) (n : String) :
    ((assignOne c ts s a).aud n).auditing = (s.aud n).auditing := by
  unfold assignOne
  repeat' split
  all_goals first
    | rfl
    | (unfold setVar; repeat' split
       all_goals first
         | rfl
         | (simp only; split <;> rfl))

theorem assignAll_auditing (c : Cfg) (ts : Rat) (as : List Assign) (n : String) :
    ∀ s : St, ((assignAll c ts s as).aud n).auditing = (s.aud n).auditing := by
  induction as with
  | nil => intro s; rfl
  | cons a as ih =>
    intro s
    simp only [assignAll, List.foldl_cons]
    have := ih (assignOne c ts s a)
    simp only [assignAll] at this
    rw [this, assignOne_auditing]

/-- the clause itself -/
theorem assignOne_grows (c : Cfg) (ts : Rat) (s : St) (a : Assign) (owner : String) (xs : List Sc)
    (hm : a.mode ≠ .single) (hn : 1 ≤ a.n) (haud : (s.aud owner).auditing = true)
    (hinv : curArray (s.vals ⟨"", a.target⟩) = collectSpec a.mode a.n xs) :
    Grows a owner xs (assignOne c ts s a) := by
  unfold assignOne
  split
  · exact Grows.of_same hinv rfl
  · split
    · exact Grows.of_same hinv rfl
    · split
      · exact Grows.of_same hinv rfl
      · exact Grows.of_same hinv rfl
      · rename_i v hev
        split
        · rename_i hs; exact absurd hs hm
        · split
          · exact Grows.of_same hinv rfl
          · rename_i y
            split
            · exact Grows.of_same hinv rfl
            · rename_i l hl
              rw [hinv] at hl
              have hl' := collectStep_spec a.mode a.n hn xs y l hl
              refine ⟨[y], by simp, ?_, ?_⟩
              · rw [setVar_vals _ _ _ _ _ _ _ rfl, hl']; simp [curArray]
              · intro z hz
                simp only [List.mem_singleton] at hz
                subst hz
                exact ⟨s, hev, haud⟩

/-- all the clauses of the owner: the ones before and after `a` do not touch the variable -/
theorem assignAll_grows (c : Cfg) (ts : Rat) (s : St) (a : Assign) (pre post : List Assign) (owner : String)
    (xs : List Sc) (hm : a.mode ≠ .single) (hn : 1 ≤ a.n)
    (hpre : ∀ b ∈ pre, (⟨"", b.target⟩ : VarName) ≠ ⟨"", a.target⟩)
    (hpost : ∀ b ∈ post, (⟨"", b.target⟩ : VarName) ≠ ⟨"", a.target⟩)
    (haud : (s.aud owner).auditing = true)
    (hinv : curArray (s.vals ⟨"", a.target⟩) = collectSpec a.mode a.n xs) :
    Grows a owner xs (assignAll c ts s (pre ++ a :: post)) := by
  have e : assignAll c ts s (pre ++ a :: post) =
      assignAll c ts (assignOne c ts (assignAll c ts s pre) a) post := by
    simp [assignAll, List.foldl_append]
  rw [e]
  have h1 : (assignAll c ts s pre).vals ⟨"", a.target⟩ = s.vals ⟨"", a.target⟩ :=
    (assignAll_ext (· ≠ (⟨"", a.target⟩ : VarName)) c ts s pre hpre).vals _ (by simp)
  have h2 := assignOne_grows c ts (assignAll c ts s pre) a owner xs hm hn
    (by rw [assignAll_auditing]; exact haud) (by rw [h1]; exact hinv)
  exact h2.of_later ((assignAll_ext (· ≠ (⟨"", a.target⟩ : VarName)) c ts _ post hpost).vals _ (by simp))

theorem startPeriod_auditing (s : St) (m : Member) : ((startPeriod s m).aud m.name).auditing = true := by
  simp [startPeriod, setAud, St.emit]

/-- a visit of the owner -/
theorem visit_grows (c : Cfg) (final : Bool) (ts : Rat) (s : St) (m0 : Member) (a : Assign)
    (pre post : List Assign) (xs : List Sc) (hm : a.mode ≠ .single) (hn : 1 ≤ a.n)
    (has : m0.assigns = pre ++ a :: post)
    (hpre : ∀ b ∈ pre, (⟨"", b.target⟩ : VarName) ≠ ⟨"", a.target⟩)
    (hpost : ∀ b ∈ post, (⟨"", b.target⟩ : VarName) ≠ ⟨"", a.target⟩)
    (hinv : curArray (s.vals ⟨"", a.target⟩) = collectSpec a.mode a.n xs) :
    Grows a m0.name xs (visit c final ts s m0) := by
  unfold visit
  split
  · exact Grows.of_same hinv rfl
  · split
    · exact Grows.of_same hinv rfl
    · exact Grows.of_same hinv rfl
    · rename_i auditing _
      split
      · rw [has]
        exact (assignAll_grows c ts (startPeriod s m0) a pre post m0.name xs hm hn hpre hpost
          (startPeriod_auditing s m0) (by rw [startPeriod_vals]; exact hinv)).of_later
          (by rw [checkExpect_vals])
      · split
        · exact Grows.of_same hinv rfl
        · rename_i hnot
          have haud : (s.aud m0.name).auditing = true := by simpa using hnot
          split
          · rw [has]
            exact (assignAll_grows c ts s a pre post m0.name xs hm hn hpre hpost haud hinv).of_later
              (by rw [checkExpect_vals])
          · rw [has]
            exact (assignAll_grows c ts s a pre post m0.name xs hm hn hpre hpost haud hinv).of_later
              (by rw [endPeriod_vals, checkExpect_vals])

/-- **Every round**: a `collects` variable that holds the specified aggregate of a history `xs` holds, after any round
of the audition — whatever the samples, whoever else is in the audience, whether its owner is visited, starts, continues
or closes a period, or sleeps — the specified aggregate of `xs` extended by at most one value, and that value is what
its expression evaluated to while the owner was inside a period.  (`a` is the only clause that assigns the variable.) -/
theorem collects_round (c : Cfg) (final : Bool) (ts : Rat) (samples : List Sample) (s : St)
    (preM postM : List Member) (m0 : Member) (a : Assign) (pre post : List Assign) (xs : List Sc)
    (hc : c.members = preM ++ m0 :: postM) (has : m0.assigns = pre ++ a :: post)
    (hm : a.mode ≠ .single) (hn : 1 ≤ a.n)
    (ht : (⟨"", a.target⟩ : VarName) ≠ ⟨"", "t"⟩) (hmood : (⟨"", a.target⟩ : VarName) ≠ ⟨"", "mood"⟩)
    (hmt : (⟨"", a.target⟩ : VarName) ≠ ⟨"", "moodt"⟩) (hs : ∀ x ∈ samples, x.v ≠ ⟨"", a.target⟩)
    (hpre : ∀ b ∈ pre, (⟨"", b.target⟩ : VarName) ≠ ⟨"", a.target⟩)
    (hpost : ∀ b ∈ post, (⟨"", b.target⟩ : VarName) ≠ ⟨"", a.target⟩)
    (hpreM : ∀ m ∈ preM, ∀ b ∈ m.assigns, (⟨"", a.target⟩ : VarName) ≠ ⟨"", b.target⟩)
    (hpostM : ∀ m ∈ postM, ∀ b ∈ m.assigns, (⟨"", a.target⟩ : VarName) ≠ ⟨"", b.target⟩)
    (hinv : curArray (s.vals ⟨"", a.target⟩) = collectSpec a.mode a.n xs) :
    Grows a m0.name xs (round c final ts samples s) := by
  rw [round_eq]; split
  · exact Grows.of_same hinv rfl
  · rw [hc, List.foldl_append, List.foldl_cons]
    have h0 : (beginRound c ts samples s).vals ⟨"", a.target⟩ = s.vals ⟨"", a.target⟩ :=
      beginRound_vals c ts samples s _ ht hmood hmt hs
    have h1 : (preM.foldl (roundStep c final ts) (beginRound c ts samples s)).vals ⟨"", a.target⟩
        = s.vals ⟨"", a.target⟩ := by
      rw [persist_other_members c final ts _ preM _ hpreM, h0]
    have h2 : Grows a m0.name xs
        (roundStep c final ts (preM.foldl (roundStep c final ts) (beginRound c ts samples s)) m0) := by
      generalize preM.foldl (roundStep c final ts) (beginRound c ts samples s) = s1 at h1 ⊢
      unfold roundStep
      split
      · exact visit_grows c final ts _ m0 a pre post xs hm hn has hpre hpost (by rw [h1]; exact hinv)
      · exact Grows.of_same hinv h1
    exact h2.of_later (persist_other_members c final ts _ postM _ hpostM)

/-- what the history consists of -/
def Produced (a : Assign) (owner : String) (xs : List Sc) : Prop :=
  ∀ y ∈ xs, ∃ s1 : St, eval s1.vals a.expr = .ok (.sc y) ∧ (s1.aud owner).auditing = true

/-- the invariant of a whole run -/
def HoldsHistory (a : Assign) (owner : String) (s : St) : Prop :=
  ∃ xs, curArray (s.vals ⟨"", a.target⟩) = collectSpec a.mode a.n xs ∧ Produced a owner xs

theorem HoldsHistory.step {a : Assign} {owner : String} {s s' : St}
    (h : HoldsHistory a owner s)
    (hg : ∀ xs, curArray (s.vals ⟨"", a.target⟩) = collectSpec a.mode a.n xs → Grows a owner xs s') :
    HoldsHistory a owner s' := by
  obtain ⟨xs, h1, h2⟩ := h
  obtain ⟨ys, _, h4, h5⟩ := hg xs h1
  refine ⟨xs ++ ys, h4, ?_⟩
  intro y hy
  rcases List.mem_append.mp hy with hy | hy
  · exact h2 y hy
  · exact h5 y hy

theorem HoldsHistory.same {a : Assign} {owner : String} {s s' : St}
    (h : HoldsHistory a owner s) (hv : s'.vals ⟨"", a.target⟩ = s.vals ⟨"", a.target⟩) : HoldsHistory a owner s' := by
  obtain ⟨xs, h1, h2⟩ := h
  exact ⟨xs, by rw [hv]; exact h1, h2⟩

/-- **Every run**: after any sequence of mood changes and samples, and the final round, a `first | last | top | bottom N`
variable holds exactly the specified aggregate — the first N, the last N, the N largest in descending order, the N smallest
in ascending order, of the non-nil ones — of a sequence of values each of which its expression produced while its owner
was inside an activation period (opening and closing rounds included: the closing round is the known finding of C02). -/
theorem collects_over_a_run (c : Cfg) (evs : List Ev) (tEnd : Rat)
    (preM postM : List Member) (m0 : Member) (a : Assign) (pre post : List Assign)
    (hc : c.members = preM ++ m0 :: postM) (has : m0.assigns = pre ++ a :: post)
    (hm : a.mode ≠ .single) (hn : 1 ≤ a.n)
    (ht : (⟨"", a.target⟩ : VarName) ≠ ⟨"", "t"⟩) (hmood : (⟨"", a.target⟩ : VarName) ≠ ⟨"", "mood"⟩)
    (hmt : (⟨"", a.target⟩ : VarName) ≠ ⟨"", "moodt"⟩)
    (hsig : ∀ e ∈ evs, ∀ t xs, e = Ev.sig t xs → ∀ x ∈ xs, x.v ≠ ⟨"", a.target⟩)
    (hpre : ∀ b ∈ pre, (⟨"", b.target⟩ : VarName) ≠ ⟨"", a.target⟩)
    (hpost : ∀ b ∈ post, (⟨"", b.target⟩ : VarName) ≠ ⟨"", a.target⟩)
    (hpreM : ∀ m ∈ preM, ∀ b ∈ m.assigns, (⟨"", a.target⟩ : VarName) ≠ ⟨"", b.target⟩)
    (hpostM : ∀ m ∈ postM, ∀ b ∈ m.assigns, (⟨"", a.target⟩ : VarName) ≠ ⟨"", b.target⟩) :
    HoldsHistory a m0.name (run c evs tEnd) := by
  have hround : ∀ (final : Bool) (ts : Rat) (samples : List Sample) (s : St),
      (∀ x ∈ samples, x.v ≠ ⟨"", a.target⟩) → HoldsHistory a m0.name s →
      HoldsHistory a m0.name (round c final ts samples s) := by
    intro final ts samples s hs h
    exact h.step (fun xs hx => collects_round c final ts samples s preM postM m0 a pre post xs hc has hm hn ht hmood hmt
      hs hpre hpost hpreM hpostM hx)
  have hstart : HoldsHistory a m0.name (start c) := by
    unfold start
    apply hround false 0 [] _ (by simp)
    exact ⟨[], by simpa using collects_init a.mode a.n, by intro y hy; cases hy⟩
  have hstep : ∀ (s : St) (e : Ev), e ∈ evs → HoldsHistory a m0.name s → HoldsHistory a m0.name (stepEv c s e) := by
    intro s e he h
    cases e with
    | mood ts m =>
      simp only [stepEv]
      split
      · exact h
      · have h1 := hround false ts [] s (by simp) h
        split
        · exact h1
        · exact hround false ts [] _ (by simp) (h1.same rfl)
    | sig ts xs =>
      simp only [stepEv]
      exact hround false ts xs s (hsig _ he ts xs rfl) h
  have hfold : ∀ (l : List Ev) (s : St), (∀ e ∈ l, e ∈ evs) → HoldsHistory a m0.name s →
      HoldsHistory a m0.name (l.foldl (stepEv c) s) := by
    intro l
    induction l with
    | nil => intro s _ h; exact h
    | cons e l ih =>
      intro s hl h
      simp only [List.foldl_cons]
      exact ih _ (fun e' he' => hl e' (by simp [he'])) (hstep s e (hl e (by simp)) h)
  unfold run
  simp only
  have h1 := hfold evs (start c) (fun e he => he) hstart
  have h2 := hround true tEnd [] { (evs.foldl (stepEv c) (start c)) with abort := none } (by simp) (h1.same rfl)
  exact h2.same rfl

/-- the premises of `collects_over_a_run` are met by an ordinary audience: `m collects bin as first 3 [a s]` between a
member that computes something else and one that only reads `bin` -/
def exCol : Assign := ⟨"bin", .var ⟨"a", "s"⟩, .first, 3⟩
def exOwner : Member :=
  { name := "m", cond := .lit (.bool true), assigns := [⟨"pre", .var ⟨"", "t"⟩, .single, 1⟩, exCol], expect := none, watches := [] }
def exAudience : Cfg := ⟨[exM2, exOwner, { exM2 with name := "m3" }]⟩

example : HoldsHistory exCol "m"
    (run exAudience [.sig 1 [⟨.scalar, ⟨"a", "s"⟩, .sc (.num 4)⟩], .mood 2 "red", .sig 3 [⟨.scalar, ⟨"a", "s"⟩, .sc (.num 5)⟩]] 9) :=
  collects_over_a_run exAudience _ 9 [exM2] [{ exM2 with name := "m3" }] exOwner exCol
    [⟨"pre", .var ⟨"", "t"⟩, .single, 1⟩] [] rfl rfl (by decide) (by decide) (by decide) (by decide) (by decide)
    (by
      intro e he t xs hx x hxs
      simp only [List.mem_cons, List.not_mem_nil, or_false] at he
      rcases he with rfl | rfl | rfl
      · injection hx with _ h2; subst h2
        simp only [List.mem_singleton] at hxs; subst hxs; decide
      · cases hx
      · injection hx with _ h2; subst h2
        simp only [List.mem_singleton] at hxs; subst hxs; decide)
    (by decide) (by decide) (by decide) (by decide)

end Shk.C11
