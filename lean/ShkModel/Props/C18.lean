import ShkModel.Model.Timeutil
/-!
# C18 — microsecond conversions round to nearest; Timers honour Reset/Stop
-/
namespace Shk.C18
open Shk.Timeutil

/-- `ToUnixMicros` is the nearest microsecond (half up), for every instant. -/
theorem toUnixMicros_nearest (sec nsec : Int) (h0 : 0 ≤ nsec) (h1 : nsec < 1000000000) :
    toUnixMicros sec nsec = nearestMicros sec nsec := by
  simp only [toUnixMicros, roundUs, nearestMicros]; omega

/-- hence monotone in the instant -/
theorem toUnixMicros_mono (s1 n1 s2 n2 : Int) (h0 : 0 ≤ n1) (h1 : n1 < 1000000000)
    (h2 : 0 ≤ n2) (h3 : n2 < 1000000000)
    (hle : s1 * 1000000000 + n1 ≤ s2 * 1000000000 + n2) :
    toUnixMicros s1 n1 ≤ toUnixMicros s2 n2 := by
  rw [toUnixMicros_nearest _ _ h0 h1, toUnixMicros_nearest _ _ h2 h3]
  simp only [nearestMicros]; omega

private theorem tdm (us : Int) : 1000000 * (us.tdiv 1000000) + us.tmod 1000000 = us ∧
    -1000000 < us.tmod 1000000 ∧ us.tmod 1000000 < 1000000 ∧
    (0 ≤ us → 0 ≤ us.tmod 1000000) ∧ (us ≤ 0 → us.tmod 1000000 ≤ 0) := by
  refine ⟨Int.mul_tdiv_add_tmod us 1000000, ?_, Int.tmod_lt_of_pos us (by omega),
    fun h => Int.tmod_nonneg _ h, ?_⟩
  · by_cases h : 0 ≤ us
    · have := Int.tmod_nonneg 1000000 h; omega
    · have h1 : us = -(-us) := by omega
      rw [h1, Int.neg_tmod]
      have := Int.tmod_lt_of_pos (-us) (show (0:Int) < 1000000 by omega)
      omega
  · intro h
    have h1 : us = -(-us) := by omega
    rw [h1, Int.neg_tmod]
    have := Int.tmod_nonneg 1000000 (show 0 ≤ -us by omega)
    omega

/-- `FromUnixMicros` yields a normalised instant … -/
theorem fromUnixMicros_normalised (us : Int) :
    0 ≤ (fromUnixMicros us).2 ∧ (fromUnixMicros us).2 < 1000000000 := by
  have := tdm us
  simp only [fromUnixMicros]; split <;> simp only [] <;> omega

/-- … and `ToUnixMicros ∘ FromUnixMicros` is the identity. -/
theorem roundtrip (us : Int) : toUnixMicros (fromUnixMicros us).1 (fromUnixMicros us).2 = us := by
  have := tdm us
  simp only [toUnixMicros, roundUs, fromUnixMicros]
  split <;> simp only [] <;> omega

/-- the error is at most half a microsecond, on either side -/
theorem toUnixMicros_error (sec nsec : Int) (h0 : 0 ≤ nsec) (h1 : nsec < 1000000000) :
    toUnixMicros sec nsec * 1000 - 500 ≤ sec * 1000000000 + nsec ∧
    sec * 1000000000 + nsec < toUnixMicros sec nsec * 1000 + 500 := by
  rw [toUnixMicros_nearest _ _ h0 h1]; simp only [nearestMicros]; omega

/-- the pinned code violated the property: witness at the carry into the next second. -/
theorem old_is_wrong : toUnixMicrosOld 0 999999500 ≠ nearestMicros 0 999999500 := by decide

/-- and exactly there: the old code is right iff rounding does not carry. -/
theorem old_wrong_iff (sec nsec : Int) (h0 : 0 ≤ nsec) (h1 : nsec < 1000000000) :
    toUnixMicrosOld sec nsec ≠ nearestMicros sec nsec ↔ 999999500 ≤ nsec := by
  simp only [toUnixMicrosOld, roundUs, nearestMicros]; omega

/-- the other direction: on an instant that already is a whole number of microseconds the pair
`FromUnixMicros ∘ ToUnixMicros` gives the instant back, exactly — nothing is lost by storing it. -/
theorem roundtrip_aligned (sec nsec : Int) (h0 : 0 ≤ nsec) (h1 : nsec < 1000000000)
    (ha : nsec % 1000 = 0) :
    fromUnixMicros (toUnixMicros sec nsec) = (sec, nsec) := by
  have := tdm (toUnixMicros sec nsec)
  rw [toUnixMicros_nearest _ _ h0 h1] at this ⊢
  simp only [nearestMicros] at this ⊢
  simp only [fromUnixMicros]
  split <;> (refine Prod.ext ?_ ?_ <;> simp only [] <;> omega)

/-- in general `FromUnixMicros ∘ ToUnixMicros` is the rounding `t.Round(time.Microsecond)` itself -/
theorem from_to_is_round (sec nsec : Int) (h0 : 0 ≤ nsec) (h1 : nsec < 1000000000) :
    fromUnixMicros (toUnixMicros sec nsec) = roundUs sec nsec := by
  have := tdm (toUnixMicros sec nsec)
  rw [toUnixMicros_nearest _ _ h0 h1] at this ⊢
  simp only [nearestMicros] at this ⊢
  simp only [fromUnixMicros, roundUs]
  split <;> (refine Prod.ext ?_ ?_ <;> simp only [] <;> omega)

/-- rounding is idempotent: a rounded instant converts to the same microsecond count -/
theorem toUnixMicros_round_idem (sec nsec : Int) (h0 : 0 ≤ nsec) (h1 : nsec < 1000000000) :
    toUnixMicros (roundUs sec nsec).1 (roundUs sec nsec).2 = toUnixMicros sec nsec := by
  rw [← from_to_is_round _ _ h0 h1, roundtrip]

/-- `FromUnixMicros` is injective: two different counts never denote one instant … -/
theorem fromUnixMicros_injective (a b : Int) (h : fromUnixMicros a = fromUnixMicros b) : a = b := by
  rw [← roundtrip a, ← roundtrip b, h]

/-- … and `ToUnixMicros` is onto: every count is the image of a normalised instant. -/
theorem toUnixMicros_surjective (us : Int) :
    ∃ sec nsec, 0 ≤ nsec ∧ nsec < 1000000000 ∧ toUnixMicros sec nsec = us :=
  ⟨_, _, (fromUnixMicros_normalised us).1, (fromUnixMicros_normalised us).2, roundtrip us⟩

/-- `FromUnixMicros` denotes the instant `us` microseconds after the epoch, to the nanosecond -/
theorem fromUnixMicros_value (us : Int) :
    (fromUnixMicros us).1 * 1000000000 + (fromUnixMicros us).2 = us * 1000 := by
  have := tdm us
  simp only [fromUnixMicros]; split <;> simp only [] <;> omega

/-- hence strictly monotone on the time line -/
theorem fromUnixMicros_strictMono (a b : Int) (h : a < b) :
    (fromUnixMicros a).1 * 1000000000 + (fromUnixMicros a).2 <
    (fromUnixMicros b).1 * 1000000000 + (fromUnixMicros b).2 := by
  rw [fromUnixMicros_value, fromUnixMicros_value]; omega

example : fromUnixMicros (toUnixMicros (-1) 999999000) = (-1, 999999000) := by decide
example : fromUnixMicros (toUnixMicros 0 999999500) = (1, 0) := by decide

/-! ## Timer -/

/-- Invariant of the wrapper under the contract (Read is set by `recv`, i.e. after each receive). -/
def Inv (s : St) : Prop :=
  (∀ p ∈ s.pool, p.chan = none) ∧
  match s.timer with
  | none => s.read = false
  | some g =>
    (g.armed.isSome = true → g.chan = none) ∧
    (g.armed = none → s.read = false → g.chan.isSome = true) ∧
    (s.read = true → g.armed = none ∧ g.chan = none) ∧
    (∀ v, g.chan = some v → s.deadline ≤ v) ∧
    (∀ dl, g.armed = some dl → dl = s.deadline)

theorem inv_init : Inv {} := by simp [Inv]

theorem inv_step (s : St) (o : Op) (h : Inv s) : Inv (step s o).1 := by
  obtain ⟨now, timer, read, deadline, resets, recvd, pool⟩ := s
  cases timer with
  | none =>
    simp only [Inv] at h
    obtain ⟨hp, hr⟩ := h
    cases o with
    | tick dt => simp_all [step, Inv]
    | recv => simp_all [step, Inv]
    | stop => simp_all [step, Inv]
    | reset d =>
      cases pool with
      | nil => simp_all [step, Inv]
      | cons g rest =>
        have hg : g.chan = none := hp g (by simp)
        have hrest : ∀ p ∈ rest, p.chan = none := fun p hp' => hp p (by simp [hp'])
        simp_all [step, Inv]
  | some g =>
    obtain ⟨armed, chan⟩ := g
    simp only [Inv] at h
    obtain ⟨hp, h1, h2, h3, h4, h5⟩ := h
    cases o with
    | tick dt =>
      cases armed with
      | none => simp_all [step, Inv, fire]
      | some dl =>
        have hc : chan = none := h1 (by simp)
        have hd : dl = deadline := h5 dl rfl
        subst hc hd
        by_cases hle : dl ≤ now + dt
        · simp_all [step, Inv, fire]
        · simp only [step, fire, Option.map_some, if_neg hle, Inv]
          simp_all
    | reset d =>
      cases armed <;> cases chan <;> cases read <;> simp_all [step, Inv]
    | recv =>
      cases armed <;> cases chan <;> cases read <;> simp_all [step, Inv]
    | stop =>
      cases armed with
      | none => simp_all [step, Inv]
      | some dl =>
        have hc : chan = none := h1 (by simp)
        subst hc
        simp only [step, Inv, Option.isSome_some, if_true]
        refine ⟨?_, trivial⟩
        intro p hp'
        rcases List.mem_cons.mp hp' with rfl | hp'
        · rfl
        · exact hp p hp'

/-- every state reachable by any sequence of Reset / time passing / receive / Stop -/
theorem inv_run (s : St) (os : List Op) (h : Inv s) : Inv (run s os).1 := by
  induction os generalizing s with
  | nil => simpa [run] using h
  | cons o os ih => simpa [run] using ih _ (inv_step s o h)

/-- **Reset never blocks**: the drain `<-t.C` is only reached when the channel holds a value. -/
theorem reset_never_blocks (os : List Op) (d : Nat) :
    (step (run {} os).1 (.reset d)).2 = Out.ok := by
  have h := inv_run {} os inv_init
  generalize (run {} os).1 = s at h
  obtain ⟨now, timer, read, deadline, resets, recvd, pool⟩ := s
  cases timer with
  | none => cases pool <;> simp [step]
  | some g =>
    obtain ⟨armed, chan⟩ := g
    simp only [Inv] at h
    cases armed <;> cases chan <;> cases read <;> simp_all [step]

/-- no `blocked` output anywhere in any run -/
theorem no_blocked (os : List Op) : Out.blocked ∉ (run {} os).2 := by
  suffices ∀ s, Inv s → Out.blocked ∉ (run s os).2 from this {} inv_init
  induction os with
  | nil => intro s _; simp [run]
  | cons o os ih =>
    intro s h
    simp only [run, List.mem_cons, not_or]
    refine ⟨?_, ih _ (inv_step s o h)⟩
    obtain ⟨now, timer, read, deadline, resets, recvd, pool⟩ := s
    cases timer with
    | none => cases o <;> cases pool <;> simp [step]
    | some g =>
      obtain ⟨armed, chan⟩ := g
      simp only [Inv] at h
      cases o with
      | tick dt => simp [step]
      | reset d => cases armed <;> cases chan <;> cases read <;> simp_all [step]
      | recv => cases chan <;> simp [step]
      | stop => simp [step]

/-- **Not before the requested duration**: a received value was fired at or after the deadline
of the latest Reset. -/
theorem not_before_duration (os : List Op) (v : Nat) :
    (step (run {} os).1 .recv).2 = Out.got v → (run {} os).1.deadline ≤ v := by
  have h := inv_run {} os inv_init
  generalize (run {} os).1 = s at h
  obtain ⟨now, timer, read, deadline, resets, recvd, pool⟩ := s
  cases timer with
  | none => simp [step]
  | some g =>
    obtain ⟨armed, chan⟩ := g
    simp only [Inv] at h
    cases chan with
    | none => simp [step]
    | some w =>
      intro hg
      simp [step] at hg
      subst hg
      exact h.2.2.2.2.1 w rfl

/-- **At most one fire per Reset**: the number of received values never exceeds the number of
Resets (the pending value and an armed timer are mutually exclusive). -/
def Cnt (s : St) : Prop :=
  match s.timer with
  | none => s.recvd ≤ s.resets
  | some g => s.recvd + (if g.armed.isSome || g.chan.isSome then 1 else 0) ≤ s.resets

theorem cnt_step (s : St) (o : Op) (hi : Inv s) (h : Cnt s) : Cnt (step s o).1 := by
  obtain ⟨now, timer, read, deadline, resets, recvd, pool⟩ := s
  cases timer with
  | none => cases o <;> cases pool <;> simp_all [step, Cnt] <;> omega
  | some g =>
    obtain ⟨armed, chan⟩ := g
    simp only [Inv] at hi
    cases o with
    | tick dt =>
      cases armed with
      | none => simp_all [step, Cnt, fire]
      | some dl =>
        by_cases hle : dl ≤ now + dt
        · cases chan <;> simp_all [step, Cnt, fire]
        · simp only [step, fire, Option.map_some, if_neg hle, Cnt]
          simpa [Cnt] using h
    | reset d =>
      cases armed <;> cases chan <;> cases read <;> simp_all [step, Cnt] <;> omega
    | recv =>
      cases armed <;> cases chan <;> simp_all [step, Cnt] <;> omega
    | stop =>
      simp_all [step, Cnt]
      split at h <;> omega

theorem one_fire_per_reset (os : List Op) : (run {} os).1.recvd ≤ (run {} os).1.resets := by
  suffices ∀ s, Inv s → Cnt s → Cnt (run s os).1 by
    have h := this {} inv_init (by simp [Cnt])
    generalize (run {} os).1 = s at h
    obtain ⟨now, timer, read, deadline, resets, recvd, pool⟩ := s
    cases timer with
    | none => simpa [Cnt] using h
    | some g =>
      simp only [Cnt] at h
      show recvd ≤ resets
      split at h <;> omega
  induction os with
  | nil => intro s _ h; simpa [run] using h
  | cons o os ih =>
    intro s hi h
    simpa [run] using ih _ (inv_step s o hi) (cnt_step s o hi h)

/-- **Exactly one when the duration elapses**: after a Reset and at least `d` ticks with no
other operation, a receive delivers. -/
theorem fires_after_duration (os : List Op) (d dt : Nat) (hd : d ≤ dt) :
    ∃ v, (step (step (step (run {} os).1 (.reset d)).1 (.tick dt)).1 .recv).2 = Out.got v := by
  have h := inv_run {} os inv_init
  generalize (run {} os).1 = s at h
  obtain ⟨now, timer, read, deadline, resets, recvd, pool⟩ := s
  have hle : now + d ≤ now + dt := by omega
  cases timer with
  | none =>
    simp only [Inv] at h
    cases pool with
    | nil => exact ⟨now + dt, by simp [step, fire, hle]⟩
    | cons g rest =>
      have hg : g.chan = none := h.1 g (by simp)
      exact ⟨now + dt, by simp [step, fire, hle, hg]⟩
  | some g =>
    obtain ⟨armed, chan⟩ := g
    simp only [Inv] at h
    cases armed <;> cases chan <;> cases read <;> simp_all [step, fire]

/-- **Never after a successful Stop** (nor after any Stop): the wrapper's channel is nil, so no
receive succeeds until the next Reset; and the timer handed back to the pool holds no stale
value (it was armed, hence its channel was empty). -/
theorem silent_after_stop (os : List Op) (ticks : List Nat) :
    (step ((ticks.map Op.tick).foldl (fun s o => (step s o).1) (step (run {} os).1 .stop).1) .recv).2
      = Out.none := by
  have hs : (step (run {} os).1 .stop).1.timer = none := by
    generalize (run {} os).1 = s
    obtain ⟨now, timer, read, deadline, resets, recvd, pool⟩ := s
    cases timer <;> simp [step]
  generalize (step (run {} os).1 .stop).1 = s at hs
  induction ticks generalizing s with
  | nil =>
    obtain ⟨now, timer, read, deadline, resets, recvd, pool⟩ := s
    simp only at hs; subst hs; simp [step]
  | cons t ts ih =>
    simp only [List.map_cons, List.foldl_cons]
    apply ih
    obtain ⟨now, timer, read, deadline, resets, recvd, pool⟩ := s
    simp only at hs; subst hs; simp [step]

theorem stopped_timer_is_clean (os : List Op) :
    ∀ g, (run {} os).1.timer = some g → g.armed.isSome = true → g.chan = none := by
  intro g hg ha
  have h := inv_run {} os inv_init
  simp only [Inv, hg] at h
  exact h.2.1 ha

/-- **The pool is clean**: in every reachable state the time.Timers that successful Stops handed back to
`timeTimerPool` hold no value — so a Timer that takes one of them at its first Reset starts with an empty channel,
whatever Timer it served before (the model re-arms a pooled timer *with* its channel: `step`, case `reset` on nil). -/
theorem pool_is_clean (os : List Op) : ∀ g ∈ (run {} os).1.pool, g.chan = none := by
  have h := inv_run {} os inv_init
  exact h.1

/-- … hence nothing of an earlier life shows after Stop and a new Reset: until the new duration has elapsed a receive
finds nothing -/
theorem nothing_of_the_past (os : List Op) (d dt : Nat) (hd : dt < d) :
    (step (step (step (step (run {} os).1 .stop).1 (.reset d)).1 (.tick dt)).1 .recv).2 = Out.none := by
  have h := inv_run {} os inv_init
  have h' := inv_step _ .stop h
  generalize (run {} os).1 = s at h h'
  obtain ⟨now, timer, read, deadline, resets, recvd, pool⟩ := s
  have hnot : ¬ (now + d ≤ now + dt) := by omega
  cases timer with
  | none =>
    simp only [step] at h' ⊢
    simp only [Inv] at h'
    cases pool with
    | nil => simp [step, fire, hnot]
    | cons g rest =>
      have hg : g.chan = none := h'.1 g (by simp)
      simp [step, fire, hnot, hg]
  | some g0 =>
    obtain ⟨armed, chan⟩ := g0
    simp only [Inv] at h
    cases armed with
    | none =>
      simp only [step, Option.isSome_none, Bool.false_eq_true, if_false] at h' ⊢
      simp only [Inv] at h'
      cases pool with
      | nil => simp [step, fire, hnot]
      | cons g rest =>
        have hg : g.chan = none := h'.1 g (by simp)
        simp [step, fire, hnot, hg]
    | some dl =>
      have hc : chan = none := h.2.1 (by simp)
      subst hc
      simp [step, fire, hnot]

/-! Non-vacuity: a concrete history exercising drain, receive and stop. -/
example : (run {} [.reset 3, .tick 5, .reset 2, .tick 1, .recv, .tick 1, .recv, .stop]).2 =
    [.ok, .ok, .ok, .ok, .none, .ok, .got 7, .stopped false] := by decide

end Shk.C18
