import ShkModel.Lemmas.Regex
import ShkModel.Gen.ClauseRe
/-!
# The clause regexps of the configuration parser — what the matcher finds is what the regexp means

`Shk.Gen.all` is regenerated on every run from the Go source (`harness/cmd/vregex`), so the
table theorems below (`all_in_class`, `anchored_all`, …) are re-elaborated against the regexps
the parser holds **now**.  The general theorems hold for every regexp of the abstract syntax and
every string, without a bound.

Assumed, not proved: that Go's `regexp` package computes, for a regexp in which no repeated
sub-expression can match the empty string (`inClass`, checked over the table by `all_in_class`),
the first match of a backtracking search — its documented leftmost-first rule.  That is what the
correspondence K-RE compares on generated lines, spans included.
-/
namespace Shk.ReProps
open Shk.Re

/-! ## the matcher against the meaning -/

/-- whatever `run` reports is a match of the whole string -/
theorem run_sound {r : Re} {s : List Char} {c : Captures} (h : run r s = some c) : Matches r s := by
  simp only [run, Option.map_eq_some_iff] at h
  obtain ⟨t, ht, _⟩ := h
  have hp := List.find?_some ht
  have hm := ms_sound s r _ _ (List.mem_of_find?_eq_some ht)
  simp only [beq_iff_eq] at hp
  simpa [Matches, hp] using hm

/-- every string of the language is found: for every regexp, every string, no bound -/
theorem run_complete {r : Re} {s : List Char} (h : Matches r s) : (run r s).isSome = true := by
  obtain ⟨t, ht, htpos⟩ := ms_complete s r 0 s.length h (Nat.zero_le _) ⟨0, []⟩ rfl
  simp only [run, Option.isSome_map, List.find?_isSome]
  exact ⟨t, ht, by simp [htpos]⟩

theorem run_iff (r : Re) (s : List Char) : (run r s).isSome = true ↔ Matches r s :=
  ⟨fun h => by
    obtain ⟨c, hc⟩ := Option.isSome_iff_exists.mp h
    exact run_sound hc, run_complete⟩

/-- the answer has one entry per group after the whole-match span, which is the whole string -/
theorem run_shape {r : Re} {s : List Char} {c : Captures} (h : run r s = some c) :
    c.length = ngroups r + 1 ∧ c[0]? = some (some (0, s.length)) := by
  simp only [run, Option.map_eq_some_iff] at h
  obtain ⟨t, ht, rfl⟩ := h
  have hp := List.find?_some ht
  simp only [beq_iff_eq] at hp
  simp [spans, hp]

/-- a reported group span lies inside the string and is the span of a match of the body of a
group with that number (of *the* group with that number when numbers are not reused,
`group_unique`).  Under a repetition it is the span of the last iteration (by construction of
`ms`: the newest register shadows). -/
theorem run_captures {r : Re} {s : List Char} {c : Captures} {i a b : Nat} (h : run r s = some c)
    (hi : c[i + 1]? = some (some (a, b))) :
    a ≤ b ∧ b ≤ s.length ∧ ∃ nm q, Occ (.group (i + 1) nm q) r ∧ M s q a b := by
  simp only [run, Option.map_eq_some_iff] at h
  obtain ⟨t, ht, rfl⟩ := h
  have hmem := List.mem_of_find?_eq_some ht
  simp only [spans, List.getElem?_cons_succ, List.getElem?_map, Option.map_eq_some_iff] at hi
  obtain ⟨k, hk, hl⟩ := hi
  have hk' : k = i := by
    have := List.getElem?_eq_some_iff.mp hk
    simpa using this.2.symm
  subst hk'
  have hin := mem_of_lookup hl
  rcases ms_caps s r _ _ hmem (Nat.zero_le _) _ hin with h0 | ⟨h1, nm, q, hs, hm⟩
  · simp at h0
  · exact ⟨M_le s q _ _ hm, M_bound s q _ _ hm h1, nm, q, hs, hm⟩

/-! ## `FindStringSubmatch` -/

theorem findFrom_some {s : List Char} {r : Re} : ∀ (n start : Nat) (c : Captures),
    findFrom s r n start = some c →
    ∃ k t, start ≤ k ∧ k < start + n ∧ t ∈ ms s r ⟨k, []⟩ ∧ c = spans (ngroups r) k t := by
  intro n
  induction n with
  | zero => intro start c h; simp [findFrom] at h
  | succ n ih =>
    intro start c h
    simp only [findFrom] at h
    cases hh : (ms s r ⟨start, []⟩).head? with
    | some t =>
      rw [hh] at h
      simp only [Option.some.injEq] at h
      exact ⟨start, t, Nat.le_refl _, by omega, List.mem_of_head? hh, h.symm⟩
    | none =>
      rw [hh] at h
      obtain ⟨k, t, h1, h2, h3, h4⟩ := ih _ _ h
      exact ⟨k, t, by omega, by omega, h3, h4⟩

/-- what `find` reports is a piece of the string that belongs to the language -/
theorem find_sound {r : Re} {s : List Char} {c : Captures} (h : find r s = some c) :
    ∃ a b, c[0]? = some (some (a, b)) ∧ a ≤ b ∧ b ≤ s.length ∧ M s r a b := by
  obtain ⟨k, t, _, h2, h3, rfl⟩ := findFrom_some _ _ _ h
  have hm := ms_sound s r _ _ h3
  exact ⟨k, t.pos, by simp [spans], M_le s r _ _ hm, M_bound s r _ _ hm (by simp; omega), hm⟩

theorem findFrom_complete {s : List Char} {r : Re} {a b : Nat} (hm : M s r a b) (ha : a ≤ s.length) :
    ∀ (n start : Nat), start ≤ a → a < start + n → (findFrom s r n start).isSome = true := by
  intro n
  induction n with
  | zero => intro start h1 h2; omega
  | succ n ih =>
    intro start h1 h2
    simp only [findFrom]
    cases hh : (ms s r ⟨start, []⟩).head? with
    | some t => rfl
    | none =>
      simp only
      by_cases hs : start = a
      · subst hs
        obtain ⟨t, ht, _⟩ := ms_complete s r _ _ hm ha ⟨start, []⟩ rfl
        rw [List.head?_eq_none_iff] at hh
        rw [hh] at ht; simp at ht
      · exact ih _ (by omega) (by omega)

/-- if some piece of the string belongs to the language, `find` finds one -/
theorem find_complete {r : Re} {s : List Char} {a b : Nat} (hm : M s r a b) (ha : a ≤ s.length) :
    (find r s).isSome = true :=
  findFrom_complete hm ha _ _ (Nat.zero_le _) (by omega)

/-- for a regexp of the shape `^…$` the search of `FindStringSubmatch` is the whole-string
match: same verdict, same spans -/
theorem find_anchored {r : Re} (h : anchored r = true) (s : List Char) : find r s = run r s := by
  cases r with
  | cat a r' =>
    cases a with
    | bot =>
      have he : endsEot r' = true := by simpa [anchored] using h
      have hall : ∀ t ∈ ms s (.cat .bot r') ⟨0, []⟩, (t.pos == s.length) = true := by
        intro t ht
        simp only [ms, List.mem_flatMap] at ht
        obtain ⟨u, _, ht⟩ := ht
        simp [endsEot_pos s r' _ _ he ht]
      have hlater : ∀ k, 1 ≤ k → ms s (.cat .bot r') ⟨k, []⟩ = [] := by
        intro k hk
        have : k ≠ 0 := by omega
        simp [ms, this]
      simp only [find, findFrom, run, find?_eq_head? hall]
      cases hh : (ms s (.cat .bot r') ⟨0, []⟩).head? with
      | some t => simp
      | none => simpa using findFrom_none _ _ hlater
    | _ => simp [anchored] at h
  | _ => simp [anchored] at h

/-- so for an anchored regexp `FindStringSubmatch` succeeds exactly on the language -/
theorem find_iff_anchored {r : Re} (h : anchored r = true) (s : List Char) :
    (find r s).isSome = true ↔ Matches r s := by
  rw [find_anchored h]; exact run_iff r s

/-- the rule "an iteration that consumed nothing is not repeated" never fires for a body that
cannot match the empty string: in the class `inClass` the matcher is plain backtracking -/
theorem star_rule_vacuous {r : Re} (h : nullable r = false) (s : List Char) (st : St) :
    (ms s r st).filter (fun t => st.pos < t.pos) = ms s r st :=
  List.filter_eq_self.mpr fun t ht => by simpa using ms_consumes s r st t h ht

/-! ## group numbers -/

theorem sub_group_mem : ∀ (r : Re) {i : Nat} {nm : Option String} {q : Re},
    Occ (.group i nm q) r → i ∈ groupIdxs r := by
  intro r
  induction r with
  | cat a b iha ihb =>
    intro i nm q h
    simp only [Occ, reduceCtorEq, false_or] at h
    simp only [groupIdxs, List.mem_append]
    exact h.imp iha ihb
  | alt a b iha ihb =>
    intro i nm q h
    simp only [Occ, reduceCtorEq, false_or] at h
    simp only [groupIdxs, List.mem_append]
    exact h.imp iha ihb
  | star g r ih => intro i nm q h; simp only [Occ, reduceCtorEq, false_or] at h; exact ih h
  | plus g r ih => intro i nm q h; simp only [Occ, reduceCtorEq, false_or] at h; exact ih h
  | opt g r ih => intro i nm q h; simp only [Occ, reduceCtorEq, false_or] at h; exact ih h
  | group j nm' r ih =>
    intro i nm q h
    simp only [Occ, Re.group.injEq] at h
    simp only [groupIdxs, List.mem_cons]
    exact h.imp (fun e => e.1) ih
  | _ => intro i nm q h; simp [Occ] at h

/-- when every group number is used once, a number names one sub-expression -/
theorem group_unique : ∀ (r : Re), (groupIdxs r).Nodup → ∀ {i : Nat} {nm nm' : Option String} {q q' : Re},
    Occ (.group i nm q) r → Occ (.group i nm' q') r → nm = nm' ∧ q = q' := by
  intro r
  induction r with
  | cat a b iha ihb =>
    intro hn i nm nm' q q' h1 h2
    simp only [Occ, reduceCtorEq, false_or] at h1 h2
    simp only [groupIdxs, List.nodup_append] at hn
    rcases h1 with h1 | h1 <;> rcases h2 with h2 | h2
    · exact iha hn.1 h1 h2
    · exact absurd rfl (hn.2.2 _ (sub_group_mem a h1) _ (sub_group_mem b h2))
    · exact absurd rfl (hn.2.2 _ (sub_group_mem a h2) _ (sub_group_mem b h1))
    · exact ihb hn.2.1 h1 h2
  | alt a b iha ihb =>
    intro hn i nm nm' q q' h1 h2
    simp only [Occ, reduceCtorEq, false_or] at h1 h2
    simp only [groupIdxs, List.nodup_append] at hn
    rcases h1 with h1 | h1 <;> rcases h2 with h2 | h2
    · exact iha hn.1 h1 h2
    · exact absurd rfl (hn.2.2 _ (sub_group_mem a h1) _ (sub_group_mem b h2))
    · exact absurd rfl (hn.2.2 _ (sub_group_mem a h2) _ (sub_group_mem b h1))
    · exact ihb hn.2.1 h1 h2
  | star g r ih =>
    intro hn i nm nm' q q' h1 h2
    simp only [Occ, reduceCtorEq, false_or] at h1 h2; exact ih hn h1 h2
  | plus g r ih =>
    intro hn i nm nm' q q' h1 h2
    simp only [Occ, reduceCtorEq, false_or] at h1 h2; exact ih hn h1 h2
  | opt g r ih =>
    intro hn i nm nm' q q' h1 h2
    simp only [Occ, reduceCtorEq, false_or] at h1 h2; exact ih hn h1 h2
  | group j nm0 r ih =>
    intro hn i nm nm' q q' h1 h2
    simp only [Occ, Re.group.injEq] at h1 h2
    simp only [groupIdxs, List.nodup_cons] at hn
    rcases h1 with h1 | h1 <;> rcases h2 with h2 | h2
    · exact ⟨h1.2.1.trans h2.2.1.symm, h1.2.2.trans h2.2.2.symm⟩
    · exact absurd (h1.1 ▸ sub_group_mem r h2) hn.1
    · exact absurd (h2.1 ▸ sub_group_mem r h1) hn.1
    · exact ih hn.2 h1 h2
  | _ => intro _ i nm nm' q q' h1; simp [Occ] at h1

theorem nodup_of_wellNumbered {r : Re} (h : wellNumbered r = true) : (groupIdxs r).Nodup := by
  simp only [wellNumbered, beq_iff_eq] at h
  rw [h]
  exact List.nodup_range' 1

/-- for a regexp whose groups are numbered 1 … n (every regexp of the table, `well_numbered_all`)
the reported span of group `i` is a match of the body of *the* group `i` -/
theorem run_captures_the_group {r : Re} {s : List Char} {c : Captures} {i a b : Nat} {nm : Option String} {q : Re}
    (hw : wellNumbered r = true) (h : run r s = some c) (hi : c[i + 1]? = some (some (a, b)))
    (hq : Occ (.group (i + 1) nm q) r) : a ≤ b ∧ b ≤ s.length ∧ M s q a b := by
  obtain ⟨h1, h2, nm', q', ho, hm⟩ := run_captures h hi
  obtain ⟨_, rfl⟩ := group_unique r (nodup_of_wellNumbered hw) hq ho
  exact ⟨h1, h2, hm⟩

/-! ## literals and keywords -/

/-- a regexp `^w$` with `w` a literal matches `w` and nothing else -/
theorem matches_isLiteral {r : Re} {w : List Nat} (h : isLiteral r = some w) (s : List Char) :
    Matches r s ↔ s.map Char.toNat = w := by
  cases r with
  | cat a r' =>
    cases a with
    | bot =>
      have hb : litBody r' = some w := by simpa [isLiteral] using h
      simp only [Matches, M]
      constructor
      · rintro ⟨k, ⟨rfl, _⟩, hm⟩
        obtain ⟨_, h2, h3⟩ := (litBody_iff s r' w _ _ hb).mp hm
        have := (LitAt_iff s w 0).mp h3
        simp only [List.drop_zero] at this
        rw [← this, List.take_of_length_le (by simp; omega)]
      · intro hs
        refine ⟨0, ⟨rfl, trivial⟩, (litBody_iff s r' w _ _ hb).mpr ⟨rfl, ?_, (LitAt_iff s w 0).mpr ?_⟩⟩
        · rw [← hs]; simp
        · rw [← hs]; simp only [List.drop_zero]; exact List.take_of_length_le (Nat.le_refl _)
    | _ => simp [isLiteral] at h
  | _ => simp [isLiteral] at h

theorem M_litPrefix (s : List Char) : ∀ (r : Re) (i j : Nat), M s r i j → LitAt s (litPrefix r) i := by
  intro r
  induction r with
  | chr c =>
    intro i j h
    obtain ⟨_, hch⟩ := chrAt_eq.mp h
    exact ⟨hch, trivial⟩
  | cat a b iha ihb =>
    intro i j h
    obtain ⟨k, h1, h2⟩ := h
    cases a with
    | bot =>
      simp only [M] at h1
      simp only [litPrefix]
      rw [h1.1]; exact ihb _ _ h2
    | chr c =>
      obtain ⟨hk, hch⟩ := chrAt_eq.mp h1
      simp only [litPrefix]
      exact ⟨hch, hk ▸ ihb _ _ h2⟩
    | group idx nm a' =>
      simp only [litPrefix]
      exact iha _ _ h1
    | _ => simp [litPrefix, LitAt]
  | group idx nm a ih => intro i j h; exact ih _ _ h
  | _ => intro i j _; simp [litPrefix, LitAt]

/-- every string of the language begins with the literal prefix read off the syntax
(`litPrefix`: the keyword of a clause such as `tempo`, `scene`, `repeat`) -/
theorem matches_litPrefix {r : Re} {s : List Char} (h : Matches r s) :
    (s.map Char.toNat).take (litPrefix r).length = litPrefix r := by
  have := (LitAt_iff s _ 0).mp (M_litPrefix s r _ _ h)
  simpa using this

/-- a regexp of the shape `^(\S+)\s+verb\s+…` only matches lines whose second blank-separated
word is the verb: a word, blanks, the verb, a blank -/
theorem verb_second_word {r : Re} {v : List Nat} {s : List Char} (h : wordVerb r = some v)
    (hm : Matches r s) :
    ∃ i j, 0 < i ∧ i < j ∧ (∀ k, k < i → WordCharAt s k) ∧ (∀ k, i ≤ k → k < j → BlankAt s k) ∧
      LitAt s v j ∧ BlankAt s (j + v.length) := by
  unfold wordVerb at h
  split at h
  · rename_i g1 nm1 g2 ns g3 ws rest
    split at h
    · rename_i v' g4 ws2 x hsp
      split at h
      · rename_i hc
        simp only [Option.some.injEq] at h
        subst h
        simp only [Bool.and_eq_true, beq_iff_eq] at hc
        obtain ⟨⟨⟨hns, hws⟩, hws2⟩, _⟩ := hc
        subst hns hws hws2
        obtain ⟨k0, ⟨hk0, _⟩, i, h1, j, h2, h3⟩ := hm
        subst hk0
        have h1' : M s (.plus g2 (.cls NS)) 0 i := h1
        have s1 := plus_cls_span h1'
        have s2 := plus_cls_span h2
        obtain ⟨l1, l2⟩ := splitLit_M s rest _ _ h3
        rw [hsp] at l1 l2
        obtain ⟨e, l3, _⟩ := l2
        have s3 := plus_cls_span l3
        exact ⟨i, j, s1.1, s2.1, fun k hk => s1.2 k (Nat.zero_le _) hk, s2.2, l1,
          s3.2 _ (Nat.le_refl _) s3.1⟩
      · simp at h
    · simp at h
  · simp at h

/-- a regexp of the shape `^kw\s+…` or `^kw$` only matches lines that begin with the keyword
followed by a blank, or that are the keyword -/
theorem keyword_first {r : Re} {v : List Nat} {s : List Char} (h : keywordFirst r = some v)
    (hm : Matches r s) : LitAt s v 0 ∧ (BlankAt s v.length ∨ s.length = v.length) := by
  unfold keywordFirst at h
  split at h
  · rename_i rest
    obtain ⟨k0, ⟨hk0, _⟩, h3⟩ := hm
    subst hk0
    obtain ⟨l1, l2⟩ := splitLit_M s rest _ _ h3
    split at h
    · rename_i v' g ws x hsp
      split at h
      · rename_i hc
        simp only [Option.some.injEq] at h
        subst h
        simp only [Bool.and_eq_true, beq_iff_eq] at hc
        obtain ⟨hws, _⟩ := hc
        subst hws
        rw [hsp] at l1 l2
        obtain ⟨e, l3, _⟩ := l2
        have s3 := plus_cls_span l3
        refine ⟨l1, Or.inl ?_⟩
        have := s3.2 _ (Nat.le_refl _) s3.1
        simpa [BlankAt] using this
      · simp at h
    · rename_i v' hsp
      split at h
      · simp only [Option.some.injEq] at h
        subst h
        rw [hsp] at l1 l2
        simp only [M] at l2
        exact ⟨l1, Or.inr (by omega)⟩
      · simp at h
    · simp at h
  · simp at h

/-! ## the regenerated table -/

/-- no repeated sub-expression of a clause regexp can match the empty string -/
theorem all_in_class : ∀ p ∈ Gen.all, inClass p.2 = true := by decide

/-- every regexp but the parameter scanner `~\w+~` has the shape `^…$` -/
theorem anchored_all : ∀ p ∈ Gen.all, p.1 ≠ "preprocRe" → anchored p.2 = true := by decide

/-- groups are numbered 1 … n in order of their opening parenthesis, each number once -/
theorem well_numbered_all : ∀ p ∈ Gen.all, wellNumbered p.2 = true := by decide

/-- no regexp of the table accepts the empty line -/
theorem none_matches_empty : ∀ p ∈ Gen.all, ¬ Matches p.2 [] := by
  have h : ∀ p ∈ Gen.all, (run p.2 []).isSome = false := by decide
  intro p hp hm
  have := run_complete hm
  rw [h p hp] at this
  exact Bool.false_ne_true this

/-- the four section headers are literal keywords: exactly these lines open a section -/
theorem header_keywords (s : List Char) :
    (Matches Gen.actorsRe s ↔ s = "cast".toList) ∧
    (Matches Gen.scriptRe s ↔ s = "script".toList) ∧
    (Matches Gen.audienceRe s ↔ s = "audience".toList) ∧
    (Matches Gen.interpretationRe s ↔ s = "interpretation".toList) := by
  have inj : ∀ (w : List Char), s.map Char.toNat = w.map Char.toNat ↔ s = w := fun w =>
    List.map_inj_right (fun a b hab => Char.ext (UInt32.toNat_inj.mp hab))
  refine ⟨?_, ?_, ?_, ?_⟩
  · rw [matches_isLiteral (w := "cast".toList.map Char.toNat) (by decide), inj]
  · rw [matches_isLiteral (w := "script".toList.map Char.toNat) (by decide), inj]
  · rw [matches_isLiteral (w := "audience".toList.map Char.toNat) (by decide), inj]
  · rw [matches_isLiteral (w := "interpretation".toList.map Char.toNat) (by decide), inj]

/-- a clause of these kinds begins with its keyword -/
theorem clause_keywords {s : List Char} :
    (Matches Gen.roleRe s → s.take 4 = "role".toList) ∧
    (Matches Gen.paramRe s → s.take 9 = "parameter".toList) ∧
    (Matches Gen.tempoRe s → s.take 5 = "tempo".toList) ∧
    (Matches Gen.storyLineRe s → s.take 9 = "storyline".toList) ∧
    (Matches Gen.editRe s → s.take 4 = "edit".toList) ∧
    (Matches Gen.entailsRe s → s.take 5 = "scene".toList) ∧
    (Matches Gen.moodChangeRe s → s.take 5 = "scene".toList) ∧
    (Matches Gen.repeatRe s → s.take 6 = "repeat".toList) ∧
    (Matches Gen.spotlightDefRe s → s.take 9 = "spotlight".toList) ∧
    (Matches Gen.cleanupDefRe s → s.take 7 = "cleanup".toList) ∧
    (Matches Gen.parseDefRe s → s.take 6 = "signal".toList) ∧
    (Matches Gen.actionDefRe s → s.take 1 = ":".toList) := by
  have key : ∀ (r : Re) (w : List Char), litPrefix r = w.map Char.toNat → Matches r s → s.take w.length = w := by
    intro r w hw hm
    have h := matches_litPrefix hm
    rw [hw, List.length_map, ← List.map_take] at h
    exact (List.map_inj_right (fun a b hab => Char.ext (UInt32.toNat_inj.mp hab))).mp h
  exact ⟨key _ "role".toList (by decide), key _ "parameter".toList (by decide), key _ "tempo".toList (by decide),
    key _ "storyline".toList (by decide), key _ "edit".toList (by decide), key _ "scene".toList (by decide),
    key _ "scene".toList (by decide), key _ "repeat".toList (by decide), key _ "spotlight".toList (by decide),
    key _ "cleanup".toList (by decide), key _ "signal".toList (by decide), key _ ":".toList (by decide)⟩

/-- every clause regexp of the audience section (the dispatch chain of `parseAudience`, as the
translator reads it off the source) has the shape `^(\S+)\s+verb\s+…`: the verb of an audience
clause is its second word (`verb_second_word` applies to each) -/
theorem audience_clauses_word_verb :
    ∀ n ∈ (Gen.uses.lookup "parseAudience").getD [], ∃ r ∈ Gen.all.lookup n, (wordVerb r).isSome = true := by
  decide

/-- every clause regexp of a role body, of the script section and of the top level, and the
blanket `ignore` of the interpretation section, begins with its keyword followed by a blank
(`keyword_first` applies to each); the action definition `:name cmd` and the two-word
`foul upon` / `require` / `ignore <member>` clause are the exceptions -/
theorem keyword_clauses :
    ∀ f ∈ ["parseCfg", "parseRole", "parseScript", "parseInterpretation"],
      ∀ n ∈ (Gen.uses.lookup f).getD [], n ≠ "actionDefRe" → n ≠ "foulRe" →
        ∃ r ∈ Gen.all.lookup n, (keywordFirst r).isSome = true := by
  decide

/-! A finding (not a theorem here, so that a repair does not break the build): the documented clause
`repeat from <regexp>` with the regexp `times` also has the shape `repeat <count> times`;
`parseScript` tries `repeatCountRe` first, takes `from` for the count and rejects the line with
`strconv.Atoi: parsing "from"`.  `run Gen.repeatRe` and `run Gen.repeatCountRe` both succeed on
`"repeat from times"` (checked with `decide` when this was written). -/

/-! ## non-vacuity: the real regexps on real lines -/

example : run Gen.watchRe "bob watches every doc temp".toList
    = some [some (0, 26), some (0, 3), some (12, 21), some (22, 26)] := by decide
example : Matches Gen.watchRe "bob watches every doc temp".toList :=
  run_sound (c := [some (0, 26), some (0, 3), some (12, 21), some (22, 26)]) (by decide)
example : find Gen.watchRe "bob watches every doc temp".toList = run Gen.watchRe "bob watches every doc temp".toList :=
  find_anchored (by decide) _
-- lazy `\S+?` gives the star to the next group; `play\s+(\S+)` is the second alternative
example : run Gen.actorDefRe "bob* play 2 doctors".toList
    = some [some (0, 19), some (0, 3), some (3, 4), some (10, 11), some (12, 19), some (19, 19)] := by decide
-- a group that took no part is `none`
example : run Gen.actorDefRe "bob plays doc".toList
    = some [some (0, 13), some (0, 3), some (3, 3), none, some (10, 13), some (13, 13)] := by decide
example : run Gen.watchRe "bob watches".toList = none := by decide
example : ¬ Matches Gen.watchRe "bob watches".toList := fun h => by
  have := run_complete h
  exact absurd this (by decide)
-- the unanchored scanner: leftmost piece
example : find Gen.preprocRe "a ~bc~ ~d~".toList = some [some (2, 6)] := by decide
example : run Gen.preprocRe "a ~bc~ ~d~".toList = none := by decide
-- last iteration wins, an empty iteration is not repeated
example : run (.star true (.group 1 none (.alt (.chr 97) (.chr 98)))) "ab".toList = some [some (0, 2), some (1, 2)] := by decide
example : run (.star true (.group 1 none (.star true (.chr 97)))) "b".toList = none := by decide
example : (run (.star true (.star true (.chr 97))) "aaa".toList).isSome = true := by decide
example : inClass (.star true (.star true (.chr 97))) = false := by decide
example : wordVerb Gen.watchRe = some ("watches".toList.map Char.toNat) := by decide
example : wordVerb Gen.noPlotRe = some ("only".toList.map Char.toNat) := by decide
example : keywordFirst Gen.tempoRe = some ("tempo".toList.map Char.toNat) := by decide
example : keywordFirst Gen.actorsRe = some ("cast".toList.map Char.toNat) := by decide
example : wordVerb Gen.actorDefRe = none := by decide
example : nullable Gen.roleRe = false ∧ anchored Gen.roleRe = true := by decide
example : ∃ p ∈ Gen.all, p.1 = "preprocRe" ∧ anchored p.2 = false := by decide

end Shk.ReProps
