import ShkModel.Lemmas.Period
import ShkModel.Lemmas.Unprompted
/-!
# C02 — activation periods are judged independently and are always closed

All theorems are about `Shk.Aud.run` (the model of `audition.audit`) for an **arbitrary**
configuration `c` (any number of members, any expressions, any dependency shape: nothing is ever
assumed about `eval` or `Expr.deps`), an arbitrary event list and an arbitrary end time.

Vocabulary (`ShkModel/Lemmas/Period.lean`):
* `proj n trace` / `markers n s` — what the trace shows for the auditor named `n`: `start`,
  `rep lbl r` (a verdict `r`, with the ghost label `lbl` that was fired: 0 = predicate true,
  1 = predicate not true, 2 = end of period), `err` (predicate failed to evaluate), `stop`.
* `scan` — recogniser of `(start (rep|err)* stop)*` + possibly one open period; result: inside?
* `track T?` — the same brackets **and** the table: each `start` resets the tracked state to
  `T.start`, each verdict must be `Table.fire` of its label from the tracked state, and `stop` must
  directly follow the verdict of the `end` label.
* `labelsOf`, `repsOf` — the labels / the verdicts of a stretch of markers.

Convention (DESIGN.md): the round in which the condition is found false, or the final round, is the
*closing round* of the period and belongs to it.

Hypothesis used where a member (not just a name) matters: member names are pairwise distinct, as
in the code where they are map keys.
-/
namespace Shk.C02
open Shk Shk.Aud

/-! ## 1. Brackets: `(start (rep|err)* stop)*`, as an invariant of every step -/

/-- one visit (`checkEventForAuditor`) of *any* member extends the markers of *any* name `n` by a
word that drives the bracket recogniser from `n`'s `auditing` flag before to the flag after. -/
theorem visit_bracketed (n : String) (c : Cfg) (final : Bool) (ts : Rat) (s : St) (m : Member) :
    ∃ d, markers n (visit c final ts s m) = markers n s ++ d ∧
      scan (s.aud n).auditing d = some ((visit c final ts s m).aud n).auditing :=
  visit_deltaB n c final ts s m

/-- visits of a member with another name emit no marker of `n` and leave `n`'s period state alone -/
theorem visit_other_silent (n : String) (c : Cfg) (final : Bool) (ts : Rat) (s : St) (m : Member)
    (h : m.name ≠ n) :
    markers n (visit c final ts s m) = markers n s ∧
      ((visit c final ts s m).aud n).auditing = (s.aud n).auditing ∧
      ((visit c final ts s m).aud n).fsm = (s.aud n).fsm :=
  let r := visit_same c final ts s m h; ⟨r.mks, r.auditing, r.fsm⟩

/-- the same for a whole round (`checkEvent`: head assignments, then the fold over the members) -/
theorem round_bracketed (n : String) (c : Cfg) (final : Bool) (ts : Rat) (xs : List Sample) (s : St) :
    ∃ d, markers n (round c final ts xs s) = markers n s ++ d ∧
      scan (s.aud n).auditing d = some ((round c final ts xs s).aud n).auditing :=
  (stableB c n).round final ts xs s

/-- the same for one event (a signal round, or the two rounds of a mood change) -/
theorem stepEv_bracketed (n : String) (c : Cfg) (s : St) (e : Ev) :
    ∃ d, markers n (stepEv c s e) = markers n s ++ d ∧
      scan (s.aud n).auditing d = some ((stepEv c s e).aud n).auditing :=
  (stableB c n).stepEv s e

/-- **periods_bracketed**: for every configuration, history and end time, and every auditor name
`n` (every member in particular): the markers of `n` in the trace are in
`(start (rep|err)* stop)*` possibly followed by one open period, and the recogniser ends inside a
period exactly when the model says `n` is still auditing.  (No hypothesis at all.) -/
theorem periods_bracketed (c : Cfg) (evs : List Ev) (tEnd : Rat) (n : String) :
    scan false (proj n (run c evs tEnd).out.reverse) = some ((run c evs tEnd).aud n).auditing :=
  ((stableB c n).run evs tEnd).from_init

/-- the same holds after every prefix of the events (before the deferred final round) -/
theorem periods_bracketed_prefix (c : Cfg) (evs : List Ev) (n : String) :
    scan false (proj n (preFinal c evs).out.reverse) = some ((preFinal c evs).aud n).auditing :=
  ((stableB c n).preFinal evs).from_init

/-! ## 2. Every period is closed, by exactly one end-of-period judgement -/

/-- **all_closed**: if the final round itself did not abort, no member is auditing when the play
ends — whatever the members' expressions mention. -/
theorem all_closed (c : Cfg) (hnd : (c.members.map (·.name)).Nodup) (evs : List Ev) (tEnd : Rat)
    (hab : (finalRound c evs tEnd).abort = none) :
    ∀ m ∈ c.members, ((run c evs tEnd).aud m.name).auditing = false := by
  intro m hm
  show ((finalRound c evs tEnd).aud m.name).auditing = false
  rw [finalRound_eq_fold] at hab ⊢
  exact fold_final_closes c tEnd c.members hnd _
    (fun k hk => audOK_finalBegin c hnd evs tEnd k hk) hab m hm

/-- the same under the coarser hypothesis that the whole run reports no abort -/
theorem all_closed_of_no_abort (c : Cfg) (hnd : (c.members.map (·.name)).Nodup) (evs : List Ev)
    (tEnd : Rat) (hab : (run c evs tEnd).abort = none) :
    ∀ m ∈ c.members, ((run c evs tEnd).aud m.name).auditing = false := by
  refine all_closed c hnd evs tEnd ?_
  rw [run_eq] at hab
  cases h1 : (preFinal c evs).abort <;> simp_all [Option.or]

/-- **closed up to the failing member**: when an expression cannot be evaluated the audition ends, but the final round is
still due (also when it was the start round that failed: repair 88efe9c) — it closes, one by one and in audience order, every
member it reaches before the member whose evaluation fails again.  `pre` are the members the final round gets through
without an abort; what comes after them can no longer touch them. -/
theorem closed_up_to_the_failing_member (c : Cfg) (hnd : (c.members.map (·.name)).Nodup) (evs : List Ev)
    (tEnd : Rat) (pre post : List Member) (hsplit : c.members = pre ++ post)
    (hab : (pre.foldl (rvisit c true tEnd) (finalBegin c evs tEnd)).abort = none) :
    ∀ m ∈ pre, ((run c evs tEnd).aud m.name).auditing = false := by
  intro m hm
  show ((finalRound c evs tEnd).aud m.name).auditing = false
  rw [finalRound_eq_fold, hsplit, List.foldl_append]
  have hnd' : ((pre ++ post).map (·.name)).Nodup := by rw [← hsplit]; exact hnd
  rw [List.map_append, List.nodup_append] at hnd'
  obtain ⟨hpre, _, hdisj⟩ := hnd'
  have hother : ∀ m' ∈ post, m'.name ≠ m.name := by
    intro m' hm' e
    exact hdisj m.name (List.mem_map.mpr ⟨m, hm, rfl⟩) m'.name (List.mem_map.mpr ⟨m', hm', rfl⟩) e.symm
  rw [(fold_same c true tEnd post hother _).auditing]
  exact fold_final_closes c tEnd pre hpre _
    (fun k hk => audOK_finalBegin c hnd evs tEnd k (by rw [hsplit]; simp [hk])) hab m hm

/-- consequently the marker stream of every member is exactly `(start (rep|err)* stop)*`:
nothing is left open. -/
theorem all_periods_complete (c : Cfg) (hnd : (c.members.map (·.name)).Nodup) (evs : List Ev)
    (tEnd : Rat) (hab : (finalRound c evs tEnd).abort = none) (m : Member) (hm : m ∈ c.members) :
    scan false (proj m.name (run c evs tEnd).out.reverse) = some false := by
  rw [periods_bracketed, all_closed c hnd evs tEnd hab m hm]

/-- **final_visits_open**: when the member loop of the final round reaches member `m`
(`st` = the state after the members before it), `m` is visited if its period is open — whatever
its dependency shape, woken in that round or not. -/
theorem final_visits_open (c : Cfg) (hnd : (c.members.map (·.name)).Nodup) (evs : List Ev)
    (tEnd : Rat) (pre post : List Member) (m : Member) (hsplit : c.members = pre ++ m :: post) :
    finalRound c evs tEnd =
        (m :: post).foldl (rvisit c true tEnd) (pre.foldl (rvisit c true tEnd) (finalBegin c evs tEnd)) ∧
      (((pre.foldl (rvisit c true tEnd) (finalBegin c evs tEnd)).aud m.name).auditing = true →
        visited true (pre.foldl (rvisit c true tEnd) (finalBegin c evs tEnd)) m = true) := by
  have hm : m ∈ c.members := by simp [hsplit]
  refine ⟨by rw [finalRound_eq_fold, hsplit, List.foldl_append], fun ha => ?_⟩
  have st := stableOK c hnd m hm
  have hok : AudOK m (pre.foldl (rvisit c true tEnd) (finalBegin c evs tEnd)) :=
    st.fold true tEnd pre (fun k hk => by simp [hsplit, hk]) _ (audOK_finalBegin c hnd evs tEnd m hm)
  simp [visited, ha, hok ha]

/-- the visiting rule itself: in the final round an open period suffices -/
theorem visited_final_of_open (s : St) (m : Member) (hm : m.isAuditor = true)
    (ha : (s.aud m.name).auditing = true) : visited true s m = true := by
  simp [visited, hm, ha]

/-- and that visit closes the period unless it aborts -/
theorem final_visit_closes (c : Cfg) (ts : Rat) (s : St) (m : Member)
    (h : (visit c true ts s m).abort = none) :
    ((visit c true ts s m).aud m.name).auditing = false :=
  visit_final_closes c ts s m h

/-! ## 3. Fresh start and locality of the verdicts -/

/-- **fresh_start**: wherever `.start m.name` is emitted (`startPeriod` is its only emitter), the
modality state becomes the table's start state — for *every* earlier state `s`, hence
independently of any earlier period. -/
theorem fresh_start (s : St) (m : Member) (T : Table) (e : Expr) (he : m.expect = some (T, e)) :
    ((startPeriod s m).aud m.name).fsm = T.start ∧
      ((startPeriod s m).aud m.name).auditing = true ∧
      (startPeriod s m).out = .start m.name :: s.out := by
  simp [startPeriod, he, St.emit, setAud]

/-- the round in which a period starts: the visit *is* "start afresh, run the assignments, judge
the predicate", and the state the first verdict is fired from is `T.start` whatever `s` was. -/
theorem fresh_start_visit (c : Cfg) (final : Bool) (ts : Rat) (s : St) (m : Member) (T : Table)
    (e : Expr) (he : m.expect = some (T, e)) (hab : s.abort = none)
    (ha : (s.aud m.name).auditing = false) (hc : condOf final s m = some (.ok true)) :
    visit c final ts s m = checkExpect (assignAll c ts (startPeriod s m) m.assigns) ts m ∧
      ((assignAll c ts (startPeriod s m) m.assigns).aud m.name).fsm = T.start := by
  refine ⟨by simp [visit, hab, hc, ha], ?_⟩
  rw [(assignAll_same c ts (startPeriod s m) m.assigns m.name).fsm]
  exact (fresh_start s m T e he).1

/-- the ghost label is the truth value of the predicate in that round: when the predicate is
evaluated (no abort, dependencies satisfied), the verdict emitted is the `fire` step for label
`t` if it evaluated to `true`, for label `f` if it evaluated to anything else; an evaluation
error gives `repErr` and no step. -/
theorem label_is_truth (s : St) (ts : Rat) (m : Member) (T : Table) (e : Expr)
    (he : m.expect = some (T, e)) (hab : s.abort = none) (hd : hasDeps s e = true) :
    (checkExpect s ts m).out =
      match eval s.vals e with
      | .ok v =>
        .rep ts m.name (T.fire (s.aud m.name).fsm (Table.lbl (v == .sc (.bool true)))).2
          (Table.lbl (v == .sc (.bool true))) :: s.out
      | .err => .repErr ts m.name :: s.out
      | .unmodelled => s.out := by
  have hout : ∀ l, (fireExpect s ts m.name T l).out =
      .rep ts m.name (T.fire (s.aud m.name).fsm l).2 l :: s.out := fun _ => rfl
  unfold checkExpect
  rw [if_neg (by simp [hab])]
  simp only [he, hd, Bool.not_true, Bool.false_eq_true, if_false]
  cases h : eval s.vals e with
  | err => rfl
  | unmodelled => rfl
  | ok v =>
    by_cases hv : v = .sc (.bool true)
    · subst hv; exact hout 0
    · have hb : (v == Val.sc (Sc.bool true)) = false := by simpa using hv
      simp only [hb, Table.lbl, Bool.false_eq_true, if_false]
      exact hout 1

/-- when the predicate's dependencies are not satisfied nothing is judged in that round -/
theorem unevaluated_is_silent (s : St) (ts : Rat) (m : Member) (T : Table) (e : Expr)
    (he : m.expect = some (T, e)) (hd : hasDeps s e = false) : checkExpect s ts m = s := by
  simp [checkExpect, he, hd]

/-- **periods_tracked**: the tracking recogniser accepts the marker stream of every member and
ends in the member's real state: outside a period, or inside with the real table state.  Since
the recogniser forgets everything at each `start`, the real table state is a function of the
labels of the current period only. -/
theorem periods_tracked (c : Cfg) (hnd : (c.members.map (·.name)).Nodup) (evs : List Ev)
    (tEnd : Rat) (m : Member) (hm : m ∈ c.members) :
    track m.table? .out (proj m.name (run c evs tEnd).out.reverse) =
      some (psOf m ((run c evs tEnd).aud m.name)) :=
  ((stableP c hnd m hm).run evs tEnd).from_init

/-- the same after every prefix of the events -/
theorem periods_tracked_prefix (c : Cfg) (hnd : (c.members.map (·.name)).Nodup) (evs : List Ev)
    (m : Member) (hm : m ∈ c.members) :
    track m.table? .out (proj m.name (preFinal c evs).out.reverse) =
      some (psOf m ((preFinal c evs).aud m.name)) :=
  ((stableP c hnd m hm).preFinal evs).from_init

/-- **verdicts_local**: take any closed period of a member with an `expects` clause, i.e. any way
of cutting its marker stream as `pre ++ start :: body ++ stop :: post` with no `start`/`stop`
inside `body`.  Then the labels fired in `body` are the truth values `bs` observed in that period
followed by `end`, and the verdicts of `body` are `T.period T.start bs`: a function of the
observations of that period alone (`repErr` entries carry no verdict). -/
theorem verdicts_local (c : Cfg) (hnd : (c.members.map (·.name)).Nodup) (evs : List Ev)
    (tEnd : Rat) (m : Member) (hm : m ∈ c.members) (T : Table) (e : Expr)
    (he : m.expect = some (T, e)) (pre body post : List Mk)
    (hsplit : proj m.name (run c evs tEnd).out.reverse = pre ++ Mk.start :: (body ++ Mk.stop :: post))
    (hs : Mk.start ∉ body) (hp : Mk.stop ∉ body) :
    ∃ bs : List Bool, labelsOf body = bs.map Table.lbl ++ [2] ∧
      repsOf body = T.period T.start bs := by
  have h := periods_tracked c hnd evs tEnd m hm
  have ht : m.table? = some T := by simp [Member.table?, he]
  rw [hsplit, ht] at h
  obtain ⟨bs, h1, h2, _, _⟩ := track_period T body _ post _ (track_split_start _ _ _ _ _ h).2 hs hp
  exact ⟨bs, h1, h2⟩

/-- **exactly_one_end**: in every closed period of a member with an `expects` clause the verdict
of the `end` label occurs exactly once and is the last marker before `stop`. -/
theorem exactly_one_end (c : Cfg) (hnd : (c.members.map (·.name)).Nodup) (evs : List Ev)
    (tEnd : Rat) (m : Member) (hm : m ∈ c.members) (T : Table) (e : Expr)
    (he : m.expect = some (T, e)) (pre body post : List Mk)
    (hsplit : proj m.name (run c evs tEnd).out.reverse = pre ++ Mk.start :: (body ++ Mk.stop :: post))
    (hs : Mk.start ∉ body) (hp : Mk.stop ∉ body) :
    (∃ body' r, body = body' ++ [Mk.rep 2 r]) ∧ (labelsOf body).count 2 = 1 := by
  have h := periods_tracked c hnd evs tEnd m hm
  have ht : m.table? = some T := by simp [Member.table?, he]
  rw [hsplit, ht] at h
  obtain ⟨bs, h1, _, h3, _⟩ := track_period T body _ post _ (track_split_start _ _ _ _ _ h).2 hs hp
  refine ⟨h3, ?_⟩
  rw [h1, List.count_append]
  have : (bs.map Table.lbl).count 2 = 0 := by
    rw [List.count_eq_zero]
    intro hmem
    obtain ⟨b, _, hb⟩ := List.mem_map.1 hmem
    cases b <;> simp [Table.lbl] at hb
  simp [this]

/-- a member without an `expects` clause only starts and stops: its closed periods are empty -/
theorem plain_periods_empty (c : Cfg) (hnd : (c.members.map (·.name)).Nodup) (evs : List Ev)
    (tEnd : Rat) (m : Member) (hm : m ∈ c.members) (he : m.expect = none) :
    ∀ k ∈ proj m.name (run c evs tEnd).out.reverse, k = Mk.start ∨ k = Mk.stop := by
  have h := periods_tracked c hnd evs tEnd m hm
  have ht : m.table? = none := by simp [Member.table?, he]
  rw [ht] at h
  generalize proj m.name (run c evs tEnd).out.reverse = l at h
  generalize PS.out = p at h
  generalize psOf m _ = p' at h
  induction l generalizing p with
  | nil => intro k hk; cases hk
  | cons a l ih =>
    intro k hk
    simp only [track, runA] at h
    cases hq : pstep none p a with
    | none => rw [hq] at h; cases h
    | some q =>
      rw [hq] at h
      rcases List.mem_cons.1 hk with rfl | hk'
      · cases p <;> cases k <;> simp [pstep] at hq <;> simp
      · exact ih q h k hk'

/-- the open period (if any) at the end of the run: the verdicts so far, completed by the `end`
verdict still due from the member's real table state, form `T.period T.start bs` for the truth
values `bs` observed since the last `start`. -/
theorem verdicts_local_open (c : Cfg) (hnd : (c.members.map (·.name)).Nodup) (evs : List Ev)
    (tEnd : Rat) (m : Member) (hm : m ∈ c.members) (T : Table) (e : Expr)
    (he : m.expect = some (T, e)) (pre body : List Mk)
    (hsplit : proj m.name (run c evs tEnd).out.reverse = pre ++ Mk.start :: body)
    (hs : Mk.start ∉ body) (hp : Mk.stop ∉ body) :
    ((run c evs tEnd).aud m.name).auditing = true ∧
    ∃ bs : List Bool, labelsOf body = bs.map Table.lbl ∧
      T.period T.start bs =
        repsOf body ++ [(T.fire ((run c evs tEnd).aud m.name).fsm 2).2] := by
  have h := periods_tracked c hnd evs tEnd m hm
  have ht : m.table? = some T := by simp [Member.table?, he]
  rw [hsplit, ht] at h
  rcases track_open T body _ _ (track_split_start _ _ _ _ _ h).2 hs hp with ⟨q', bs, h1, h2, h3⟩ | h4
  · cases ha : ((run c evs tEnd).aud m.name).auditing with
    | false => simp [psOf, ha] at h1
    | true =>
      simp only [psOf, ha, he, Option.isSome_some, if_true, PS.ins.injEq] at h1
      exact ⟨rfl, bs, h2, by rw [h1]; exact h3⟩
  · cases ha : ((run c evs tEnd).aud m.name).auditing <;> simp [psOf, ha] at h4

/-! ## 4. Nothing is judged, computed or collected outside periods -/

/-- **silent_outside**: a visit of a member that is not auditing and whose condition does not
hold now (false, dependencies unsatisfied, error, or the final round) runs no assignment, judges
nothing and emits nothing: values, outputs and auditor states are unchanged.  (By `visit`'s
structure these are the only visits outside a period; `periods_bracketed` is the trace-level
counterpart for verdicts.) -/
theorem silent_outside (c : Cfg) (final : Bool) (ts : Rat) (s : St) (m : Member)
    (ha : (s.aud m.name).auditing = false) (hc : condOf final s m ≠ some (.ok true)) :
    (visit c final ts s m).vals = s.vals ∧ (visit c final ts s m).out = s.out ∧
      (visit c final ts s m).aud = s.aud := by
  unfold visit
  split
  · exact ⟨rfl, rfl, rfl⟩
  · split
    · exact ⟨rfl, rfl, rfl⟩
    · exact ⟨rfl, rfl, rfl⟩
    · next b hb =>
      cases b with
      | true => exact absurd hb hc
      | false => simp [ha]

/-- **period_follows_condition**: in a round in which member `m` is visited and its activation condition can be
evaluated (`condOf` = `some (ok b)`: dependencies satisfied, or the final round where it counts as false), the
member is auditing after the visit exactly when the condition holds (unless the visit aborted on an evaluation
error): a period starts in the very round the condition becomes true and ends in the very round it becomes false. -/
theorem period_follows_condition (c : Cfg) (final : Bool) (ts : Rat) (s : St) (m : Member) (b : Bool)
    (hab : s.abort = none) (hc : condOf final s m = some (.ok b))
    (hna : (visit c final ts s m).abort = none) :
    ((visit c final ts s m).aud m.name).auditing = b := by
  unfold visit at hna ⊢
  simp only [hab, Option.isSome_none, Bool.false_eq_true, if_false, hc] at hna ⊢
  cases b with
  | false =>
    cases ha : (s.aud m.name).auditing with
    | false => simp [ha]
    | true =>
      simp only [ha, Bool.false_and, Bool.not_true, Bool.false_eq_true, if_false] at hna ⊢
      exact endPeriod_closes _ ts m hna
  | true =>
    cases ha : (s.aud m.name).auditing with
    | false =>
      simp only [ha, Bool.not_false, Bool.and_self, if_true] at hna ⊢
      rw [checkExpect_auditing, (assignAll_same c ts _ m.assigns m.name).auditing]; simp
    | true =>
      simp only [ha, Bool.not_true, Bool.and_false, Bool.false_eq_true, if_false, if_true] at hna ⊢
      rw [checkExpect_auditing, (assignAll_same c ts _ m.assigns m.name).auditing]; exact ha

/-- conversely, `assignAll` and `checkExpect` run in a visit only in a round of a period -/
theorem active_only_inside (c : Cfg) (final : Bool) (ts : Rat) (s : St) (m : Member)
    (h : visit c final ts s m ≠ s) :
    s.abort = none ∧
      ((s.aud m.name).auditing = true ∨ condOf final s m = some (.ok true) ∨
        ∃ a, condOf final s m = some (.error a)) := by
  unfold visit at h
  split at h
  · exact absurd rfl h
  · next hab =>
    refine ⟨by simpa using hab, ?_⟩
    split at h
    · exact absurd rfl h
    · next a hc => exact .inr (.inr ⟨a, hc⟩)
    · next b hb =>
      cases ha : (s.aud m.name).auditing with
      | true => exact .inl rfl
      | false =>
        cases b with
        | true => exact .inr (.inl hb)
        | false => simp [ha] at h

/-! ## 5. The pre-fix rule left a signal-only auditor open -/

/-- witness of the defect (checked by evaluation in the kernel): with the old visiting rule
(`visitedOld`: only woken members are visited, in the final round too) the auditor of `exSigOnly`,
which mentions only `[x s]`, is still auditing after the final round of the history
"one sample `[x s] = 5`, end at 10": its period never gets its `end` judgement nor its `stop`. -/
theorem old_rule_leaves_open :
    ((runOld exSigOnly [.sig 1 (exSample 5)] 10).aud "sig").auditing = true ∧
      (runOld exSigOnly [.sig 1 (exSample 5)] 10).abort = none ∧
      proj "sig" (runOld exSigOnly [.sig 1 (exSample 5)] 10).out.reverse =
        [.start, .rep 1 .info] := by decide

/-- with the repaired rule the same history is closed: `eventually` is judged `bad` at the end -/
theorem new_rule_closes :
    ((run exSigOnly [.sig 1 (exSample 5)] 10).aud "sig").auditing = false ∧
      proj "sig" (run exSigOnly [.sig 1 (exSample 5)] 10).out.reverse =
        [.start, .rep 1 .info, .rep 2 .bad, .stop] := by decide

/-! ## 6. An auditor that nothing wakes

`q audits throughout` / `q expects eventually: [a ready] > 0`, and `ready` never arrives: the period of `q` is
the whole play, "whatever variables and signals the auditor's expressions happen to mention" — but the loop only
visited auditors one of whose variables had been assigned, so `q` was never visited, its period never opened and
the final round had nothing to close: no judgement at all, status 0.  Repaired in /repo: an auditor whose
condition depends on nothing is visited until its period has started. -/

/-- **the period of an `audits throughout` auditor is open from the start of the play**, whatever its other
expressions mention (every configuration with distinct member names; `Unconditional`: the condition reads no
variable and is true) -/
theorem throughout_open_from_start (c : Cfg) (hnd : (c.members.map (·.name)).Nodup) (m : Member)
    (hm : m ∈ c.members) (hu : Unconditional m) (h : (start c).abort = none) :
    ((start c).aud m.name).auditing = true :=
  start_opens c hnd m hm hu h

/-- … and it **stays open until the final round**: after the start round and after every event the auditor is
inside its period (as long as nothing aborted), so no `stop` occurs before the end of the play; the final round then
closes it (`all_closed`) with the one end-of-period judgement (`exactly_one_end`). -/
theorem throughout_open_until_the_end (c : Cfg) (hnd : (c.members.map (·.name)).Nodup) (m : Member)
    (hm : m ∈ c.members) (hu : Unconditional m) (evs : List Ev) (h : (preFinal c evs).abort = none) :
    ((preFinal c evs).aud m.name).auditing = true :=
  preFinal_open c hnd m hm hu evs h

/-- witness of the defect (kernel evaluation): with the rule before the repair `q` is never judged … -/
theorem woken_rule_never_judges :
    proj "q" (runWoken exThroughout [] 10).out.reverse = [] ∧ (runWoken exThroughout [] 10).abort = none := by
  decide

/-- … with the repaired rule its period spans the play and `eventually` is disappointed at the end -/
theorem unprompted_rule_judges :
    proj "q" (run exThroughout [] 10).out.reverse = [.start, .rep 2 .bad, .stop] := by decide

example : ∀ m ∈ exThroughout.members, Unconditional m := by
  intro m hm; simp [exThroughout] at hm; subst hm; exact ⟨by decide, by decide, fun _ => rfl⟩

/-! ## 7. Every assignment wakes every auditor that watches the variable

(the model-level counterpart of the oracles O-C02d / O-C02e: a sample wakes its watchers whether or not its value
changed, and whoever else is awake already) -/

/-- **setVar wakes all watchers**: after a non-nil assignment of `v`, every auditor among the watchers of `v` is
awake — independently of the previous value of `v`, of the order of the watchers and of who was awake before -/
theorem assignment_wakes_every_watcher (c : Cfg) (s : St) (ts : Rat) (typ : Typ) (v : VarName) (val : Val)
    (cc : Bool) (hv : val.isNil = false) (w : Member) (hw : w ∈ c.watchers v) (ha : w.isAuditor = true) :
    ((setVar c s ts typ v val cc).aud w.name).activated = true := by
  unfold setVar
  simp only [hv, Bool.false_eq_true, if_false]
  have hne : (c.watchers v).isEmpty = false := by
    cases h : c.watchers v with
    | nil => rw [h] at hw; cases hw
    | cons a l => rfl
  simp only [hne, Bool.false_eq_true, if_false]
  have : ((c.watchers v).any fun x => decide (x.name = w.name) && x.isAuditor) = true :=
    List.any_eq_true.mpr ⟨w, hw, by simp [ha]⟩
  simp [this]

/-- … and nobody else's wake-up flag is cleared by it -/
theorem assignment_keeps_the_awake (c : Cfg) (s : St) (ts : Rat) (typ : Typ) (v : VarName) (val : Val)
    (cc : Bool) (n : String) (h : (s.aud n).activated = true) :
    ((setVar c s ts typ v val cc).aud n).activated = true := by
  unfold setVar
  split
  · exact h
  · split
    · exact h
    · simp only; split <;> simp [h]

/-! ## Non-vacuity -/

/-- the hypotheses are satisfiable: distinct names, two members (one of them signal-only) -/
example : (exCfg.members.map (·.name)).Nodup ∧ exCfg.members.length = 2 := by decide

/-- … and the final round of the example history does not abort -/
example : (finalRound exCfg exEvs 10).abort = none ∧ (run exCfg exEvs 10).abort = none := by decide

/-- the example history gives each of the two members two periods; the second period of each is
open when the play ends and is closed by the final round (time 10) -/
example : proj "watch" (run exCfg exEvs 10).out.reverse =
    [.start, .rep 0 .good, .rep 2 .good, .stop, .start, .rep 1 .info, .rep 2 .bad, .stop] := by decide

example : proj "sig" (run exCfg exEvs 10).out.reverse =
    [.start, .rep 0 .info, .rep 1 .bad, .rep 0 .info, .rep 2 .good, .stop,
     .start, .rep 0 .info, .rep 2 .good, .stop] := by decide

/-- before the final round both second periods are indeed open -/
example : ((preFinal exCfg exEvs).aud "watch").auditing = true ∧
    ((preFinal exCfg exEvs).aud "sig").auditing = true := by decide

/-- the hypotheses of `verdicts_local` / `exactly_one_end` hold for the first period of `sig`
(`pre = []`), and the period is explained by the observations `[true, false, true]` alone -/
example :
    proj "sig" (run exCfg exEvs 10).out.reverse =
      [] ++ Mk.start :: ([.rep 0 .info, .rep 1 .bad, .rep 0 .info, .rep 2 .good] ++
        Mk.stop :: [.start, .rep 0 .info, .rep 2 .good, .stop]) ∧
    Mk.start ∉ [Mk.rep 0 .info, .rep 1 .bad, .rep 0 .info, .rep 2 .good] ∧
    Mk.stop ∉ [Mk.rep 0 .info, .rep 1 .bad, .rep 0 .info, .rep 2 .good] ∧
    repsOf [Mk.rep 0 .info, .rep 1 .bad, .rep 0 .info, .rep 2 .good] =
      exAlways.period exAlways.start [true, false, true] := by decide

/-- … and for its second period (`pre` = the whole first period): a fresh start, `[true]` only -/
example :
    proj "sig" (run exCfg exEvs 10).out.reverse =
      [.start, .rep 0 .info, .rep 1 .bad, .rep 0 .info, .rep 2 .good, .stop] ++
        Mk.start :: ([.rep 0 .info, .rep 2 .good] ++ Mk.stop :: []) ∧
    repsOf [Mk.rep 0 .info, .rep 2 .good] = exAlways.period exAlways.start [true] := by decide

/-- the hypothesis of `verdicts_local_open` holds before… the final round is what closes it: the
`abort` hypothesis of `all_closed` cannot be dropped.  Here a `computes` expression fails in the
closing (final) round; the loop returns the error and the period stays open. -/
example : (exAbortCfg.members.map (·.name)).Nodup ∧
    (finalRound exAbortCfg [.sig 1 (exSample 5)] 10).abort = some .evalError ∧
    ((run exAbortCfg [.sig 1 (exSample 5)] 10).aud "sig").auditing = true ∧
    proj "sig" (run exAbortCfg [.sig 1 (exSample 5)] 10).out.reverse = [.start, .rep 1 .info] := by
  decide

/-- the hypotheses of `silent_outside` hold e.g. for the signal-only auditor in the initial state
(dependencies unsatisfied) … -/
example : (({} : St).aud "sig").auditing = false ∧
    ∀ m ∈ exSigOnly.members, condOf false {} m = none := by
  refine ⟨rfl, ?_⟩
  intro m hm
  simp only [exSigOnly, List.mem_singleton] at hm
  subst hm
  rfl

/-- … and those of `fresh_start_visit` in the round of the first sample -/
example : ∀ m ∈ exSigOnly.members,
    condOf false (beginRound exSigOnly 1 (exSample 5) (start exSigOnly)) m = some (.ok true) := by
  intro m hm
  simp only [exSigOnly, List.mem_singleton] at hm
  subst hm
  rfl

end Shk.C02
