import ShkModel.Model.Audition
/-! # C02 — activation periods (theorems under construction) -/
namespace Shk.C02
open Shk Shk.Aud

/-- the final visit of a member closes its period -/
theorem final_condOf (s : St) (m : Member) : condOf true s m = some (.ok false) := by
  simp [condOf]

end Shk.C02
