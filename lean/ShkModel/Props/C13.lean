import ShkModel.Model.Script
import ShkModel.Lemmas.Paths
import ShkModel.Lemmas.Script
/-!
# C13 — an actor's commands always run in that actor's own directory and environment

Claim level: **partial**.  The theorems are about the generated script (`Model/Script.lean`) and
about the path of the working directory (`Model/Paths.lean`); that bash then does what the script
says (`cd`, assignments exported by `set -a`, `exec >>file`) is trusted and exercised end-to-end by
`vlib/c13.py` (ledger written by every command, invoked directly and through another actor's
prepared script).
-/
namespace Shk.C13
open Shk.Script

/-- **script_layout** — every generated script (any actor, action name, command, `with` text;
action, cleanup or spotlight) consists of known lines only, changes directory exactly once, to the
actor's own working directory, before `TMPDIR=$PWD HOME=$PWD/..`; redirects its output to
`<action>.log` after that iff it is not a spotlight; then sets the actor's `with` text (iff there is
one); and ends with the command. -/
theorem script_layout (a : Actor) (act c : String) (redirect : Bool) :
    layoutOk (script a act c redirect) a.workDir act (envText a.idx a.withText) c (!redirect) = true := by
  cases redirect <;> by_cases h : envText a.idx a.withText = "" <;>
    simp [script, layoutOk, precedes, h, isOther, isCd, isRedirect, isEnv, List.filter, List.dropWhile]

/-- the specification is not vacuous: it rejects a script that sets TMPDIR/HOME before `cd`, a
spotlight that redirects its output, an action that does not, and a `with` text after the command -/
example : layoutOk [.shebang "s", .setOpts, .tmpHome, .cd "w", .trace, .command "c"] "w" "a" "" "c" true = false := by decide
example : layoutOk [.shebang "s", .setOpts, .cd "w", .tmpHome, .redirect "a", .trace, .command "c"] "w" "a" "" "c" true = false := by decide
example : layoutOk [.shebang "s", .setOpts, .cd "w", .tmpHome, .trace, .command "c"] "w" "a" "" "c" false = false := by decide
example : layoutOk [.shebang "s", .setOpts, .cd "w", .tmpHome, .trace, .command "c", .env "X=1"] "w" "a" "X=1" "c" true = false := by decide
example : layoutOk [.shebang "s", .setOpts, .cd "w", .tmpHome, .trace, .env "X=1", .command "c"] "w" "a" "X=1" "c" true = true := by decide

/-- the command is the last line and the `with` text, when there is one, the line before it -/
theorem script_tail (a : Actor) (act c : String) (redirect : Bool) :
    ∃ front, script a act c redirect =
      front ++ (if envText a.idx a.withText = "" then [] else [Line.env (envText a.idx a.withText)])
        ++ [Line.command c]
      ∧ front.take 4 = [Line.shebang a.shell, Line.setOpts, Line.cd a.workDir, Line.tmpHome]
      ∧ (Line.redirect act ∈ front ↔ redirect = true) := by
  refine ⟨[.shebang a.shell, .setOpts, .cd a.workDir, .tmpHome]
    ++ (if redirect then [.stamp act, .announce a.workDir act, .redirect act] else []) ++ [.trace], ?_, ?_, ?_⟩
  · simp [script]
  · simp
  · cases redirect <;> simp

/-- **multi_actor_env** — a definition `base* play N role [with w]` creates exactly N actors; the k-th
(k = 0 … N-1) is named `base<k+1>` and its environment text starts with `i=k`. -/
theorem multi_actor_env (c : CastDef) (n : Nat) (h : c.mul = some n) :
    (expandCast c).length = n ∧
    ∀ k, k < n →
      (expandCast c)[k]? = some (c.base ++ toString (k + 1), some k)
      ∧ ∃ rest, envText (some k) c.withText = "i=" ++ toString k ++ rest := by
  constructor
  · simp [expandCast, h]
  · intro k hk
    constructor
    · simp [expandCast, h, hk]
    · unfold envText
      by_cases hw : c.withText = ""
      · exact ⟨"", by simp [hw]⟩
      · exact ⟨"; " ++ c.withText, by simp [hw]⟩

example : (⟨"b", some 3, "r", "X=1"⟩ : CastDef).mul = some 3 := rfl

/-- a single definition `name plays role` creates that one actor, without `i` -/
theorem single_actor_env (c : CastDef) (h : c.mul = none) :
    expandCast c = [(c.base, none)] ∧ envText none c.withText = c.withText := by
  simp [expandCast, h, envText]

/-- **scripts_complete** — for every actor playing a role whose action names are distinct (the parser
guarantees it) and none of which is `_spotlight` or `_cleanup`: the script file of every action holds
that action's command (with redirection). -/
theorem scripts_complete (a : Actor) (r : Role)
    (hu : (r.actions.map Prod.fst).Nodup)
    (hres : ∀ x ∈ r.actions, x.1 ≠ "_spotlight" ∧ x.1 ≠ "_cleanup") :
    ∀ n c, (n, c) ∈ r.actions → fileOf n (written a r) = some (script a n c true) := by
  intro n c h
  have hn := hres (n, c) h
  simp only [written, fileOf_append]
  have h1 : fileOf n (if r.cleanup = "" then [] else [("_cleanup", script a "_cleanup" r.cleanup true)]) = none := by
    split <;> simp [fileOf, Ne.symm hn.2]
  have h2 : fileOf n (if r.spotlight = "" then [] else [("_spotlight", script a "_spotlight" r.spotlight false)]) = none := by
    split <;> simp [fileOf, Ne.symm hn.1]
  simp only [h1, h2]
  exact fileOf_map_of_mem (fun x => script a x.1 x.2 true) r.actions hu n c h

example : ((⟨[("go", "true"), ("stop", "false")], "tail -f x", "rm x"⟩ : Role).actions.map Prod.fst).Nodup
    ∧ ∀ x ∈ (⟨[("go", "true"), ("stop", "false")], "tail -f x", "rm x"⟩ : Role).actions, x.1 ≠ "_spotlight" ∧ x.1 ≠ "_cleanup" := by decide

/-- the spotlight and cleanup scripts are written whenever the role defines them (no condition on the
action names: they are written last), the spotlight without redirection, the cleanup with; and
`files` lists one entry per action plus these two — nothing else. -/
theorem role_scripts_written (a : Actor) (r : Role) :
    (r.spotlight ≠ "" → fileOf "_spotlight" (written a r) = some (script a "_spotlight" r.spotlight false))
    ∧ (r.cleanup ≠ "" → fileOf "_cleanup" (written a r) = some (script a "_cleanup" r.cleanup true))
    ∧ (files a r).length = r.actions.length + (if r.spotlight = "" then 0 else 1)
        + (if r.cleanup = "" then 0 else 1) := by
  refine ⟨?_, ?_, ?_⟩
  · intro h
    simp only [written, fileOf_append, h, if_false]
    by_cases hc : r.cleanup = "" <;> simp [fileOf, hc]
  · intro h
    simp [written, fileOf_append, h, fileOf]
  · by_cases h1 : r.spotlight = "" <;> by_cases h2 : r.cleanup = "" <;> simp [files, h1, h2]

/-- what the code does with a reserved name (stated outright): an action called `_cleanup` in a role
that has a cleanup command shares the file `actions/_cleanup.sh`; the cleanup is written last, so the
"action" runs the cleanup command, not its own. -/
theorem reserved_name_clobbers :
    fileOf "_cleanup" (written ⟨"a", "/w", "/bin/bash", none, ""⟩ ⟨[("_cleanup", "echo action")], "", "echo cleanup"⟩)
      = some (script ⟨"a", "/w", "/bin/bash", none, ""⟩ "_cleanup" "echo cleanup" true)
    ∧ script ⟨"a", "/w", "/bin/bash", none, ""⟩ "_cleanup" "echo cleanup" true
      ≠ script ⟨"a", "/w", "/bin/bash", none, ""⟩ "_cleanup" "echo action" true := by decide

/-- **extended roles** — a role that extends another one has every action of its parent and every
action of its own section, and inherits spotlight and cleanup unless it redefines them; hence
(`scripts_complete`) its actors get a script for each of them. -/
theorem extends_inherits (known known' : List (String × Role)) (d : RoleDef) (p : String) (b : Role)
    (hp : d.parent = some p) (hb : lookup p known = some b) (hd : defineRole known d = some known') :
    ∃ r, lookup d.name known' = some r
      ∧ (∀ x ∈ b.actions, x ∈ r.actions) ∧ (∀ x ∈ d.actions, x ∈ r.actions)
      ∧ r.spotlight = d.spotlight.getD b.spotlight ∧ r.cleanup = d.cleanup.getD b.cleanup
      ∧ (∀ k, k ≠ d.name → lookup k known' = lookup k known) := by
  unfold defineRole at hd
  split at hd
  · cases hd
  · rename_i hnew
    simp only [hp, hb] at hd
    split at hd
    · cases hd
    · rename_i acts hacts
      cases hd
      have hnone : lookup d.name known = none := by
        cases hl : lookup d.name known with
        | none => rfl
        | some v => simp [hl] at hnew
      refine ⟨_, lookup_append_new _ _ _ hnone, ?_, ?_, rfl, rfl, ?_⟩
      · intro x hx
        rw [addActions_eq _ _ _ hacts]
        exact List.mem_append_left _ hx
      · intro x hx
        rw [addActions_eq _ _ _ hacts]
        exact List.mem_append_right _ hx
      · intro k hk
        exact lookup_append_other _ _ _ _ (fun e => hk e.symm)

example : defineRole [("r", ⟨[("ok", "true")], "tail -f x", ""⟩)] ⟨"s", some "r", [("more", "false")], none, some "rm x"⟩
    = some [("r", ⟨[("ok", "true")], "tail -f x", ""⟩), ("s", ⟨[("ok", "true"), ("more", "false")], "tail -f x", "rm x"⟩)] := by
  decide

/-- every role the parser holds has distinct action names and distinct role names -/
def RolesOK (known : List (String × Role)) : Prop :=
  (known.map Prod.fst).Nodup ∧ ∀ x ∈ known, (x.2.actions.map Prod.fst).Nodup

/-- one `role … end` section keeps that (a second action of one name, own or inherited, and a second role of
one name are rejected) -/
theorem defineRole_ok (known known' : List (String × Role)) (d : RoleDef)
    (hk : RolesOK known) (hd : defineRole known d = some known') : RolesOK known' := by
  unfold defineRole at hd
  split at hd
  · cases hd
  · rename_i hnew
    have hnew' : (lookup d.name known).isSome = false := by simpa using hnew
    split at hd
    · cases hd
    · rename_i b hb
      split at hd
      · cases hd
      · rename_i acts hacts
        cases hd
        have hbok : (b.actions.map Prod.fst).Nodup := by
          cases hp : d.parent with
          | none => simp [hp] at hb; subst hb; simp [Role.empty]
          | some p =>
            simp only [hp] at hb
            exact hk.2 _ (lookup_some_mem _ _ _ hb)
        refine ⟨?_, ?_⟩
        · rw [List.map_append, List.nodup_append]
          refine ⟨hk.1, by simp, ?_⟩
          intro a ha c hc
          simp at hc; subst hc
          intro e; subst e
          exact lookup_none_not_mem _ _ hnew' ha
        · intro x hx
          rcases List.mem_append.mp hx with h | h
          · exact hk.2 x h
          · simp at h; subst h
            exact addActions_nodup _ _ _ hbok hacts

theorem defineRoles_ok (ds : List RoleDef) (known roles : List (String × Role))
    (hk : RolesOK known) (h : defineRoles known ds = some roles) : RolesOK roles := by
  induction ds generalizing known with
  | nil => simp [defineRoles] at h; subst h; exact hk
  | cons d r ih =>
    simp only [defineRoles] at h
    split at h
    · cases h
    · rename_i k hd
      exact ih k (defineRole_ok _ _ _ hk hd) h

/-- **parser_guarantees_distinct_actions** — the hypothesis of `scripts_complete` holds of every role of every
configuration the parser accepts: whatever the `role` sections are (any number, any `extends` chain), a role
that comes out of them never has two actions of one name, and no two roles share a name. -/
theorem parser_guarantees_distinct_actions (ds : List RoleDef) (roles : List (String × Role))
    (h : defineRoles [] ds = some roles) : RolesOK roles :=
  defineRoles_ok ds [] roles ⟨by simp, by simp⟩ h

/-- hence, for every accepted configuration: each actor's script file of each (non-reserved) action of its
role holds that action's command — `scripts_complete` without a hypothesis on the names being distinct. -/
theorem scripts_complete_of_parsed (ds : List RoleDef) (roles : List (String × Role))
    (h : defineRoles [] ds = some roles) (a : Actor) (rn : String) (r : Role) (hr : lookup rn roles = some r)
    (hres : ∀ x ∈ r.actions, x.1 ≠ "_spotlight" ∧ x.1 ≠ "_cleanup") :
    ∀ n c, (n, c) ∈ r.actions → fileOf n (written a r) = some (script a n c true) :=
  scripts_complete a r ((parser_guarantees_distinct_actions ds roles h).2 _ (lookup_some_mem _ _ _ hr)) hres

/-- a redefinition of an inherited action is rejected, not silently merged -/
example : defineRoles [] [⟨"r", none, [("ok", "true")], none, none⟩, ⟨"s", some "r", [("ok", "false")], none, none⟩] = none := by
  decide
example : defineRoles [] [⟨"r", none, [("ok", "true")], none, none⟩, ⟨"r", none, [], none, none⟩] = none := by
  decide

open Shk.Paths in
/-- **workdir_under_run** — the working directory of an actor is the absolute path
`<run directory>/artifacts/<actor>` whatever the `-o` argument; `TMPDIR=$PWD` is that directory
and `HOME=$PWD/..` is `<run directory>/artifacts`: both inside the run directory. -/
theorem workdir_under_run {α : Type} (latest artifacts actor : α) (cwd : List α) (o : P α) (sub : List α) :
    workDir cwd artifacts (prepareDirs latest o sub).runDir actor
      = ⟨true, (absolutize cwd (prepareDirs latest o sub).runDir).comps ++ [Comp.nm artifacts, Comp.nm actor]⟩
    ∧ clean ⟨true, (workDir cwd artifacts (prepareDirs latest o sub).runDir actor).comps ++ [Comp.up]⟩
      = ⟨true, (absolutize cwd (prepareDirs latest o sub).runDir).comps ++ [Comp.nm artifacts]⟩ := by
  have key : ∀ q : P α, workDir cwd artifacts q actor
      = ⟨true, (absolutize cwd q).comps ++ [Comp.nm artifacts, Comp.nm actor]⟩ := by
    intro q
    have h1 : (workDir cwd artifacts q actor).comps
        = (absolutize cwd q).comps ++ [Comp.nm artifacts, Comp.nm actor] := by
      unfold workDir
      rw [join_join, absolutize_join_comps, absolutize_comps]
      simp [step]
    have h2 := absolutize_abs cwd (join (join q [Comp.nm artifacts]) [Comp.nm actor])
    cases hw : workDir cwd artifacts q actor with
    | mk ab cs =>
      rw [hw] at h1
      unfold workDir at hw
      rw [hw] at h2
      simp only at h1 h2
      rw [h1, h2]
  constructor
  · exact key _
  · rw [key]
    obtain ⟨ns, hns⟩ := base_names cwd (prepareDirs latest o sub).runDir
    simp only [clean, absolutize_comps, hns, cleanComps, names_reverse]
    congr 1
    simp only [List.foldl_append, fold_names, names_reverse, List.reverse_reverse, List.append_nil]
    simp [step, names_reverse]

/-! ## the role a cast line names -/

/-- a single-actor line (`bob plays doctor`) names its role literally: no plural reading -/
theorem single_line_role_is_literal {β : Type} (c : CastDef) (roles : List (String × β)) (h : c.mul = none) :
    roleOfCast c roles = lookup c.role roles := by
  unfold roleOfCast
  cases hl : lookup c.role roles <;> simp [h]

/-- a role that exists under the name as written is the one meant, also in a multi-actor line: the plural reading
(`bob* play 2 doctors` → `doctor`) is only tried when the name as written is no role -/
theorem exact_role_name_wins {β : Type} (c : CastDef) (roles : List (String × β)) (r : β)
    (h : lookup c.role roles = some r) : roleOfCast c roles = some r := by
  unfold roleOfCast; simp [h]

theorem plural_role_name {β : Type} (c : CastDef) (roles : List (String × β)) (n : Nat)
    (h0 : lookup c.role roles = none) (hm : c.mul = some n) :
    roleOfCast c roles = lookup (dropPlural c.role) roles := by
  unfold roleOfCast; simp [h0, hm]

example : roleOfCast ⟨"bob", some 2, "doctors", ""⟩ [("doctor", 7)] = some 7 ∧
    roleOfCast ⟨"bob", none, "doctors", ""⟩ [("doctor", 7)] = (none : Option Nat) := by decide +kernel

end Shk.C13
