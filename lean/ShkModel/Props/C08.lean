import ShkModel.Model.Spot
/-! # C08 — data points (theorems under construction) -/
namespace Shk.C08
open Shk Shk.Aud Shk.Spot

/-- a line that matches no pattern yields no point and leaves the delta state alone -/
theorem nomatch_no_point (epoch : Rat) (sd : SigDef) (last : Rat) (line : List Char)
    (h : matchSig epoch sd line = none) : sampleOf epoch sd last line = (last, none) := by
  simp [sampleOf, h]

end Shk.C08
