import ShkModel.Model.Collect
import ShkModel.Lemmas.Spot
import ShkModel.Lemmas.AudObs
import ShkModel.Lemmas.Pipeline
/-!
# C08 — each matching spotlight line yields exactly one correctly valued data point

* `Spot.pointsOf` is the specification: the points a list of lines denotes for one signal of one
  actor (one per matching, parsable line, in line order).
* `Spot.detectLine` models `detectSignals` (one call per line, grouping by time stamp, sorting);
  `Spot.detectAll` / `Spot.detectMulti` (in `Lemmas/Spot.lean`) thread the delta state over the
  lines of one actor / of several interleaved actors.
* `Aud.beginRound`, `Aud.round`, `Aud.run` model the audit loop that forwards every sample to the
  collector as one `Out.obs`.

Part 1 (`detect_*`): the model of `detectSignals` emits exactly the samples of `pointsOf`.
Part 2 (`delta_value`, `event_text`, `scalar_value`, `ts_kind`, `malformed_*`): what the points are.
Part 3 (`forwarded_*`): the audit loop forwards each sample exactly once.
All statements are for arbitrary signal lists, sink predicates, actors and line lists.
-/
namespace Shk.C08
open Shk Shk.Aud Shk.Spot

/-! ## Part 1 — `detectSignals` emits exactly the points of the specification -/

/-- **detect_points** (general initial delta state).  For a signal `sd` of the role that has a
sink and whose name is unique among the role's signals, the samples emitted for it over all the
lines of the actor — in emission order, with the stamp of the event carrying them — are exactly
the points `pointsOf` denotes: one per matching parsable line, in line order, none otherwise;
each sample carries the signal's type, the variable `[actor sd.name]` and the point's value. -/
theorem detect_points_from (epoch : Rat) (sigs : List SigDef) (hasSink : String → Bool)
    (actor : String) (sd : SigDef) (hs : hasSink sd.name = true)
    (hu : sigs.filter (fun x => x.name == sd.name) = [sd]) (lasts : Lasts) (lines : List (List Char)) :
    samplesOf actor sd.name (detectAll epoch sigs hasSink actor lasts lines).2 =
      (pointsOf epoch sd (lasts.get (actor, sd.name)) lines).map (Point.toSample actor sd) :=
  (detectAll_key epoch sigs hasSink actor sd hs hu lasts lines).2

/-- **detect_points**: from the start of the play (`raw₀ = 0`). -/
theorem detect_points (epoch : Rat) (sigs : List SigDef) (hasSink : String → Bool)
    (actor : String) (sd : SigDef) (hs : hasSink sd.name = true)
    (hu : sigs.filter (fun x => x.name == sd.name) = [sd]) (lines : List (List Char)) :
    samplesOf actor sd.name (detectAll epoch sigs hasSink actor [] lines).2 =
      (pointsOf epoch sd 0 lines).map (Point.toSample actor sd) :=
  detect_points_from epoch sigs hasSink actor sd hs hu [] lines

/-- the (stamp, value) reading of `detect_points` -/
theorem detect_points_values (epoch : Rat) (sigs : List SigDef) (hasSink : String → Bool)
    (actor : String) (sd : SigDef) (hs : hasSink sd.name = true)
    (hu : sigs.filter (fun x => x.name == sd.name) = [sd]) (lines : List (List Char)) :
    (samplesOf actor sd.name (detectAll epoch sigs hasSink actor [] lines).2).map
        (fun x => (x.1, x.2.val)) =
      (pointsOf epoch sd 0 lines).map fun p => (p.stamp, Val.sc p.val) := by
  rw [detect_points epoch sigs hasSink actor sd hs hu lines, List.map_map]
  rfl

/-- the same under the configuration invariant "signal names are unique in a role" -/
theorem detect_points_nodup (epoch : Rat) (sigs : List SigDef) (hasSink : String → Bool)
    (actor : String) (sd : SigDef) (hm : sd ∈ sigs) (hn : (sigs.map (·.name)).Nodup)
    (hs : hasSink sd.name = true) (lines : List (List Char)) :
    samplesOf actor sd.name (detectAll epoch sigs hasSink actor [] lines).2 =
      (pointsOf epoch sd 0 lines).map (Point.toSample actor sd) :=
  detect_points epoch sigs hasSink actor sd hs (filter_name_of_nodup sigs sd hm hn) lines

/-- the delta state of `(actor, sd.name)` evolves as the `last` argument of `pointsOf` -/
theorem detect_state (epoch : Rat) (sigs : List SigDef) (hasSink : String → Bool)
    (actor : String) (sd : SigDef) (hs : hasSink sd.name = true)
    (hu : sigs.filter (fun x => x.name == sd.name) = [sd]) (lasts : Lasts) (lines : List (List Char)) :
    (detectAll epoch sigs hasSink actor lasts lines).1.get (actor, sd.name) =
      lastAfter epoch sd (lasts.get (actor, sd.name)) lines :=
  (detectAll_key epoch sigs hasSink actor sd hs hu lasts lines).1

/-- per line: at most one sample per watched signal, namely the one `sampleOf` denotes -/
theorem detect_line (epoch : Rat) (sigs : List SigDef) (hasSink : String → Bool)
    (actor : String) (sd : SigDef) (hs : hasSink sd.name = true)
    (hu : sigs.filter (fun x => x.name == sd.name) = [sd]) (lasts : Lasts) (line : List Char) :
    samplesOf actor sd.name (detectLine epoch sigs hasSink actor lasts line).2 =
      (sampleOf epoch sd (lasts.get (actor, sd.name)) line).2.toList.map (Point.toSample actor sd) ∧
    (samplesOf actor sd.name (detectLine epoch sigs hasSink actor lasts line).2).length ≤ 1 := by
  have h := (detectLine_key epoch sigs hasSink actor lasts line sd hs hu).2
  exact ⟨h, by rw [h]; exact toList_map_length_le _ _⟩

/-- a signal without a sink (no observer watches it) yields nothing, whatever the lines -/
theorem detect_no_sink (epoch : Rat) (sigs : List SigDef) (hasSink : String → Bool)
    (actor : String) (name : String) (hs : hasSink name = false) (lasts : Lasts)
    (lines : List (List Char)) :
    samplesOf actor name (detectAll epoch sigs hasSink actor lasts lines).2 = [] :=
  (detectAll_other epoch sigs hasSink actor actor name
    (fun sd _ => by
      by_cases h : sd.name = name
      · exact Or.inr (h ▸ hs)
      · exact Or.inl fun e => h (Prod.mk.inj e).2) lasts lines).2

/-- nothing is ever emitted for a variable of another actor or a signal the role does not have -/
theorem detect_foreign (epoch : Rat) (sigs : List SigDef) (hasSink : String → Bool)
    (actor a n : String) (h : a ≠ actor ∨ ∀ sd ∈ sigs, sd.name ≠ n) (lasts : Lasts)
    (lines : List (List Char)) :
    samplesOf a n (detectAll epoch sigs hasSink actor lasts lines).2 = [] :=
  (detectAll_other epoch sigs hasSink actor a n
    (fun sd hsd => Or.inl fun e => by
      rcases h with h | h
      · exact h (Prod.mk.inj e).1.symm
      · exact h sd hsd (Prod.mk.inj e).2) lasts lines).2

/-- every emitted sample is well-formed: non-nil value, the actor's variable, a watched signal of
the role, that signal's type -/
theorem detect_wf (epoch : Rat) (sigs : List SigDef) (hasSink : String → Bool) (actor : String)
    (lasts : Lasts) (line : List Char) :
    ∀ e ∈ (detectLine epoch sigs hasSink actor lasts line).2, ∀ s ∈ e.samples,
      s.val.isNil = false ∧ s.v.actor = actor ∧
        ∃ sd ∈ sigs, hasSink sd.name = true ∧ s.v.sig = sd.name ∧ s.typ = sd.typ :=
  detectLine_wf epoch sigs hasSink actor lasts line

/-- **any number of actors per role**: with the lines of several actors interleaved in any way
(one shared delta table keyed by actor and signal, as in the code), the samples of `[a sd.name]`
are the points of the lines of actor `a` alone. -/
theorem detect_points_multi (epoch : Rat) (sigs : List SigDef) (hasSink : String → String → Bool)
    (a : String) (sd : SigDef) (hs : hasSink a sd.name = true)
    (hu : sigs.filter (fun x => x.name == sd.name) = [sd]) (als : List (String × List Char)) :
    samplesOf a sd.name (detectMulti epoch sigs hasSink [] als).2 =
      (pointsOf epoch sd 0 (linesOf a als)).map (Point.toSample a sd) :=
  (detectMulti_key epoch sigs hasSink a sd hs hu [] als).2

/-! ### Non-vacuity of Part 1 -/

/-- two signals sharing the tag `v` (one delta, one scalar) and an event signal with a date -/
def exSigs : List SigDef :=
  [⟨"d", "v", .delta, .deltasecs, 0⟩, ⟨"s", "v", .scalar, .deltasecs, 0⟩, ⟨"e", "e", .event, .rfc3339, 0⟩,
   ⟨"unwatched", "v", .scalar, .deltasecs, 0⟩]

def exSink : String → Bool := fun n => n != "unwatched"

def exLines : List (List Char) :=
  ["12.5 v=3".toList, "noise".toList, "13 v=5".toList, "14 v=oops".toList,
   "2020-01-01T00:00:07.25Z e=hello".toList, "2020-13-01T00:00:07Z e=x".toList, "15 v=4".toList]

/-- the hypotheses of `detect_points` hold for the delta signal of the example -/
example : exSink "d" = true ∧ exSigs.filter (fun x => x.name == "d") = [⟨"d", "v", .delta, .deltasecs, 0⟩] := by
  decide

example : (exSigs.map (·.name)).Nodup := by decide

/-- … and the points are non-trivial: three deltas 3, 2, −1; the malformed `oops` is dropped -/
example : pointsOf 1577836800 ⟨"d", "v", .delta, .deltasecs, 0⟩ 0 exLines =
    [⟨.at (25/2), .num 3⟩, ⟨.at 13, .num 2⟩, ⟨.at 15, .num (-1)⟩] := by decide +kernel

/-- the model of `detectSignals` on the same lines (both sides of `detect_points_values`) -/
example : (samplesOf "bob" "d" (detectAll 1577836800 exSigs exSink "bob" [] exLines).2).map
      (fun x => (x.1, x.2.val)) =
    [(.at (25/2), .sc (.num 3)), (.at 13, .sc (.num 2)), (.at 15, .sc (.num (-1)))] := by
  decide +kernel

/-- the scalar signal with the same tag gets its own point from the same lines -/
example : (samplesOf "bob" "s" (detectAll 1577836800 exSigs exSink "bob" [] exLines).2).map
      (fun x => (x.1, x.2.val)) =
    [(.at (25/2), .sc (.num 3)), (.at 13, .sc (.num 5)), (.at 15, .sc (.num 4))] := by
  decide +kernel

/-- the event with a date: one point 7.25 s after the epoch; the line with month 13 is dropped -/
example : (samplesOf "bob" "e" (detectAll 1577836800 exSigs exSink "bob" [] exLines).2).map
      (fun x => (x.1, x.2.val)) = [(.at (29/4), .sc (.str "hello"))] := by
  decide +kernel

example : samplesOf "bob" "unwatched" (detectAll 1577836800 exSigs exSink "bob" [] exLines).2 = [] :=
  detect_no_sink _ _ _ _ _ (by decide) _ _

/-- uniqueness of the name is needed: a name declared twice yields two samples per line -/
example : (samplesOf "bob" "s" (detectLine 0 [⟨"s", "v", .scalar, .now, 0⟩, ⟨"s", "v", .scalar, .now, 0⟩]
      (fun _ => true) "bob" [] "v=1".toList).2).length = 2 := by decide +kernel

/-! ## Part 2 — the value and the time stamp of a point -/

/-- **delta_value** (list form): the points of a delta signal are the successive differences of
the raw readings (`rawOf`: lines that match with a parsable stamp and number), the first against
`last` (0 at the start of the play). -/
theorem delta_points (epoch : Rat) (sd : SigDef) (last : Rat) (lines : List (List Char))
    (h : sd.typ = .delta) :
    pointsOf epoch sd last lines = diffs last (lines.filterMap (rawOf epoch sd)) :=
  pointsOf_delta epoch sd last lines h

/-- **delta_value**: there are as many points as raw readings, and the k-th point carries the
stamp of the k-th reading and the value `rawₖ − rawₖ₋₁`, with `raw₋₁ = 0`. -/
theorem delta_value (epoch : Rat) (sd : SigDef) (lines : List (List Char)) (h : sd.typ = .delta)
    (k : Nat) :
    (pointsOf epoch sd 0 lines).length = (lines.filterMap (rawOf epoch sd)).length ∧
    (pointsOf epoch sd 0 lines)[k]? =
      (lines.filterMap (rawOf epoch sd))[k]?.map fun r =>
        ⟨r.1, .num (r.2 - (((0 : Rat) :: (lines.filterMap (rawOf epoch sd)).map (·.2))[k]?).getD 0)⟩ := by
  rw [pointsOf_delta epoch sd 0 lines h]
  exact ⟨diffs_length _ _, diffs_getElem? _ _ _⟩

/-- `delta_value` spelled out: first point, and any two consecutive readings -/
theorem delta_value_first (epoch : Rat) (sd : SigDef) (lines : List (List Char)) (h : sd.typ = .delta)
    (st : Stamp) (x : Rat) (h0 : (lines.filterMap (rawOf epoch sd))[0]? = some (st, x)) :
    (pointsOf epoch sd 0 lines)[0]? = some ⟨st, .num (x - 0)⟩ := by
  rw [(delta_value epoch sd lines h 0).2, h0]; rfl

theorem delta_value_succ (epoch : Rat) (sd : SigDef) (lines : List (List Char)) (h : sd.typ = .delta)
    (k : Nat) (s0 s1 : Stamp) (x0 x1 : Rat)
    (h0 : (lines.filterMap (rawOf epoch sd))[k]? = some (s0, x0))
    (h1 : (lines.filterMap (rawOf epoch sd))[k + 1]? = some (s1, x1)) :
    (pointsOf epoch sd 0 lines)[k + 1]? = some ⟨s1, .num (x1 - x0)⟩ := by
  rw [(delta_value epoch sd lines h (k + 1)).2, h1]
  simp only [Option.map_some, List.getElem?_cons_succ, List.getElem?_map, h0]
  rfl

example : (exLines.filterMap (rawOf 0 ⟨"d", "v", .delta, .deltasecs, 0⟩)) =
    [(.at (25/2), 3), (.at 13, 5), (.at 15, 4)] := by decide +kernel

/-- **event_text**: the points of an event signal are, line by line, the captured text under the
line's stamp; the delta state plays no role. -/
theorem event_text (epoch : Rat) (sd : SigDef) (last : Rat) (lines : List (List Char))
    (h : sd.typ = .event) :
    pointsOf epoch sd last lines =
      (lines.filterMap (textOf epoch sd)).map fun r => ⟨r.1, .str r.2⟩ :=
  pointsOf_event epoch sd last lines h

/-- one line: pattern matched with an accepted stamp ⇒ the point carries the captured text -/
theorem event_text_line (epoch : Rat) (sd : SigDef) (last : Rat) (line v : List Char) (st : Stamp)
    (h : sd.typ = .event) (hm : matchSig epoch sd line = some (some st, v)) :
    sampleOf epoch sd last line = (last, some ⟨st, .str (String.ofList v)⟩) := by
  simp [sampleOf, hm, h]

/-- **scalar_value**: the points of a scalar signal are, line by line, the parsed number under
the line's stamp. -/
theorem scalar_value (epoch : Rat) (sd : SigDef) (last : Rat) (lines : List (List Char))
    (h : sd.typ = .scalar) :
    pointsOf epoch sd last lines =
      (lines.filterMap (rawOf epoch sd)).map fun r => ⟨r.1, .num r.2⟩ :=
  pointsOf_scalar epoch sd last lines h

theorem scalar_value_line (epoch : Rat) (sd : SigDef) (last : Rat) (line v : List Char) (st : Stamp)
    (x : Rat) (h : sd.typ = .scalar) (hm : matchSig epoch sd line = some (some st, v))
    (hx : parseFloat v = some x) :
    sampleOf epoch sd last line = (last, some ⟨st, .num x⟩) := by
  simp [sampleOf, hm, h, hx]

theorem delta_value_line (epoch : Rat) (sd : SigDef) (last : Rat) (line v : List Char) (st : Stamp)
    (x : Rat) (h : sd.typ = .delta) (hm : matchSig epoch sd line = some (some st, v))
    (hx : parseFloat v = some x) :
    sampleOf epoch sd last line = (x, some ⟨st, .num (x - last)⟩) := by
  simp [sampleOf, hm, h, hx]

/-- the captured text is what follows `<tag>=` up to the end of the line, non-empty and free of
white space; before the tag there is nothing (ts_now) or the time stamp and one blank -/
theorem captured_text_rec (epoch : Rat) (sd : SigDef) (line v : List Char) (st : Option Stamp)
    (hm : matchRec epoch sd line = some (st, v)) :
    v ≠ [] ∧ v.all (fun c => !isSp c) = true ∧
    ∃ pre, line = pre ++ (sd.tag.toList ++ '=' :: v) ∧
      (sd.ts = .now → pre = []) ∧
      (sd.ts = .deltasecs ∨ sd.ts = .rfc3339 → pre = line.takeWhile (· != ' ') ++ [' ']) ∧
      (sd.ts = .log → pre = line.take 22 ++ [' ']) := by
  unfold matchRec at hm
  cases hts : sd.ts <;> simp only [hts] at hm
  · -- now
    cases hmt : matchTagged sd.tag line with
    | none => simp [hmt] at hm
    | some w =>
      simp only [hmt, Option.map_some, Option.some.injEq, Prod.mk.injEq] at hm
      obtain ⟨-, rfl⟩ := hm
      obtain ⟨h1, h2, h3⟩ := matchTagged_some _ _ _ hmt
      exact ⟨h2, h3, [], by simpa using h1, by simp⟩
  · -- deltasecs
    split at hm
    · rename_i rest hd
      split at hm
      · cases hmt : matchTagged sd.tag rest with
        | none => simp [hmt] at hm
        | some w =>
          simp only [hmt, Option.map_some, Option.some.injEq, Prod.mk.injEq] at hm
          obtain ⟨-, rfl⟩ := hm
          obtain ⟨h1, h2, h3⟩ := matchTagged_some _ _ _ hmt
          refine ⟨h2, h3, line.takeWhile (· != ' ') ++ [' '], ?_, by simp, by simp, by simp⟩
          have := (List.takeWhile_append_dropWhile (p := (· != ' ')) (l := line)).symm
          rw [hd, h1] at this
          simpa using this
      · cases hm
    · cases hm
  · -- rfc3339
    split at hm
    · rename_i rest hd
      split at hm
      · cases hmt : matchTagged sd.tag rest with
        | none => simp [hmt] at hm
        | some w =>
          simp only [hmt, Option.map_some, Option.some.injEq, Prod.mk.injEq] at hm
          obtain ⟨-, rfl⟩ := hm
          obtain ⟨h1, h2, h3⟩ := matchTagged_some _ _ _ hmt
          refine ⟨h2, h3, line.takeWhile (· != ' ') ++ [' '], ?_, by simp, by simp, by simp⟩
          have := (List.takeWhile_append_dropWhile (p := (· != ' ')) (l := line)).symm
          rw [hd, h1] at this
          simpa using this
      · cases hm
    · cases hm
  · -- log
    split at hm
    · rename_i r rest hp hd
      cases hmt : matchTagged sd.tag rest with
      | none => simp [hmt] at hm
      | some w =>
        simp only [hmt, Option.map_some, Option.some.injEq, Prod.mk.injEq] at hm
        obtain ⟨-, rfl⟩ := hm
        obtain ⟨h1, h2, h3⟩ := matchTagged_some _ _ _ hmt
        refine ⟨h2, h3, line.take 22 ++ [' '], ?_, by simp, by simp, by simp⟩
        have := (List.take_append_drop 22 line).symm
        rw [hd, h1] at this
        simpa using this
    · cases hm

/-- the captured text, for a pattern of any position: the record is the whole line, the part
before the first ` | ` or the part after the last one -/
theorem captured_text (epoch : Rat) (sd : SigDef) (line v : List Char) (st : Option Stamp)
    (hpos : sd.pos ≠ 3) (hm : matchSig epoch sd line = some (st, v)) :
    ∃ rec, recordOf sd.pos line = some rec ∧
    v ≠ [] ∧ v.all (fun c => !isSp c) = true ∧
    ∃ pre, rec = pre ++ (sd.tag.toList ++ '=' :: v) ∧
      (sd.ts = .now → pre = []) ∧
      (sd.ts = .deltasecs ∨ sd.ts = .rfc3339 → pre = rec.takeWhile (· != ' ') ++ [' ']) ∧
      (sd.ts = .log → pre = rec.take 22 ++ [' ']) := by
  unfold matchSig at hm
  simp only [hpos, if_false] at hm
  cases hrec : recordOf sd.pos line with
  | none => simp [hrec] at hm
  | some rec =>
    simp only [hrec, Option.bind_some] at hm
    exact ⟨rec, rfl, captured_text_rec epoch sd rec v st hm⟩

/-- the leftmost-first search of an unanchored pattern: the capture is the longest run of the value
class right after the FIRST place where `pre` is followed by a character of the class — a part of
the line, never the line itself with something substituted -/
theorem findTagged_spec (pre : List Char) (isVal : Char → Bool) (line v : List Char)
    (h : findTagged pre isVal line = some v) :
    ∃ before after, line = before ++ pre ++ v ++ after ∧ v ≠ [] ∧ v.all isVal = true ∧
      (after.head?.map isVal).getD false = false ∧
      ∀ b1 b2, before = b1 ++ b2 → b2 ≠ [] →
        ¬ ((b2 ++ pre ++ v ++ after).take pre.length = pre ∧
           (((b2 ++ pre ++ v ++ after).drop pre.length).head?.map isVal).getD false = true) := by
  induction line with
  | nil => simp [findTagged] at h
  | cons c cs ih =>
    unfold findTagged at h
    split at h
    · next hc =>
      simp only [Bool.and_eq_true, beq_iff_eq] at hc
      obtain ⟨hpre, hv⟩ := hc
      injection h with h
      refine ⟨[], ((c :: cs).drop pre.length).dropWhile isVal, ?_, ?_, ?_, ?_, ?_⟩
      · rw [← h]
        simp only [List.nil_append, List.append_assoc, List.takeWhile_append_dropWhile]
        conv => lhs; rw [← List.take_append_drop pre.length (c :: cs)]
        rw [hpre]
      · rw [← h]
        cases hd : (c :: cs).drop pre.length with
        | nil => simp [hd] at hv
        | cons x xs =>
          simp only [hd, List.head?_cons, Option.map_some, Option.getD_some] at hv
          simp [List.takeWhile, hv]
      · rw [← h]; exact List.all_takeWhile
      · cases hd : ((c :: cs).drop pre.length).dropWhile isVal with
        | nil => simp
        | cons x xs =>
          have := List.head?_dropWhile_not isVal ((c :: cs).drop pre.length)
          simp only [hd, List.head?_cons] at this
          simp [this]
      · intro b1 b2 hb hne
        have h0 : b1 ++ b2 = [] := hb.symm
        have : b2 = [] := (List.append_eq_nil_iff.mp h0).2
        exact absurd this hne
    · next hc =>
      obtain ⟨before, after, hl, hv1, hv2, hv3, hmin⟩ := ih h
      refine ⟨c :: before, after, by simp [hl], hv1, hv2, hv3, ?_⟩
      intro b1 b2 hb hne
      cases b1 with
      | nil =>
        simp only [List.nil_append] at hb
        subst hb
        intro hcon
        apply hc
        simp only [Bool.and_eq_true, beq_iff_eq]
        have e : (c :: before) ++ pre ++ v ++ after = c :: cs := by simp [hl]
        rw [e] at hcon
        exact hcon
      | cons x xs =>
        simp only [List.cons_append, List.cons.injEq] at hb
        exact hmin xs b2 hb.2 hne

/-- **captured_free**: for an unanchored pattern (`pos = 3`) the value of the data point is the
captured part of the line, and the stamp is the reception time -/
theorem captured_free (epoch : Rat) (sd : SigDef) (line v : List Char) (st : Option Stamp)
    (hpos : sd.pos = 3) (hm : matchSig epoch sd line = some (st, v)) :
    st = some .now ∧ ∃ before after, line = before ++ (sd.tag.toList ++ ['=']) ++ v ++ after ∧
      v ≠ [] ∧ v.all (valClass sd.typ) = true := by
  unfold matchSig matchFree at hm
  simp only [hpos, if_true] at hm
  cases hf : findTagged (sd.tag.toList ++ ['=']) (valClass sd.typ) line with
  | none => simp [hf] at hm
  | some w =>
    simp only [hf, Option.map_some, Option.some.injEq, Prod.mk.injEq] at hm
    obtain ⟨rfl, rfl⟩ := hm
    obtain ⟨before, after, hl, h1, h2, _, _⟩ := findTagged_spec _ _ _ _ hf
    exact ⟨rfl, before, after, hl, h1, h2⟩

/-- the defect repaired by the `fix:` commit, as a witness: `INFO load=42 ms` — the capture is `42`
(the pinned code substituted it into the line: `INFO 42 ms`, which is no number) -/
example : matchSig 0 ⟨"load", "load", .scalar, .now, 3⟩ "INFO load=42 ms".toList = some (some .now, "42".toList) ∧
    sampleOf 0 ⟨"load", "load", .scalar, .now, 3⟩ 0 "INFO load=42 ms".toList = (0, some ⟨.now, .num 42⟩) ∧
    matchSig 0 ⟨"boot", "boot", .event, .now, 3⟩ "x boot= boot=done now".toList = some (some .now, "done".toList) := by
  decide +kernel

/-- two records of one line: each pattern reads its own record (non-vacuity: different dates) -/
example : recordOf 1 "2020-01-01T00:00:01Z a=x | 2020-01-01T00:00:03Z b=2".toList
      = some "2020-01-01T00:00:01Z a=x".toList ∧
    recordOf 2 "2020-01-01T00:00:01Z a=x | 2020-01-01T00:00:03Z b=2".toList
      = some "2020-01-01T00:00:03Z b=2".toList ∧
    recordOf 2 "no separator".toList = none := by decide +kernel

example : sampleOf 1577836800 ⟨"b", "b", .scalar, .rfc3339, 2⟩ 0
      "2020-01-01T00:00:01Z a=x | 2020-01-01T00:00:03Z b=2".toList = (0, some ⟨.at 3, .num 2⟩) ∧
    sampleOf 1577836800 ⟨"a", "a", .event, .rfc3339, 1⟩ 0
      "2020-01-01T00:00:01Z a=x | 2020-01-01T00:00:03Z b=2".toList = (0, some ⟨.at 1, .str "x"⟩) := by
  decide +kernel

/-- **ts_kind**: the stamp of a point is the reception time for `ts_now`; the parsed captured
seconds since the start of the play for `ts_deltasecs`; the captured date minus the epoch of the
play (i.e. that date, on the play's clock) for `ts_rfc3339` and `ts_log`. -/
theorem ts_kind (epoch : Rat) (sd : SigDef) (last last' : Rat) (line : List Char) (p : Point)
    (hpos : sd.pos ≠ 3) (h : sampleOf epoch sd last line = (last', some p)) :
    ∃ rec, recordOf sd.pos line = some rec ∧
    (sd.ts = .now → p.stamp = .now) ∧
    (sd.ts = .deltasecs → ∃ secs, isDeltaSecs (rec.takeWhile (· != ' ')) = true ∧
        parseFloat (rec.takeWhile (· != ' ')) = some secs ∧ p.stamp = .at secs) ∧
    (sd.ts = .rfc3339 → ∃ u, parseRfc3339 (rec.takeWhile (· != ' ')) = some (some u) ∧
        p.stamp = .at (u - epoch)) ∧
    (sd.ts = .log → ∃ u, parseLogTs (rec.take 22) = some (some u) ∧ p.stamp = .at (u - epoch)) := by
  -- the sample comes from a match with an accepted stamp, which is the point's stamp
  have hm : ∃ v, matchSig epoch sd line = some (some p.stamp, v) := by
    unfold sampleOf at h
    rcases hms : matchSig epoch sd line with _ | ⟨_ | st, v⟩
    · simp [hms] at h
    · simp [hms] at h
    · refine ⟨v, ?_⟩
      simp only [hms] at h
      cases ht : sd.typ <;> simp only [ht] at h
      · simp only [Prod.mk.injEq, Option.some.injEq] at h
        rw [← h.2]
      · cases hp : parseFloat v <;> simp only [hp, Prod.mk.injEq, Option.some.injEq] at h
        · exact absurd h.2 (by simp)
        · rw [← h.2]
      · cases hp : parseFloat v <;> simp only [hp, Prod.mk.injEq, Option.some.injEq] at h
        · exact absurd h.2 (by simp)
        · rw [← h.2]
  obtain ⟨v, hm⟩ := hm
  unfold matchSig at hm
  simp only [hpos, if_false] at hm
  cases hrec : recordOf sd.pos line with
  | none => simp [hrec] at hm
  | some line' =>
  simp only [hrec, Option.bind_some] at hm
  refine ⟨line', rfl, ?_⟩
  clear hrec h
  revert hm
  generalize line' = line
  intro hm
  unfold matchRec at hm
  refine ⟨fun hts => ?_, fun hts => ?_, fun hts => ?_, fun hts => ?_⟩ <;> simp only [hts] at hm
  · cases hmt : matchTagged sd.tag line <;> simp [hmt] at hm
    exact hm.1.symm
  · split at hm
    · rename_i rest hd
      split at hm
      · rename_i hds
        cases hmt : matchTagged sd.tag rest <;> simp [hmt] at hm
        obtain ⟨⟨secs, h1, h2⟩, -⟩ := hm
        exact ⟨secs, hds, h1, h2.symm⟩
      · cases hm
    · cases hm
  · split at hm
    · rename_i rest hd
      split at hm
      · rename_i r hr
        cases hmt : matchTagged sd.tag rest <;> simp [hmt] at hm
        obtain ⟨⟨u, h1, h2⟩, -⟩ := hm
        exact ⟨u, by rw [hr, h1], h2.symm⟩
      · cases hm
    · cases hm
  · split at hm
    · rename_i r rest hr hd
      cases hmt : matchTagged sd.tag rest <;> simp [hmt] at hm
      obtain ⟨⟨u, h1, h2⟩, -⟩ := hm
      exact ⟨u, by rw [hr, h1], h2.symm⟩
    · cases hm

/-! ### Non-vacuity of Part 2: numbers, dates, stamps -/

/-- every number a data point carries is within the range of float64 (beyond it `strconv.ParseFloat` reports a range
error and the line yields no point) -/
theorem parsed_in_float_range (v : List Char) (x : Rat) (h : parseFloat v = some x) : overflows x = false := by
  unfold parseFloat at h
  cases hr : parseFloatRaw v with
  | none => rw [hr] at h; cases h
  | some q =>
    rw [hr] at h
    simp only [Option.bind_some, inRange] at h
    split at h
    · cases h
    · rename_i hno
      injection h with h; subst h
      simpa using hno

example : parseFloat "12.5".toList = some (25/2) := by decide +kernel
example : parseFloat "-3".toList = some (-3) := by decide +kernel
example : parseFloat "+.5".toList = some (1/2) := by decide +kernel
example : parseFloat "1.5e2".toList = some 150 := by decide +kernel
example : parseFloat "25E-1".toList = some (5/2) := by decide +kernel
example : parseFloat "oops".toList = none := by decide +kernel
-- a number beyond the range of float64 is a range error of `strconv.ParseFloat`: no data point (and the largest float64 is one)
example : parseFloat "1e400".toList = none ∧ parseFloat "-1e999".toList = none ∧
    (parseFloat "1.7976931348623157e308".toList).isSome = true := by decide +kernel
example : parseFloat "".toList = none := by decide +kernel
example : parseFloat "1.2.3".toList = none := by decide +kernel
example : parseFloat "1e".toList = none := by decide +kernel

example : parseRfc3339 "2020-01-01T00:00:07.25Z".toList = some (some (1577836800 + 29/4)) := by
  decide +kernel
/-- month 13: the pattern matches, `time.Parse` rejects -/
example : parseRfc3339 "2020-13-01T00:00:07Z".toList = some none := by decide +kernel
example : parseRfc3339 "yesterday".toList = none := by decide +kernel
example : parseLogTs "200101 00:00:07.250000".toList = some (some (1577836800 + 1/4 + 7)) := by
  decide +kernel

example : sampleOf 0 ⟨"s", "v", .scalar, .now, 0⟩ 0 "v=3".toList = (0, some ⟨.now, .num 3⟩) := by
  decide +kernel
example : sampleOf 0 ⟨"s", "v", .scalar, .deltasecs, 0⟩ 0 "12.5 v=3".toList =
    (0, some ⟨.at (25/2), .num 3⟩) := by decide +kernel
example : sampleOf 1577836800 ⟨"e", "e", .event, .rfc3339, 0⟩ 0 "2020-01-01T00:00:07.25Z e=hello".toList =
    (0, some ⟨.at (29/4), .str "hello"⟩) := by decide +kernel
example : sampleOf 1577836800 ⟨"e", "e", .event, .log, 0⟩ 0 "200101 00:00:07.250000 e=hello".toList =
    (0, some ⟨.at (29/4), .str "hello"⟩) := by decide +kernel
example : sampleOf 0 ⟨"d", "v", .delta, .now, 0⟩ 2 "v=5".toList = (5, some ⟨.now, .num 3⟩) := by
  decide +kernel

/-! ## Malformed captures drop the point, never anything else -/

/-- the pattern of `sd` matches the line but the captured date, or the captured number of a
scalar/delta signal, is rejected by its parser -/
def Malformed (epoch : Rat) (sd : SigDef) (line : List Char) : Prop :=
  (∃ v, matchSig epoch sd line = some (none, v)) ∨
  (sd.typ ≠ .event ∧ ∃ st v, matchSig epoch sd line = some (st, v) ∧ parseFloat v = none)

/-- a malformed line yields no point for that signal and leaves its delta state unchanged -/
theorem malformed_no_point (epoch : Rat) (sd : SigDef) (last : Rat) (line : List Char)
    (h : Malformed epoch sd line) : sampleOf epoch sd last line = (last, none) := by
  rcases h with ⟨v, hm⟩ | ⟨ht, st, v, hm, hp⟩
  · simp [sampleOf, hm]
  · unfold sampleOf
    rw [hm]
    cases st with
    | none => rfl
    | some st => cases hty : sd.typ <;> simp_all

/-- **malformed_drops_point_only**: a line that yields no point for `sd` without moving its delta
state — in particular a malformed one, or one that matches no pattern — can be removed from the
output of the actor without changing any of the other points of `sd` (values of later deltas
included) nor the final delta state. -/
theorem silent_line_removable (epoch : Rat) (sd : SigDef) (last : Rat) (pre post : List (List Char))
    (l : List Char)
    (h : sampleOf epoch sd (lastAfter epoch sd last pre) l = (lastAfter epoch sd last pre, none)) :
    pointsOf epoch sd last (pre ++ l :: post) = pointsOf epoch sd last (pre ++ post) ∧
    lastAfter epoch sd last (pre ++ l :: post) = lastAfter epoch sd last (pre ++ post) := by
  rw [pointsOf_append, pointsOf_append, lastAfter_append, lastAfter_append, pointsOf_cons]
  simp [lastAfter, h]

theorem malformed_drops_point_only (epoch : Rat) (sd : SigDef) (last : Rat)
    (pre post : List (List Char)) (l : List Char) (h : Malformed epoch sd l) :
    sampleOf epoch sd (lastAfter epoch sd last pre) l = (lastAfter epoch sd last pre, none) ∧
    pointsOf epoch sd last (pre ++ l :: post) = pointsOf epoch sd last (pre ++ post) ∧
    lastAfter epoch sd last (pre ++ l :: post) = lastAfter epoch sd last (pre ++ post) :=
  ⟨malformed_no_point epoch sd _ l h,
   silent_line_removable epoch sd last pre post l (malformed_no_point epoch sd _ l h)⟩

/-- the same at the level of the model of `detectSignals`: the samples emitted for the watched
signal are those of the output with the malformed line removed — the run continues, the other
lines keep their points -/
theorem malformed_drops_sample_only (epoch : Rat) (sigs : List SigDef) (hasSink : String → Bool)
    (actor : String) (sd : SigDef) (hs : hasSink sd.name = true)
    (hu : sigs.filter (fun x => x.name == sd.name) = [sd]) (pre post : List (List Char))
    (l : List Char) (h : Malformed epoch sd l) :
    samplesOf actor sd.name (detectAll epoch sigs hasSink actor [] (pre ++ l :: post)).2 =
      samplesOf actor sd.name (detectAll epoch sigs hasSink actor [] (pre ++ post)).2 := by
  rw [detect_points epoch sigs hasSink actor sd hs hu, detect_points epoch sigs hasSink actor sd hs hu,
    (malformed_drops_point_only epoch sd 0 pre post l h).2.1]

/-- … and it causes **no audit round**: a line on which every signal of the role is malformed (or matches nothing, or
has no sink) produces no event at all for the audition — "unparsable captures drop the point, never the play".
(Before the repair e3e8ea0 an event without values was still emitted for the time stamp of a line whose number did
not parse: `t`, `mood`, `moodt` were assigned at that time and auditors woken.) -/
theorem malformed_line_emits_nothing (epoch : Rat) (sigs : List SigDef) (hasSink : String → Bool)
    (actor : String) (lasts : Lasts) (line : List Char)
    (h : ∀ sd ∈ sigs, hasSink sd.name = false ∨ matchSig epoch sd line = none ∨ Malformed epoch sd line) :
    detectLine epoch sigs hasSink actor lasts line = (lasts, []) := by
  rw [detectLine_eq]
  have key : ∀ (l : List SigDef), (∀ sd ∈ l, hasSink sd.name = false ∨ matchSig epoch sd line = none ∨ Malformed epoch sd line) →
      l.foldl (detStep epoch hasSink actor line) (lasts, []) = (lasts, []) := by
    intro l
    induction l with
    | nil => intro _; rfl
    | cons sd l ih =>
      intro hl
      have hstep : detStep epoch hasSink actor line (lasts, []) sd = (lasts, []) := by
        rcases hl sd (by simp) with hns | hnm | hmal
        · simp [detStep, hns]
        · unfold detStep; split
          · rfl
          · rw [hnm]
        · unfold detStep; split
          · rfl
          · rcases hmal with ⟨v, hm⟩ | ⟨ht, st, v, hm, hp⟩
            · rw [hm]
            · rw [hm]
              cases st with
              | none => rfl
              | some st => cases hty : sd.typ <;> simp_all
      simp only [List.foldl_cons, hstep]
      exact ih (fun x hx => hl x (by simp [hx]))
  rw [key sigs h]; rfl

/-- a line matching no pattern of `sd` is equally silent -/
theorem nomatch_no_point (epoch : Rat) (sd : SigDef) (last : Rat) (line : List Char)
    (h : matchSig epoch sd line = none) : sampleOf epoch sd last line = (last, none) := by
  simp [sampleOf, h]

/-- `Malformed` is satisfiable both ways: a rejected date, a rejected number -/
example : Malformed 0 ⟨"e", "e", .event, .rfc3339, 0⟩ "2020-13-01T00:00:07Z e=x".toList :=
  Or.inl ⟨"x".toList, by decide +kernel⟩
example : Malformed 0 ⟨"d", "v", .delta, .deltasecs, 0⟩ "14 v=oops".toList :=
  Or.inr ⟨by decide, some (.at 14), "oops".toList, by decide +kernel, by decide +kernel⟩

/-- the malformed line of the example removed: the same points -/
example : pointsOf 0 ⟨"d", "v", .delta, .deltasecs, 0⟩ 0
      ["12.5 v=3".toList, "13 v=5".toList, "14 v=oops".toList, "15 v=4".toList] =
    pointsOf 0 ⟨"d", "v", .delta, .deltasecs, 0⟩ 0 ["12.5 v=3".toList, "13 v=5".toList, "15 v=4".toList] :=
  (malformed_drops_point_only 0 _ 0 ["12.5 v=3".toList, "13 v=5".toList] ["15 v=4".toList] _
    (Or.inr ⟨by decide, some (.at 14), "oops".toList, by decide +kernel, by decide +kernel⟩)).2.1

/-! ## Part 3 — the audit loop forwards every sample exactly once -/

/-- **forwarded_once** (`beginRound`, the head of `checkEvent`): what the assignments of a round
add to the output is `added`, consed in front of the previous output, and the signal
observations (`Out.obs` of a variable with a non-empty actor) among `added` are exactly the
non-nil samples of the event, once each, in order (`out` is kept reversed). -/
theorem forwarded_once (c : Cfg) (ts : Rat) (samples : List Sample) (s : St) :
    ∃ added, (beginRound c ts samples s).out = added ++ s.out ∧
      sigObs added = (fwd ts samples).reverse := by
  obtain ⟨pre, hpre, ho⟩ := beginRound_out c ts samples s
  refine ⟨_ ++ pre, by rw [ho, List.append_assoc], ?_⟩
  rw [sigObs_append, hpre, sigObs_forwarded, List.append_nil]
  rfl

/-- for the samples `detectSignals` produces (non-nil, of a named actor) nothing is filtered:
every sample is forwarded -/
theorem forwarded_all (ts : Rat) (samples : List Sample)
    (h : ∀ x ∈ samples, x.val.isNil = false ∧ x.v.actor ≠ "") :
    fwd ts samples = samples.map (Sample.obs ts) := by
  unfold fwd
  rw [List.filter_eq_self.2]
  intro x hx
  have := h x hx
  simp [this.1, this.2]

/-- `setAndActivateVar` for a sample (`collectChange = false`, the repair) emits nothing itself -/
theorem setVar_sample_silent (c : Cfg) (s : St) (ts : Rat) (typ : Typ) (v : VarName) (val : Val) :
    (setVar c s ts typ v val false).out = s.out :=
  setVar_false_out c s ts typ v val

/-- visiting an auditor never emits a signal observation: assignments target computed variables
(actor `""`), the rest are reports and start/stop markers -/
theorem visit_no_signal_obs (c : Cfg) (final : Bool) (ts : Rat) (s : St) (m : Member) :
    ∃ added, (visit c final ts s m).out = added ++ s.out ∧ sigObs added = [] :=
  visit_quiet c final ts s m

theorem assign_no_signal_obs (c : Cfg) (ts : Rat) (s : St) (a : Assign) :
    ∃ added, (assignOne c ts s a).out = added ++ s.out ∧ sigObs added = [] :=
  assignOne_quiet c ts s a

/-- **forwarded_once** for a whole round (`checkEvent`): the visits add no signal observation. -/
theorem forwarded_once_round (c : Cfg) (final : Bool) (ts : Rat) (samples : List Sample) (s : St)
    (h : s.abort = none) :
    ∃ added, (round c final ts samples s).out = added ++ s.out ∧
      sigObs added = (fwd ts samples).reverse := by
  obtain ⟨pre, post, hpre, hpost, ho⟩ := round_out c final ts samples s h
  refine ⟨post ++ (((samples.filter fun x => !x.val.isNil).map (Sample.obs ts)).reverse ++ pre),
    by rw [ho]; simp, ?_⟩
  rw [sigObs_append, sigObs_append, hpre, hpost, sigObs_forwarded]
  simp [fwd]

/-- after an abort (evaluation error in an `audits`/`computes`/`collects` expression) the loop
has returned: nothing more is processed -/
theorem aborted_round (c : Cfg) (final : Bool) (ts : Rat) (samples : List Sample) (s : St)
    (h : s.abort.isSome = true) : round c final ts samples s = s :=
  round_aborted c final ts samples s h

/-- **forwarded_once** for the whole audition: the signal observations of a run are, in order,
the samples of the events processed — all of them when the loop did not abort, those before the
abort otherwise; no event is forwarded twice, none is skipped. -/
theorem forwarded_run (c : Cfg) (evs : List Ev) (tEnd : Rat) :
    ∃ k, k ≤ evs.length ∧
      (sigObs (run c evs tEnd).out).reverse = (evs.take k).flatMap Ev.fwd ∧
      ((evs.foldl (stepEv c) (start c)).abort = none → k = evs.length) := by
  obtain ⟨k, hk, ho, ha⟩ := sigObs_events c (start c) evs
  refine ⟨k, hk, ?_, ha⟩
  simp only [run]
  rw [sigObs_round, ← List.reverse_inj] at *
  simp only [Option.isSome_none, Bool.false_eq_true, if_false, fwd, List.filter_nil, List.map_nil,
    List.reverse_nil, List.nil_append]
  rw [sigObs_start] at ho
  simpa using ho

theorem forwarded_run_all (c : Cfg) (evs : List Ev) (tEnd : Rat)
    (h : (evs.foldl (stepEv c) (start c)).abort = none) :
    (sigObs (run c evs tEnd).out).reverse = evs.flatMap Ev.fwd := by
  obtain ⟨k, -, ho, ha⟩ := forwarded_run c evs tEnd
  rw [ho, ha h, List.take_length]

/-! ### Non-vacuity of Part 3 -/

def exCfg : Cfg :=
  { members := [{ name := "obs", cond := .lit (.bool true), assigns := [], expect := none,
                  watches := [⟨"bob", "d"⟩, ⟨"bob", "e"⟩] }] }

def exSamples : List Sample :=
  [⟨.delta, ⟨"bob", "d"⟩, .sc (.num 3)⟩, ⟨.event, ⟨"bob", "e"⟩, .sc (.str "hello")⟩]

example : fwd 7 exSamples =
    [.obs 7 .delta ⟨"bob", "d"⟩ (.sc (.num 3)), .obs 7 .event ⟨"bob", "e"⟩ (.sc (.str "hello"))] := by
  rw [forwarded_all 7 exSamples (by decide)]; rfl

/-- a run of two events that does not abort, each sample forwarded once although the value of
`[bob d]` repeats -/
example : ((run exCfg [.sig 7 exSamples, .sig 8 exSamples] 9).abort = none) ∧
    ((sigObs (run exCfg [.sig 7 exSamples, .sig 8 exSamples] 9).out).length = 4) := by
  decide +kernel

/-! ## Parts 1 and 3 composed: lines → `detectSignals` → audit loop → observations -/

/-- **rows_exact**.  Take the lines of an actor, each with its reception time (any pace), run the
model of `detectSignals` on each, hand the emitted events to the audit loop (`pipeEvs`, the
composition of the driver) and let the audition run to its end without an evaluation abort.
Then the observations of `[actor sd.name]` in the output, in emission order, are exactly the rows
`rowsOf` specifies — one per matching parsable line, in line order, with the signal's type, the
point's value, and as time the reception time (ts_now) or the captured time. -/
theorem rows_exact (c : Cfg) (epoch : Rat) (sigs : List SigDef) (hasSink : String → Bool)
    (actor : String) (hact : actor ≠ "") (sd : SigDef) (hs : hasSink sd.name = true)
    (hu : sigs.filter (fun x => x.name == sd.name) = [sd]) (tls : List (Rat × List Char)) (tEnd : Rat)
    (hna : ((pipeEvs epoch sigs hasSink actor [] tls).foldl (stepEv c) (start c)).abort = none) :
    rowsFor ⟨actor, sd.name⟩ (run c (pipeEvs epoch sigs hasSink actor [] tls) tEnd).out.reverse =
      (rowsOf epoch sd 0 tls).map fun r => (r.1, sd.typ, Val.sc r.2) := by
  rw [← rowsFor_sigObs ⟨actor, sd.name⟩ hact,
    show sigObs (run c (pipeEvs epoch sigs hasSink actor [] tls) tEnd).out.reverse =
      (sigObs (run c (pipeEvs epoch sigs hasSink actor [] tls) tEnd).out).reverse by
      simp [sigObs, List.filter_reverse],
    forwarded_run_all c _ tEnd hna]
  exact pipeEvs_rows epoch sigs hasSink actor hact sd hs hu [] tls

/-- the values of the rows are the values of the points of `pointsOf` -/
theorem rows_values (epoch : Rat) (sd : SigDef) (tls : List (Rat × List Char)) :
    (rowsOf epoch sd 0 tls).map (·.2) = (pointsOf epoch sd 0 (tls.map (·.2))).map (·.val) :=
  rowsOf_vals epoch sd 0 tls

def exTimed : List (Rat × List Char) :=
  [(100, "12.5 v=3".toList), (101, "noise".toList), (102, "13 v=5".toList), (103, "14 v=oops".toList),
   (104, "2020-01-01T00:00:07.25Z e=hello".toList), (105, "2020-13-01T00:00:07Z e=x".toList),
   (106, "15 v=4".toList)]

/-- the hypothesis "no abort" of `rows_exact` holds for the example play … -/
example : ((pipeEvs 1577836800 exSigs exSink "bob" [] exTimed).foldl (stepEv exCfg) (start exCfg)).abort
    = none := by decide +kernel

/-- … whose rows are non-trivial (both sides of `rows_exact`) -/
example : rowsFor ⟨"bob", "d"⟩ (run exCfg (pipeEvs 1577836800 exSigs exSink "bob" [] exTimed) 200).out.reverse
    = [(25/2, .delta, .sc (.num 3)), (13, .delta, .sc (.num 2)), (15, .delta, .sc (.num (-1)))] := by
  decide +kernel

example : rowsOf 0 ⟨"n", "v", .scalar, .now, 0⟩ 0 [(100, "v=3".toList), (101, "v=x".toList), (102, "v=4".toList)]
    = [(100, .num 3), (102, .num 4)] := by decide +kernel

/-! ## one row per watching observer -/

section fanout
open Shk.Collect

private theorem filter_name_unique (l : List Member) (hnd : (l.map (·.name)).Nodup) (m : Member) (hm : m ∈ l) :
    l.filter (fun m' => m'.name == m.name) = [m] := by
  induction l with
  | nil => cases hm
  | cons x xs ih =>
    simp only [List.map_cons, List.nodup_cons] at hnd
    obtain ⟨hx, hxs⟩ := hnd
    simp only [List.mem_cons] at hm
    rcases hm with rfl | hm
    · have : xs.filter (fun m' => m'.name == m.name) = [] := by
        rw [List.filter_eq_nil_iff]
        intro y hy hyn
        exact hx (List.mem_map.mpr ⟨y, hy, by simpa using hyn⟩)
      simp [List.filter_cons, this]
    · have hne : (x.name == m.name) = false := by
        cases h : x.name == m.name
        · rfl
        · exact absurd (List.mem_map.mpr ⟨m, hm, (by simpa using h : x.name = m.name).symm⟩) hx
      simp [List.filter_cons, hne, ih hxs hm]

private theorem watchers_nodup (c : Cfg) (hnd : (c.members.map (·.name)).Nodup) (v : VarName) :
    ((c.watchers v).map (·.name)).Nodup := by
  unfold Cfg.watchers
  exact List.Nodup.sublist (List.Sublist.map _ List.filter_sublist) hnd

private theorem file_append (a b : List Row) (o ac sg : String) :
    file (a ++ b) o ac sg = file a o ac sg ++ file b o ac sg := by
  simp [file, List.filter_append]

/-- **Exactly one data point per watching observer**: for every stream of forwarded
observations, every audience member `m` that watches the variable `v` (names it in a `watches`
clause or in one of its expressions), provided member names are distinct, finds in its file
`<m>.<actor>.<signal>.csv` exactly the observations of `v`, once each, in order. -/
theorem rows_per_observer (c : Cfg) (hnd : (c.members.map (·.name)).Nodup) (outs : List Out)
    (m : Member) (hm : m ∈ c.members) (v : VarName) (hw : m.mentions.contains v = true) :
    file (collectAll c outs) m.name v.actor v.sig = obsOf v outs := by
  have hmw : m ∈ c.watchers v := by
    unfold Cfg.watchers; exact List.mem_filter.mpr ⟨hm, hw⟩
  induction outs with
  | nil => rfl
  | cons o os ih =>
    simp only [collectAll, List.flatMap_cons] at ih ⊢
    rw [file_append, ih]
    cases o with
    | obs ts typ w val =>
      by_cases hwv : w = v
      · subst hwv
        have h1 := filter_name_unique (c.watchers w) (watchers_nodup c hnd w) m hmw
        simp only [rowsOfObs, file, obsOf, List.filterMap_cons, if_true]
        rw [List.filter_map]
        have : (c.watchers w).filter ((fun r : Row => r.observer == m.name && r.actor == w.actor && r.sig == w.sig) ∘
            fun m' => (⟨m'.name, w.actor, w.sig, ts, typ, val⟩ : Row)) = [m] := by
          rw [← h1]; apply List.filter_congr; intro x _; simp
        rw [this]; rfl
      · have hne : (w.actor == v.actor && w.sig == v.sig) = false := by
          cases h : (w.actor == v.actor && w.sig == v.sig)
          · rfl
          · simp only [Bool.and_eq_true, beq_iff_eq] at h
            exact absurd (by cases w; cases v; simp_all) hwv
        simp only [rowsOfObs, file, obsOf, List.filterMap_cons, hwv, if_false]
        rw [List.filter_map]
        have : (c.watchers w).filter ((fun r : Row => r.observer == m.name && r.actor == v.actor && r.sig == v.sig) ∘
            fun m' => (⟨m'.name, w.actor, w.sig, ts, typ, val⟩ : Row)) = [] := by
          rw [List.filter_eq_nil_iff]; intro x _
          simp only [Function.comp, Bool.and_assoc]
          simp [hne]
        rw [this]; rfl
    | rep _ _ _ _ => simp [rowsOfObs, file, obsOf]
    | repErr _ _ => simp [rowsOfObs, file, obsOf]
    | start _ => simp [rowsOfObs, file, obsOf]
    | stop _ => simp [rowsOfObs, file, obsOf]

/-- and an audience member that does not watch the variable gets no row for it -/
theorem no_row_for_non_watcher (c : Cfg) (outs : List Out) (name : String) (v : VarName)
    (h : ∀ m ∈ c.members, m.name = name → m.mentions.contains v = false) :
    file (collectAll c outs) name v.actor v.sig = [] := by
  induction outs with
  | nil => rfl
  | cons o os ih =>
    simp only [collectAll, List.flatMap_cons] at ih ⊢
    rw [file_append, ih, List.append_nil]
    cases o with
    | obs ts typ w val =>
      simp only [rowsOfObs, file]
      rw [List.filter_map, List.map_eq_nil_iff, List.map_eq_nil_iff, List.filter_eq_nil_iff]
      intro x hx
      simp only [Function.comp, Bool.and_eq_true, beq_iff_eq, not_and]
      intro hn hs
      obtain ⟨hn, ha⟩ := hn
      have hwv : w = v := by cases w; cases v; simp_all
      subst hwv
      have := List.mem_filter.mp (by simpa [Cfg.watchers] using hx : x ∈ c.members.filter (·.mentions.contains w))
      have hc := h x this.1 hn
      have h2 : x.mentions.contains w = true := by simpa using this.2
      rw [hc] at h2; cases h2
    | rep _ _ _ _ => simp [rowsOfObs, file]
    | repErr _ _ => simp [rowsOfObs, file]
    | start _ => simp [rowsOfObs, file]
    | stop _ => simp [rowsOfObs, file]

end fanout

end Shk.C08
