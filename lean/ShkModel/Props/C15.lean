import ShkModel.Lemmas.StopperIdem
/-!
# C15 — the stopper drains tasks, then workers, then closers, and refuses late work

Model: `ShkModel/Model/Stopper.lean` (one atomic step per critical section of `stopper.go`, any number of
concurrent calls, blocking as guards, a monotone log).  `Reach cap s` = "`s` is reachable by some interleaving
of some number of RunTask / RunAsyncTask / RunLimitedAsyncTask / RunWorker / AddCloser / WithCancelOnQuiesce /
WithCancelOnStop / Quiesce / Stop calls (and of calls of the returned cancel functions)".  Every theorem below
is for every reachable state, hence for every interleaving and any number of calls.

`logOk` is the executable specification that the check also evaluates on logs recorded from the real `Stopper`.
A log entry carries the three channel states (`q` quiescer, `s` stopper, `d` stopped) and the semaphore
occupancy `n` seen when it was appended.
-/
namespace Shk.C15
open Shk.Stopper

/-- **The specification holds of the model**: the log of every reachable state satisfies `LogOk`. -/
theorem reach_logOk {cap : Nat} {s : St} (h : Reach cap s) : logOk cap s.log = true :=
  logOk_reach h

/-- `LogOk` is a statement about every entry and the entries before it. -/
theorem logOk_entry {cap : Nat} {pre post : List Ev} {e : Ev} (h : logOk cap (pre ++ e :: post) = true) :
    evOk cap pre e = true := by
  rw [logOk_append] at h
  simp only [logOkFrom, Bool.and_eq_true] at h
  exact h.2.1

/-- every entry of every reachable log is allowed after the entries before it -/
theorem reach_entry {cap : Nat} {s : St} (h : Reach cap s) {pre post : List Ev} {e : Ev}
    (hl : s.log = pre ++ e :: post) : evOk cap pre e = true :=
  logOk_entry (hl ▸ reach_logOk h)

/-! ## 1. Late work is refused, and a refused start never runs -/

/-- A call that returned ErrUnavailable (1) or ErrThrottled (2) never has its body started — in any order
of the two entries. -/
theorem refused_never_runs {cap : Nat} {s : St} (h : Reach cap s) (i : Nat)
    (hr : hasV s.log .ret i 1 = true ∨ hasV s.log .ret i 2 = true) : has s.log .bodyStart i = false := by
  have hret : has s.log .ret i = true := by
    rcases hr with hr | hr <;> exact has_of_hasV hr
  obtain ⟨e, he, hk, hid⟩ := exists_of_has hret
  obtain ⟨t, ht, _, ti⟩ := (inv_reach h).thread_of he (by rw [hk]; decide)
  rw [hid] at ht ti
  rw [ti.bs]
  have hv : retCode t.pc = 1 ∨ retCode t.pc = 2 := by
    rcases hr with hr | hr
    · exact Or.inl (ti.retv 1 hr).symm
    · exact Or.inr (ti.retv 2 hr).symm
  obtain ⟨kind, pc, ret⟩ := t
  cases pc <;> simp [retCode] at hv <;> simp [started]

/-- A task call that begins after the quiescer channel was seen closed is never accepted: no body, no nil. -/
theorem late_work_refused {cap : Nat} {s : St} (h : Reach cap s) (i : Nat) (t : Thread)
    (ht : s.threads[i]? = some t) (hq : callQ s.log i = true) : wasAccepted t = false ∧ has s.log .bodyStart i = false := by
  have I := inv_reach h
  have ha : wasAccepted t = false := by
    cases hw : wasAccepted t
    · rfl
    · rw [I.callQ_false ht hw] at hq; cases hq
  refine ⟨ha, ?_⟩
  rw [(I.thr i t ht).bs]
  obtain ⟨kind, pc, ret⟩ := t
  cases pc <;> simp_all [wasAccepted, started]

/-- Once quiescing, `runPrelude` accepts nothing: a refusal is final (a refused call has no further step but its return). -/
theorem refused_is_final (s : St) (i : Nat) (t : Thread) (hp : t.pc = .failU ∨ t.pc = .failT) :
    goStep s i t = none ∧ altStep s i t = none := by
  obtain ⟨kind, pc, ret⟩ := t
  rcases hp with hp | hp <;> simp only [] at hp <;> subst hp <;> cases kind <;> simp [goStep, altStep]

/-! ## 2. Accepted tasks finish before the stop channel closes -/

/-- Stop channel closed ⇒ quiescing, `numTasks = 0`, no call is between `runPrelude` and `runPostlude`. -/
theorem stop_closed_drained {cap : Nat} {s : St} (h : Reach cap s) (hc : s.sClosed = true) :
    s.quiescing = true ∧ s.numTasks = 0 ∧ ∀ (i : Nat) (t : Thread), s.threads[i]? = some t → inTask t = false := by
  have I := inv_reach h
  exact ⟨I.ph.s_q hc, I.ph.s_tasks hc, fun i t ht => I.not_inTask (I.ph.s_tasks hc) ht⟩

/-- On the log: whenever an entry sees the stop channel closed, every body that began before it has ended and
every task call that returned nil before it has run its body to the end; and no body starts or ends with the
stop channel closed. -/
theorem tasks_end_before_stop_closes {cap : Nat} {s : St} (h : Reach cap s) {pre post : List Ev} {e : Ev}
    (hl : s.log = pre ++ e :: post) :
    (e.s = true → drained pre = true) ∧ ((e.k = .bodyStart ∨ e.k = .bodyEnd) → e.s = false) := by
  have hev := reach_entry h hl
  simp only [evOk, globalOk, Bool.and_eq_true] at hev
  refine ⟨?_, ?_⟩
  · intro hs
    have := hev.1.1.1.1.1.2
    simpa [hs] using this
  · intro hk
    have hko := hev.2
    rcases hk with hk | hk <;> simp [kindOk, hk] at hko <;> simp [hko]

/-! ## 3. The phases happen in order -/

/-- The phase markers of a reachable log (0 quiesceClosed, 1 tasksDrained, 2 stopClosed, 3 workersDone,
4 stoppedClosed) are an initial segment of `[0,1,2,3,4]`: each at most once, in this order; the closers are
called in phase 4 (see `closers_exactly_once`). -/
theorem phase_order {cap : Nat} {s : St} (h : Reach cap s) : markSeq s.log = [0, 1, 2, 3, 4].take (phase s) :=
  marks_phase h

/-- the channels close in the order quiescer, stopper, stopped — in the state and in every log entry, and what an
entry sees never goes back -/
theorem channels_nested {cap : Nat} {s : St} (h : Reach cap s) :
    (s.dClosed = true → s.sClosed = true) ∧ (s.sClosed = true → s.quiescing = true) ∧
    ∀ pre post e, s.log = pre ++ e :: post → flagsOk pre e = true := by
  have I := inv_reach h
  refine ⟨I.ph.d_s, I.ph.s_q, ?_⟩
  intro pre post e hl
  have hev := reach_entry h hl
  simp only [evOk, globalOk, Bool.and_eq_true] at hev
  exact hev.1.1.1.1.1.1

/-! ## 4. Workers are awaited -/

/-- Whenever an entry sees `stopped` closed, every worker whose RunWorker call was seen to return while the stop
channel was still open has returned.  (A RunWorker issued after `stop.Wait()` has returned cannot be awaited by
the code; see `late_worker_runs_after_stopped`.) -/
theorem workers_done_before_stopped {cap : Nat} {s : St} (h : Reach cap s) {pre post : List Ev} {e : Ev}
    (hl : s.log = pre ++ e :: post) (hd : e.d = true) : workersDone pre = true := by
  have hev := reach_entry h hl
  simp only [evOk, globalOk, Bool.and_eq_true] at hev
  have := hev.1.1.1.1.2
  simp [hd] at this
  exact this.1

/-- in the state: past `stop.Wait()` the WaitGroup count was zero, and every call of the wait group has called Done -/
theorem wait_passed_only_at_zero {cap : Nat} {s s' : St} {i : Nat} {a : Act} (h : Reach cap s)
    (hs : step s i a = some s') (h1 : s.sp.rank < 5) (h2 : 5 ≤ s'.sp.rank) :
    s.wg = 0 ∧ ∀ (j : Nat) (t : Thread), s.threads[j]? = some t → inWg t = false := by
  have m := mono_step hs (ph_reach h)
  have hw := m.wgate h1 h2
  refine ⟨hw, ?_⟩
  intro j t ht
  have := (cnt_reach h).wg
  rw [hw] at this
  exact countP_zero_not this.symm (List.mem_of_getElem? ht)

/-! ## 5. Closers are called exactly once, after the workers, before `stopped` -/

/-- At most once; with the stop channel closed; a closer whose AddCloser had already returned is called after
the workers and before `stopped` closes; and whenever an entry sees `stopped` closed, every closer whose
AddCloser has returned has been called (so a closer added later was called before its AddCloser returned). -/
theorem closers_exactly_once {cap : Nat} {s : St} (h : Reach cap s) {pre post : List Ev} {e : Ev}
    (hl : s.log = pre ++ e :: post) :
    (e.k = .closer → has pre .closer e.id = false ∧ e.s = true ∧
        (has pre .ret e.id = true → e.d = false ∧ workersDone pre = true)) ∧
    (e.d = true → closersDone pre = true) := by
  have hev := reach_entry h hl
  simp only [evOk, globalOk, Bool.and_eq_true] at hev
  refine ⟨?_, ?_⟩
  · intro hk
    have hko := hev.2
    simp [kindOk, hk] at hko
    refine ⟨hko.2.1.1.2, hko.2.1.2, ?_⟩
    intro hr
    have := hko.2.2
    simpa [hr] using this
  · intro hd
    have := hev.1.1.1.1.2
    simp [hd] at this
    exact this.2

/-- in the state: the registered closers that have been called are exactly those the effective Stop has passed,
and a closer that was not registered has been called iff its AddCloser is past the call -/
theorem closers_called_state {cap : Nat} {s : St} (h : Reach cap s) :
    (∀ c ∈ s.closers, has s.log .closer c = decide (c ∈ calledPrefix s)) ∧
    (s.dClosed = true → calledPrefix s = s.closers) ∧ s.closers.Nodup := by
  have I := inv_reach h
  exact ⟨I.kinv.reg, fun hd => (I.dfin hd).2, I.lists.nodup⟩

/-! ## 6. Stop is idempotent -/

/-- at most one Stop call is effective, none before `stopCalled` is set; the others return without waiting -/
theorem stop_idempotent {cap : Nat} {s : St} (h : Reach cap s) :
    s.threads.countP activeStop ≤ 1 ∧ (s.stopCalled = false → s.threads.countP activeStop = 0) ∧
    ∀ (i : Nat) (t : Thread), s.threads[i]? = some t → t.kind = .stop → t.pc = .init → s.stopCalled = true →
      ∃ s', step s i .go = some s' ∧ s'.sp = s.sp ∧ s'.log = s.log ∧ s'.threads[i]? = some { t with pc := .sNoop } := by
  have A := active_reach h
  refine ⟨A.le1, A.none, ?_⟩
  intro i t ht hk hp hc
  have hl := lt_length_of_getElem? ht
  obtain ⟨kind, pc, ret⟩ := t
  simp only [] at hk hp; subst hk; subst hp
  exact ⟨s.upd i ⟨.stop, .sNoop, ret⟩ [], by simp [step, ht, goStep, hc], rfl, by simp [St.upd], by simp [St.upd, hl]⟩

/-- the effective Stop returns only after `stopped` is closed -/
theorem stop_returns_after_stopped {cap : Nat} {s : St} (h : Reach cap s) (i : Nat) (t : Thread)
    (ht : s.threads[i]? = some t) (hk : t.kind = .stop) (hp : t.pc = .done) : s.dClosed = true :=
  ((inv_reach h).stable i t ht).sd hk hp

/-- Quiesce returns only when quiescing with no task left -/
theorem quiesce_returns_drained {cap : Nat} {s : St} (h : Reach cap s) (i : Nat) (t : Thread)
    (ht : s.threads[i]? = some t) (hk : t.kind = .quiesce) (hp : t.pc = .done) :
    s.quiescing = true ∧ s.numTasks = 0 :=
  ⟨((inv_reach h).stable i t ht).qq hk (Or.inr hp), ((inv_reach h).stable i t ht).qd hk hp⟩

/-! ## 7. A limited task holds its slot exactly while it runs -/

/-- the occupancy of the semaphore is the number of limited-task calls between their acquire and their release
(the body lies strictly inside), never above capacity; `numTasks` and the WaitGroup count likewise count calls -/
theorem sem_held_iff_running {cap : Nat} {s : St} (h : Reach cap s) :
    s.sem = s.threads.countP holdsSem ∧ s.sem ≤ cap ∧
    s.numTasks = s.threads.countP inTask ∧ s.wg = s.threads.countP inWg ∧
    (∀ t, limRunning t = true → holdsSem t = true) := by
  have I := inv_reach h
  refine ⟨I.cnt.sem, I.capEq ▸ I.ph.semcap, I.cnt.tasks, I.cnt.wg, ?_⟩
  intro t ht
  obtain ⟨kind, pc, ret⟩ := t
  simp [limRunning, holdsSem] at ht ⊢
  simp [ht.1, ht.2]

/-- both directions of "exactly while it runs", on every reachable state: every limited body in progress has its slot
(the bodies in progress are no more than the occupied slots), and a slot is occupied only by a call between its acquire
and the release that follows its body — a call that has not acquired yet, one that was refused (`ErrUnavailable`,
`ErrThrottled`), one that has released and one that is over hold none, and nothing else can occupy a slot because the
occupancy *is* the number of calls in that window (`sem = countP holdsSem`). -/
theorem slot_exactly_around_the_body {cap : Nat} {s : St} (h : Reach cap s) :
    s.threads.countP limRunning ≤ s.sem ∧
    s.sem = s.threads.countP holdsSem ∧
    (∀ t : Thread, holdsSem t = true ↔
      (t.kind.isLimited = true ∧
        (t.pc = .semHeld ∨ t.pc = .refHold ∨ t.pc = .accepted ∨ t.pc = .running ∨ t.pc = .ended))) := by
  have I := inv_reach h
  refine ⟨?_, I.cnt.sem, ?_⟩
  · rw [I.cnt.sem]
    apply List.countP_mono_left
    intro t _ ht
    obtain ⟨kind, pc, ret⟩ := t
    simp [limRunning, holdsSem] at ht ⊢
    simp [ht.1, ht.2]
  · intro t
    obtain ⟨kind, pc, ret⟩ := t
    cases pc <;> simp [holdsSem]

/-- on the log: one slot per limited body in progress (the entry's own body included); after the drain only calls
that have not returned hold slots -/
theorem sem_on_log {cap : Nat} {s : St} (h : Reach cap s) {pre post : List Ev} {e : Ev}
    (hl : s.log = pre ++ e :: post) :
    e.n ≤ cap ∧ cnt (pre ++ [e]) .bodyStart ≤ cnt pre .bodyEnd + e.n ∧ (e.s = true → cnt pre .ret + e.n ≤ cnt pre .call) := by
  have hev := reach_entry h hl
  simp only [evOk, globalOk, Bool.and_eq_true, decide_eq_true_eq] at hev
  refine ⟨hev.1.1.1.2, hev.1.1.2, ?_⟩
  intro hs
  have := hev.1.2
  simpa [hs] using this

/-! ## 8. WithCancelOnQuiesce / WithCancelOnStop -/

/-- once the quiescer (stop) channel is closed, every context handed out by WithCancelOnQuiesce
(WithCancelOnStop) has been cancelled -/
theorem cancel_fires {cap : Nat} {s : St} (h : Reach cap s) (i : Nat) (t : Thread) (ht : s.threads[i]? = some t)
    (hp : t.pc ≠ .init) :
    (t.kind = .wcq → s.quiescing = true → has s.log .cancelled i = true) ∧
    (t.kind = .wcs → s.sClosed = true → has s.log .cancelled i = true) := by
  have ci := (inv_reach h).cancel i t ht
  refine ⟨?_, ?_⟩
  · intro hk hq
    rcases ci.q hk hp with g | ⟨_, g⟩
    · exact g
    · rw [hq] at g; cases g
  · intro hk hq
    rcases ci.sc hk hp with g | ⟨_, g⟩
    · exact g
    · rw [hq] at g; cases g

/-! ## Non-vacuity and the limit of the worker clause -/

/-- `demo` (Lemmas/StopperIdem.lean) exercises everything: an async task, a limited task, a worker, a closer, both
cancel contexts, Stop racing with a late task, a late closer.  It runs, ends stopped, its log satisfies `LogOk`,
carries all five markers in order, the late task was refused and never ran, both closers were called, both
contexts cancelled. -/
example : Reach 1 demoEnd ∧ demoEnd.dClosed = true ∧ logOk 1 demoEnd.log = true ∧
    markSeq demoEnd.log = [0, 1, 2, 3, 4] ∧ hasV demoEnd.log .ret 7 1 = true ∧ has demoEnd.log .bodyStart 7 = false ∧
    has demoEnd.log .closer 3 = true ∧ has demoEnd.log .closer 8 = true ∧ has demoEnd.log .cancelled 4 = true ∧
    has demoEnd.log .cancelled 5 = true :=
  ⟨reach_run Reach.init demo (Option.some_get demo_runs).symm, by decide⟩

/-- The worker clause cannot be stated for every worker: a RunWorker issued after the stopper has stopped is
started all the same, and runs after `stopped` is closed (the code has no guard in RunWorker). -/
theorem late_worker_runs_after_stopped :
    ∃ s, Reach 1 s ∧ ∃ e ∈ s.log, e.k = .wStart ∧ e.d = true :=
  ⟨lateEnd, reach_run Reach.init lateWorker (Option.some_get late_runs).symm, by decide⟩

end Shk.C15
