import ShkModel.Lemmas.ReaderRun
import ShkModel.Model.EditCmd
/-! # C09 — any configuration text is accepted or rejected with a truthful diagnostic (partial)

Model: `ShkModel/Model/Reader.lean` — the include-stack reader of `pkg/cmd/reader.go`
(`readLine`, `newSubReader`, `pos.wrapErr`) and the loop of `parseCfg`/`parseSection` around it,
over an arbitrary file system `fs : Name → Entry` (so every include graph, cyclic or not), an
arbitrary search path, an arbitrary clause parser `P` (`classify` accepts / rejects / aborts a
clause and owns the parameter table used for include names) and arbitrary parser state.
The theorems are about the code as repaired by fix-3 (`old = false`); the behaviour before the
repair is `…Old`, with kernel-evaluated witnesses at the end.

What is NOT covered by these theorems: the regexp-driven clause parsers and govaluate (they are
the parameter `P`); crash-freedom of those is generated testing (vlib/c09.py). -/
namespace Shk.C09
open Shk.Reader Shk.Preproc

variable {σ : Type}

/-- **reader_terminates.**  `run`/`load` are defined by recursion on an explicit fuel (the number
of `readLine` calls).  For every file system in which no file has more than `L` complete lines,
every include graph (cyclic or not), every search path, every clause parser and every parser
state, `bound L = (L+2)·w₉ + 1` calls (with `w₀ = 1`, `wₖ₊₁ = 1 + (L+2)·wₖ`: at most ten nested
frames, each serving at most `L+2` calls) are enough: the load does not end in `running`.  The
proof is a potential argument (`phi`: every remaining call of a frame weighs a whole included file
of the levels above it; every call of `readLine` lowers it). -/
theorem reader_terminates (P : Parser σ) (fs : FS) (ipath : List Name) (L : Nat) (hs : Small L fs)
    (main : Name) (s : σ) (n : Nat) (hn : bound L ≤ n) :
    load P fs ipath main n s ≠ .running := by
  show loadG false P fs ipath main n s ≠ .running
  unfold loadG
  cases h : search false fs main ipath with
  | hit cand b t bad =>
    simp only
    apply run_finishes P fs ipath L hs n _ s (load_inv h)
    obtain ⟨_, _, _, _, _, _, hf⟩ := search_hit _ h
    have hr := rem_new hs hf
    have : rem (newFrame cand b t bad) * weight L 9 ≤ (L + 2) * weight L 9 := Nat.mul_le_mul_right _ hr
    simp only [phi, List.length_nil, Nat.sub_zero, Nat.add_zero]
    unfold bound at hn
    omega
  | notFound => simp
  | openErr c => simp
  | isDir c => simp

/-- more fuel does not change a finished outcome -/
theorem fuel_mono (P : Parser σ) (fs : FS) (ipath : List Name) :
    ∀ (n m : Nat) (st : List Frame) (s : σ), run P fs ipath n st s ≠ .running →
      run P fs ipath (n + m) st s = run P fs ipath n st s := by
  intro n
  induction n with
  | zero => intro m st s h; exact absurd rfl h
  | succ n ih =>
    intro m st s h
    have e : n + 1 + m = (n + m) + 1 := by omega
    show runG false P fs ipath (n + 1 + m) st s = runG false P fs ipath (n + 1) st s
    rw [e]
    have h' : runG false P fs ipath (n + 1) st s ≠ .running := h
    unfold runG at h' ⊢
    cases hrl : readLineG false fs ipath (P.params s) st with
    | stop => rfl
    | panic => rfl
    | err d => rfl
    | skip st' =>
      rw [hrl] at h'
      exact ih m st' s h'
    | clause text line r below =>
      rw [hrl] at h'
      simp only at h' ⊢
      cases hc : P.classify s text with
      | accept s' => rw [hc] at h'; exact ih m _ s' h'
      | abort => rfl
      | reject => rfl

/-- **wrapErr_in_range.**  In the repaired code no call of `pos.wrapErr` indexes outside `lines`
(the Go code would panic): a load never ends in `panic`, and every diagnostic's context window
satisfies `ctxLo ≤ line-1 ≤ ctxHi < len(lines)`. -/
theorem wrapErr_in_range (P : Parser σ) (fs : FS) (ipath : List Name) (main : Name) (n : Nat) (s : σ) :
    load P fs ipath main n s ≠ .panic ∧
    ∀ d, load P fs ipath main n s = .error d → d.ctxLo ≤ d.line - 1 ∧ d.line - 1 ≤ d.ctxHi ∧ d.ctxHi < d.nl := by
  have key := load_spec P fs ipath main n s
  constructor
  · intro h; rw [h] at key; exact key
  · intro d h; rw [h] at key; exact ⟨key.1.2.1, key.1.2.2.1, key.1.2.2.2.1⟩

/-- **pos_exists.**  Every diagnostic with a position names a file that was opened (`fs` holds a
readable file under that name) and a line `1 ≤ line ≤` its number of physical lines.  Every
element `(file, l)` of the include chain names an opened file — but `l` is the line AFTER the
include directive (`AfterInclude`: lines `l-k … l-1` are the directive, `2 ≤ l ≤ nphys + 1`), not
a line of the directive: the off-by-one of `r.lineno` in the chain loop of `wrapErr` (known
finding, witness `chain_names_missing_line` below). -/
theorem pos_exists (P : Parser σ) (fs : FS) (ipath : List Name) (main : Name) (n : Nat) (s : σ) (d : Diag)
    (h : load P fs ipath main n s = .error d) :
    (∃ body tail bad, fs d.file = .file body tail bad ∧ 1 ≤ d.line ∧ d.line ≤ nphys body tail bad) ∧
    ∀ p ∈ d.chain, AfterInclude fs p.1 p.2 := by
  have key := load_spec P fs ipath main n s
  rw [h] at key
  exact ⟨key.1.1, key.1.2.2.2.2⟩

/-- **invalid_clause_pos.**  A diagnostic for a clause rejected by the clause parser names the
file and the FIRST physical line of that clause: `d.line` of `d.file` starts a logical line (it is line 1, or
the physical line before it carries no continuation mark: `LineStart`), and the logical line that starts there
(continuation lines joined, trimmed) is a text the parser rejected in some state; the
chain lists the including files (each suspended right behind its include directive). -/
theorem invalid_clause_pos (P : Parser σ) (fs : FS) (ipath : List Name) (main : Name) (n : Nat) (s : σ)
    (d : Diag) (h : load P fs ipath main n s = .error d) (hk : d.kind = .clause) :
    (∃ s' body tail bad raw rest k eof, fs d.file = .file body tail bad ∧
        clauseAt body tail bad d.line = .line raw rest k eof ∧
        P.classify s' (trimSpace raw) = .reject ∧ LineStart body d.line) ∧
    ∀ p ∈ d.chain, AfterInclude fs p.1 p.2 := by
  have key := load_spec P fs ipath main n s
  rw [h] at key
  exact ⟨key.2 hk, key.1.2.2.2.2⟩

/-- `LineStart` tells continuation lines apart: in the file `x \⏎bad` line 2 continues line 1 and is no place a clause
can be reported at (the statement without `LineStart` would have allowed it), line 1 is -/
example : ¬ LineStart [[120, 32, 92], [98, 97, 100]] 2 ∧ LineStart [[120, 32, 92], [98, 97, 100]] 1 := by
  refine ⟨?_, Or.inl rfl⟩
  intro h
  rcases h with h | ⟨l, hl, he⟩
  · cases h
  · simp at hl
    subst hl
    revert he; decide

/-- … and conversely the FIRST clause the parser rejects is the one reported, at the position
`readLine` handed out with it, with the chain of the frames below. -/
theorem reject_reported (P : Parser σ) (fs : FS) (ipath : List Name) (n : Nat) (st : List Frame) (s : σ)
    (hinv : Inv fs st) {text : Bytes} {line : Nat} {r : Frame} {below : List Frame}
    (hrl : readLine fs ipath (P.params s) st = .clause text line r below)
    (hc : P.classify s text = .reject) :
    ∃ d, run P fs ipath (n + 1) st s = .error d ∧ d.file = r.file ∧ d.line = line ∧
      d.chain = chainOf below ∧ d.kind = .clause := by
  have hsp := readLine_spec (fs := fs) 0 ipath (P.params s) st hinv
  rw [hrl] at hsp
  obtain ⟨_, _, d, hw, _, hfile, hline, hchain, hkind, _⟩ := hsp
  refine ⟨d, ?_, hfile, hline, hchain, hkind⟩
  show runG false P fs ipath (n + 1) st s = .error d
  unfold runG
  rw [show readLineG false fs ipath (P.params s) st = .clause text line r below from hrl]
  simp only [hc, hw]

/-- **depth_refused** (1): the stack of readers never holds more than ten frames. -/
theorem depth_le_ten (fs : FS) (ipath : List Name) (tbl : Table) (st : List Frame) (hinv : Inv fs st) :
    (∀ st', readLine fs ipath tbl st = .skip st' → st'.length ≤ 10) ∧
    (∀ text line r below, readLine fs ipath tbl st = .clause text line r below → below.length + 1 ≤ 10) := by
  have hsp := readLine_spec (fs := fs) 0 ipath tbl st hinv
  constructor
  · intro st' h
    rw [h] at hsp
    have := hsp.1
    cases st' with
    | nil => simp
    | cons a b => simpa using this.1
  · intro text line r below h
    rw [h] at hsp
    exact hsp.1.1

/-- **depth_refused** (2): an include directive read by the tenth frame is an error at that
directive ("include depth limit exceeded"); nothing is opened. -/
theorem depth_refused (fs : FS) (ipath : List Name) (tbl : Table) (r : Frame) (below : List Frame)
    (hinv : Inv fs (r :: below)) (hten : below.length + 1 = 10)
    {text : Bytes} {rest : List Bytes} {k : Nat} {eof : Bool}
    (hg : gather r.tail r.bad [] r.rest 0 = .line text rest k eof)
    (hinc : (includeArg (trimSpace text)).isSome = true) (hni : ignoreLine (trimSpace text) = false) :
    ∃ d, readLine fs ipath tbl (r :: below) = .err d ∧ d.kind = .depth ∧ d.file = r.file ∧
      d.line = r.lineno ∧ d.chain = chainOf below := by
  obtain ⟨_, hok, hbelow⟩ := hinv
  obtain ⟨body', tail', hfs', _, ⟨hk1, hnp, _⟩, _⟩ := line_pos hok hg hni
  obtain ⟨_, _, _, hln, _⟩ := hok
  obtain ⟨d, h1, _, h3, h4, h5, h6⟩ :=
    wrap_ok (r := r.advance rest k eof) (below := below) (start := r.lineno) .depth
      (by simpa [Frame.advance] using hfs') (by omega) (by omega) (by simp [Frame.advance]; omega) hbelow
  refine ⟨d, ?_, h6, by simpa [Frame.advance] using h3, h4, h5⟩
  show readLineG false fs ipath tbl (r :: below) = .err d
  unfold readLineG
  simp only [hg, hni, Bool.false_eq_true, if_false]
  unfold dispatch
  cases harg : includeArg (trimSpace text) with
  | none => rw [harg] at hinc; cases hinc
  | some arg =>
    simp only
    rw [if_pos (by omega), h1]
    rfl

/-- **the "EOF encountered while expecting line continuation" diagnostic is truthful**: the reader says it only of a
frame whose remaining physical lines all end in a backslash and whose file ends there — nothing, not even an
unterminated line, follows the last backslash-newline.  (Before the repair 74592f4 it was also said of a clause
whose continuation line was there but lacked the final newline.) -/
theorem eof_continuation_truthful (r : Frame) {k : Nat}
    (h : gather r.tail r.bad [] r.rest 0 = .eofCont k) :
    r.tail = [] ∧ ∀ l ∈ r.rest, endsBackslash l = true :=
  gather_eofCont_truthful r.tail r.bad r.rest [] 0 h

/-- a clause continued into an unterminated last line is read: `title x \`, newline, ` y`, end of file -/
example : gather [32, 121] false [] [[116, 105, 116, 108, 101, 32, 120, 32, 92]] 0
    = .line [116, 105, 116, 108, 101, 32, 120, 32, 10, 32, 121] [] 2 true := by decide

/-! ## Non-vacuity and the behaviour before the repairs (kernel-evaluated) -/

/-- accepts everything except the text `bad` -/
def P0 : Parser Unit :=
  { classify := fun _ t => if t = [98, 97, 100] then .reject else .accept (), params := fun _ => [] }

/-- `a` = "title x⏎include a⏎" (includes itself), `m` = "include i⏎", `i` = "# c⏎x \⏎ y⏎bad⏎",
`n` = "include d⏎", `d` a directory -/
def fs0 : FS := fun n =>
  if n = [97] then .file [[116, 105, 116, 108, 101, 32, 120], [105, 110, 99, 108, 117, 100, 101, 32, 97]] [] false
  else if n = [109] then .file [[105, 110, 99, 108, 117, 100, 101, 32, 105]] [] false
  else if n = [105] then .file [[35, 32, 99], [120, 32, 92], [32, 121], [98, 97, 100]] [] false
  else if n = [110] then .file [[105, 110, 99, 108, 117, 100, 101, 32, 100]] [] false
  else if n = [100] then .dir
  else .missing

/-- a self-including file is refused at depth ten, at the include directive of the tenth frame -/
theorem self_include_refused :
    load P0 fs0 [[46]] [97] 100 () =
      .error { file := [97], line := 2, ctxLo := 0, ctxHi := 1, nl := 2,
               chain := List.replicate 9 ([97], 3), kind := .depth } := by decide

/-- a rejected clause in an included file: reported at `i:4` (its own line; the continuation
clause before it occupies lines 2-3), chain `m:2` — although `m` has ONE line: the chain names
the line after the include directive. -/
theorem chain_names_missing_line :
    load P0 fs0 [[46]] [109] 100 () =
      .error { file := [105], line := 4, ctxLo := 1, ctxHi := 3, nl := 4,
               chain := [([109], 2)], kind := .clause } ∧
    nphys [[105, 110, 99, 108, 117, 100, 101, 32, 105]] [] false = 1 := by decide

/-- before fix-3: `include d` with `d` a directory panics in `wrapErr` (`lines[0]` of an empty slice) -/
theorem include_dir_panicked_old : loadOld P0 fs0 [[46]] [110] 100 () = .panic := by decide

/-- after fix-3 it is an error at the include directive -/
theorem include_dir_error :
    load P0 fs0 [[46]] [110] 100 () =
      .error { file := [110], line := 1, ctxLo := 0, ctxHi := 0, nl := 1, chain := [], kind := .isDir [100] } := by
  decide

/-- before fix-3 a main file that is a directory panics as well -/
theorem main_dir_panicked_old : loadOld P0 fs0 [[46]] [100] 100 () = .panic := by decide

/-! ## The `edit` clause (fix-1) -/

open Shk.EditCmd in
/-- after fix-1 the syntax check of `edit` never reaches an index outside `parts`: every command
is either rejected ("invalid syntax") or has its two operands -/
theorem edit_check_total (cmd : Bytes) : editCheck false cmd ≠ .panic := by
  unfold editCheck
  split
  · split
    · simp
    · split
      · split <;> simp
      · simp
      · simp
  · simp

open Shk.EditCmd in
/-- before fix-1: `edit s/ab` indexes `parts[2]` of a two-element slice; `edit s/a/b` (no closing
separator) was accepted -/
theorem edit_panicked_old :
    editCheck true [115, 47, 97, 98] = .panic ∧ editCheck false [115, 47, 97, 98] = .invalid ∧
    editCheck true [115, 47, 97, 47, 98] = .ok [97] [98] ∧ editCheck false [115, 47, 97, 47, 98] = .invalid ∧
    editCheck false [115, 47, 97, 47, 98, 47] = .ok [97] [98] := by decide

end Shk.C09
