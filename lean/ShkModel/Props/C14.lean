import ShkModel.Lemmas.Race
import ShkModel.Model.RacePolicy
/-!
# C14 — no data race between prompter, spotlights, auditors, collector (partial)

`discipline_sound` is about the abstract fork/join execution model of `Model/Race.lean`:
any number of thread instances (actors, lines, commands), any interleaving, any length.
What ties it to the code is the regenerated access table (`Gen/Access.lean`) and `table_ok`.
See the header of `Model/Race.lean` for what is assumed (A1–A4).
-/
namespace Shk.C14
open Shk.Race

/-- **Soundness of the discipline.**  If the access table satisfies `disciplineOk` for a policy,
then no execution of a program described by the table (in the sense of `Exec`: its events
instantiate rows of the table and the fork / join / end-signal facts mean what they say)
contains a data race — for any number of thread instances and events. -/
theorem discipline_sound (T : Table) (pol : Nat → Option Discipline) (allowed : List String)
    (h : disciplineOk T pol allowed = true) (ex : Exec T pol) : ∀ i j, ¬ Race ex.tr i j := by
  rintro i j ⟨t, u, a, b, o, hi, hj, hloc, hw, hat, htu, hn₁, hn₂⟩
  have hi' : At ex.tr i t (.acc a o) := hi
  have hj' : At ex.tr j u (.acc b o) := hj
  obtain ⟨haT, ha⟩ := ex.typed i t a o hi'
  obtain ⟨hbT, hb⟩ := ex.typed j u b o hj'
  simp only [disciplineOk, Bool.and_eq_true] at h
  obtain ⟨⟨⟨_, hg⟩, hstw⟩, hall⟩ := h
  simp only [List.all_eq_true, List.mem_range] at hall
  have hma : a ∈ accsAt T a.loc := (mem_accsAt hg haT rfl).1
  have hmb : b ∈ accsAt T a.loc := (mem_accsAt hg hbT hloc.symm).1
  have hc := hall a.loc (mem_accsAt hg haT rfl).2
  have ordered : orderedLoc T a.loc = true → False := by
    intro ho
    simp only [orderedLoc, List.all_eq_true, Bool.or_eq_true, Bool.not_eq_true'] at ho
    rcases ho a hma b hmb with hnw | hp
    · rcases hw with hw | hw <;> simp [hw] at hnw
    · rcases pairOk_sound ex hi' hj' hp with h | h | h | h
      · exact hat h
      · exact htu h
      · exact hn₁ h
      · exact hn₂ h
  unfold checkLoc at hc
  cases hpol : pol a.loc with
  | none =>
    rw [hpol] at hc
    simp only at hc
    match hacc : accsAt T a.loc, hc with
    | [], _ => rw [hacc] at hma; cases hma
    | x :: xs, hc =>
      simp only [Bool.and_eq_true, List.all_eq_true, beq_iff_eq] at hc
      rw [hacc] at hma hmb
      have hroot : ∀ z, z ∈ x :: xs → z.root = x.root := by
        intro z hz
        rcases List.mem_cons.mp hz with rfl | hz
        · rfl
        · exact hc.2 z hz
      exact htu (single_sound ex _ _ hc.1 t u ⟨i, _, hi'⟩ ⟨j, _, hj'⟩ (by rw [← ha, hroot a hma]) (by rw [← hb, hroot b hmb]))
  | some d =>
    rw [hpol] at hc
    cases d with
    | atomic =>
      simp only [List.all_eq_true] at hc
      exact hat ⟨hc a hma, hc b hmb⟩
    | locked m =>
      simp only [List.all_eq_true, List.contains_iff_mem] at hc
      have hij : i ≠ j := by
        rintro rfl
        exact htu (At.inj hi' hj').1
      rcases Nat.lt_or_gt_of_ne hij with hlt | hlt
      · exact hn₁ (.lock hi' hj' (hc a hma) (hc b hmb) hlt)
      · exact hn₂ (.lock hj' hi' (hc b hmb) (hc a hma) hlt)
    | confined r =>
      simp only [Bool.and_eq_true, List.all_eq_true, beq_iff_eq] at hc
      exact htu (single_sound ex _ _ hc.1 t u ⟨i, _, hi'⟩ ⟨j, _, hj'⟩ (by rw [← ha]; exact hc.2 a hma) (by rw [← hb]; exact hc.2 b hmb))
    | initThenReadOnly w =>
      simp only [Bool.and_eq_true] at hc
      exact ordered hc.2
    | handoff => exact ordered hc
    | perInstance owners =>
      simp only at hc
      obtain ⟨w, hwo, ht, hu⟩ := ex.own i j t u a b o owners hi' hj' hloc hpol
      rcases ht with rfl | ht <;> rcases hu with rfl | hu
      · exact htu rfl
      · rcases fam_parent_child ex hg hc hi' hj' rfl hloc.symm hwo hu with h | h
        · exact hn₁ h
        · exact hn₂ h
      · rcases fam_parent_child ex hg hc hj' hi' hloc.symm rfl hwo ht with h | h
        · exact hn₂ h
        · exact hn₁ h
      · rcases fam_siblings ex hg hc hi' hj' rfl hloc.symm hwo ht hu htu with h | h
        · exact hn₁ h
        · exact hn₂ h
    | message =>
      -- a message location is not on the sent-then-written list
      have notListed : a.loc ∉ T.sentThenWritten := by
        intro hin
        simp only [stwOk, List.all_eq_true] at hstw
        have := hstw a.loc hin
        rw [hpol] at this
        cases this
      have wBefore : ∀ (i k : Nat) (t : Tid) (x : Access), At ex.tr i t (.acc x o) → x.loc = a.loc →
          At ex.tr k t (.send o) → (x.write = false → i < k) → i < k := by
        intro i k t x hx hl hk hrd
        cases hwx : x.write with
        | false => exact hrd hwx
        | true =>
          rcases ex.sendSem i k t x o hx hwx hk with h | h
          · rw [hl] at h; exact absurd h notListed
          · exact h
      rcases ex.msgSem i j t u a b o hi' hj' hloc hpol htu hw with
        ⟨k, k', hk, hk', hlt, hkj, hrd⟩ | ⟨k, k', hk, hk', hlt, hki, hrd⟩
      · have hik := wBefore i k t a hi' rfl hk hrd
        exact hn₁ (.trans (.po hi' hk hik) (.trans (.chan hk hk' hlt) (.po hk' hj' hkj)))
      · have hjk := wBefore j k u b hj' hloc.symm hk hrd
        exact hn₂ (.trans (.po hj' hk hjk) (.trans (.chan hk hk' hlt) (.po hk' hi' hki)))


/-- **The obligation a code change breaks.**  The access table regenerated from the working tree
satisfies the hand-written policy (kernel evaluation). -/
theorem table_ok : disciplineOk Gen.table pol allowedLeaks = true := by decide +kernel

/-- the two together: no execution of the abstract model that instantiates the CURRENT table races -/
theorem current_table_race_free (ex : Exec Gen.table pol) : ∀ i j, ¬ Race ex.tr i j :=
  discipline_sound Gen.table pol allowedLeaks table_ok ex

/-! ## Non-vacuity -/

/-- `Race` is satisfiable: a worker writes location 0 while another thread reads it, no fork,
join or lock in between -/
def wr : Access := ⟨1, 0, true, false, [], false, []⟩
def rd : Access := ⟨2, 0, false, false, [], false, []⟩
def racyTrace : Trace := [⟨1, .acc wr 0⟩, ⟨2, .acc rd 0⟩]

theorem racy_races : Race racyTrace 0 1 := by
  refine ⟨1, 2, wr, rd, 0, rfl, rfl, rfl, Or.inl rfl, by decide, by decide, ?_, ?_⟩
  · intro h
    -- no rule applies: different threads, no fork / join / lock, nothing in between
    have a0 : At racyTrace 0 1 (.acc wr 0) := rfl
    have a1 : At racyTrace 1 2 (.acc rd 0) := rfl
    have key : ∀ i j, HB racyTrace i j → ¬ (i = 0 ∧ j = 1) := by
      intro i j h
      induction h with
      | po h₁ h₂ _ =>
        rintro ⟨rfl, rfl⟩
        have e₁ := (At.inj h₁ a0).1
        have e₂ := (At.inj h₂ a1).1
        rw [e₁] at e₂
        cases e₂
      | fork h₁ _ _ =>
        rintro ⟨rfl, rfl⟩
        cases (At.inj h₁ a0).2
      | join h₁ _ _ =>
        rintro ⟨rfl, rfl⟩
        cases (At.inj h₁ a0).2
      | lock h₁ _ hm _ _ =>
        rintro ⟨rfl, rfl⟩
        cases (At.inj h₁ a0).2
        cases hm
      | chan h₁ _ _ =>
        rintro ⟨rfl, rfl⟩
        cases (At.inj h₁ a0).2
      | trans h₁ h₂ _ _ =>
        rintro ⟨rfl, rfl⟩
        have := hb_lt h₁
        have := hb_lt h₂
        omega
    exact key 0 1 h ⟨rfl, rfl⟩
  · intro h
    have := hb_lt h
    omega

/-- the checker rejects a table in which a spotlight-like worker updates a field (location 0,
policy `handoff`) while the play runs and main reads it while the play runs:
root 0 = main, root 1 = worker forked by main and joined; main's read is `mid` -/
def badTable : Table :=
  ⟨[⟨[], false, true, false, [], []⟩, ⟨[0], false, true, true, [], []⟩],
   [[⟨1, 0, true, false, [], true, []⟩, ⟨0, 0, false, false, [], false, [(1, .mid)]⟩]], []⟩

example : disciplineOk badTable (fun _ => some .handoff) [] = false := by decide

/-- … and accepts it once main reads only after the join -/
def goodTable : Table :=
  ⟨[⟨[], false, true, false, [], []⟩, ⟨[0], false, true, true, [], []⟩],
   [[⟨1, 0, true, false, [], true, []⟩, ⟨0, 0, false, false, [], false, [(1, .post)]⟩]], []⟩

example : disciplineOk goodTable (fun _ => some .handoff) [] = true := by decide

/-- a shared written location without a policy entry is rejected -/
example : disciplineOk goodTable (fun _ => none) [] = false := by decide

/-- a `message` location that some function writes after sending the object is rejected … -/
def stwTable : Table :=
  ⟨[⟨[], false, true, false, [], []⟩, ⟨[0], false, true, true, [], []⟩],
   [[⟨1, 0, true, false, [], true, []⟩, ⟨0, 0, false, false, [], false, [(1, .mid)]⟩]], [0]⟩

example : disciplineOk stwTable (fun _ => some .message) [] = false := by decide

/-- … accepted without that row, or when the location is protected by a lock that both sides hold -/
example : disciplineOk { stwTable with sentThenWritten := [] } (fun _ => some .message) [] = true := by decide

example : disciplineOk
    ⟨stwTable.roots, [[⟨1, 0, true, false, [7], true, []⟩, ⟨0, 0, false, false, [7], false, [(1, .mid)]⟩]], [0]⟩
    (fun _ => some (.locked 7)) [] = true := by decide

/-- a join-skipping exit that is not on the allowed list is rejected -/
example : disciplineOk ⟨[⟨[], false, true, false, [], ["f: return"]⟩], [], []⟩ (fun _ => none) [] = false := by decide


/-! `Exec` is inhabited (the hypotheses of `discipline_sound` are not contradictory): main forks a
worker, the worker writes and signals its end, main joins and reads. -/
section demo
def dW : Access := ⟨1, 0, true, false, [], true, []⟩
def dR : Access := ⟨0, 0, false, false, [], false, [(1, .post)]⟩
def demoTrace : Trace := [⟨0, .fork 1⟩, ⟨1, .acc dW 0⟩, ⟨1, .done⟩, ⟨0, .join 1⟩, ⟨0, .acc dR 0⟩]
def demoPol : Nat → Option Discipline := fun _ => some .handoff
def demoRoot (t : Tid) : Nat := if t = 1 then 1 else 0
def demoPar (t : Tid) : Option Tid := if t = 1 then some 0 else none

private theorem demo_cases {i : Nat} {t : Tid} {a : Act} (h : At demoTrace i t a) :
    (i = 0 ∧ t = 0 ∧ a = .fork 1) ∨ (i = 1 ∧ t = 1 ∧ a = .acc dW 0) ∨ (i = 2 ∧ t = 1 ∧ a = .done) ∨
    (i = 3 ∧ t = 0 ∧ a = .join 1) ∨ (i = 4 ∧ t = 0 ∧ a = .acc dR 0) := by
  unfold At demoTrace at h
  rcases i with _ | _ | _ | _ | _ | i <;> simp at h <;> obtain ⟨rfl, rfl⟩ := h <;> simp

private theorem demo_par {c t : Tid} (h : demoPar c = some t) : c = 1 ∧ t = 0 := by
  unfold demoPar at h
  split at h
  · next hc => cases h; exact ⟨hc, rfl⟩
  · cases h

def demoExec : Exec goodTable demoPol where
  tr := demoTrace
  rootOf := demoRoot
  par := demoPar
  typed := by
    intro i t a o h
    rcases demo_cases h with ⟨_, ht, h'⟩ | ⟨_, ht, h'⟩ | ⟨_, ht, h'⟩ | ⟨_, ht, h'⟩ | ⟨_, ht, h'⟩ <;>
      cases h' <;> subst ht <;> decide
  parTyped := by
    intro c t h
    obtain ⟨rfl, rfl⟩ := demo_par h
    decide
  hasParent := by
    intro u _ hr
    refine ⟨0, ?_⟩
    unfold demoRoot at hr
    unfold demoPar
    split at hr
    · next h => simp [h]
    · exact absurd rfl hr
  mainUnique := by
    rintro t u ⟨i, a, hi⟩ ⟨j, b, hj⟩ ht hu
    rcases demo_cases hi with ⟨_, rfl, _⟩ | ⟨_, rfl, _⟩ | ⟨_, rfl, _⟩ | ⟨_, rfl, _⟩ | ⟨_, rfl, _⟩ <;>
      rcases demo_cases hj with ⟨_, rfl, _⟩ | ⟨_, rfl, _⟩ | ⟨_, rfl, _⟩ | ⟨_, rfl, _⟩ | ⟨_, rfl, _⟩ <;>
      first | rfl | exact absurd ht (by decide) | exact absurd hu (by decide)
  onceSem := by
    intro c₁ c₂ t R h₁ h₂ _ _ _ _
    rw [(demo_par h₁).1, (demo_par h₂).1]
  forkExists := by
    intro c t h
    obtain ⟨rfl, rfl⟩ := demo_par h
    exact ⟨0, rfl⟩
  forkFirst := by
    intro k t c j a hk hj
    rcases demo_cases hk with ⟨rfl, rfl, h⟩ | ⟨_, _, h⟩ | ⟨_, _, h⟩ | ⟨_, _, h⟩ | ⟨_, _, h⟩ <;> cases h
    rcases demo_cases hj with ⟨_, h, _⟩ | ⟨rfl, _, _⟩ | ⟨rfl, _, _⟩ | ⟨_, h, _⟩ | ⟨_, h, _⟩ <;>
      first | omega | cases h
  relSem := by
    intro i t a o c h hp
    obtain ⟨rfl, rfl⟩ := demo_par hp
    rcases demo_cases h with ⟨_, _, h'⟩ | ⟨_, ht, _⟩ | ⟨_, _, h'⟩ | ⟨_, _, h'⟩ | ⟨rfl, _, h'⟩ <;>
      first | cases h' | cases ht
    exact ⟨3, by omega, rfl⟩
  joinObs := by
    intro k t c h
    rcases demo_cases h with ⟨_, _, h'⟩ | ⟨_, _, h'⟩ | ⟨_, _, h'⟩ | ⟨rfl, rfl, h'⟩ | ⟨_, _, h'⟩ <;> cases h'
    exact ⟨2, by omega, rfl⟩
  preDoneSem := by
    intro i c a o d hi _ hd
    rcases demo_cases hi with ⟨_, _, h'⟩ | ⟨rfl, rfl, _⟩ | ⟨_, _, h'⟩ | ⟨_, _, h'⟩ | ⟨rfl, rfl, _⟩
    · cases h'
    · rcases demo_cases hd with ⟨_, _, h'⟩ | ⟨_, _, h'⟩ | ⟨rfl, _, _⟩ | ⟨_, _, h'⟩ | ⟨_, _, h'⟩ <;>
        first | omega | cases h'
    · cases h'
    · cases h'
    · rcases demo_cases hd with ⟨_, _, h'⟩ | ⟨_, _, h'⟩ | ⟨_, h', _⟩ | ⟨_, _, h'⟩ | ⟨_, _, h'⟩ <;> cases h'
  jbdSem := by
    intro u p R d hp hR _ hm _
    obtain ⟨rfl, rfl⟩ := demo_par hp
    have : R = ⟨[0], false, true, true, [], []⟩ := by
      have : goodTable.roots[demoRoot 1]? = some ⟨[0], false, true, true, [], []⟩ := by rfl
      rw [this] at hR
      cases hR
      rfl
    subst this
    cases hm
  seqSem := by
    intro c₁ c₂ t R hne h₁ h₂
    exact absurd ((demo_par h₁).1.trans (demo_par h₂).1.symm) hne
  own := by
    intro i j t u a b o owners _ _ _ hp
    cases hp
  sendSem := by
    intro i k t a o _ _ hk
    rcases demo_cases hk with ⟨_, _, h⟩ | ⟨_, _, h⟩ | ⟨_, _, h⟩ | ⟨_, _, h⟩ | ⟨_, _, h⟩ <;> cases h
  msgSem := by
    intro i j t u a b o _ _ _ hp
    cases hp

/-- the demo execution is covered by the theorem (and `goodTable` passes the checker) -/
example : ∀ i j, ¬ Race demoExec.tr i j :=
  discipline_sound goodTable demoPol [] (by decide) demoExec
end demo

/-! … and so is an execution with a channel hand-over: main writes a `message` object, sends it, the
worker receives it and reads it. -/
section demoMsg
def mW : Access := ⟨0, 0, true, false, [], false, [(1, .mid)]⟩
def mR : Access := ⟨1, 0, false, false, [], false, []⟩
def msgTable : Table :=
  ⟨[⟨[], false, true, false, [], []⟩, ⟨[0], false, true, false, [], []⟩], [[mW, mR]], []⟩
def msgTrace : Trace := [⟨0, .fork 1⟩, ⟨0, .acc mW 0⟩, ⟨0, .send 0⟩, ⟨1, .recv 0⟩, ⟨1, .acc mR 0⟩]
def msgPol : Nat → Option Discipline := fun _ => some .message

private theorem msg_cases {i : Nat} {t : Tid} {a : Act} (h : At msgTrace i t a) :
    (i = 0 ∧ t = 0 ∧ a = .fork 1) ∨ (i = 1 ∧ t = 0 ∧ a = .acc mW 0) ∨ (i = 2 ∧ t = 0 ∧ a = .send 0) ∨
    (i = 3 ∧ t = 1 ∧ a = .recv 0) ∨ (i = 4 ∧ t = 1 ∧ a = .acc mR 0) := by
  unfold At msgTrace at h
  rcases i with _ | _ | _ | _ | _ | i <;> simp at h <;> obtain ⟨rfl, rfl⟩ := h <;> simp

def msgExec : Exec msgTable msgPol where
  tr := msgTrace
  rootOf := demoRoot
  par := demoPar
  typed := by
    intro i t a o h
    rcases msg_cases h with ⟨_, ht, h'⟩ | ⟨_, ht, h'⟩ | ⟨_, ht, h'⟩ | ⟨_, ht, h'⟩ | ⟨_, ht, h'⟩ <;>
      cases h' <;> subst ht <;> decide
  parTyped := by
    intro c t h
    obtain ⟨rfl, rfl⟩ := demo_par h
    decide
  hasParent := by
    intro u _ hr
    refine ⟨0, ?_⟩
    unfold demoRoot at hr
    unfold demoPar
    split at hr
    · next h => simp [h]
    · exact absurd rfl hr
  mainUnique := by
    rintro t u ⟨i, a, hi⟩ ⟨j, b, hj⟩ ht hu
    rcases msg_cases hi with ⟨_, rfl, _⟩ | ⟨_, rfl, _⟩ | ⟨_, rfl, _⟩ | ⟨_, rfl, _⟩ | ⟨_, rfl, _⟩ <;>
      rcases msg_cases hj with ⟨_, rfl, _⟩ | ⟨_, rfl, _⟩ | ⟨_, rfl, _⟩ | ⟨_, rfl, _⟩ | ⟨_, rfl, _⟩ <;>
      first | rfl | exact absurd ht (by decide) | exact absurd hu (by decide)
  onceSem := by
    intro c₁ c₂ t R h₁ h₂ _ _ _ _
    rw [(demo_par h₁).1, (demo_par h₂).1]
  forkExists := by
    intro c t h
    obtain ⟨rfl, rfl⟩ := demo_par h
    exact ⟨0, rfl⟩
  forkFirst := by
    intro k t c j a hk hj
    rcases msg_cases hk with ⟨rfl, rfl, h⟩ | ⟨_, _, h⟩ | ⟨_, _, h⟩ | ⟨_, _, h⟩ | ⟨_, _, h⟩ <;> cases h
    rcases msg_cases hj with ⟨_, h, _⟩ | ⟨_, h, _⟩ | ⟨_, h, _⟩ | ⟨rfl, _, _⟩ | ⟨rfl, _, _⟩ <;>
      first | omega | cases h
  relSem := by
    intro i t a o c h hp
    obtain ⟨rfl, rfl⟩ := demo_par hp
    rcases msg_cases h with ⟨_, _, h'⟩ | ⟨_, _, h'⟩ | ⟨_, _, h'⟩ | ⟨_, _, h'⟩ | ⟨_, ht, _⟩ <;>
      first | cases ht | cases h'
    trivial
  joinObs := by
    intro k t c h
    rcases msg_cases h with ⟨_, _, h'⟩ | ⟨_, _, h'⟩ | ⟨_, _, h'⟩ | ⟨_, _, h'⟩ | ⟨_, _, h'⟩ <;> cases h'
  preDoneSem := by
    intro i c a o d _ _ hd
    rcases msg_cases hd with ⟨_, _, h'⟩ | ⟨_, _, h'⟩ | ⟨_, _, h'⟩ | ⟨_, _, h'⟩ | ⟨_, _, h'⟩ <;> cases h'
  jbdSem := by
    intro u p R d _ _ _ _ hd
    rcases msg_cases hd with ⟨_, _, h'⟩ | ⟨_, _, h'⟩ | ⟨_, _, h'⟩ | ⟨_, _, h'⟩ | ⟨_, _, h'⟩ <;> cases h'
  seqSem := by
    intro c₁ c₂ t R hne h₁ h₂
    exact absurd ((demo_par h₁).1.trans (demo_par h₂).1.symm) hne
  own := by
    intro i j t u a b o owners _ _ _ hp
    cases hp
  sendSem := by
    intro i k t a o hi _ hk
    rcases msg_cases hk with ⟨_, _, h⟩ | ⟨_, _, h⟩ | ⟨rfl, rfl, _⟩ | ⟨_, _, h⟩ | ⟨_, _, h⟩ <;> first | cases h | skip
    rcases msg_cases hi with ⟨_, _, h⟩ | ⟨rfl, _, _⟩ | ⟨_, _, h⟩ | ⟨_, _, h⟩ | ⟨_, ht, _⟩ <;>
      first | cases h | cases ht | exact Or.inr (by omega)
  msgSem := by
    intro i j t u a b o hi hj _ _ htu _
    rcases msg_cases hi with ⟨_, _, h⟩ | ⟨rfl, rfl, h⟩ | ⟨_, _, h⟩ | ⟨_, _, h⟩ | ⟨rfl, rfl, h⟩ <;> cases h <;>
      rcases msg_cases hj with ⟨_, _, h⟩ | ⟨rfl, rfl, h⟩ | ⟨_, _, h⟩ | ⟨_, _, h⟩ | ⟨rfl, rfl, h⟩ <;> cases h
    · exact absurd rfl htu
    · exact Or.inl ⟨2, 3, rfl, rfl, by omega, by omega, by intro h; cases h⟩
    · exact Or.inr ⟨2, 3, rfl, rfl, by omega, by omega, by intro h; cases h⟩
    · exact absurd rfl htu

example : ∀ i j, ¬ Race msgExec.tr i j :=
  discipline_sound msgTable msgPol [] (by decide) msgExec
end demoMsg

end Shk.C14
