import ShkModel.Lemmas.Paths
/-!
# C12 — results land in one run directory and are kept or erased as documented

Claim level: **partial**.  The theorems are about the models in `Model/Paths.lean`
(`filepath.Clean/Join/Abs`, the kernel's rule for a symbolic link under the assumption that no
directory on the way is itself a link, the deferred steps of `run()`, the time-range
normalisation of `assemble`).  `vlib/c12.py` ties them to the real program: `filepath.Clean/Join`
and the real `prepareDirs` in-process on generated `-o` values, and the whole flag matrix with the
real binary.
-/
namespace Shk.C12
open Shk.Paths

/-- **latest_resolves** — for every current directory, every `-o` argument (relative, nested,
absolute, `.`; with any amount of `.`, `..`, doubled or trailing slashes) and every run
identifier, the link `<o>/latest` created by the repaired `prepareDirs` resolves to the run
directory `<o>/<run id>` (both made absolute the way the kernel does). -/
theorem latest_resolves {α : Type} (latest : α) (cwd : List α) (o : P α) (sub : List α) :
    resolveLink cwd (prepareDirs latest o sub).alias (prepareDirs latest o sub).target
      = absolutize cwd (prepareDirs latest o sub).runDir := by
  obtain ⟨ns, hns⟩ := base_names cwd o
  have hL : (absolutize cwd (join o [Comp.nm latest])).comps.dropLast = names ns.reverse := by
    rw [absolutize_join_comps, hns]
    simp [step, names_reverse]
  have lhs : resolveLink cwd (prepareDirs latest o sub).alias (prepareDirs latest o sub).target
      = ⟨true, names (ns.reverse ++ sub)⟩ := by
    simp only [resolveLink, prepareDirs, Bool.false_eq_true, if_false]
    rw [hL, ← names_append]
    simp only [clean, cleanComps_names]
  rw [lhs]
  have habs := absolutize_abs cwd (prepareDirs latest o sub).runDir
  have hc : (absolutize cwd (prepareDirs latest o sub).runDir).comps = names (ns.reverse ++ sub) := by
    by_cases hs : sub = []
    · subst hs
      simp only [prepareDirs, if_true, List.append_nil]
      rw [absolutize_comps, hns, names_reverse]
    · simp only [prepareDirs, hs, if_false]
      rw [absolutize_join_comps, hns, fold_names, List.reverse_append, List.reverse_reverse,
        names_reverse, names_append]
  cases hp : absolutize cwd (prepareDirs latest o sub).runDir with
  | mk a c =>
    rw [hp] at habs hc
    simp only at habs hc
    rw [habs, hc]

/-- **latest_replaced** — whatever sat at `<o>/latest` before the run (nothing, a link of an
earlier run whether it still resolves or dangles because that run was erased, a file, an empty
directory), after `prepareDirs` it is the link of *this* run; only a non-empty directory makes
`prepareDirs` fail. -/
theorem latest_replaced {α : Type} (prev : Slot α) (target : P α) (h : prev ≠ .fullDir) :
    replaceLatest prev target = some (.link target) := by
  cases prev <;> simp_all [replaceLatest]

theorem latest_fullDir_fails {α : Type} (target : P α) : replaceLatest (.fullDir : Slot α) target = none := rfl

/-- the link of an erased earlier run (`--clear`) is replaced, and then resolves to this run -/
example : replaceLatest (.link ⟨false, names [5]⟩) (prepareDirs 9 ⟨false, names [2]⟩ [7]).target
      = some (.link ⟨false, names [7]⟩) ∧
    resolveLink [0, 1] (prepareDirs 9 ⟨false, names [2]⟩ [7]).alias ⟨false, names [7]⟩
      = absolutize [0, 1] (prepareDirs 9 ⟨false, names [2]⟩ [7]).runDir := by decide

/-- witness for the `os.Stat` variant: a dangling link survives, so `latest` keeps naming the
erased run -/
theorem stat_variant_keeps_dangling_link :
    replaceLatestStat (.link (⟨false, names [5]⟩ : P Nat)) false ⟨false, names [7]⟩
      = some (.link ⟨false, names [5]⟩) := by decide

/-- the pinned code: with `-o out` from `/tmp/w` the link `out/latest` holds the text `out/7`
and therefore resolves to `/tmp/w/out/out/7`, not to the run directory `/tmp/w/out/7`
(names: 0 = tmp, 1 = w, 2 = out, 9 = latest, 7 = the run id). -/
theorem latest_dangles_old :
    resolveLink [0, 1] (prepareDirsOld 9 ⟨false, [Comp.nm 2]⟩ [7]).alias
        (prepareDirsOld 9 ⟨false, [Comp.nm 2]⟩ [7]).target
      = (⟨true, names [0, 1, 2, 2, 7]⟩ : P Nat)
    ∧ absolutize [0, 1] (prepareDirsOld 9 ⟨false, [Comp.nm 2]⟩ [7]).runDir
      = (⟨true, names [0, 1, 2, 7]⟩ : P Nat) := by decide

/-- … and this is so for every plain relative output directory `d₁/…/dₙ` (n ≥ 1): the old link
resolves to `cwd/d/d/<id>`, which is a different path than `cwd/d/<id>`. -/
theorem latest_dangles_old_rel {α : Type} (latest : α) (cwd d sub : List α) (hd : d ≠ []) (hs : sub ≠ []) :
    resolveLink cwd (prepareDirsOld latest ⟨false, names d⟩ sub).alias
        (prepareDirsOld latest ⟨false, names d⟩ sub).target
      ≠ absolutize cwd (prepareDirsOld latest ⟨false, names d⟩ sub).runDir := by
  intro h
  have h2 := congrArg (fun p => p.comps.length) h
  simp only [resolveLink, prepareDirsOld, hs, if_false, join, clean, absolutize,
    Bool.false_eq_true, ← names_append, cleanComps_names] at h2
  have e1 : names d ++ [Comp.nm latest] = names (d ++ [latest]) := by simp [names]
  rw [e1] at h2
  simp only [← names_append, cleanComps_names] at h2
  have e2 : names (cwd ++ (d ++ [latest])) = names (cwd ++ d) ++ [Comp.nm latest] := by simp [names]
  rw [e2, List.dropLast_concat] at h2
  simp only [← names_append, cleanComps_names] at h2
  simp only [names, List.length_map, List.length_append] at h2
  have : d.length ≠ 0 := by
    intro h0; exact hd (List.length_eq_zero_iff.mp h0)
  omega

/-- the old code was right for an absolute `-o` (which is why the defect went unnoticed in setups
that pass an absolute directory) -/
theorem latest_old_ok_absolute {α : Type} (latest : α) (cwd : List α) (o : P α) (sub : List α)
    (ho : o.abs = true) (hs : sub ≠ []) :
    resolveLink cwd (prepareDirsOld latest o sub).alias (prepareDirsOld latest o sub).target
      = absolutize cwd (prepareDirsOld latest o sub).runDir := by
  simp only [resolveLink, prepareDirsOld, hs, if_false, join, clean, absolutize, ho, if_true]

example : (⟨true, [Comp.nm 0, Comp.up, Comp.nm 1]⟩ : P Nat).abs = true ∧ ([7] : List Nat) ≠ [] := by decide

/-- **survive_table** — whatever the flags and whichever steps fail: the artifacts directory is
still there at the end iff (the play failed ∨ `-k`) and the run directory was not erased; the
run directory is erased iff (`--clear` ∨ an upload URL) and the program did not fail — where an explicit
`--clear=false` next to an upload URL keeps the directory (`initArgs` lets the upload imply `--clear` only when the
flag was not given: `removeAll`). -/
theorem survive_table (f : Flags) (e : Faults) :
    ((runEnd f e).artifacts = true ↔
        ((runEnd f e).playFailed = true ∨ f.k = true) ∧
          ¬ (removeAll f = true ∧ (runEnd f e).exitNonZero = false))
    ∧ ((runEnd f e).runDir = false ↔
        removeAll f = true ∧ (runEnd f e).exitNonZero = false) := by
  obtain ⟨k, c, u, s⟩ := f
  obtain ⟨p, i, pl, up⟩ := e
  rcases c with _ | c
  · cases k <;> cases u <;> cases s <;> cases p <;> cases i <;> cases pl <;> cases up <;> decide
  · cases k <;> (rcases c with _ | (_ | _)) <;> cases u <;> cases s <;> cases p <;> cases i <;> cases pl <;> cases up <;> decide

/-- … in the words of the property, for every command line that does not say `--clear=false` -/
theorem removeAll_plain (f : Flags) (h : f.clear ≠ some false) :
    removeAll f = true ↔ (f.clear = some true ∨ f.upload = true) := by
  obtain ⟨k, c, u, s⟩ := f
  rcases c with _ | c
  · simp [removeAll]
  · cases c <;> simp_all [removeAll]

/-- `--clear=false` keeps the run directory, upload or not, whatever fails -/
theorem explicit_no_clear_keeps (f : Flags) (e : Faults) (h : f.clear = some false) : (runEnd f e).runDir = true := by
  obtain ⟨k, c, u, s⟩ := f
  obtain ⟨p, i, pl, up⟩ := e
  simp only at h; subst h
  cases k <;> cases u <;> cases s <;> cases p <;> cases i <;> cases pl <;> cases up <;> decide

/-- the executable form used as oracle on the real tree agrees with the statement above -/
theorem survive_spec_holds (f : Flags) (e : Faults) :
    surviveSpec f (runEnd f e).playFailed (runEnd f e).exitNonZero (runEnd f e).artifacts (runEnd f e).runDir = true := by
  obtain ⟨k, c, u, s⟩ := f
  obtain ⟨p, i, pl, up⟩ := e
  cases k <;> (rcases c with _ | (_ | _)) <;> cases u <;> cases s <;> cases p <;> cases i <;> cases pl <;> cases up <;> decide

/-- **what is uploaded** holds the artifacts iff the play failed or `-k` was given (the manual erases the artifacts,
step 4, before it uploads, step 5) -/
theorem uploaded_artifacts (f : Flags) (e : Faults) (h : (runEnd f e).uploaded = true) :
    (runEnd f e).uploadedArtifacts = true ↔ ((runEnd f e).playFailed = true ∨ f.k = true) := by
  obtain ⟨k, c, u, s⟩ := f
  obtain ⟨p, i, pl, up⟩ := e
  revert h
  cases k <;> (rcases c with _ | (_ | _)) <;> cases u <;> cases s <;> cases p <;> cases i <;> cases pl <;> cases up <;> decide

/-- before the repair a clean play without `-k` was uploaded with its artifacts (witness) -/
theorem old_uploads_artifacts_of_a_clean_play :
    (runEndOld ⟨false, none, true, false⟩ ⟨false, false, false, false⟩).uploadedArtifacts = true ∧
    (runEnd ⟨false, none, true, false⟩ ⟨false, false, false, false⟩).uploadedArtifacts = false := by decide

/-- a failed run never loses its results: no flag erases the run directory or result.js of a run that exits with a
non-zero status, nor the artifacts of a play that failed -/
theorem failure_keeps_everything (f : Flags) (e : Faults) (h : (runEnd f e).exitNonZero = true) :
    (runEnd f e).runDir = true ∧ (runEnd f e).result = true ∧
      ((runEnd f e).playFailed = true → (runEnd f e).artifacts = true) := by
  obtain ⟨k, c, u, s⟩ := f
  obtain ⟨p, i, pl, up⟩ := e
  revert h
  cases k <;> (rcases c with _ | (_ | _)) <;> cases u <;> cases s <;> cases p <;> cases i <;> cases pl <;> cases up <;> decide

example : (runEnd ⟨false, true, false, false⟩ ⟨true, false, false, false⟩).exitNonZero = true := by decide

/-- a run directory that is kept holds result.js / index.html, and the plot scripts iff plots
were not disabled (and could be written) -/
theorem kept_run_dir_is_complete (f : Flags) (e : Faults) (h : (runEnd f e).runDir = true) :
    (runEnd f e).result = true ∧ ((runEnd f e).plots = true ↔ (f.skipPlot = false ∧ e.plot = false)) := by
  obtain ⟨k, c, u, s⟩ := f
  obtain ⟨p, i, pl, up⟩ := e
  revert h
  cases k <;> (rcases c with _ | (_ | _)) <;> cases u <;> cases s <;> cases p <;> cases i <;> cases pl <;> cases up <;> decide

example : (runEnd ⟨false, false, false, false⟩ ⟨false, false, false, false⟩).runDir = true := by decide

/-- **foul_flag_eq_exit** — when nothing fails *after* the play (plot files, upload), the `Foul`
flag written to result.js equals (exit status ≠ 0). -/
theorem foul_flag_eq_exit (f : Flags) (e : Faults) (hp : e.plot = false) (hu : e.upload = false) :
    (runEnd f e).foulFlag = (runEnd f e).exitNonZero := by
  obtain ⟨k, c, u, s⟩ := f
  obtain ⟨p, i, pl, up⟩ := e
  simp only at hp hu
  subst hp hu
  cases k <;> (rcases c with _ | (_ | _)) <;> cases u <;> cases s <;> cases p <;> cases i <;> decide

example : (⟨true, false, false, false⟩ : Faults).plot = false ∧ (⟨true, false, false, false⟩ : Faults).upload = false := by decide

/-- … and what the code does otherwise (stated outright): `assemble` fixes the flag before
`plot()` and the upload run, so an error of either gives exit status 1 with `Foul: false`. -/
theorem foul_flag_misses_late_errors :
    (runEnd ⟨false, false, false, false⟩ ⟨false, false, true, false⟩).foulFlag = false
    ∧ (runEnd ⟨false, false, false, false⟩ ⟨false, false, true, false⟩).exitNonZero = true
    ∧ (runEnd ⟨false, false, true, false⟩ ⟨false, false, false, true⟩).foulFlag = false
    ∧ (runEnd ⟨false, false, true, false⟩ ⟨false, false, false, true⟩).exitNonZero = true := by decide

/-- **range_contains** — after `assemble`, `MinTime ≤ t ≤ MaxTime` for every time `t` passed to
`expandTimeRange` (negative ones included), `MinTime ≤ 0` and `MaxTime ≥ MinTime + 1 s`. -/
theorem range_contains (sec : Int) (hsec : 0 ≤ sec) (ts : List Int) :
    (∀ t ∈ ts, (normalise sec (record ts)).1 ≤ t ∧ t ≤ (normalise sec (record ts)).2)
    ∧ (normalise sec (record ts)).1 ≤ 0
    ∧ (normalise sec (record ts)).1 + sec ≤ (normalise sec (record ts)).2 := by
  cases ts with
  | nil =>
    simp only [record, List.foldl_nil, normalise]
    refine ⟨nofun, ?_, ?_⟩ <;> simp <;> omega
  | cons a ts =>
    obtain ⟨lo, hi, e, h1, h2, h3, h4⟩ := record_brackets ts a a (Int.le_refl a)
    have e' : record (a :: ts) = some (lo, hi) := by simp only [record, List.foldl_cons, expand]; exact e
    rw [e']
    simp only [normalise]
    have hnot : ¬ hi < lo := by omega
    simp only [hnot, if_false]
    refine ⟨?_, ?_, ?_⟩
    · intro t ht
      have hb : lo ≤ t ∧ t ≤ hi := by
        rcases List.mem_cons.mp ht with rfl | ht
        · exact ⟨h1, h2⟩
        · exact h4 t ht
      constructor
      · split <;> omega
      · split <;> split <;> split <;> omega
    · split <;> omega
    · split <;> split <;> split <;> omega

/-- **the time range contains every recorded time**, the act starts and the ends of the mood periods included (they are
recorded by the audition, not by the collector: `assemble` adds them since c9d1f38) -/
theorem range_contains_acts_and_moods (sec : Int) (hsec : 0 ≤ sec) (collected acts moodEnds : List Int) :
    ∀ t, t ∈ collected ∨ t ∈ acts ∨ t ∈ moodEnds →
      (resultRange sec collected acts moodEnds).1 ≤ t ∧ t ≤ (resultRange sec collected acts moodEnds).2 := by
  intro t ht
  apply (range_contains sec hsec (collected ++ (acts ++ moodEnds))).1 t
  simp only [List.mem_append]
  exact ht

/-- before the repair an act that holds no action started beyond `MaxTime` (times in 1/10000 s: the play of the
finding, tempo 600 ms, `storyline p .` repeated: one action at 0, act starts at 1.2 s and 1.8 s) -/
theorem old_range_misses_an_idle_act :
    (resultRangeOld 10000 [0, 5]).2 < 12000 ∧ (resultRange 10000 [0, 5] [0, 6000, 12000, 18000] []).2 = 18000 := by decide

example : (0 : Int) ≤ 10000 := by decide

/-- the executable form used as oracle on the real result.js -/
theorem range_spec_holds (sec : Int) (hsec : 0 ≤ sec) (ts : List Int) :
    rangeSpec sec ts (normalise sec (record ts)).1 (normalise sec (record ts)).2 = true := by
  obtain ⟨h1, h2, h3⟩ := range_contains sec hsec ts
  simp only [rangeSpec, Bool.and_eq_true, List.all_eq_true, decide_eq_true_eq]
  exact ⟨⟨fun t ht => ⟨(h1 t ht).1, (h1 t ht).2⟩, h2⟩, h3⟩

/-- all recorded times negative: the code sets `MaxTime` to 1 s (and keeps `MinTime`), e.g. times
−5 s and −3 s give [−5 s, 1 s] -/
theorem range_negative_example : normalise 10000 (record [-50000, -30000]) = (-50000, 10000) := by decide

end Shk.C12
