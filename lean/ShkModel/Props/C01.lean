import ShkModel.Lemmas.Fsm
import ShkModel.Gen.Tables
/-!
# C01 — Audit modalities judge a period exactly by their plain meaning

Property theorems only.  `Gen.tbl n` is the table the *built code* holds for modality `n`
(regenerated on every run).  Obligation kinds: **G** = re-evaluated by the kernel on the
regenerated tables (`decide`), **P** = code-independent.
-/
namespace Shk.C01
open Shk

/-- G: `expects` accepts exactly the ten documented modalities. -/
theorem names_documented : Gen.names = Modality.all.map Modality.name := by decide

/-- G: every table uses the label order the driver model assumes. -/
theorem labels_ok : Gen.labelsOk = true := by decide

/-! ### G: per table, language equivalence with the spec monitor of its modality,
by a certificate (the reachable product) checked by the verified checker `certOk`. -/
theorem eq_always : equivCheck (implMon (Gen.tbl "always")) specAlways = true := by decide
theorem eq_never : equivCheck (implMon (Gen.tbl "never")) specNever = true := by decide
theorem eq_notAlways : equivCheck (implMon (Gen.tbl "not always")) specNotAlways = true := by decide
theorem eq_eventually : equivCheck (implMon (Gen.tbl "eventually")) specEventually = true := by decide
theorem eq_alwaysEventually :
    equivCheck (implMon (Gen.tbl "always eventually")) specAlwaysEventually = true := by decide
theorem eq_eventuallyAlways :
    equivCheck (implMon (Gen.tbl "eventually always")) specEventuallyAlways = true := by decide
theorem eq_once : equivCheck (implMon (Gen.tbl "once")) (specCount 1) = true := by decide
theorem eq_twice : equivCheck (implMon (Gen.tbl "twice")) (specCount 2) = true := by decide
theorem eq_thrice : equivCheck (implMon (Gen.tbl "thrice")) (specCount 3) = true := by decide
theorem eq_atMostOnce : equivCheck (implMon (Gen.tbl "at most once")) specAtMostOnce = true := by decide

/-! ### G: "no disappointment and no final satisfaction" is the empty language. -/
theorem end_always : equivCheck (implEndMon (Gen.tbl "always")) specFalse = true := by decide
theorem end_never : equivCheck (implEndMon (Gen.tbl "never")) specFalse = true := by decide
theorem end_notAlways : equivCheck (implEndMon (Gen.tbl "not always")) specFalse = true := by decide
theorem end_eventually : equivCheck (implEndMon (Gen.tbl "eventually")) specFalse = true := by decide
theorem end_alwaysEventually :
    equivCheck (implEndMon (Gen.tbl "always eventually")) specFalse = true := by decide
theorem end_eventuallyAlways :
    equivCheck (implEndMon (Gen.tbl "eventually always")) specFalse = true := by decide
theorem end_once : equivCheck (implEndMon (Gen.tbl "once")) specFalse = true := by decide
theorem end_twice : equivCheck (implEndMon (Gen.tbl "twice")) specFalse = true := by decide
theorem end_thrice : equivCheck (implEndMon (Gen.tbl "thrice")) specFalse = true := by decide
theorem end_atMostOnce : equivCheck (implEndMon (Gen.tbl "at most once")) specFalse = true := by decide

/-- **C01, first sentence.**  For every modality accepted by `expects` and every finite
sequence of observations of one activation period: the period contains a disappointment
report iff the sequence violates the modality's plain meaning. -/
theorem disappointed_iff_violates (m : Modality) (l : List Bool) :
    (Gen.tbl m.name).disappointed l = !(meaning m l) := by
  rw [← implMon_spec]
  cases m <;> simp only [Modality.name]
  case always =>
    rw [equiv_sound _ _ eq_always l]
    simpa [specAlways, meaning] using specAlways_run false l
  case never =>
    rw [equiv_sound _ _ eq_never l]
    simpa [specNever, meaning] using specNever_run false l
  case notAlways =>
    rw [equiv_sound _ _ eq_notAlways l]
    simpa [specNotAlways, meaning] using specNotAlways_run false l
  case eventually =>
    rw [equiv_sound _ _ eq_eventually l]
    simpa [specEventually, meaning] using specEventually_run false l
  case alwaysEventually =>
    rw [equiv_sound _ _ eq_alwaysEventually l]
    have h := specAlwaysEventually_run 0 l
    simp only [specAlwaysEventually] at h ⊢
    rw [h]
    simp only [meaning]
    cases hl : l.getLast? with
    | none => simp
    | some b => cases b <;> simp
  case eventuallyAlways =>
    rw [equiv_sound _ _ eq_eventuallyAlways l]
    exact specEventuallyAlways_run0 l
  case once =>
    rw [equiv_sound _ _ eq_once l]
    have h := specCount_run 1 0 l (by omega)
    simp only [specCount] at h ⊢
    rw [h]; simp only [meaning, Nat.zero_add]
    exact min_bne_eq _ 1
  case twice =>
    rw [equiv_sound _ _ eq_twice l]
    have h := specCount_run 2 0 l (by omega)
    simp only [specCount] at h ⊢
    rw [h]; simp only [meaning, Nat.zero_add]
    exact min_bne_eq _ 2
  case thrice =>
    rw [equiv_sound _ _ eq_thrice l]
    have h := specCount_run 3 0 l (by omega)
    simp only [specCount] at h ⊢
    rw [h]; simp only [meaning, Nat.zero_add]
    exact min_bne_eq _ 3
  case atMostOnce =>
    rw [equiv_sound _ _ eq_atMostOnce l]
    have h := specAtMostOnce_run 0 l (by omega)
    simp only [specAtMostOnce] at h ⊢
    rw [h]; simp only [meaning, Nat.zero_add]
    exact min_two_beq _

private theorem ends_good_of {T : Table} (h : equivCheck (implEndMon T) specFalse = true)
    (l : List Bool) (hd : T.disappointed l = false) : T.endsGood l = true := by
  have h1 := equiv_sound _ _ h l
  rw [implEndMon_spec] at h1
  have h2 : specFalse.run specFalse.init l = false := specFalse_run l
  rw [h2, hd] at h1
  simpa using h1

/-- **C01, second sentence.**  A period without disappointment ends with a reported
satisfaction (the last report of the period, the one for `end`, is `good`). -/
theorem undisappointed_ends_good (m : Modality) (l : List Bool)
    (hd : (Gen.tbl m.name).disappointed l = false) : (Gen.tbl m.name).endsGood l = true := by
  cases m <;> simp only [Modality.name] at hd ⊢
  case always => exact ends_good_of end_always l hd
  case never => exact ends_good_of end_never l hd
  case notAlways => exact ends_good_of end_notAlways l hd
  case eventually => exact ends_good_of end_eventually l hd
  case alwaysEventually => exact ends_good_of end_alwaysEventually l hd
  case eventuallyAlways => exact ends_good_of end_eventuallyAlways l hd
  case once => exact ends_good_of end_once l hd
  case twice => exact ends_good_of end_twice l hd
  case thrice => exact ends_good_of end_thrice l hd
  case atMostOnce => exact ends_good_of end_atMostOnce l hd

/-- every name accepted by `expects` is covered by the two theorems above. -/
theorem every_accepted_name_covered :
    ∀ n ∈ Gen.names, ∃ m : Modality, m.name = n := by
  intro n hn
  rw [names_documented] at hn
  obtain ⟨m, _, hm⟩ := List.mem_map.mp hn
  exact ⟨m, hm⟩

/-! Non-vacuity: the hypothesis of `undisappointed_ends_good` is met by a concrete period. -/
example : (Gen.tbl "eventually").disappointed [false, true, false] = false := by decide
example : (Gen.tbl "thrice").disappointed [true, false, true, true] = false := by decide

end Shk.C01
