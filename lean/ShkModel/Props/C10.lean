import ShkModel.Lemmas.PrinterFix
import ShkModel.Lemmas.Escape
import ShkModel.Lemmas.Template
import ShkModel.Gen.ClauseRe
import ShkModel.Model.TemplateTable
/-!
# C10 — the printed configuration re-loads to the same play

Model: `ShkModel/Model/Printer.lean` (`load` = `parseCfg` clause by clause, `print` = the order in
which `printCfg` emits clauses).  `mt` says which acts a `repeat from` regular expression matches;
every theorem holds for every such oracle.

A second parse of the printed text sees the same clauses; only the variables of an expression
reach `checkExpr` in the iteration order of a Go map, i.e. in any order.  `print_loads` therefore
quantifies over every list of audience clauses `A'` that is, clause by clause, the printed one up
to the order of these variables (`KEquiv`); `print_loads_same` is the special case "same order".

That each printed line is matched by the clause regexps of `parsecfg.go` (and is split back into
the fields the model calls a clause) is *not* part of these theorems: the correspondence
K-C10 / O-C10 of `vlib/c10.py` establishes it on generated configurations.
-/
namespace Shk.C10
open Shk.Printer
open Shk.Story (Act)

/-- **Printed configurations load, to the same play.**  For every accepted clause list `L`
(role inheritance, multi-actor casts, merged storylines, edits, repeats, audience clauses
interleaved across members in any order, `expects like`, interpretation clauses …): loading what
`printCfg` emits succeeds, and yields the same titles, roles, cast, tempo, scenes, storyline,
effective repeat settings, the same audience members in the same order with the same clauses
(watched variables up to their order) and the same interpretation of every member that expects
anything. -/
theorem print_loads (mt : String → Act → Bool) (L : List Clause) (c : Cfg) (h : load mt L = some c)
    (A' : List (String × AClause)) (hA : All₂ KEquiv (sched c.members) A') :
    ∃ c', load mt (printWith c A') = some c' ∧ Cfg.Equiv c c' :=
  reload_of_inv (inv_load h) hA

/-- … in particular when the second parse delivers the variables in the same order -/
theorem print_loads_same (mt : String → Act → Bool) (L : List Clause) (c : Cfg) (h : load mt L = some c) :
    ∃ c', load mt (print c) = some c' ∧ Cfg.Equiv c c' :=
  print_loads mt L c h (sched c.members)
    (All₂.refl (fun k => ⟨rfl, AClause.Equiv.refl k.2⟩) _)

/-- **The audience members come back in the same order** (the order in which auditors are
evaluated in each round, and in which plots are laid out). -/
theorem members_order_preserved (mt : String → Act → Bool) (L : List Clause) (c : Cfg)
    (h : load mt L = some c) (A' : List (String × AClause)) (hA : All₂ KEquiv (sched c.members) A') :
    ∃ c', load mt (printWith c A') = some c' ∧ c'.members.map (·.name) = c.members.map (·.name) := by
  obtain ⟨c', h1, h2⟩ := print_loads mt L c h A' hA
  exact ⟨c', h1, names_of_equiv h2.members⟩

/-- **Nothing is held back for ever**: every clause of every member is printed, each exactly when
the variables it uses have been defined by printed clauses, the members being first mentioned in
their order (`Run` is a sequence of such emissions; `leftover = []`: nothing is left). -/
theorem sched_complete (mt : String → Act → Bool) (L : List Clause) (c : Cfg) (h : load mt L = some c) :
    ∃ u' ps', Run (targetsOf c.members) (c.members.map pendOf) (sched c.members) u' ps' ∧ leftover ps' = [] := by
  have hinv := inv_load h
  obtain ⟨rk, hrk⟩ := hinv.aud.ranked
  exact sched_run hrk hinv.aud.nonempty

/-- **Printing again gives the same text, up to the order of an observer's `watches` clauses.**
Exact sense (`SameText`): with the `watches` clauses taken out, the two printed clause lists are
equal clause for clause (as the text shows them: `eraseC` drops the variable list an expression
carries in the model), and every member has the same `watches` clauses in both, as a multiset.
The order of one member's `watches` can really differ: it is the order in which the second parse
met the variables. -/
theorem print_fixpoint (mt : String → Act → Bool) (L : List Clause) (c : Cfg) (h : load mt L = some c)
    (A' : List (String × AClause)) (hA : All₂ KEquiv (sched c.members) A') :
    ∃ c', load mt (printWith c A') = some c' ∧ SameText (print c) (print c') := by
  obtain ⟨c', h1, h2⟩ := print_loads mt L c h A' hA
  exact ⟨c', h1, sameText_print h2⟩

/-- the oracle `sameText` that the driver evaluates on the two texts the real program prints
decides exactly this relation (soundly) -/
theorem sameText_decides (a b : List Clause) (h : sameText a b = true) : SameText a b :=
  sameText_sound h

/-- **Parameters: `-D` beats the in-file default, the first definition of a name wins.**
`pVars defines defaults` is `cfg.pVars` after the command line and then the `parameter` clauses
were processed; the value substituted for `~n~` is `lookupP` of it. -/
theorem defines_precedence (defines defaults : List (String × String)) (n : String) :
    lookupP (pVars defines defaults) n = (lookupP defines n).or (lookupP defaults n) := by
  simp only [pVars, lookup_defineAll]
  simp [lookupP]

/-- the printed configuration is again one that satisfies everything a loaded one does, so the
theorems above apply to it in turn -/
theorem reload_invariant (mt : String → Act → Bool) (L : List Clause) (c : Cfg) (h : load mt L = some c) :
    ∃ c', load mt (print c) = some c' ∧ Inv mt c' := by
  obtain ⟨c', h1, _⟩ := print_loads_same mt L c h
  exact ⟨c', h1, inv_load h1⟩

/-! ## non-vacuity: a configuration with a forward use, an `expects like`, inheritance, a multi-actor
cast, a storyline and a repeat is accepted, and what it prints loads -/

def mtChar : String → Act → Bool := fun re act =>
  match re.toList with
  | [c] => act.contains c
  | _ => false

def sample : List Clause :=
  [ .title "a play",
    .role "doctor" none [.action "cure" "echo", .spotlight "tail -F log", .signal ⟨"feel", .scalar, "re"⟩],
    .role "surgeon" (some "doctor") [.action "cut" "echo", .cleanup "true"],
    .cast "w" (some 2) "surgeons" "A=1",
    .cast "bob" none "doctor" "",
    .entails 'a' (.every "surgeon") ["cure", "cut?"],
    .mood 'b' true "blue",
    .storyline ['a', '.', 'b', ' ', '.', 'a', '+', 'b'],
    .repeatFrom "b", .repeatCount (some 3),
    .aud "obs" (.watchSig (.every "surgeon") "feel"),
    .aud "aud" (.assign ⟨"v", none, ⟨"[w1 feel] + t", [.sig "w1" "feel", .comp "t"]⟩⟩),
    .aud "obs" (.watchVar "v"),
    .aud "early" (.measures "y"),
    .aud "late" (.expects "always" ⟨"v > 1", [.comp "v"]⟩),
    .aud "early" (.expectsLike "late"),
    .interp (.ignoreAll true),
    .interp (.set .require "early" false) ]

example : (load mtChar sample).isSome = true := by decide

example : ((load mtChar sample).bind fun c => load mtChar (print c)).isSome = true := by decide

/-- … and printing what was loaded from the printed text gives the same text (here exactly) -/
example : ((load mtChar sample).bind fun c => (load mtChar (print c)).map fun c' =>
    sameText (print c) (print c')) = some true := by decide

example : lookupP (pVars [("n", "3"), ("n", "4")] [("n", "5"), ("m", "1"), ("m", "2")]) "n" = some "3" ∧
    lookupP (pVars [("n", "3")] [("n", "5"), ("m", "1"), ("m", "2")]) "m" = some "1" := by decide

/-- on this sample the scheduler really has to hold clauses back: the member-by-member order of
the pinned tree is rejected -/
example : ((load mtChar sample).bind fun c => load mtChar (printOld c)) = none := by decide

/-! ## the pinned tree: four witnesses (definitions `…Old` of the model) -/

/-- **forward use.**  An observer declared before the member that computes the variable it
watches: the pinned `printCfg` prints `watches v` before `computes v`, and the text is rejected. -/
theorem old_forward_use_rejected :
    (load mtChar [.aud "obs" (.measures "x"),
                  .aud "aud" (.assign ⟨"v", none, ⟨"t", [.comp "t"]⟩⟩),
                  .aud "obs" (.watchVar "v")]).isSome = true ∧
    ((load mtChar [.aud "obs" (.measures "x"),
                   .aud "aud" (.assign ⟨"v", none, ⟨"t", [.comp "t"]⟩⟩),
                   .aud "obs" (.watchVar "v")]).bind fun c => load mtChar (printOld c)) = none := by
  decide

def likeSample : List Clause :=
  [ .role "r" none [.spotlight "x", .signal ⟨"s", .scalar, "re"⟩],
    .cast "bob" none "r" "",
    .aud "z" (.expects "always" ⟨"[bob s] > 2", [.sig "bob" "s"]⟩),
    .aud "y" (.expectsLike "z") ]

/-- **`expects like`.**  In the pinned tree the copying member did not become an observer of the
signals of the copied expectation; its printed configuration (which spells the expectation out)
loaded to an audience with one more `watches` clause. -/
theorem old_like_not_fixpoint :
    ((loadOld mtChar likeSample).map fun c => c.members.map (·.obs)) =
      some [[.sig "bob" "s"], []] ∧
    ((loadOld mtChar likeSample).bind fun c => (loadOld mtChar (printOld c)).map fun c' =>
      c'.members.map (·.obs)) = some [[.sig "bob" "s"], [.sig "bob" "s"]] := by
  decide

def inheritSample : List Clause :=
  [ .role "r" none [.spotlight "x", .signal ⟨"s", .scalar, "re1"⟩],
    .role "c" (some "r") [.signal ⟨"s", .event, "re2"⟩] ]

/-- **inherited signal declared again.**  Accepted by the pinned tree, but what it prints was
rejected ("duplicate signal name"); the repaired parser rejects the declaration itself. -/
theorem old_inherited_signal_rejected :
    (loadOld mtChar inheritSample).isSome = true ∧
    ((loadOld mtChar inheritSample).bind fun c => loadOld mtChar (printOld c)) = none ∧
    load mtChar inheritSample = none := by
  decide

def staleSample : List Clause :=
  [ .role "r" none [.action "a" "true"],
    .cast "bob" none "r" "",
    .entails 'a' (.actor "bob") ["a"],
    .entails 'b' (.actor "bob") ["a"],
    .storyline ['a'],
    .repeatFrom "a",
    .repeatFrom "b" ]

/-- **stale repeat.**  `repeat from b` matches no act, but the pinned `updateRepeat` kept the act
found for the earlier `repeat from a`: the play repeated from act 1, the printed configuration
repeats nothing. -/
theorem old_stale_repeat :
    ((loadOld mtChar staleSample).map fun c => c.repAct) = some 1 ∧
    ((loadOld mtChar staleSample).bind fun c => (loadOld mtChar (printOld c)).map fun c' => c'.repAct) = some 0 ∧
    ((load mtChar staleSample).map fun c => c.repAct) = some 0 := by
  decide

/-! ## The text layer: `escapeNl` against the reader's continuation lines

The theorems above treat clause texts as opaque; between `printCfg` and the next `parseCfg` a text travels as
bytes: `escapeNl` (config.go) puts a backslash before every newline of the text, the file is cut into physical
lines at the newlines, and the reader (`gather`, the loop of `readLine` modelled for C09) joins the lines that
end in a backslash.  `pre` is what `printCfg` writes before the text on the same line (indentation, keyword,
names), `rest` the physical lines that follow. -/
section text
open Shk.Preproc Shk.Reader Shk.Escape

/-- **An escaped text is read back as one logical line holding the same text**, whatever it contains
(newlines from continuation lines of the original, backslashes anywhere, a final backslash): the reader
consumes exactly the physical lines of this clause (`nls t + 1` of them), leaves `rest` untouched, and the
logical line is `pre ++ t` — followed by the single blank `escapeNl` appends after a final backslash, which
the reader's `TrimSpace` removes. -/
theorem escaped_text_reads_back (tail : Bytes) (bad : Bool) (rest : List Bytes) (pre t : Bytes)
    (hpre : 10 ∉ pre) (h : t ≠ [] ∨ endsBackslash pre = false) :
    gather tail bad [] (splitNl [] (pre ++ escapeNl t) ++ rest) 0
      = .line (pre ++ t ++ fin t) rest (nls t + 1) false := by
  unfold escapeNl
  rw [splitNl_prefix pre hpre, List.nil_append, ← fin_prefix pre t h, gather_escape]
  simp

/-- the appended blank is there exactly when the text ends in a backslash -/
theorem fin_spec (t : Bytes) : fin t = if t.getLast? = some 92 then [32] else [] := by
  unfold fin endsBackslash; by_cases h : t.getLast? = some 92 <;> simp [h]

/-- **before the repair (6cb11bb)** a text ending in a backslash swallowed the next physical line:
`:a printf x\` followed by `end` was read back as one clause `:a printf x` NL `end`. -/
theorem old_final_backslash_swallows_next_line :
    gather [] false [] (splitNl [] ([58, 97, 32] ++ escapeNlOld [120, 92]) ++ [[101, 110, 100]]) 0
      = .line [58, 97, 32, 120, 10, 101, 110, 100] [] 2 false ∧
    gather [] false [] (splitNl [] ([58, 97, 32] ++ escapeNl [120, 92]) ++ [[101, 110, 100]]) 0
      = .line [58, 97, 32, 120, 92, 32] [[101, 110, 100]] 1 false := by
  decide

/-- non-vacuity: a three-line text with an inner and a final backslash -/
example : gather [] false [] (splitNl [] ([32, 32] ++ escapeNl [97, 92, 10, 98, 10, 99, 92]) ++ [[101]]) 0
    = .line ([32, 32] ++ [97, 92, 10, 98, 10, 99, 92] ++ [32]) [[101]] 3 false := by decide

end text

/-! ## Clause lines: what `printCfg` writes is what the clause regexps of `parsecfg.go` take apart

`printCfg` writes a clause as its keywords and fields separated by single blanks.  For the clause
regexps that are *templates* — keywords, `\s+`, `(\S+)` words, ending in `(.*)$`, `$` or `\s*$`;
20 of the 33 — the regenerated regexp (`Gen.*Re`, translated from the Go source on every run) is
recognised by `templateOf`, which reads the template off the regexp (`templates_are_the_regexps`), and for every
template the backtracking matcher (`Re.run`, the model of `FindStringSubmatch` tied to Go's `regexp`
by K-RE) takes a rendered line apart into exactly the fields it was rendered from, for all fields. -/
section clause_lines
open Shk.Re Shk.Tpl

/-- **the clause regexps in the table are their templates**: whatever `templateOf` reads off a regexp of the current
source compiles back to exactly that regexp (`templateOf_sound`, proved for every regexp) -/
theorem templates_are_the_regexps : ∀ e ∈ clauseTemplates, e.1 = Tpl.re e.2.1 e.2.2 := by
  intro e he
  simp only [clauseTemplates, namedTemplates, List.mem_map, List.mem_filterMap, Option.map_eq_some_iff] at he
  obtain ⟨x, ⟨g, _, t, ht, hx⟩, hxe⟩ := he
  subst hx; subst hxe
  exact templateOf_sound g.2 t.1 t.2 (by simpa using ht)

/-- group numbers of every template are distinct and start at 1 -/
theorem templates_well_numbered :
    ∀ e ∈ clauseTemplates, (groupsOf e.2.1 e.2.2).Nodup ∧ ∀ i ∈ groupsOf e.2.1 e.2.2, 1 ≤ i := by decide

/-- **A printed clause line is parsed back into its fields.**  For every template, every list of words (non-empty,
free of white space) and every trailing text that does not begin with white space: the matcher accepts the rendered
line — keywords and fields separated by single blanks —, span 0 is the whole line, and the capture of every group
cuts exactly the field that was printed there. -/
theorem printed_clause_line_parses (T : List Tok) (f : Fin) (words : List (List Char)) (r : List Char)
    (hok : Ok T f words r = true) (hnd : (groupsOf T f).Nodup) (hpos : ∀ i ∈ groupsOf T f, 1 ≤ i) :
    ∃ c, run (Tpl.re T f) (render T f words r) = some c ∧
      c[0]? = some (some (0, (render T f words r).length)) ∧
      ∀ i fld, (i, fld) ∈ fieldsOf T f words r →
        ∃ a b, c[i]? = some (some (a, b)) ∧ slice (render T f words r) a b = fld := by
  refine ⟨_, run_render T f words r hok, by simp [spans], ?_⟩
  intro i fld hmem
  have hfields := caps_are_fields (render T f words r) T f words r 0 hok (by simp)
  rw [← hfields] at hmem
  obtain ⟨e, he, heq⟩ := List.mem_map.mp hmem
  obtain ⟨k, a, b⟩ := e
  simp only [Prod.mk.injEq] at heq
  obtain ⟨hk, hs⟩ := heq
  subst hk
  have hkeys := capsOf_keys T f words r 0 hok
  have hlook : (capsOf T f words r 0).lookup k = some (a, b) :=
    lookup_of_mem_nodup (by rw [hkeys]; exact hnd) he
  have hkin : k ∈ groupsOf T f := by rw [← hkeys]; exact List.mem_map.mpr ⟨_, he, rfl⟩
  have h1 := hpos k hkin
  have hle : k ≤ ngroups (Tpl.re T f) := by
    have := group_le_ngroups T f k hkin
    simp [Tpl.re, ngroups]; omega
  refine ⟨a, b, ?_, hs⟩
  obtain ⟨j, rfl⟩ : ∃ j, k = j + 1 := ⟨k - 1, by omega⟩
  simp only [spans, List.getElem?_cons_succ]
  rw [List.getElem?_map, List.getElem?_range (by omega)]
  simp [hlook]

/-- the theorem applies to every template regexp of the current source -/
theorem printed_clause_lines_parse :
    ∀ e ∈ clauseTemplates, ∀ (words : List (List Char)) (r : List Char), Ok e.2.1 e.2.2 words r = true →
      ∃ c, run e.1 (render e.2.1 e.2.2 words r) = some c ∧
        ∀ i fld, (i, fld) ∈ fieldsOf e.2.1 e.2.2 words r →
          ∃ a b, c[i]? = some (some (a, b)) ∧ slice (render e.2.1 e.2.2 words r) a b = fld := by
  intro e he words r hok
  have hwn := templates_well_numbered e he
  obtain ⟨c, hc, _, hf⟩ := printed_clause_line_parses e.2.1 e.2.2 words r hok hwn.1 hwn.2
  exact ⟨c, by rw [templates_are_the_regexps e he]; exact hc, hf⟩

/-- non-vacuity: `judge computes y as t > 0.9 ? sqrt(mood) : 0` through the regenerated `computesRe` -/
example : run (byName "computesRe") "judge computes y as t > 0.9 ? 1 : 0".toList
    = some [some (0, 35), some (0, 5), some (15, 16), some (20, 35)] := by decide

end clause_lines

end Shk.C10
