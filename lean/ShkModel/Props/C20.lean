import ShkModel.Lemmas.Preproc
import ShkModel.Props.C09
import ShkModel.Lemmas.PreprocRe
/-! # C20 — parameters and includes expand exactly where and how the manual says (partial)

Models: `ShkModel/Model/Preproc.lean` (`preprocReplace` as a byte scanner for `~\w+~`, the
parameter table) and `ShkModel/Model/Reader.lean` (include lookup and depth limit).

The theorems say HOW a text is substituted, how the table is built and which file an include
uses.  WHICH fields of which clause are routed through `preprocReplace` is decided by the
regexp-driven clause parsers, which are not modelled: that part is established by the
correspondence K-C20 (vlib/c20.py) only. -/
namespace Shk.C20
open Shk.Preproc Shk.Reader

/-- **subst_exact.**  Every text has exactly one decomposition into copied bytes and occurrences
`~name~` (`Decomp`: scanning left to right, a match of `~\w+~` is taken wherever one starts, and
scanning resumes behind its closing `~`; otherwise one byte is copied).  The decomposition spells
the input, and the result of `preprocReplace` is the concatenation of: the byte itself for a
copied byte, the value for an occurrence whose name is defined, the occurrence unchanged for one
whose name is not — nothing else changes. -/
theorem subst_exact (t : Table) (s : Bytes) :
    ∃ segs, Decomp s segs ∧ (∀ segs', Decomp s segs' → segs' = segs) ∧
      segs.flatMap Seg.render = s ∧
      (preprocReplace t s).1 = segs.flatMap (Seg.expand t) ∧
      (∀ c, Seg.expand t (.lit c) = [c]) ∧
      (∀ w v, lookup t w = some v → Seg.expand t (.occ w) = v) ∧
      (∀ w, lookup t w = none → Seg.expand t (.occ w) = tilde :: w ++ [tilde]) := by
  have hd := scan_decomp s.length s (Nat.le_refl _)
  refine ⟨scan s, hd, fun segs' h => decomp_unique segs' s h, decomp_render _ _ hd, rfl,
    fun _ => rfl, ?_, ?_⟩
  · intro w v h; simp [Seg.expand, h]
  · intro w h; simp [Seg.expand, h]

/-- **no_rescan.**  The value of a defined parameter is emitted as it is — whatever it contains,
`~x~` with `x` defined included — and scanning resumes in the INPUT behind the occurrence. -/
theorem no_rescan (t : Table) (w v r : Bytes) (hw : WordName w) (hv : lookup t w = some v) :
    (preprocReplace t (tilde :: w ++ tilde :: r)).1 = v ++ (preprocReplace t r).1 := by
  simp only [preprocReplace, scan_cons_occ w r hw, List.flatMap_cons, Seg.expand, hv]

/-- with `a = "~b~"` and `b = "B"`, `~a~` becomes `~b~`, not `B` -/
theorem no_rescan_witness :
    (preprocReplace [([97], [126, 98, 126]), ([98], [66])] [126, 97, 126]).1 = [126, 98, 126] := by decide

/-- **undefined_named.**  The names reported as undefined are exactly the occurrences of the
decomposition whose name is not in the table, in order of occurrence (with repetitions); the
error is absent iff there is none. -/
theorem undefined_named (t : Table) (s : Bytes) :
    ∃ segs, Decomp s segs ∧ (preprocReplace t s).2 = segs.filterMap (Seg.undef t) ∧
      (∀ c, Seg.undef t (.lit c) = none) ∧
      (∀ w, Seg.undef t (.occ w) = if lookup t w = none then some w else none) := by
  refine ⟨scan s, scan_decomp s.length s (Nat.le_refl _), rfl, fun _ => rfl, ?_⟩
  intro w
  cases h : lookup t w <;> simp [Seg.undef, h]

/-- an undefined occurrence is left in the text as it is -/
theorem undefined_kept (t : Table) (w r : Bytes) (hw : WordName w) (hv : lookup t w = none) :
    (preprocReplace t (tilde :: w ++ tilde :: r)).1 = tilde :: w ++ tilde :: (preprocReplace t r).1 ∧
    (preprocReplace t (tilde :: w ++ tilde :: r)).2 = w :: (preprocReplace t r).2 := by
  simp only [preprocReplace, scan_cons_occ w r hw, List.flatMap_cons, List.filterMap_cons, Seg.expand, Seg.undef, hv]
  simp

/-- a text that starts with bytes other than `~` keeps them, and substitution goes on behind them as if the text
started there: what stands before an occurrence never influences how it is expanded -/
theorem plain_prefix_kept (t : Table) (p r : Bytes) (hp : ∀ c ∈ p, c ≠ tilde) :
    (preprocReplace t (p ++ r)).1 = p ++ (preprocReplace t r).1 ∧
    (preprocReplace t (p ++ r)).2 = (preprocReplace t r).2 := by
  induction p with
  | nil => exact ⟨rfl, rfl⟩
  | cons c p ih =>
    have hc : c ≠ tilde := hp c List.mem_cons_self
    have ih' := ih (fun x hx => hp x (List.mem_cons_of_mem _ hx))
    have hs : scan (c :: (p ++ r)) = Seg.lit c :: scan (p ++ r) := by
      show scanAux (c :: (p ++ r)) 0 = _
      simp [scanAux, hc]
      rfl
    simp only [preprocReplace, List.cons_append, hs, List.flatMap_cons, List.filterMap_cons, Seg.expand, Seg.undef] at ih' ⊢
    exact ⟨by rw [ih'.1]; rfl, ih'.2⟩

/-- **no `~`, no change.**  A text without any `~` is left exactly as it is, whatever the table holds, and nothing is
reported undefined. -/
theorem no_tilde_identity (t : Table) (s : Bytes) (hs : ∀ c ∈ s, c ≠ tilde) :
    preprocReplace t s = (s, []) := by
  have := plain_prefix_kept t s [] hs
  have h0 : preprocReplace t [] = ([], []) := rfl
  simp only [List.append_nil, h0] at this
  exact Prod.ext this.1 this.2

/-- **the text is only ever changed at defined occurrences**: with an empty table every text comes out as it went in
(and each occurrence is reported). -/
theorem empty_table_identity (s : Bytes) : (preprocReplace [] s).1 = s := by
  obtain ⟨segs, _, _, hr, he, _, _, hu⟩ := subst_exact [] s
  rw [he]
  conv => rhs; rw [← hr]
  congr 1

example : preprocReplace [([97], [66])] [120, 32, 61, 32, 49] = ([120, 32, 61, 32, 49], []) := by decide
example : (preprocReplace [] [126, 97, 126, 32, 126]) = ([126, 97, 126, 32, 126], [[97]]) := by decide

/-- the table after the command line (`-D` in order) and the `parameter … defaults to` clauses in
reading order answers like the plain list "defines, then defaults" searched from the front -/
theorem table_lookup (ds : List Bytes) (ps : List (Bytes × Bytes)) (n : Bytes) :
    lookup (withDefaults (fromDefines ds) ps) n = lookup (ds.map splitDefine ++ ps) n := by
  unfold withDefaults fromDefines
  rw [lookup_foldl_define]
  apply lookup_congr_append
  have : ∀ (t : Table), lookup (ds.foldl (fun t d => define t (splitDefine d).1 (splitDefine d).2) t) n
      = lookup (t ++ ds.map splitDefine) n := by
    induction ds with
    | nil => intro t; simp
    | cons d ds ih =>
      intro t
      simp only [List.foldl_cons, List.map_cons]
      rw [ih]
      have := lookup_congr_append (ds.map splitDefine) n (lookup_define t (splitDefine d).1 (splitDefine d).2 n)
      rw [this]
      simp
  simpa using this []

/-- **define_wins.**  A value given with `-D` wins over every `parameter … defaults to`. -/
theorem define_wins (ds : List Bytes) (ps : List (Bytes × Bytes)) (n v : Bytes)
    (h : lookup (fromDefines ds) n = some v) : lookup (withDefaults (fromDefines ds) ps) n = some v := by
  have h0 := table_lookup ds [] n
  simp only [withDefaults, List.foldl_nil, List.append_nil] at h0
  rw [table_lookup, lookup_append, ← h0, h]

/-- **first_wins.**  Among `-D` definitions the first one wins, among defaults the first one
read wins: a definition never changes a binding that exists. -/
theorem first_wins (t : Table) (n v m x : Bytes) (h : lookup t n = some v) :
    lookup (define t m x) n = some v := by
  rw [lookup_define, lookup_append, h]

theorem first_default_wins (ds : List Bytes) (n v v' : Bytes) (ps : List (Bytes × Bytes))
    (h : lookup (fromDefines ds) n = none) :
    lookup (withDefaults (fromDefines ds) ((n, v) :: (n, v') :: ps)) n = some v := by
  have h0 := table_lookup ds [] n
  simp only [withDefaults, List.foldl_nil, List.append_nil] at h0
  rw [table_lookup, lookup_append, ← h0, h]
  simp [lookup]

/-- **include_first_hit.**  When `readLine` follows an include directive, the file it opens is
the first candidate that exists, in the documented order: the directory of the including file,
then the search path (`-I` directories in order, then `.`), the name being the directive's
argument after substitution (which had no undefined parameter). -/
theorem include_first_hit (fs : FS) (ipath : List Name) (tbl : Table) (r : Frame) (below : List Frame)
    (hinv : Inv fs (r :: below)) (c r' : Frame)
    (h : readLine fs ipath tbl (r :: below) = .skip (c :: r' :: below)) :
    ∃ arg pre p post, goDir r'.file :: ipath = pre ++ p :: post ∧
      c.file = goJoin p (preprocReplace tbl arg).1 ∧
      (∀ q ∈ pre, fs (goJoin q (preprocReplace tbl arg).1) = .missing) ∧
      (∃ b t bad, fs c.file = .file b t bad) ∧ (preprocReplace tbl arg).2 = [] := by
  have hsp := readLine_spec (fs := fs) 0 ipath tbl (r :: below) hinv
  rw [h] at hsp
  exact hsp.2.2 c r' below rfl (by simp)

/-- the search path always ends up containing `.` (`initArgs`) -/
theorem local_dir_searched (ipath : List Name) : [dot] ∈ withLocalDir ipath := by
  unfold withLocalDir
  split
  · rename_i h; simpa using h
  · simp

/-- **depth_refused** (from C09): an include directive read by the tenth frame is refused. -/
theorem depth_refused (fs : FS) (ipath : List Name) (tbl : Table) (r : Frame) (below : List Frame)
    (hinv : Inv fs (r :: below)) (hten : below.length + 1 = 10)
    {text : Bytes} {rest : List Bytes} {k : Nat} {eof : Bool}
    (hg : gather r.tail r.bad [] r.rest 0 = .line text rest k eof)
    (hinc : (includeArg (trimSpace text)).isSome = true) (hni : ignoreLine (trimSpace text) = false) :
    ∃ d, readLine fs ipath tbl (r :: below) = .err d ∧ d.kind = .depth := by
  obtain ⟨d, h1, h2, _⟩ := Shk.C09.depth_refused fs ipath tbl r below hinv hten hg hinc hni
  exact ⟨d, h1, h2⟩

/-! ## The scanner and the regenerated regexp -/
section scanner_regexp
open Shk.Re Shk.Tpl Shk.PreprocRe

/-- **the scanner is the regexp.**  From any position of any text, the regenerated `preprocRe` (`~\w+~` in the Go
source) matches exactly where the scanner of `Model/Preproc.lean` finds an occurrence, in one way, and ends where
the scanner resumes. -/
theorem scanner_is_preprocRe (s : List Char) (p : Nat) (c : Caps) (hp : p ≤ s.length) :
    ms s Gen.preprocRe ⟨p, c⟩ =
      match s.drop p with
      | ch :: t =>
        if ch.toNat = tilde then
          match matchAt (t.map Char.toNat) with
          | some w => [⟨p + w.length + 2, c⟩]
          | none => []
        else []
      | [] => [] := by
  rw [preprocRe_shape]
  cases hd : s.drop p with
  | nil =>
    have : s[p]? = none := getElem?_of_drop_nil hd
    simp [ms, stepChar, this]
  | cons ch t =>
    have h1 : s[p]? = some ch := getElem?_of_drop hd
    have hd1 : s.drop (p + 1) = t := drop_succ_of_drop hd
    have hlen := length_of_drop hd hp
    simp only [List.length_cons] at hlen
    by_cases hch : ch.toNat = tilde
    · have hstep : stepChar s (fun m => m == 126) ⟨p, c⟩ = [⟨p + 1, c⟩] := by
        unfold stepChar; simp [h1]; exact hch
      simp only [hch, if_true]
      rw [show ms s (.cat (.chr 126) (.cat (.plus true (.cls WCls)) (.chr 126))) ⟨p, c⟩
            = ms s (.cat (.plus true (.cls WCls)) (.chr 126)) ⟨p + 1, c⟩ by
          simp [ms, hstep]]
      rw [matchAt_map]
      have hsplit : t = t.takeWhile isWordC ++ t.dropWhile isWordC := (List.takeWhile_append_dropWhile).symm
      by_cases hw : t.takeWhile isWordC = []
      · -- no word character after the tilde
        have hnone : ms s (.cat (.plus true (.cls WCls)) (.chr 126)) ⟨p + 1, c⟩ = [] := by
          apply ms_plus_none
          intro x hx
          rw [wcls_isWord]
          cases t with
          | nil => rw [getElem?_of_drop_nil hd1] at hx; cases hx
          | cons y t' =>
            rw [getElem?_of_drop hd1] at hx; cases hx
            simp only [List.takeWhile_cons] at hw
            by_cases hy : isWordC x = true
            · simp [hy] at hw
            · simpa [isWordC] using hy
        rw [hnone]
        cases hdw : t.dropWhile isWordC with
        | nil => rfl
        | cons c0 r => simp [hw]
      · have hall : ∀ x ∈ t.takeWhile isWordC, inRanges WCls x.toNat = true := by
          intro x hx; rw [wcls_isWord]; exact mem_takeWhile_p hx
        have htail : ∀ x t', t.dropWhile isWordC = x :: t' → inRanges WCls x.toNat = false := by
          intro x t' he
          rw [wcls_isWord]
          have := List.head?_dropWhile_not isWordC t
          simpa [he, isWordC] using this
        have hrej : ∀ k, 1 ≤ k → k < (t.takeWhile isWordC).length →
            ms s (.chr 126) ⟨p + 1 + k, c⟩ = [] := by
          intro k _ hk
          have hget : s[p + 1 + k]? = (t.takeWhile isWordC)[k]? := by
            have := List.getElem?_drop (xs := s) (i := p + 1) (j := k)
            rw [hd1] at this
            rw [← this]; conv => lhs; rw [hsplit]
            exact List.getElem?_append_left hk
          have hwk := List.getElem?_eq_getElem hk
          have hword : isWord ((t.takeWhile isWordC)[k]).toNat = true :=
            mem_takeWhile_p (p := isWordC) (List.getElem_mem hk)
          simp [ms, stepChar, hget, hwk, isWord_ne_tilde _ hword]
        rw [ms_plus_run s WCls (.chr 126) c (p + 1) (t.takeWhile isWordC) (t.dropWhile isWordC)
          (by rw [hd1]; exact hsplit) (by omega) hw hall htail hrej]
        have hd2 : s.drop (p + 1 + (t.takeWhile isWordC).length) = t.dropWhile isWordC :=
          drop_add_of_drop (by rw [hd1]; exact hsplit)
        cases hdw : t.dropWhile isWordC with
        | nil =>
          rw [hdw] at hd2
          simp [ms, stepChar, getElem?_of_drop_nil hd2]
        | cons c0 r =>
          rw [hdw] at hd2
          have hne : (t.takeWhile isWordC).isEmpty = false := by simpa using hw
          by_cases hc0 : c0.toNat = tilde
          · simp [ms, stepChar, getElem?_of_drop hd2, hc0, hne, tilde]; omega
          · have : (c0.toNat == 126) = false := by simpa [tilde] using hc0
            simp [ms, stepChar, getElem?_of_drop hd2, this, hne, tilde, hc0]
    · have : (ch.toNat == 126) = false := by simpa [tilde] using hch
      simp [ms, stepChar, h1, this, hch]

/-- byte positions of the occurrences of a segment list laid out from position `p` -/
def occSpans : List Seg → Nat → List (Nat × Nat)
  | [], _ => []
  | .lit _ :: r, p => occSpans r (p + 1)
  | .occ w :: r, p => (p, p + w.length + 2) :: occSpans r (p + w.length + 2)

/-- `FindAllStringIndex` for a regexp that never matches the empty string (the loop of `ReplaceAllStringFunc`): the
leftmost match at or after `p` — at each start the first way in priority order —, then on from its end -/
def findAll (r : Re) (s : List Char) : Nat → Nat → List (Nat × Nat)
  | 0, _ => []
  | n + 1, p =>
    if s.length ≤ p then [] else
    match (ms s r ⟨p, []⟩).head? with
    | some t => (p, t.pos) :: findAll r s n t.pos
    | none => findAll r s n (p + 1)

theorem not_startsOcc_of (c : Nat) (rest : Bytes) (h : c ≠ tilde ∨ matchAt rest = none) :
    ¬ StartsOcc (c :: rest) := by
  rintro ⟨w, r, hw, he⟩
  simp only [List.cons_append, List.cons.injEq] at he
  obtain ⟨hc, hr⟩ := he
  rcases h with h | h
  · exact h hc
  · rw [hr, matchAt_of_word w r hw] at h; cases h

/-- **the scanner walks the text exactly as `ReplaceAllStringFunc` does with the regenerated `preprocRe`**: the
occurrences it finds, with their positions, are the non-overlapping leftmost matches of the regexp -/
theorem scan_is_findAll (s : List Char) : ∀ (fuel p : Nat) (t : List Char), s.drop p = t → p ≤ s.length →
    t.length ≤ fuel → occSpans (scan (t.map Char.toNat)) p = findAll Gen.preprocRe s fuel p := by
  intro fuel
  induction fuel using Nat.strongRecOn with
  | _ fuel ih =>
    intro p t hd hp hf
    cases t with
    | nil =>
      have hlen := length_of_drop hd hp
      simp at hlen
      cases fuel with
      | zero => simp [scan, scanAux, occSpans, findAll]
      | succ n => simp [scan, scanAux, occSpans, findAll, hlen]
    | cons ch t' =>
      have hlen := length_of_drop hd hp
      simp only [List.length_cons] at hlen hf
      cases fuel with
      | zero => omega
      | succ n =>
        have hms := scanner_is_preprocRe s p [] hp
        rw [hd] at hms
        have hd1 : s.drop (p + 1) = t' := drop_succ_of_drop hd
        simp only [findAll, if_neg (show ¬ s.length ≤ p by omega)]
        by_cases hch : ch.toNat = tilde
        · simp only [hch, if_true] at hms
          cases hm : matchAt (t'.map Char.toNat) with
          | none =>
            rw [hm] at hms
            simp only [hms, List.head?_nil]
            rw [List.map_cons, scan_cons_lit _ _ (not_startsOcc_of _ _ (.inr hm))]
            simp only [occSpans]
            exact ih n (by omega) (p + 1) t' hd1 (by omega) (by omega)
          | some w =>
            rw [hm] at hms
            simp only [hms, List.head?_cons]
            obtain ⟨hw, r, hr⟩ := matchAt_some hm
            rw [List.map_cons, hch, hr, ← List.cons_append, scan_cons_occ w r hw]
            simp only [occSpans, List.cons.injEq, true_and]
            have hr' : (t'.drop (w.length + 1)).map Char.toNat = r := by
              rw [List.map_drop, hr]; simp
            have hd2 : s.drop (p + w.length + 2) = t'.drop (w.length + 1) := by
              rw [show p + w.length + 2 = (p + 1) + (w.length + 1) by omega, ← List.drop_drop, hd1]
            have hwl : w.length + 1 ≤ t'.length := by
              have := congrArg List.length hr; simp at this; omega
            rw [← hr']
            exact ih n (by omega) (p + w.length + 2) _ hd2 (by omega) (by simp; omega)
        · simp only [hch, if_false] at hms
          simp only [hms, List.head?_nil]
          rw [List.map_cons, scan_cons_lit _ _ (not_startsOcc_of _ _ (.inl hch))]
          simp only [occSpans]
          exact ih n (by omega) (p + 1) t' hd1 (by omega) (by omega)

/-- non-vacuity: the two occurrences of `a ~x~ ~~y~` at [2,5) and [7,10) -/
example : findAll Gen.preprocRe "a ~x~ ~~y~".toList 10 0 = [(2, 5), (7, 10)] ∧
    occSpans (scan ("a ~x~ ~~y~".toList.map Char.toNat)) 0 = [(2, 5), (7, 10)] := by decide

/-- non-vacuity: `a ~x~ ~~y~` — occurrences at 2 and 7, none at 6 -/
example : (ms "a ~x~ ~~y~".toList Gen.preprocRe ⟨2, []⟩, ms "a ~x~ ~~y~".toList Gen.preprocRe ⟨6, []⟩,
    ms "a ~x~ ~~y~".toList Gen.preprocRe ⟨7, []⟩) = ([⟨5, []⟩], [], [⟨10, []⟩]) := by decide

end scanner_regexp

/-! ## Non-vacuity -/

/-- `"a ~x~ ~~y~ ~z~."` with `x = "1~y~"`, `y = "2"`: → `"a 1~y~ ~2 ~z~."`, undefined: `z` -/
example :
    preprocReplace [([120], [49, 126, 121, 126]), ([121], [50])]
      [97, 32, 126, 120, 126, 32, 126, 126, 121, 126, 32, 126, 122, 126, 46] =
      ([97, 32, 49, 126, 121, 126, 32, 126, 50, 32, 126, 122, 126, 46], [[122]]) := by decide

/-- `-Dx=1 -Dx=2 -Dy` then `parameter x defaults to 3`, `parameter z defaults to 4` -/
example :
    withDefaults (fromDefines [[120, 61, 49], [120, 61, 50], [121]]) [([120], [51]), ([122], [52])] =
      [([120], [49]), ([121], []), ([122], [52])] := by decide

example : WordName [120] := ⟨by simp, by decide⟩

end Shk.C20
