import ShkModel.Model.Verdict
import ShkModel.Model.Conduct
/-!
# C03 — exit status and foul flag follow the interpretation rules
-/
namespace Shk.C03
open Shk.Verdict

/-! ## the verdict, stated outright -/

/-- `checkAuditViolations` reports a foul exactly when an evaluation error was recorded or some
auditor that produced data has a count that its interpretation forbids: `foul upon` with a
non-zero count, or `require` with a zero count. -/
theorem verdict_iff (t : Table) (tally : String → Tally) (n : Nat) :
    fouls t tally n = true ↔
      n > 0 ∨ ∃ p ∈ t, (tally p.1).hasData = true ∧
        ((p.2.onBad = .uponNonZero ∧ (tally p.1).bad > 0) ∨ (p.2.onBad = .uponZero ∧ (tally p.1).bad = 0) ∨
         (p.2.onGood = .uponNonZero ∧ (tally p.1).good > 0) ∨ (p.2.onGood = .uponZero ∧ (tally p.1).good = 0)) := by
  simp only [fouls, Bool.or_eq_true, decide_eq_true_eq, List.any_eq_true, Bool.and_eq_true]
  constructor
  · rintro (h | ⟨p, hp, hd, hf⟩)
    · exact Or.inl h
    · refine Or.inr ⟨p, hp, hd, ?_⟩
      rcases hf with hf | hf
      · cases hb : p.2.onBad <;> simp_all [fouledBy]
      · cases hg : p.2.onGood <;> simp_all [fouledBy]
  · rintro (h | ⟨p, hp, hd, hf⟩)
    · exact Or.inl h
    · refine Or.inr ⟨p, hp, hd, ?_⟩
      rcases hf with ⟨h1, h2⟩ | ⟨h1, h2⟩ | ⟨h1, h2⟩ | ⟨h1, h2⟩
      · left; simp [fouledBy, h1, h2]
      · left; simp [fouledBy, h1, h2]
      · right; simp [fouledBy, h1, h2]
      · right; simp [fouledBy, h1, h2]

/-- an auditor that never audited (no data) cannot foul the play, whatever its interpretation -/
theorem no_data_no_foul (t : Table) (tally : String → Tally)
    (h : ∀ p ∈ t, (tally p.1).hasData = false) : fouls t tally 0 = false := by
  simp only [fouls, Nat.lt_irrefl, decide_false, Bool.false_or]
  rw [List.any_eq_false]
  intro p hp
  simp [h p hp]

/-- `ignore` for both results silences an auditor -/
theorem ignored_never_fouls (cnt : Nat) (atEnd : Bool) : fouledBy .ignore cnt atEnd = false := rfl

/-! ## later clauses override earlier ones -/

theorem get_with (i : Interp) (r r' : Res) (f : FoulCond) :
    (i.with r' f).get r = if r' = r then f else i.get r := by
  cases r <;> cases r' <;> simp [Interp.with, Interp.get]

private theorem lookup_map_snd (t : Table) (g : String → Interp → Interp) (n : String) :
    (t.map fun p => (p.1, g p.1 p.2)).lookup n = (t.lookup n).map (g n) := by
  induction t with
  | nil => rfl
  | cons p t ih =>
    obtain ⟨a, i⟩ := p
    simp only [List.map_cons, List.lookup_cons]
    by_cases h : n == a
    · have : n = a := by simpa using h
      subst this; simp
    · simp [h, ih]

private theorem lookup_append_new (t : Table) (n m : String) (h : t.lookup m = none) :
    (t ++ [(m, ({} : Interp))]).lookup n =
      match t.lookup n with
      | some i => some i
      | none => if n = m then some {} else none := by
  induction t with
  | nil =>
    by_cases hn : n = m
    · subst hn; simp [List.lookup]
    · have : (n == m) = false := by simpa using hn
      simp [List.lookup, this, hn]
  | cons p t ih =>
    obtain ⟨a, i⟩ := p
    simp only [List.lookup_cons] at h
    by_cases hma : m == a
    · simp [hma] at h
    · simp only [hma] at h
      simp only [List.cons_append, List.lookup_cons]
      by_cases hn : n == a
      · simp [hn]
      · simp only [hn]; exact ih h

/-- the mode of (n, r) in a table, default when n is not (yet) an audience member -/
def modeIn (t : Table) (n : String) (r : Res) : FoulCond :=
  match t.lookup n with
  | some i => i.get r
  | none => defaultOf r

theorem default_get (r : Res) : ({} : Interp).get r = defaultOf r := by cases r <;> rfl

private theorem step_member (t0 : Table) (m n : String) (r : Res) (t1 : Table)
    (hq : applyOp t0 (.member m) = some t1) :
    modeIn t1 n r = modeIn t0 n r ∧ (t1.lookup n).isSome = ((t0.lookup n).isSome || m == n) := by
  simp only [applyOp] at hq
  cases hm : t0.lookup m with
  | some i0 =>
    simp only [hm, Option.isSome_some, if_true, Option.some.injEq] at hq
    subst hq
    refine ⟨rfl, ?_⟩
    by_cases hmn : m = n
    · subst hmn; simp [hm]
    · have : (m == n) = false := by simpa using hmn
      simp [this]
  | none =>
    simp only [hm, Option.isSome_none, Bool.false_eq_true, if_false, Option.some.injEq] at hq
    subst hq
    have hl := lookup_append_new t0 n m hm
    cases h0 : t0.lookup n with
    | some i =>
      simp only [h0] at hl
      simp [modeIn, hl, h0]
    | none =>
      simp only [h0] at hl
      by_cases hnm : n = m
      · subst hnm
        simp [modeIn, hl, h0, default_get]
      · have : (m == n) = false := by
          have : m ≠ n := fun h => hnm h.symm
          simpa using this
        simp [modeIn, hl, h0, hnm, this]

private theorem step_ignoreAll (t0 : Table) (r' : Res) (n : String) (r : Res) (t1 : Table)
    (hq : applyOp t0 (.ignoreAll r') = some t1) :
    modeIn t1 n r = (if (t0.lookup n).isSome && r' == r then .ignore else modeIn t0 n r) ∧
      (t1.lookup n).isSome = (t0.lookup n).isSome := by
  simp only [applyOp, Option.some.injEq] at hq
  subst hq
  have hl := lookup_map_snd t0 (fun _ i => i.with r' .ignore) n
  cases h0 : t0.lookup n with
  | some i =>
    simp only [h0, Option.map_some] at hl
    simp only [modeIn, hl, h0, get_with, Option.isSome_some, Bool.true_and]
    by_cases hr : r' = r <;> simp [hr]
  | none =>
    simp only [h0, Option.map_none] at hl
    simp [modeIn, hl, h0]

private theorem step_set (t0 : Table) (mode : FoulCond) (m : String) (r' : Res) (n : String) (r : Res)
    (t1 : Table) (hq : applyOp t0 (.set mode m r') = some t1) :
    modeIn t1 n r = (if m == n && r' == r then mode else modeIn t0 n r) ∧
      (t1.lookup n).isSome = (t0.lookup n).isSome := by
  simp only [applyOp] at hq
  cases hm : t0.lookup m with
  | none => simp [hm] at hq
  | some i0 =>
    simp only [hm, Option.isSome_some, if_true, Option.some.injEq] at hq
    subst hq
    have hl := lookup_map_snd t0 (fun a i => if a = m then i.with r' mode else i) n
    cases h0 : t0.lookup n with
    | some i =>
      simp only [h0, Option.map_some] at hl
      by_cases hnm : n = m
      · subst hnm
        simp only [modeIn, hl, h0, if_true, get_with, beq_self_eq_true, Bool.true_and, Option.isSome_some,
          and_true]
        by_cases hr : r' = r <;> simp [hr]
      · have hmn : (m == n) = false := by
          have : m ≠ n := fun h => hnm h.symm
          simpa using this
        simp [modeIn, hl, h0, hnm, hmn]
    | none =>
      simp only [h0, Option.map_none] at hl
      have hmn : (m == n) = false := by
        by_cases hmn : m = n
        · subst hmn; rw [hm] at h0; cases h0
        · simpa using hmn
      simp [modeIn, hl, h0, hmn]

/-- **Later interpretation clauses override earlier ones per (auditor, result) pair**, and the
auditor-less shorthand only reaches the auditors that exist when it is read. -/
theorem interp_last_wins_from (ops : List Op) (t0 t : Table) (n : String) (r : Res)
    (h : applyOps t0 ops = some t) :
    modeIn t n r = lastWins n r (t0.lookup n).isSome (modeIn t0 n r) ops := by
  induction ops generalizing t0 with
  | nil => simp [applyOps] at h; subst h; rfl
  | cons o os ih =>
    simp only [applyOps] at h
    cases hq : applyOp t0 o with
    | none => simp [hq] at h
    | some t1 =>
      simp only [hq, Option.bind_some] at h
      rw [ih t1 h]
      cases o with
      | member m =>
        obtain ⟨h1, h2⟩ := step_member t0 m n r t1 hq
        simp only [lastWins, h1, h2]
      | ignoreAll r' =>
        obtain ⟨h1, h2⟩ := step_ignoreAll t0 r' n r t1 hq
        simp only [lastWins, h1, h2]
      | set mode m r' =>
        obtain ⟨h1, h2⟩ := step_set t0 mode m r' n r t1 hq
        simp only [lastWins, h1, h2]

/-- the statement for a whole configuration, read from the empty table -/
theorem interp_last_wins (ops : List Op) (t : Table) (n : String) (r : Res)
    (h : applyOps [] ops = some t) :
    modeIn t n r = lastWins n r false (defaultOf r) ops := by
  have := interp_last_wins_from ops [] t n r h
  simpa [modeIn] using this

/-- non-vacuity: an overriding sequence with the shorthand in the middle -/
example : applyOps [] [.member "a", .set .uponZero "a" .satisfaction, .ignoreAll .satisfaction,
    .member "b", .set .uponNonZero "a" .satisfaction] =
    some [("a", { onBad := .uponNonZero, onGood := .uponNonZero }), ("b", {})] := by decide

/-! ## `-S` -/

/-- without `-S` the collector never stops the play because of a verdict -/
theorem no_early_exit_without_S (t : Table) (s : ColSt) (rs : List Report) :
    (collectAll t false s rs).2 = false := by
  induction rs generalizing s with
  | nil => rfl
  | cons r rs ih =>
    simp only [collectAll]
    have : (collectReport t false s r).2 = false := by
      simp only [collectReport, stopNow]
      split <;> simp
    simp [this, ih]

private theorem lookup_mem (t : Table) (n : String) (i : Interp) (h : t.lookup n = some i) : (n, i) ∈ t := by
  induction t with
  | nil => simp at h
  | cons p t ih =>
    obtain ⟨a, j⟩ := p
    simp only [List.lookup_cons] at h
    by_cases hn : n == a
    · simp only [hn] at h
      have : n = a := by simpa using hn
      subst this; simp_all
    · simp only [hn] at h
      exact List.mem_cons_of_mem _ (ih h)

theorem bump_hasData (ty : Tally) (code : Nat) : (bump ty code).hasData = true := by
  simp only [bump]
  split
  · rfl
  · split <;> rfl

/-- one report that makes `-S` stop the play leaves the collector in a state whose final verdict
is a foul. -/
theorem early_report_fouls (t : Table) (s : ColSt) (r : Report)
    (h : (collectReport t true s r).2 = true) :
    fouls t (collectReport t true s r).1.tally (collectReport t true s r).1.errors = true := by
  simp only [collectReport] at h ⊢
  simp only [stopNow] at h
  by_cases h3 : (r.code == 3) = true
  · simp [h3] at h
  · by_cases h1 : (r.code == 1) = true
    · simp [fouls, h1]
    · simp only [h3, h1, Bool.false_eq_true, if_false, if_true] at h
      cases hl : t.lookup r.auditor with
      | none => simp [hl] at h
      | some i =>
        simp only [hl] at h
        have hm := lookup_mem t r.auditor i hl
        simp only [fouls, Bool.or_eq_true, List.any_eq_true]
        right
        refine ⟨(r.auditor, i), hm, ?_⟩
        simp only [if_true, Bool.and_eq_true, bump_hasData, true_and]
        simp only [Bool.or_eq_true] at h
        have mono : ∀ c n, fouledBy c n false = true → fouledBy c n true = true := by
          intro c n; cases c <;> simp [fouledBy]
        rcases h with h | h
        · rw [mono _ _ h]; rfl
        · rw [mono _ _ h]; simp

/-- **`-S` never turns a foul into a success**: for every stream of reports, if `-S` stops the
play, the tallies at that point foul it. -/
theorem earlyExit_keeps_foul (t : Table) (s : ColSt) (rs : List Report)
    (h : (collectAll t true s rs).2 = true) :
    fouls t (collectAll t true s rs).1.tally (collectAll t true s rs).1.errors = true := by
  induction rs generalizing s with
  | nil => simp [collectAll] at h
  | cons r rs ih =>
    simp only [collectAll] at h ⊢
    by_cases hx : (collectReport t true s r).2 = true
    · simp only [hx, if_true] at h ⊢
      exact early_report_fouls t s r hx
    · simp only [hx, Bool.false_eq_true, if_false] at h ⊢
      exact ih _ h

/-- a foul that cannot go away: an audit error was counted, or an auditor with data has a count that a `foul upon` clause
forbids (counts only grow; a `require` clause can only be judged at the end and is not among these) -/
def Doomed (t : Table) (s : ColSt) : Prop :=
  s.errors > 0 ∨ ∃ p ∈ t, (s.tally p.1).hasData = true ∧
    (fouledBy p.2.onBad (s.tally p.1).bad false = true ∨ fouledBy p.2.onGood (s.tally p.1).good false = true)

theorem Doomed.fouls {t : Table} {s : ColSt} (h : Doomed t s) : fouls t s.tally s.errors = true := by
  have mono : ∀ c n, fouledBy c n false = true → fouledBy c n true = true := by
    intro c n; cases c <;> simp [fouledBy]
  simp only [Shk.Verdict.fouls, Bool.or_eq_true, decide_eq_true_eq, List.any_eq_true, Bool.and_eq_true]
  rcases h with h | ⟨p, hp, hd, hf⟩
  · exact Or.inl h
  · exact Or.inr ⟨p, hp, hd, hf.imp (mono _ _) (mono _ _)⟩

theorem Doomed.step {t : Table} {s : ColSt} (e : Bool) (r : Report) (h : Doomed t s) :
    Doomed t (collectReport t e s r).1 := by
  have keep : ∀ c n k, fouledBy c n false = true → fouledBy c (n + k) false = true := by
    intro c n k; cases c <;> simp [fouledBy]; omega
  simp only [collectReport]
  rcases h with h | ⟨p, hp, hd, hf⟩
  · left; simp only; split <;> omega
  · right
    refine ⟨p, hp, ?_⟩
    simp only
    by_cases hn : p.1 = r.auditor
    · simp only [hn, if_true]
      rw [hn] at hd hf
      refine ⟨bump_hasData _ _, ?_⟩
      simp only [bump]
      split
      · exact hf.imp id (keep _ _ 1)
      · split
        · exact hf.imp (keep _ _ 1) id
        · exact hf
    · simp only [hn, if_false]
      exact ⟨hd, hf⟩

theorem Doomed.run {t : Table} (rs : List Report) : ∀ {s : ColSt}, Doomed t s → Doomed t (collectAll t false s rs).1 := by
  induction rs with
  | nil => intro s h; exact h
  | cons r rs ih =>
    intro s h
    simp only [collectAll]
    have hno : (collectReport t false s r).2 = false := by
      simp only [collectReport, stopNow]; split <;> simp
    simp only [hno, Bool.false_eq_true, if_false]
    exact ih (h.step false r)

/-- the state after a report does not depend on `-S` -/
theorem collectReport_state (t : Table) (s : ColSt) (r : Report) :
    (collectReport t true s r).1 = (collectReport t false s r).1 := rfl

/-- **a `-S` stop is a foul that stands**: whenever `-S` stops the play, the same reports heard to the end without
`-S` are a fouled play too — `-S` only anticipates the verdict, it never creates one (in particular it does not judge a
`require` clause before the end). -/
theorem early_stop_stands (t : Table) (s : ColSt) (rs : List Report)
    (h : (collectAll t true s rs).2 = true) :
    fouls t (collectAll t false s rs).1.tally (collectAll t false s rs).1.errors = true := by
  induction rs generalizing s with
  | nil => simp [collectAll] at h
  | cons r rs ih =>
    have hno : (collectReport t false s r).2 = false := by
      simp only [collectReport, stopNow]; split <;> simp
    simp only [collectAll] at h ⊢
    simp only [hno, Bool.false_eq_true, if_false]
    by_cases hx : (collectReport t true s r).2 = true
    · -- the stopping report dooms the play; the rest of the reports cannot undo that
      have hd : Doomed t (collectReport t false s r).1 := by
        rw [← collectReport_state]
        simp only [collectReport, stopNow] at hx ⊢
        by_cases h3 : (r.code == 3) = true
        · simp [h3] at hx
        · by_cases h1 : (r.code == 1) = true
          · left; simp [h1]
          · simp only [h3, h1, Bool.false_eq_true, if_false, if_true] at hx
            cases hl : t.lookup r.auditor with
            | none => simp [hl] at hx
            | some i =>
              simp only [hl, Bool.or_eq_true] at hx
              right
              exact ⟨(r.auditor, i), lookup_mem t r.auditor i hl, by simp [bump_hasData], by simpa using hx⟩
      exact (Doomed.run rs hd).fouls
    · simp only [hx, Bool.false_eq_true, if_false] at h
      rw [← collectReport_state] 
      exact ih _ h


/-- and `-S` only ever stops on a report: the tallies it stops with are those of the reports
received so far, which the run without `-S` would have seen too (prefix property). -/
theorem earlyExit_prefix (t : Table) (s : ColSt) (r : Report) (b : Bool) :
    (collectReport t b s r).1.errors = (collectReport t false s r).1.errors ∧
    ∀ n, (collectReport t b s r).1.tally n = (collectReport t false s r).1.tally n := by
  simp [collectReport]

/-! ## the funnel -/

theorem combine_some_right (a : Option Err) (y : Err) : (combine a (some y)).isSome = true := by
  cases a <;> rfl

theorem combine_some_left (x : Err) (b : Option Err) : (combine (some x) b).isSome = true := by
  cases b <;> rfl

/-- whatever the four components return, in whatever order they finish, and whatever
cancellation errors overtake the audit error: if the tallies foul the play, `conduct` returns an
error (the deferred re-check), hence a non-zero exit status. -/
theorem funnel_keeps_audit (pr sp au col : Option Err) (first : Nat) (cl : Option Err) :
    exitCode (conductErr pr sp au col first true cl) = 1 := by
  simp only [exitCode, conductErr, finish]
  cases stageErr pr sp au col first with
  | none => cases cl <;> rfl
  | some e => cases ha : e.isAudit <;> cases cl <;> simp [ha, combine]

/-- a failing final cleanup is never lost -/
theorem cleanup_error_kept (pr sp au col : Option Err) (first : Nat) (v : Bool) (e : Err) :
    exitCode (conductErr pr sp au col first v (some e)) = 1 := by
  simp only [exitCode, conductErr, finish, combine_some_right, if_true]

/-- any error that survives the four stages is never lost -/
theorem stage_error_kept (stage : Err) (v : Bool) (cl : Option Err) :
    (finish (some stage) v cl).isSome = true := by
  simp only [finish]
  cases ha : stage.isAudit <;> cases v <;> cases cl <;> simp [combine]

/-- a prompter error (a non-tolerated action failed) is never lost when the prompter finishes first -/
theorem prompter_error_kept (e : Err) (sp au col : Option Err) (v : Bool) (cl : Option Err) :
    exitCode (conductErr (some e) sp au col 0 v cl) = 1 := by
  have h1 : ∀ a b c : Option Err, (combine a (combine b (combine c (combine (some e) none)))).isSome = true := by
    intro a b c; cases a <;> cases b <;> cases c <;> rfl
  simp only [exitCode, conductErr, stageErr, beq_self_eq_true, if_true]
  generalize hst : combine (ignCancel col) (combine au (combine sp (combine (some e) none))) = stage
  have hs : stage.isSome = true := by rw [← hst]; exact h1 _ _ _
  cases stage with
  | none => simp at hs
  | some x => simp [stage_error_kept]

/-- and success needs everything to be clean: exit status 0 means the tallies do not foul and the
final cleanup succeeded (and, by `stage_error_kept`, that no component error survived). -/
theorem exit0_means_clean (pr sp au col : Option Err) (first : Nat) (v : Bool) (cl : Option Err)
    (h : exitCode (conductErr pr sp au col first v cl) = 0) :
    v = false ∧ cl = none ∧ stageErr pr sp au col first = none := by
  refine ⟨?_, ?_, ?_⟩
  · cases v
    · rfl
    · rw [funnel_keeps_audit] at h; cases h
  · cases cl with
    | none => rfl
    | some e => rw [cleanup_error_kept] at h; cases h
  · cases hs : stageErr pr sp au col first with
    | none => rfl
    | some e =>
      simp only [exitCode, conductErr, hs, stage_error_kept, if_true] at h
      cases h

/-- conversely a clean play exits with status 0 -/
theorem clean_exits_0 (pr sp au col : Option Err) (first : Nat)
    (hs : stageErr pr sp au col first = none) :
    exitCode (conductErr pr sp au col first false none) = 0 := by
  simp [exitCode, conductErr, finish, hs, combine]

/-! ## from reports to the verdict: what a stream of audit reports makes of the play -/

theorem collectReport_tally_other (t : Table) (b : Bool) (s : ColSt) (r : Report) (n : String)
    (h : n ≠ r.auditor) : (collectReport t b s r).1.tally n = s.tally n := by
  simp [collectReport, h]

theorem bump_bad_mono (ty : Tally) (code : Nat) : ty.bad ≤ (bump ty code).bad := by
  simp only [bump]; split
  · simp
  · split <;> simp

theorem bump_good_mono (ty : Tally) (code : Nat) : ty.good ≤ (bump ty code).good := by
  simp only [bump]; split
  · simp
  · split <;> simp

theorem bump_keeps_data (ty : Tally) (code : Nat) (h : ty.hasData = true) : (bump ty code).hasData = true :=
  bump_hasData ty code

/-- tallies only grow, and an auditor that reported once keeps `hasData` -/
theorem collectAll_mono (t : Table) (s : ColSt) (rs : List Report) (n : String) :
    (s.tally n).bad ≤ ((collectAll t false s rs).1.tally n).bad ∧
    (s.tally n).good ≤ ((collectAll t false s rs).1.tally n).good ∧
    ((s.tally n).hasData = true → ((collectAll t false s rs).1.tally n).hasData = true) ∧
    s.errors ≤ (collectAll t false s rs).1.errors := by
  induction rs generalizing s with
  | nil => simp [collectAll]
  | cons r rs ih =>
    simp only [collectAll]
    have hstop : (collectReport t false s r).2 = false := by
      simp only [collectReport, stopNow]; split <;> simp
    simp only [hstop, Bool.false_eq_true, if_false]
    obtain ⟨i1, i2, i3, i4⟩ := ih (collectReport t false s r).1
    have step : (s.tally n).bad ≤ ((collectReport t false s r).1.tally n).bad ∧
        (s.tally n).good ≤ ((collectReport t false s r).1.tally n).good ∧
        ((s.tally n).hasData = true → ((collectReport t false s r).1.tally n).hasData = true) ∧
        s.errors ≤ (collectReport t false s r).1.errors := by
      simp only [collectReport]
      refine ⟨?_, ?_, ?_, ?_⟩
      · by_cases hn : n = r.auditor
        · subst hn; simpa using bump_bad_mono _ _
        · simp [hn]
      · by_cases hn : n = r.auditor
        · subst hn; simpa using bump_good_mono _ _
        · simp [hn]
      · by_cases hn : n = r.auditor
        · subst hn; intro _; simpa using bump_hasData _ _
        · simp [hn]
      · split <;> omega
    exact ⟨Nat.le_trans step.1 i1, Nat.le_trans step.2.1 i2, fun h => i3 (step.2.2.1 h), Nat.le_trans step.2.2.2 i4⟩

/-- **one disappointment report is enough**: whatever else is reported before or after it, by
anybody, a disappointment of an auditor interpreted with `foul upon … disappointment` (the
default) fouls the play. -/
theorem bad_report_fouls (t : Table) (pre post : List Report) (a : String) (i : Interp)
    (hm : (a, i) ∈ t) (hi : i.onBad = .uponNonZero) :
    fouls t (collectAll t false {} (pre ++ ⟨a, 2⟩ :: post)).1.tally
            (collectAll t false {} (pre ++ ⟨a, 2⟩ :: post)).1.errors = true := by
  have split_run : ∀ (s : ColSt) (l1 l2 : List Report),
      (collectAll t false s (l1 ++ l2)).1 = (collectAll t false (collectAll t false s l1).1 l2).1 := by
    intro s l1 l2
    induction l1 generalizing s with
    | nil => simp [collectAll]
    | cons r l1 ih =>
      have hstop : (collectReport t false s r).2 = false := by
        simp only [collectReport, stopNow]; split <;> simp
      simp only [List.cons_append, collectAll, hstop, Bool.false_eq_true, if_false]
      exact ih _
  rw [split_run]
  generalize (collectAll t false {} pre).1 = s0
  simp only [collectAll]
  have hstop : (collectReport t false s0 ⟨a, 2⟩).2 = false := by
    simp only [collectReport, stopNow]; split <;> simp
  simp only [hstop, Bool.false_eq_true, if_false]
  have h1 : 1 ≤ ((collectReport t false s0 ⟨a, 2⟩).1.tally a).bad := by
    simp [collectReport, bump]
  have hd : ((collectReport t false s0 ⟨a, 2⟩).1.tally a).hasData = true := by
    simp [collectReport, bump]
  obtain ⟨m1, _, m3, _⟩ := collectAll_mono t (collectReport t false s0 ⟨a, 2⟩).1 post a
  rw [verdict_iff]
  right
  exact ⟨(a, i), hm, m3 hd, Or.inl ⟨hi, Nat.lt_of_lt_of_le (Nat.lt_of_lt_of_le Nat.zero_lt_one h1) m1⟩⟩

/-- and one evaluation error is enough too -/
theorem error_report_fouls (t : Table) (pre post : List Report) (a : String) :
    fouls t (collectAll t false {} (pre ++ ⟨a, 1⟩ :: post)).1.tally
            (collectAll t false {} (pre ++ ⟨a, 1⟩ :: post)).1.errors = true := by
  have split_run : ∀ (s : ColSt) (l1 l2 : List Report),
      (collectAll t false s (l1 ++ l2)).1 = (collectAll t false (collectAll t false s l1).1 l2).1 := by
    intro s l1 l2
    induction l1 generalizing s with
    | nil => simp [collectAll]
    | cons r l1 ih =>
      have hstop : (collectReport t false s r).2 = false := by
        simp only [collectReport, stopNow]; split <;> simp
      simp only [List.cons_append, collectAll, hstop, Bool.false_eq_true, if_false]
      exact ih _
  rw [split_run]
  generalize (collectAll t false {} pre).1 = s0
  simp only [collectAll]
  have hstop : (collectReport t false s0 ⟨a, 1⟩).2 = false := by
    simp only [collectReport, stopNow]; split <;> simp
  simp only [hstop, Bool.false_eq_true, if_false]
  have h1 : 1 ≤ (collectReport t false s0 ⟨a, 1⟩).1.errors := by simp [collectReport]
  obtain ⟨_, _, _, m4⟩ := collectAll_mono t (collectReport t false s0 ⟨a, 1⟩).1 post a
  rw [verdict_iff]
  left
  omega

/-! ## the shutdown stages under every schedule -/

section stages
open Shk.Conduct

/-- the repaired `awaitStage` interrupts only on an error -/
theorem awaitStage_interrupt_needs_error (own : Comp) (later seen : List Comp) (arrs : List Arrival)
    (h : (awaitStage own later seen arrs).interrupt = true) : ∃ a ∈ arrs, a.err = true := by
  induction arrs generalizing seen with
  | nil => simp [awaitStage] at h
  | cons a rest ih =>
    unfold awaitStage at h
    split at h
    · simp at h
    · split at h
      · simp at h
      · split at h
        · split at h
          · rename_i h3; exact ⟨a, by simp, h3⟩
          · obtain ⟨b, hb, hbe⟩ := ih _ h
            exact ⟨b, by simp [hb], hbe⟩
        · obtain ⟨b, hb, hbe⟩ := ih _ (by simpa using h)
          exact ⟨b, by simp [hb], hbe⟩

private theorem awaitStage_rest_sub (own : Comp) (later seen : List Comp) (arrs : List Arrival) :
    ∀ a ∈ (awaitStage own later seen arrs).rest, a ∈ arrs := by
  induction arrs generalizing seen with
  | nil => simp [awaitStage]
  | cons a rest ih =>
    unfold awaitStage
    split
    · intro b hb; exact hb
    · split
      · intro b hb; simp [hb]
      · split
        · split
          · intro b hb; simp [hb]
          · intro b hb; simp [ih _ b hb]
        · intro b hb
          simp only [List.mem_cons] at hb ⊢
          rcases hb with hb | hb
          · exact Or.inl hb
          · exact Or.inr (ih _ b hb)

/-- **Whatever order the runtime lets the conductor see the components' results in** (any list,
of any length): if no component returned an error, the conductor never cancels the collector —
the reports of the final round, still in the collector's channel, are not lost, so the verdict
computed from them decides the exit status. -/
theorem normal_cascade_never_cancels_collector (arrs : List Arrival)
    (h : ∀ a ∈ arrs, a.err = false) : (conduct arrs).cancelledCollector = false := by
  have no_int : ∀ (own : Comp) (later seen : List Comp) (l : List Arrival), (∀ a ∈ l, a.err = false) →
      (awaitStage own later seen l).interrupt = false := by
    intro own later seen l hl
    cases hi : (awaitStage own later seen l).interrupt
    · rfl
    · obtain ⟨a, ha, hae⟩ := awaitStage_interrupt_needs_error own later seen l hi
      rw [hl a ha] at hae; cases hae
  simp only [conduct, conductWith]
  have h1 := no_int .pr [.sp, .au, .col] [] arrs h
  have hr1 : ∀ a ∈ (awaitStage .pr [.sp, .au, .col] [] arrs).rest, a.err = false :=
    fun a ha => h a (awaitStage_rest_sub _ _ _ _ a ha)
  have h2 := no_int .sp [.au, .col] (awaitStage .pr [.sp, .au, .col] [] arrs).seen _ hr1
  have hr2 : ∀ a ∈ (awaitStage .sp [.au, .col] (awaitStage .pr [.sp, .au, .col] [] arrs).seen
      (awaitStage .pr [.sp, .au, .col] [] arrs).rest).rest, a.err = false :=
    fun a ha => hr1 a (awaitStage_rest_sub _ _ _ _ a ha)
  have h3 := no_int .au [.col] (awaitStage .sp [.au, .col] (awaitStage .pr [.sp, .au, .col] [] arrs).seen
      (awaitStage .pr [.sp, .au, .col] [] arrs).rest).seen _ hr2
  split
  · rfl
  · rw [h1]
    simp only [Bool.false_eq_true, if_false]
    split
    · rfl
    · rw [h2]
      simp only [Bool.false_eq_true, if_false]
      split
      · rfl
      · rw [h3]
        simp

/-- the 384 schedules are exactly: each of the four components reports once, in some order,
each with or without an error -/
theorem schedules_complete : schedules.length = 384 ∧ schedules.all complete = true := by decide +kernel

/-- **the stages never block and never lose an error**: in every one of the 384 schedules the
conductor gets through all four stages (or interrupts), and if any component returned an error
the conductor returns an error. -/
theorem stages_terminate_and_keep_errors :
    schedules.all (fun arrs => !(conduct arrs).blocked &&
      ((conduct arrs).err == arrs.any (·.err)) &&
      ((conduct arrs).cancelledCollector == false || arrs.any (·.err))) = true := by decide +kernel

/-- **the pinned rule lost the final round**: prompter done, then the audition's nil result is
seen before the spotlights' nil result — a legal order, since the audition stops as soon as the
spotlights told it to — and the collector is cancelled although nothing went wrong. -/
theorem old_rule_cancels_collector_in_normal_cascade :
    (conductOld [⟨.pr, false⟩, ⟨.au, false⟩, ⟨.sp, false⟩, ⟨.col, false⟩]).cancelledCollector = true := by
  decide

/-- how many of the 24 error-free orders the pinned rule got wrong -/
theorem old_rule_wrong_orders :
    ((perms [Comp.pr, .sp, .au, .col]).filter fun o =>
      (conductOld (o.map fun c => ⟨c, false⟩)).cancelledCollector).length = 23 := by decide

/-- the same schedule under the repaired rule -/
example : (conduct [⟨.pr, false⟩, ⟨.au, false⟩, ⟨.sp, false⟩, ⟨.col, false⟩]) = ⟨false, false, false⟩ := by decide
/-- and a genuine failure still interrupts -/
example : (conduct [⟨.au, true⟩, ⟨.pr, false⟩, ⟨.sp, false⟩, ⟨.col, false⟩]) = ⟨true, true, false⟩ := by decide

end stages

end Shk.C03
