import ShkModel.Lemmas.Prompt
/-!
# C04 — scenes run in script order, behind barriers, never ahead of the tempo

Model: `ShkModel/Model/Prompt.lean` (`runLine`, `runScene`, `runScenes`, `loop`, `perform` mirror
`prompter.prompt` / `runScene` / `runLine` of `pkg/cmd/prompt.go` over an abstract clock).  All that
the operating system decides — duration and exit status of each command, the delay before each
command, scene and act, the `repeat time` decisions — is the input `env : Env` (total functions), so
"for every `env`" means: for every choice of durations and every scheduling.  `fuel` bounds the
number of act occurrences (`repeat always` never ends); every theorem holds for every fuel.

A trace is the list of records of the performed actions; `r.pos.actOcc` counts act *occurrences*
(it grows with every act played, repetitions included), so "group (actOcc, scene) before group
(actOcc', scene')" covers acts in sequence, repetitions in sequence and scene groups in sequence.
-/
namespace Shk.C04
open Shk.Prompt

variable (env : Env) (play : Play) (rp : Repeat) (fuel : Nat)

/-- Every record is well-formed: start ≤ stop; its position is a position of the script (act,
scene, line and step indices in range) and actor, action and `?` mark are those of the script; the
recorded duration and status are those the command experienced. -/
theorem records_wellformed : ∀ r ∈ (perform env play rp fuel).1, WellFormed env play r :=
  fun r hr => ((perform_step env play rp fuel).src r hr).wellFormed

/-- Steps of one line (same act occurrence, scene, line) run in the listed order, each starting
after the previous one stopped. -/
theorem line_order : lineOrderOk (perform env play rp fuel).1 = true :=
  (lineOrderOk_iff _).mpr (perform_step env play rp fuel).lo

/-- … the same, spelled out. -/
theorem line_order_explicit : ∀ r ∈ (perform env play rp fuel).1, ∀ q ∈ (perform env play rp fuel).1,
    r.pos.actOcc = q.pos.actOcc → r.pos.scene = q.pos.scene → r.pos.line = q.pos.line →
    r.pos.step < q.pos.step → r.stop ≤ q.start :=
  fun r hr q hq h1 h2 h3 h4 => (perform_step env play rp fuel).lo r hr q hq ⟨h1, h2, h3⟩ h4

/-- **Barrier**: no action of a group starts before every action of every earlier group (earlier
act occurrence, or same occurrence and earlier scene) has finished.  Hence acts are sequential,
repetitions are sequential and the scene groups of an act are sequential. -/
theorem barrier : barrierOk (perform env play rp fuel).1 = true :=
  (barrierOk_iff _).mpr (perform_step env play rp fuel).bo

/-- … the same, spelled out. -/
theorem barrier_explicit : ∀ r ∈ (perform env play rp fuel).1, ∀ q ∈ (perform env play rp fuel).1,
    (r.pos.actOcc < q.pos.actOcc ∨ (r.pos.actOcc = q.pos.actOcc ∧ r.pos.scene < q.pos.scene)) →
    r.stop ≤ q.start :=
  fun r hr q hq h => (perform_step env play rp fuel).bo r hr q hq ((groupBefore_iff _ _).mpr h)

/-- Every record belongs to a recorded act occurrence, of the act it names, whose start time is
`actStartOf`. -/
theorem act_occurrence_recorded : ∀ r ∈ (perform env play rp fuel).1,
    (r.pos.actOcc, r.pos.act, actStartOf env play rp fuel r.pos.actOcc) ∈ performOccs env play rp fuel := by
  intro r hr
  obtain ⟨_, _, _, t0, _, _, _, _, h4, _⟩ := (perform_step env play rp fuel).src r hr
  have := ((perform_step env play rp fuel).occs_bnd _ h4).2.2
  simp only [actStartOf]; simp only [] at this; rw [this]; exact h4

/-- **Tempo**: no action of scene `k` starts earlier than `waitUntil k` (= column index × tempo in
the compiled play) after the start of its act occurrence. -/
theorem tempo_lower_bound :
    tempoOk play (actStartOf env play rp fuel) (perform env play rp fuel).1 = true := by
  simp only [tempoOk, List.all_eq_true]
  intro r hr
  obtain ⟨act, s, l, t0, t1, h1, h2, _, h4, h5, h6, _⟩ := (perform_step env play rp fuel).src r hr
  have hs := ((perform_step env play rp fuel).occs_bnd _ h4).2.2
  have hge := (runLine_rec env _ _ _ _ l.actor 0 t1 l.steps r h6).start_ge
  have hb : (play[r.pos.act]?).bind (·[r.pos.scene]?) = some s := by simp [h1, h2]
  have hs' : actStartOf env play rp fuel r.pos.actOcc = t0 := hs
  rw [hb]
  exact decide_eq_true (by rw [hs']; omega)

/-- … the same, spelled out. -/
theorem tempo_lower_bound_explicit : ∀ r ∈ (perform env play rp fuel).1, ∀ act s,
    play[r.pos.act]? = some act → act[r.pos.scene]? = some s →
    actStartOf env play rp fuel r.pos.actOcc + s.waitUntil ≤ r.start := by
  intro r hr act s h1 h2
  have h := tempo_lower_bound env play rp fuel
  simp only [tempoOk, List.all_eq_true] at h
  have := h r hr
  have hb : (play[r.pos.act]?).bind (·[r.pos.scene]?) = some s := by simp [h1, h2]
  rw [hb] at this
  simpa using this

/-- A later act occurrence starts at or after every stop of an earlier one (in particular
occurrence `ao + 1` after every action of occurrence `ao`). -/
theorem act_starts_monotone : ∀ r ∈ (perform env play rp fuel).1, ∀ o ∈ performOccs env play rp fuel,
    r.pos.actOcc < o.1 → r.stop ≤ actStartOf env play rp fuel o.1 := by
  intro r hr o ho hlt
  have h1 := (perform_step env play rp fuel).occs_mono.1 r hr o ho hlt
  have h2 := ((perform_step env play rp fuel).occs_bnd o ho).2.2
  simp only [actStartOf]; rw [h2]; exact h1

/-- Act occurrences start in the order of their numbers. -/
theorem act_starts_ordered : ∀ o ∈ performOccs env play rp fuel, ∀ o' ∈ performOccs env play rp fuel,
    o.1 < o'.1 → actStartOf env play rp fuel o.1 ≤ actStartOf env play rp fuel o'.1 := by
  intro o ho o' ho' hlt
  have h1 := (perform_step env play rp fuel).occs_mono.2 o ho o' ho' hlt
  have h2 := ((perform_step env play rp fuel).occs_bnd o ho).2.2
  have h3 := ((perform_step env play rp fuel).occs_bnd o' ho').2.2
  simp only [actStartOf]; rw [h2, h3]; exact h1

/-- **Distinct lines run concurrently**: within a scene started at `t` in which no line fails, the records of line
`ln` are exactly those of that line run alone from `t`, and they depend on the environment only through the decisions
for that very line — not on how long the other lines take.

(The hypothesis is what the real prompter needs: when a line fails, `runScene` cancels the other lines of the scene half
a second later — an action in flight is killed and recorded as failed, no further action of those lines starts.  That
abort is timing, the model has none of it: `runScene` runs every line to its end, so for the model the equation holds
without the hypothesis too — `concurrent_lines_independent_model` below.  What the aborted lines record is checked on
real plays, C04 / C05 "abort plays".) -/
theorem concurrent_lines_independent (env' : Env) (ao a sc t : Nat) (lines : List Line) (ln : Nat) (l : Line)
    (hl : lines[ln]? = some l)
    (_hok : (runScene env ao a sc t 0 lines).2.2 = true)
    (henv : ∀ k, env.occ ⟨ao, a, sc, ln, k⟩ = env'.occ ⟨ao, a, sc, ln, k⟩) :
    (runScene env ao a sc t 0 lines).1.filter (fun r => r.pos.line == ln) =
      (runLine env' ao a sc ln l.actor 0 t l.steps).1 := by
  have := runScene_filter env ao a sc t 0 lines ln l hl
  simp only [Nat.zero_add] at this
  rw [this, runLine_congr env env' ao a sc ln l.actor henv]

/-- the same equation for every scene of the *model* (which does not abort the other lines of a failing scene) -/
theorem concurrent_lines_independent_model (env' : Env) (ao a sc t : Nat) (lines : List Line) (ln : Nat) (l : Line)
    (hl : lines[ln]? = some l)
    (henv : ∀ k, env.occ ⟨ao, a, sc, ln, k⟩ = env'.occ ⟨ao, a, sc, ln, k⟩) :
    (runScene env ao a sc t 0 lines).1.filter (fun r => r.pos.line == ln) =
      (runLine env' ao a sc ln l.actor 0 t l.steps).1 := by
  have := runScene_filter env ao a sc t 0 lines ln l hl
  simp only [Nat.zero_add] at this
  rw [this, runLine_congr env env' ao a sc ln l.actor henv]

/-- The scene ends (barrier / WaitGroup) no earlier than any of its actions, and starts them no
earlier than its own start. -/
theorem scene_window (ao a sc t : Nat) (lines : List Line) :
    ∀ r ∈ (runScene env ao a sc t 0 lines).1,
      t ≤ r.start ∧ r.start ≤ r.stop ∧ r.stop ≤ (runScene env ao a sc t 0 lines).2.1 :=
  runScene_bnd env ao a sc t 0 lines

/-- **The barrier waits for nothing else**: a scene with an action ends exactly when its last action stops — some
record of the scene has that very stop time — and a scene without any action ends when it starts.  Together with
`scene_window` (no record stops later): end of scene = the latest stop.  Whatever delays the next scene beyond that
is the operating system's (`sceneJitter`) or the tempo (`waitUntil`), never the barrier. -/
theorem barrier_releases_at_last_stop (ao a sc t : Nat) (lines : List Line) :
    ((runScene env ao a sc t 0 lines).1 = [] ∧ (runScene env ao a sc t 0 lines).2.1 = t) ∨
    ∃ r ∈ (runScene env ao a sc t 0 lines).1,
      r.stop = (runScene env ao a sc t 0 lines).2.1 ∧
      ∀ q ∈ (runScene env ao a sc t 0 lines).1, q.stop ≤ r.stop := by
  rcases runScene_end_attained env ao a sc t 0 lines with h | ⟨r, hr, he⟩
  · exact Or.inl h
  · exact Or.inr ⟨r, hr, he, fun q hq => he ▸ (runScene_bnd env ao a sc t 0 lines q hq).2.2⟩

/-- a line ends exactly when its last performed step stops: nothing is awaited after it -/
theorem line_ends_at_last_stop (ao a sc ln t : Nat) (l : Line) :
    ((runLine env ao a sc ln l.actor 0 t l.steps).1 = [] ∧ (runLine env ao a sc ln l.actor 0 t l.steps).2.1 = t) ∨
    ∃ r ∈ (runLine env ao a sc ln l.actor 0 t l.steps).1, r.stop = (runLine env ao a sc ln l.actor 0 t l.steps).2.1 :=
  runLine_end_attained env ao a sc ln l.actor 0 t l.steps

/-! ## Non-vacuity: a concrete performance (`Shk.Prompt.Ex`) -/

-- seven actions are performed, in three act occurrences (act 2 is played twice)
example : (perform Ex.env Ex.play Ex.rp 20).1.length = 7 := by decide
example : (perform Ex.env Ex.play Ex.rp 20).1.map (·.pos.actOcc) = [0, 0, 0, 0, 0, 1, 2] := by decide
-- records in different groups exist, so the barrier statement is not vacuous
example : ∃ r ∈ (perform Ex.env Ex.play Ex.rp 20).1, ∃ q ∈ (perform Ex.env Ex.play Ex.rp 20).1,
    r.pos.groupBefore q.pos = true ∧ r.stop ≤ q.start := by decide
-- two steps of one line exist, so the line-order statement is not vacuous
example : ∃ r ∈ (perform Ex.env Ex.play Ex.rp 20).1, ∃ q ∈ (perform Ex.env Ex.play Ex.rp 20).1,
    r.pos.actOcc = q.pos.actOcc ∧ r.pos.scene = q.pos.scene ∧ r.pos.line = q.pos.line ∧
      r.pos.step < q.pos.step := by decide
-- two lines of one scene overlap in time: they do run concurrently
example : ∃ r ∈ (perform Ex.env Ex.play Ex.rp 20).1, ∃ q ∈ (perform Ex.env Ex.play Ex.rp 20).1,
    r.pos.actOcc = q.pos.actOcc ∧ r.pos.scene = q.pos.scene ∧ r.pos.line ≠ q.pos.line ∧
      r.start < q.stop ∧ q.start < r.stop := by decide
-- `concurrent_lines_independent`: its hypotheses hold for line 0 of the first scene with an
-- environment in which line 1 is slow and fails; line 0's records are the same in both
example : (∀ k, Ex.env.occ ⟨0, 0, 0, 0, k⟩ = Ex.envSlowB.occ ⟨0, 0, 0, 0, k⟩) ∧
    Ex.env.occ ⟨0, 0, 0, 1, 0⟩ ≠ Ex.envSlowB.occ ⟨0, 0, 0, 1, 0⟩ := ⟨fun _ => rfl, by decide⟩
example : (runScene Ex.env 0 0 0 3 0 [⟨"a", [⟨"x", false⟩, ⟨"y", true⟩]⟩, ⟨"b", [⟨"z", false⟩]⟩]).1.filter
      (fun r => r.pos.line == 0) =
    (runScene Ex.envSlowB 0 0 0 3 0 [⟨"a", [⟨"x", false⟩, ⟨"y", true⟩]⟩, ⟨"b", [⟨"z", false⟩]⟩]).1.filter
      (fun r => r.pos.line == 0) := by decide
-- the act starts, and the spec predicates evaluated on the concrete trace
example : (performOccs Ex.env Ex.play Ex.rp 20) = [(0, 0, 2), (1, 1, 105), (2, 1, 138)] := by decide
example : barrierOk (perform Ex.env Ex.play Ex.rp 20).1 = true := by decide
example : lineOrderOk (perform Ex.env Ex.play Ex.rp 20).1 = true := by decide
example : tempoOk Ex.play (actStartOf Ex.env Ex.play Ex.rp 20) (perform Ex.env Ex.play Ex.rp 20).1 = true := by
  decide
-- the predicates do reject wrong traces: swap start and stop of two groups
example : barrierOk [⟨⟨0, 0, 0, 0, 0⟩, "a", "x", 0, 10, true, false⟩, ⟨⟨0, 0, 1, 0, 0⟩, "a", "x", 9, 12, true, false⟩] = false := by
  decide
example : tempoOk Ex.play (fun _ => 0) [⟨⟨0, 0, 1, 0, 0⟩, "a", "x", 49, 60, true, false⟩] = false := by decide

-- the scene of the example ends with its slowest line
example : ∃ r ∈ (runScene Ex.env 0 0 0 3 0 [⟨"a", [⟨"x", false⟩, ⟨"y", true⟩]⟩, ⟨"b", [⟨"z", false⟩]⟩]).1,
    r.stop = (runScene Ex.env 0 0 0 3 0 [⟨"a", [⟨"x", false⟩, ⟨"y", true⟩]⟩, ⟨"b", [⟨"z", false⟩]⟩]).2.1 ∧ 3 < r.stop := by decide

end Shk.C04
