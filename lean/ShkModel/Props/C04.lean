import ShkModel.Model.Prompt
/-! # C04 (theorems being proved separately; placeholder) -/
namespace Shk.C04
open Shk.Prompt

theorem runLine_nil (env : Env) (ao a sc ln : Nat) (actor : String) (k t : Nat) :
    runLine env ao a sc ln actor k t [] = ([], t, true) := rfl

end Shk.C04
