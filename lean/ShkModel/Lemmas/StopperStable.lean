import ShkModel.Lemmas.StopperPhase
/-! Facts tied to finished Quiesce / Stop calls, and to the cancel functions. -/
namespace Shk.Stopper

def otherStop (l : List Ev) (j : Nat) : Bool := l.any fun p => p.k == .call && p.c == 9 && p.id != j

theorem otherStop_append {l : List Ev} {j : Nat} (h : otherStop l j = true) (m : List Ev) : otherStop (l ++ m) j = true := by
  simp only [otherStop] at h ⊢
  rw [List.any_append, h]; rfl

structure SInv (s : St) (j : Nat) (t : Thread) : Prop where
  qq : t.kind = .quiesce → (t.pc = .qWait ∨ t.pc = .done) → s.quiescing = true
  qd : t.kind = .quiesce → t.pc = .done → s.numTasks = 0
  sd : t.kind = .stop → t.pc = .done → s.dClosed = true
  sn : t.kind = .stop → t.pc = .sNoop → otherStop s.log j = true
  fu : (t.pc = .failU ∨ t.pc = .refHold) → s.quiescing = true
  ci : t.pc = .cImm → s.sClosed = true

def StableInv (s : St) : Prop := ∀ j t, s.threads[j]? = some t → SInv s j t
def StopSeen (s : St) : Prop := s.stopCalled = true → ∃ (j : Nat) (t : Thread), s.threads[j]? = some t ∧ t.kind = .stop ∧ t.pc ≠ .init

theorem sinv_frame {s s' : St} {j : Nat} {t : Thread} (m : Mono s s') (h : SInv s j t) : SInv s' j t := by
  obtain ⟨h1, h2, h3, h4, h5, h6⟩ := h
  obtain ⟨es, hl, _⟩ := m.news
  refine ⟨fun a b => m.q (h1 a b), fun a b => m.tasks0 (h1 a (Or.inr b)) (h2 a b), fun a b => m.dc (h3 a b), ?_,
    fun a => m.q (h5 a), fun a => m.sc (h6 a)⟩
  intro a b; rw [hl]; exact otherStop_append (h4 a b) es

theorem sinv_own_go {s s' : St} {i : Nat} {t : Thread} (h : goStep s i t = some s') (p : Ph s)
    (hstop : s.stopCalled = true → t.pc = .init → otherStop s.log i = true)
    (ih : SInv s i t) : ∃ t', s'.threads = s.threads.set i t' ∧ SInv s' i t' := by
  obtain ⟨h1, h2, h3, h4, h5, h6⟩ := ih
  have hd := p.dclosed
  obtain ⟨kind, pc, ret⟩ := t
  go_cases h
  all_goals (
    refine ⟨_, rfl, ?_⟩
    constructor <;> first | (simp [St.upd]; done) | simp_all [St.upd, otherStop])

theorem stopSeen_go {s s' : St} {i : Nat} {t : Thread} (h : goStep s i t = some s') (hc : s'.stopCalled = true) :
    s.stopCalled = true ∨ ∃ t', s'.threads = s.threads.set i t' ∧ t'.kind = .stop ∧ t'.pc ≠ .init := by
  obtain ⟨kind, pc, ret⟩ := t
  go_cases h
  all_goals first
    | (left; simpa [St.upd] using hc)
    | (right; exact ⟨_, rfl, rfl, by simp⟩)

theorem sinv_own_alt {s s' : St} {i : Nat} {t : Thread} (h : altStep s i t = some s') :
    ∃ t', s'.threads = s.threads.set i t' ∧ SInv s' i t' := by
  obtain ⟨kind, pc, ret⟩ := t
  alt_cases h
  all_goals (
    refine ⟨_, rfl, ?_⟩
    constructor <;> simp_all [St.upd])

theorem stable_step {s s' : St} {i : Nat} {a : Act} (h : step s i a = some s') (p : Ph s) (thr : ThreadsInv s)
    (seen : StopSeen s) (ih : StableInv s) : StableInv s' := by
  have m := mono_step h p
  obtain ⟨t, ht, ⟨_, hg⟩ | ⟨_, hg⟩ | ⟨_, hg⟩⟩ := step_elim h
  · have hstop : s.stopCalled = true → t.pc = .init → otherStop s.log i = true := by
      intro hc hpc
      obtain ⟨j, tj, hj, hk, hp⟩ := seen hc
      obtain ⟨e, he, hec, _⟩ := (thr j tj hj).call
      obtain ⟨hmem, hek, hid⟩ := callOf_mem he
      have hji : j ≠ i := by
        intro hji; subst hji; rw [ht] at hj; cases hj; exact hp hpc
      simp only [otherStop, List.any_eq_true]
      refine ⟨e, hmem, ?_⟩
      rw [hk] at hec
      simp [hek, hec, hid, Kind.code, hji]
    obtain ⟨t', hthr, hown⟩ := sinv_own_go hg p hstop (ih i t ht)
    intro j tj hj
    rw [hthr] at hj
    rcases getElem?_set_cases _ _ _ _ _ hj with ⟨rfl, rfl, _⟩ | ⟨hne, hj⟩
    · exact hown
    · exact sinv_frame m (ih j tj hj)
  · obtain ⟨v, hr, hv, rfl⟩ := retStep_elim hg
    intro j tj hj
    simp only [St.upd] at hj
    rcases getElem?_set_cases _ _ _ _ _ hj with ⟨rfl, rfl, _⟩ | ⟨hne, hj⟩
    · obtain ⟨h1, h2, h3, h4, h5, h6⟩ := sinv_frame m (ih j t ht)
      exact ⟨h1, h2, h3, h4, h5, h6⟩
    · exact sinv_frame m (ih j tj hj)
  · obtain ⟨t', hthr, hown⟩ := sinv_own_alt hg
    intro j tj hj
    rw [hthr] at hj
    rcases getElem?_set_cases _ _ _ _ _ hj with ⟨rfl, rfl, _⟩ | ⟨hne, hj⟩
    · exact hown
    · exact sinv_frame m (ih j tj hj)

theorem stopCalled_alt {s s' : St} {i : Nat} {t : Thread} (h : altStep s i t = some s') : s'.stopCalled = s.stopCalled := by
  obtain ⟨kind, pc, ret⟩ := t
  alt_cases h
  all_goals rfl

theorem seen_step {s s' : St} {i : Nat} {a : Act} (h : step s i a = some s') (ih : StopSeen s) : StopSeen s' := by
  obtain ⟨t0, ht0, sm⟩ := listSum_step h
  obtain ⟨t0', hthr0, hk0, hni0, _⟩ := sm.thr
  have old : s.stopCalled = true → ∃ (j : Nat) (t : Thread), s'.threads[j]? = some t ∧ t.kind = .stop ∧ t.pc ≠ .init := by
    intro hc
    obtain ⟨j, tj, hj, hk, hp⟩ := ih hc
    obtain ⟨tj', g1, g2, g3, g4⟩ := getElem?_set_kind (t' := t0') ht0 hk0 hj
    refine ⟨j, tj', by rw [hthr0]; exact g1, g2 ▸ hk, ?_⟩
    by_cases hji : j = i
    · obtain ⟨rfl, rfl⟩ := g4 hji
      exact hni0 hp
    · rw [g3 hji]; exact hp
  intro hc
  obtain ⟨t, ht, ⟨_, hg⟩ | ⟨_, hg⟩ | ⟨_, hg⟩⟩ := step_elim h
  · rcases stopSeen_go hg hc with h1 | ⟨t', hthr, hk, hp⟩
    · exact old h1
    · have hl := lt_length_of_getElem? ht
      exact ⟨i, t', by rw [hthr]; simp [hl], hk, hp⟩
  · obtain ⟨v, hr, hv, rfl⟩ := retStep_elim hg
    exact old hc
  · rw [stopCalled_alt hg] at hc
    exact old hc

theorem seen_reach {cap : Nat} {s : St} (h : Reach cap s) : StopSeen s := by
  induction h with
  | init => intro hc; simp [init] at hc
  | spawn s k _ ih =>
    intro hc
    obtain ⟨j, tj, hj, hk, hp⟩ := ih hc
    refine ⟨j, tj, ?_, hk, hp⟩
    simp only [spawn]
    rw [List.getElem?_append_left (lt_length_of_getElem? hj)]; exact hj
  | step s s' i a _ hs ih => exact seen_step hs ih

theorem stable_reach {cap : Nat} {s : St} (h : Reach cap s) : StableInv s := by
  induction h with
  | init => intro j t hj; simp [init] at hj
  | spawn s k hr ih =>
    intro j tj hj
    simp only [spawn] at hj
    by_cases hlt : j < s.threads.length
    · rw [List.getElem?_append_left hlt] at hj
      exact sinv_frame (mono_spawn s k) (ih j tj hj)
    · rw [List.getElem?_append_right (by omega)] at hj
      have : tj = { kind := k } := by
        by_cases h0 : j - s.threads.length = 0
        · rw [h0] at hj; simp at hj; exact hj.symm
        · have : ([({ kind := k } : Thread)])[j - s.threads.length]? = none := by
            apply List.getElem?_eq_none; simp; omega
          rw [this] at hj; cases hj
      subst this
      constructor <;> simp
  | step s s' i a hr hs ih => exact stable_step hs (ph_reach hr) (threads_reach hr) (seen_reach hr) ih

end Shk.Stopper
