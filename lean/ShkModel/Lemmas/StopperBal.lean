import ShkModel.Lemmas.StopperLists
/-! Balances of limited-task entries, and what steps never undo. -/
namespace Shk.Stopper

theorem cnt_cancelEvs (s : St) (ids : List Nat) (c : Nat) (k : EK) (hk : k ≠ .cancelled) :
    cnt (s.cancelEvs ids c) k = 0 :=
  cnt_map_other ids _ k .cancelled (fun _ => rfl) (fun e => hk e.symm)

theorem cnt_quiesceEvs (s : St) (who : Nat) (k : EK) (hk : k ≠ .cancelled) (hm : k ≠ .mark) :
    cnt (s.quiesceEvs who) k = 0 := by
  unfold St.quiesceEvs
  rw [cnt_append, cnt_cancelEvs s _ _ k hk]
  split
  · rfl
  · simp [St.ev]; intro h; exact absurd h.symm hm

/-- limited-task entries balance with the calls in the corresponding states -/
structure BalInv (s : St) : Prop where
  body : cnt s.log .bodyStart = cnt s.log .bodyEnd + s.threads.countP limRunning
  call : cnt s.log .call = cnt s.log .ret + s.threads.countP limOpen

theorem bal_go {s s' : St} {i : Nat} {t : Thread} (ht : s.threads[i]? = some t)
    (h : goStep s i t = some s') (c : BalInv s) : BalInv s' := by
  obtain ⟨c1, c2⟩ := c
  have k1 := fun n => countP_set' limRunning s.threads i t n ht
  have k2 := fun n => countP_set' limOpen s.threads i t n ht
  have p1 : limRunning t = true → 0 < s.threads.countP limRunning := fun hl =>
    List.countP_pos_iff.mpr ⟨t, List.mem_of_getElem? ht, hl⟩
  have p2 : limOpen t = true → 0 < s.threads.countP limOpen := fun hl =>
    List.countP_pos_iff.mpr ⟨t, List.mem_of_getElem? ht, hl⟩
  generalize s.threads.countP limRunning = N1 at *
  generalize s.threads.countP limOpen = N2 at *
  obtain ⟨kind, pc, ret⟩ := t
  go_cases h
  all_goals (
    constructor <;>
      simp [St.upd, k1, k2, limRunning, limOpen, Kind.isLimited, cnt_quiesceEvs, cnt_cancelEvs, St.ev, isLimCode_code]
        at p1 p2 ⊢ <;>
      omega)

theorem bal_step {s s' : St} {i : Nat} {a : Act} (h : step s i a = some s') (c : BalInv s) : BalInv s' := by
  obtain ⟨t, ht, ⟨_, hg⟩ | ⟨_, hg⟩ | ⟨_, hg⟩⟩ := step_elim h
  · exact bal_go ht hg c
  · obtain ⟨v, hr, _, rfl⟩ := retStep_elim hg
    obtain ⟨c1, c2⟩ := c
    have k1 := countP_set' limRunning s.threads i t { t with ret := true } ht
    have k2 := countP_set' limOpen s.threads i t { t with ret := true } ht
    rw [show limRunning { t with ret := true } = limRunning t from rfl] at k1
    have e2 : limOpen { t with ret := true } = false := by simp [limOpen]
    have e3 : limOpen t = t.kind.isLimited := by simp [limOpen, hr]
    rw [e2, e3] at k2
    have hpos : t.kind.isLimited = true → 0 < s.threads.countP limOpen := by
      intro hl
      apply List.countP_pos_iff.mpr
      exact ⟨t, List.mem_of_getElem? ht, by rw [e3]; exact hl⟩
    generalize s.threads.countP limRunning = N1 at *
    generalize s.threads.countP limOpen = N2 at *
    constructor <;> simp only [St.upd, k1, k2, St.ev, isLimCode_code, cnt_append, cnt_cons, cnt_nil]
    · have : (EK.ret == EK.bodyStart) = false := by decide
      have : (EK.ret == EK.bodyEnd) = false := by decide
      simp [*] <;> omega
    · have : (EK.ret == EK.call) = false := by decide
      cases hl : t.kind.isLimited <;> simp [*] at hpos ⊢ <;> omega
  · obtain ⟨c1, c2⟩ := c
    have k1 := fun n => countP_set' limRunning s.threads i t n ht
    have k2 := fun n => countP_set' limOpen s.threads i t n ht
    have p1 : limRunning t = true → 0 < s.threads.countP limRunning := fun hl =>
      List.countP_pos_iff.mpr ⟨t, List.mem_of_getElem? ht, hl⟩
    have p2 : limOpen t = true → 0 < s.threads.countP limOpen := fun hl =>
      List.countP_pos_iff.mpr ⟨t, List.mem_of_getElem? ht, hl⟩
    generalize s.threads.countP limRunning = N1 at *
    generalize s.threads.countP limOpen = N2 at *
    obtain ⟨kind, pc, ret⟩ := t
    alt_cases hg
    all_goals (
      constructor <;>
        simp [St.upd, k1, k2, limRunning, limOpen, Kind.isLimited, St.ev, Kind.code, isLimCode] at p1 p2 ⊢ <;> omega)

theorem bal_reach {cap : Nat} {s : St} (h : Reach cap s) : BalInv s := by
  induction h with
  | init => constructor <;> simp [init]
  | spawn s k _ ih =>
    obtain ⟨c1, c2⟩ := ih
    constructor <;> simp [spawn, limRunning, limOpen, List.countP_append, St.ev, isLimCode_code]
    · omega
    · cases k.isLimited <;> simp <;> omega
  | step s s' i a _ hs ih => exact bal_step hs ih

end Shk.Stopper
