import ShkModel.Model.Reader
/-! Invariants of the reader (used by Props/C09 and Props/C20).  All statements are about the
repaired code (`old = false`). -/
namespace Shk.Reader
open Shk.Preproc

/-! ### `gather` -/

theorem gather_line_false (tail : Bytes) (bad : Bool) :
    ∀ (rest : List Bytes) (acc : Bytes) (k0 : Nat) {text : Bytes} {rest' : List Bytes} {k : Nat},
      gather tail bad acc rest k0 = .line text rest' k false →
      ∃ used, rest = used ++ rest' ∧ used ≠ [] ∧ k = k0 + used.length := by
  intro rest
  induction rest with
  | nil =>
    intro acc k0 text rest' k h
    unfold gather at h
    split at h
    · cases h
    · split at h
      · cases h
      · cases h
  | cons l rest ih =>
    intro acc k0 text rest' k h
    unfold gather at h
    split at h
    · obtain ⟨used, h1, _, h3⟩ := ih _ _ h
      exact ⟨l :: used, by rw [h1]; rfl, by simp, by simp; omega⟩
    · injection h with h1 h2 h3 h4
      exact ⟨[l], by rw [h2]; rfl, by simp, by simp; omega⟩

/-- the physical lines before the cursor end a logical line: there is none, or the last one has no continuation mark -/
def LS (pre : List Bytes) : Prop := ∀ l, pre.getLast? = some l → endsBackslash l = false

theorem LS_nil : LS [] := by intro l h; cases h

/-- the last physical line a complete logical line is gathered from has no continuation mark -/
theorem gather_line_false_last (tail : Bytes) (bad : Bool) :
    ∀ (rest : List Bytes) (acc : Bytes) (k0 : Nat) {text : Bytes} {rest' : List Bytes} {k : Nat},
      gather tail bad acc rest k0 = .line text rest' k false →
      ∃ used l, rest = used ++ l :: rest' ∧ endsBackslash l = false := by
  intro rest
  induction rest with
  | nil =>
    intro acc k0 text rest' k h
    unfold gather at h
    split at h
    · cases h
    · split at h
      · cases h
      · cases h
  | cons l rest ih =>
    intro acc k0 text rest' k h
    unfold gather at h
    split at h
    · obtain ⟨used, l', h1, h2⟩ := ih _ _ h
      exact ⟨l :: used, l', by rw [h1]; rfl, h2⟩
    · rename_i hnb
      injection h with h1 h2 h3 h4
      exact ⟨[], l, by rw [h2]; rfl, by simpa using hnb⟩

theorem LS_append_cons (pre used : List Bytes) (l : Bytes) (h : endsBackslash l = false) : LS (pre ++ (used ++ [l])) := by
  intro x hx
  rw [← List.append_assoc, List.getLast?_append] at hx
  simp at hx
  rw [← hx]; exact h

theorem gather_line_true (tail : Bytes) (bad : Bool) :
    ∀ (rest : List Bytes) (acc : Bytes) (k0 : Nat) {text : Bytes} {rest' : List Bytes} {k : Nat},
      gather tail bad acc rest k0 = .line text rest' k true →
      bad = false ∧ rest' = [] ∧ k = k0 + rest.length + 1 ∧
        ((acc ≠ [] ∨ rest ≠ []) → tail ≠ []) ∧ (rest = [] → text = acc ++ tail) := by
  intro rest
  induction rest with
  | nil =>
    intro acc k0 text rest' k h
    unfold gather at h
    split at h
    · cases h
    · rename_i hb
      split at h
      · cases h
      · rename_i hacc
        injection h with h1 h2 h3 h4
        refine ⟨by simpa using hb, h2.symm, by simp [← h3], ?_, fun _ => h1.symm⟩
        intro hne
        rcases hne with hne | hne
        · intro ht; exact hacc ⟨hne, ht⟩
        · exact absurd rfl hne
  | cons l rest ih =>
    intro acc k0 text rest' k h
    unfold gather at h
    split at h
    · obtain ⟨h1, h2, h3, h4, _⟩ := ih _ _ h
      refine ⟨h1, h2, by simp [h3]; omega, fun _ => h4 (.inl (by simp)), fun e => by cases e⟩
    · injection h with _ _ _ h4
      cases h4

theorem gather_eofCont (tail : Bytes) (bad : Bool) :
    ∀ (rest : List Bytes) (acc : Bytes) (k0 : Nat) {k : Nat},
      gather tail bad acc rest k0 = .eofCont k →
      bad = false ∧ k = k0 + rest.length + 1 ∧ (acc = [] → rest ≠ []) := by
  intro rest
  induction rest with
  | nil =>
    intro acc k0 k h
    unfold gather at h
    split at h
    · cases h
    · rename_i hb
      split at h
      · rename_i hacc
        injection h with h1
        exact ⟨by simpa using hb, by simp; omega, fun e => absurd e hacc.1⟩
      · cases h
  | cons l rest ih =>
    intro acc k0 k h
    unfold gather at h
    split at h
    · obtain ⟨h1, h2, _⟩ := ih _ _ h
      exact ⟨h1, by simp; omega, fun _ => by simp⟩
    · cases h

theorem gather_readErr (tail : Bytes) (bad : Bool) :
    ∀ (rest : List Bytes) (acc : Bytes) (k0 : Nat) {k : Nat},
      gather tail bad acc rest k0 = .readErr k → bad = true ∧ k = k0 + rest.length := by
  intro rest
  induction rest with
  | nil =>
    intro acc k0 k h
    unfold gather at h
    split at h
    · rename_i hb
      injection h with h1
      exact ⟨hb, by simp; omega⟩
    · split at h <;> cases h
  | cons l rest ih =>
    intro acc k0 k h
    unfold gather at h
    split at h
    · obtain ⟨h1, h2⟩ := ih _ _ h
      exact ⟨h1, by simp; omega⟩
    · cases h

theorem trimSpace_nil : trimSpace [] = [] := by decide

theorem ignore_nil : ignoreLine (trimSpace []) = true := by decide

/-! ### Invariants -/

/-- the frame is a faithful cursor into the file it names -/
def FrameOK (fs : FS) (f : Frame) : Prop :=
  ∃ body tail0, fs f.file = .file body tail0 f.bad ∧ f.lineno = f.nl + 1 ∧
    ((f.tail = tail0 ∧ ∃ pre, body = pre ++ f.rest ∧ pre.length = f.nl ∧ LS pre) ∨
     (f.rest = [] ∧ f.tail = [] ∧ f.bad = false ∧ body.length < f.nl))

/-- `(file, l)`: physical lines `l-k … l-1` of `file` are an include directive -/
def AfterInclude (fs : FS) (file : Name) (l : Nat) : Prop :=
  ∃ body tail bad, fs file = .file body tail bad ∧ 2 ≤ l ∧ l ≤ nphys body tail bad + 1 ∧
    ∃ k text rest eof, 1 ≤ k ∧ k < l ∧
      clauseAt body tail bad (l - k) = .line text rest k eof ∧ (includeArg (trimSpace text)).isSome = true

/-- a frame suspended behind an include directive -/
def Susp (fs : FS) (f : Frame) : Prop := FrameOK fs f ∧ AfterInclude fs f.file f.lineno

def Inv (fs : FS) : List Frame → Prop
  | [] => True
  | top :: below => below.length + 1 ≤ 10 ∧ FrameOK fs top ∧ ∀ f ∈ below, Susp fs f

def ChainOK (fs : FS) (chain : List (Name × Nat)) : Prop := ∀ p ∈ chain, AfterInclude fs p.1 p.2

/-- the position exists, the context window is inside `lines`, the chain is right (up to the
off-by-one stated in `AfterInclude`: it names the line after the directive) -/
def DiagOK (fs : FS) (d : Diag) : Prop :=
  (∃ body tail bad, fs d.file = .file body tail bad ∧ 1 ≤ d.line ∧ d.line ≤ nphys body tail bad) ∧
  d.ctxLo ≤ d.line - 1 ∧ d.line - 1 ≤ d.ctxHi ∧ d.ctxHi < d.nl ∧ ChainOK fs d.chain

/-- physical line `line` (1-based) of `body` starts a logical line: it is the first one, or the line before it has no
continuation mark -/
def LineStart (body : List Bytes) (line : Nat) : Prop :=
  line = 1 ∨ ∃ l, body[line - 2]? = some l ∧ endsBackslash l = false

/-- what is known about a clause handed to the parser -/
def ClauseFacts (fs : FS) (text : Bytes) (line : Nat) (r : Frame) (below : List Frame) : Prop :=
  ∃ d, wrapErr r below line .clause = some d ∧ DiagOK fs d ∧ d.file = r.file ∧ d.line = line ∧
    d.chain = chainOf below ∧ d.kind = .clause ∧
    ∃ body tail bad raw rest k eof, fs r.file = .file body tail bad ∧
      clauseAt body tail bad line = .line raw rest k eof ∧ text = trimSpace raw ∧ LineStart body line

theorem chain_ok {fs : FS} {below : List Frame} (h : ∀ f ∈ below, Susp fs f) :
    ChainOK fs (chainOf below) := by
  intro p hp
  simp only [chainOf, List.mem_map] at hp
  obtain ⟨f, hf, rfl⟩ := hp
  exact (h f hf).2

theorem drop_pre (pre rest : List Bytes) : (pre ++ rest).drop pre.length = rest := by
  induction pre with
  | nil => rfl
  | cons a pre ih => simp

/-- the frame after a gathered line is still a faithful cursor -/
theorem advance_ok {fs : FS} {r : Frame} (h : FrameOK fs r) {text : Bytes} {rest : List Bytes}
    {k : Nat} {eof : Bool} (hg : gather r.tail r.bad [] r.rest 0 = .line text rest k eof) :
    FrameOK fs (r.advance rest k eof) := by
  obtain ⟨body, tail0, hfs, hln, hd⟩ := h
  cases eof with
  | false =>
    obtain ⟨used, h1, _, h3⟩ := gather_line_false _ _ _ _ _ hg
    obtain ⟨used', lst, h1', hlst⟩ := gather_line_false_last _ _ _ _ _ hg
    have hused : used = used' ++ [lst] := by
      have : used ++ rest = (used' ++ [lst]) ++ rest := by rw [← h1, h1']; simp
      exact List.append_cancel_right this
    rcases hd with ⟨ht, pre, hb, hp, _⟩ | ⟨hr, _, _, _⟩
    · refine ⟨body, tail0, hfs, ?_, Or.inl ⟨ht, pre ++ used, ?_, ?_, ?_⟩⟩
      · simp [Frame.advance]; omega
      · simp [Frame.advance, hb, h1]
      · simp [Frame.advance, hp]; omega
      · rw [hused]; exact LS_append_cons pre used' lst hlst
    · rw [hr] at h1
      have : used = [] := (List.append_eq_nil_iff.mp h1.symm).1
      contradiction
  | true =>
    obtain ⟨hb, hr', hk, _, _⟩ := gather_line_true _ _ _ _ _ hg
    refine ⟨body, tail0, hfs, ?_, Or.inr ⟨?_, ?_, hb, ?_⟩⟩
    · simp [Frame.advance]; omega
    · simp [Frame.advance, hr']
    · simp [Frame.advance]
    · rcases hd with ⟨_, pre, hbody, hp, _⟩ | ⟨_, _, _, hlt⟩
      · have : body.length = pre.length + r.rest.length := by rw [hbody]; simp
        simp [Frame.advance]; omega
      · simp [Frame.advance]; omega

/-- where a non-blank logical line sits in its file -/
theorem line_pos {fs : FS} {r : Frame} (h : FrameOK fs r) {text : Bytes} {rest : List Bytes}
    {k : Nat} {eof : Bool} (hg : gather r.tail r.bad [] r.rest 0 = .line text rest k eof)
    (hni : ignoreLine (trimSpace text) = false) :
    ∃ body tail0, fs r.file = .file body tail0 r.bad ∧
      clauseAt body tail0 r.bad r.lineno = .line text rest k eof ∧
      (1 ≤ k ∧ r.nl + k ≤ nphys body tail0 r.bad ∧ (eof = true → r.tail ≠ [])) ∧ LineStart body r.lineno := by
  obtain ⟨body, tail0, hfs, hln, hd⟩ := h
  rcases hd with ⟨ht, pre, hb, hp, hls⟩ | ⟨hr, htl, hbad, _⟩
  · refine ⟨body, tail0, hfs, ?_, ?_, ?_⟩
    rotate_left 2
    · -- the cursor is at the start of a logical line
      unfold LineStart
      cases hpre : pre.getLast? with
      | none =>
        have : pre = [] := by simpa using hpre
        left; rw [hln, ← hp, this]; rfl
      | some l =>
        right
        refine ⟨l, ?_, hls l hpre⟩
        have hne : pre ≠ [] := by intro e; rw [e] at hpre; cases hpre
        have hlen : 0 < pre.length := List.length_pos_iff.mpr hne
        have hidx : r.lineno - 2 = pre.length - 1 := by omega
        rw [hidx, hb, List.getElem?_append_left (by omega)]
        rw [List.getLast?_eq_getElem?] at hpre
        exact hpre
    · unfold clauseAt
      have : body.drop (r.lineno - 1) = r.rest := by
        rw [hln, hb, Nat.add_sub_cancel, ← hp, drop_pre]
      rw [this, ← ht]
      exact hg
    · cases eof with
      | false =>
        obtain ⟨used, h1, h2, h3⟩ := gather_line_false _ _ _ _ _ hg
        have hul : 1 ≤ used.length := by
          cases used with
          | nil => contradiction
          | cons a u => simp
        refine ⟨by omega, ?_, by simp⟩
        have : body.length = pre.length + (used.length + rest.length) := by
          rw [hb, h1]; simp
        unfold nphys
        omega
      | true =>
        obtain ⟨_, _, hk, htl, htext⟩ := gather_line_true _ _ _ _ _ hg
        have htne : r.tail ≠ [] := by
          by_cases hrest : r.rest = []
          · intro e
            have := htext hrest
            rw [this, e] at hni
            simp only [List.append_nil, List.nil_append] at hni
            rw [ignore_nil] at hni
            cases hni
          · exact htl (.inr hrest)
        refine ⟨by omega, ?_, fun _ => htne⟩
        have : body.length = pre.length + r.rest.length := by rw [hb]; simp
        unfold nphys
        rw [← ht]
        simp [htne]
        omega
  · exfalso
    rw [hr, htl, hbad] at hg
    have : text = [] := by
      simp [gather] at hg
      exact hg.1
    rw [this, ignore_nil] at hni
    cases hni

theorem ctx_bounds (idx nl : Nat) (h : idx < nl) :
    ctxLo idx ≤ idx ∧ idx ≤ ctxHi idx nl ∧ ctxHi idx nl < nl := by
  unfold ctxLo ctxHi
  refine ⟨?_, ?_, ?_⟩
  · split <;> omega
  · split
    · split <;> omega
    · omega
  · split
    · split <;> omega
    · omega

/-- `wrapErr` at a line that has been recorded, in a file where it exists -/
theorem wrap_ok {fs : FS} {r : Frame} {below : List Frame} {start : Nat} (kind : ErrKind)
    {body : List Bytes} {tail : Bytes} {bad : Bool}
    (hfs : fs r.file = .file body tail bad) (h1 : 1 ≤ start) (h2 : start ≤ nphys body tail bad)
    (hnl : start - 1 < r.nl) (hb : ∀ f ∈ below, Susp fs f) :
    ∃ d, wrapErr r below start kind = some d ∧ DiagOK fs d ∧ d.file = r.file ∧ d.line = start ∧
      d.chain = chainOf below ∧ d.kind = kind := by
  refine ⟨{ file := r.file, line := start, ctxLo := ctxLo (start - 1), ctxHi := ctxHi (start - 1) r.nl,
            nl := r.nl, chain := chainOf below, kind := kind }, by simp [wrapErr, hnl], ?_, rfl, rfl, rfl, rfl⟩
  obtain ⟨a, b, c⟩ := ctx_bounds (start - 1) r.nl hnl
  exact ⟨⟨body, tail, bad, hfs, h1, h2⟩, a, b, c, chain_ok hb⟩

/-! ### `search` -/

theorem search_hit {fs : FS} {name : Bytes} :
    ∀ (cands : List Name) {c : Name} {b : List Bytes} {t : Bytes} {bad : Bool},
      search false fs name cands = .hit c b t bad →
      ∃ pre p post, cands = pre ++ p :: post ∧ c = goJoin p name ∧
        (∀ q ∈ pre, fs (goJoin q name) = .missing) ∧ fs c = .file b t bad := by
  intro cands
  induction cands with
  | nil => intro c b t bad h; simp [search] at h
  | cons p ps ih =>
    intro c b t bad h
    unfold search at h
    split at h
    · rename_i hm
      obtain ⟨pre, p', post, h1, h2, h3, h4⟩ := ih h
      refine ⟨p :: pre, p', post, by rw [h1]; rfl, h2, ?_, h4⟩
      intro q hq
      cases hq with
      | head => exact hm
      | tail _ hq => exact h3 q hq
    · cases h
    · simp at h
    · rename_i b' t' bad' hf
      injection h with h1 h2 h3 h4
      subst h1 h2 h3 h4
      exact ⟨[], p, ps, rfl, rfl, by simp, hf⟩

theorem search_notFound {fs : FS} {name : Bytes} :
    ∀ (cands : List Name), search false fs name cands = .notFound →
      ∀ q ∈ cands, fs (goJoin q name) = .missing := by
  intro cands
  induction cands with
  | nil => intro _ q hq; simp at hq
  | cons p ps ih =>
    intro h q hq
    unfold search at h
    split at h
    · rename_i hm
      cases hq with
      | head => exact hm
      | tail _ hq => exact ih h q hq
    · cases h
    · simp at h
    · cases h

theorem search_openErr {fs : FS} {name : Bytes} :
    ∀ (cands : List Name) {c : Name}, search false fs name cands = .openErr c →
      ∃ pre p post, cands = pre ++ p :: post ∧ c = goJoin p name ∧
        (∀ q ∈ pre, fs (goJoin q name) = .missing) ∧ fs c = .denied := by
  intro cands
  induction cands with
  | nil => intro c h; simp [search] at h
  | cons p ps ih =>
    intro c h
    unfold search at h
    split at h
    · rename_i hm
      obtain ⟨pre, p', post, h1, h2, h3, h4⟩ := ih h
      refine ⟨p :: pre, p', post, by rw [h1]; rfl, h2, ?_, h4⟩
      intro q hq
      cases hq with
      | head => exact hm
      | tail _ hq => exact h3 q hq
    · rename_i hf
      injection h with h1
      subst h1
      exact ⟨[], p, ps, rfl, rfl, by simp, hf⟩
    · simp at h
    · cases h

theorem search_isDir {fs : FS} {name : Bytes} :
    ∀ (cands : List Name) {c : Name}, search false fs name cands = .isDir c →
      ∃ pre p post, cands = pre ++ p :: post ∧ c = goJoin p name ∧
        (∀ q ∈ pre, fs (goJoin q name) = .missing) ∧ fs c = .dir := by
  intro cands
  induction cands with
  | nil => intro c h; simp [search] at h
  | cons p ps ih =>
    intro c h
    unfold search at h
    split at h
    · rename_i hm
      obtain ⟨pre, p', post, h1, h2, h3, h4⟩ := ih h
      refine ⟨p :: pre, p', post, by rw [h1]; rfl, h2, ?_, h4⟩
      intro q hq
      cases hq with
      | head => exact hm
      | tail _ hq => exact h3 q hq
    · cases h
    · rename_i hf
      simp at h
      subst h
      exact ⟨[], p, ps, rfl, rfl, by simp, hf⟩
    · cases h

/-! ### The measure -/

/-- `ReadString` calls the frame can still serve before it is finished -/
def rem (f : Frame) : Nat := f.rest.length + (if f.tail = [] then 1 else 2)

/-- potential of a stack: every remaining call of a frame weighs a whole included file of the
levels above it -/
def phi (L : Nat) : List Frame → Nat
  | [] => 0
  | f :: below => rem f * weight L (9 - below.length) + phi L below

/-- no file has more than `L` complete lines -/
def Small (L : Nat) (fs : FS) : Prop := ∀ n b t bad, fs n = .file b t bad → b.length ≤ L

theorem weight_pos (L k : Nat) : 1 ≤ weight L k := by
  cases k <;> simp [weight]

theorem rem_pos (f : Frame) : 1 ≤ rem f := by
  unfold rem; split <;> omega

theorem rem_advance_lt {r : Frame} {text : Bytes} {rest : List Bytes} {k : Nat} {eof : Bool}
    (hg : gather r.tail r.bad [] r.rest 0 = .line text rest k eof) (ht : eof = true → r.tail ≠ []) :
    rem (r.advance rest k eof) + 1 ≤ rem r := by
  cases eof with
  | false =>
    obtain ⟨used, h1, h2, _⟩ := gather_line_false _ _ _ _ _ hg
    have hul : 1 ≤ used.length := by
      cases used with
      | nil => contradiction
      | cons a u => simp
    have : r.rest.length = used.length + rest.length := by rw [h1]; simp
    simp only [rem, Frame.advance]
    simp
    omega
  | true =>
    obtain ⟨_, hr', _, _, _⟩ := gather_line_true _ _ _ _ _ hg
    have := ht rfl
    simp only [rem, Frame.advance, hr']
    simp [this]

theorem phi_step {L : Nat} {r r' : Frame} (below : List Frame) (h : rem r' + 1 ≤ rem r) :
    phi L (r' :: below) < phi L (r :: below) := by
  simp only [phi]
  have hw := weight_pos L (9 - below.length)
  have : (rem r' + 1) * weight L (9 - below.length) ≤ rem r * weight L (9 - below.length) :=
    Nat.mul_le_mul_right _ h
  rw [Nat.add_mul, Nat.one_mul] at this
  omega

theorem phi_pop {L : Nat} (r : Frame) (below : List Frame) : phi L below < phi L (r :: below) := by
  simp only [phi]
  have hw := weight_pos L (9 - below.length)
  have hr := rem_pos r
  have : 1 * weight L (9 - below.length) ≤ rem r * weight L (9 - below.length) :=
    Nat.mul_le_mul_right _ hr
  omega

theorem phi_push {L : Nat} {r r' c : Frame} (below : List Frame) (h : rem r' + 1 ≤ rem r)
    (hd : below.length + 1 < 10) (hc : rem c ≤ L + 2) :
    phi L (c :: r' :: below) < phi L (r :: below) := by
  simp only [phi, List.length_cons]
  have e : 9 - below.length = (9 - (below.length + 1)) + 1 := by omega
  have hw : weight L (9 - below.length) = 1 + (L + 2) * weight L (9 - (below.length + 1)) := by
    rw [e]; rfl
  have h1 : (rem r' + 1) * weight L (9 - below.length) ≤ rem r * weight L (9 - below.length) :=
    Nat.mul_le_mul_right _ h
  rw [Nat.add_mul, Nat.one_mul] at h1
  have h2 : rem c * weight L (9 - (below.length + 1)) ≤ (L + 2) * weight L (9 - (below.length + 1)) :=
    Nat.mul_le_mul_right _ hc
  omega

theorem rem_new {L : Nat} {fs : FS} (hs : Small L fs) {cand : Name} {b : List Bytes} {t : Bytes}
    {bad : Bool} (hf : fs cand = .file b t bad) : rem (newFrame cand b t bad) ≤ L + 2 := by
  have := hs cand b t bad hf
  simp only [rem, newFrame]
  by_cases ht : t = [] <;> simp [ht] <;> omega

theorem new_ok {fs : FS} {cand : Name} {b : List Bytes} {t : Bytes} {bad : Bool}
    (hf : fs cand = .file b t bad) : FrameOK fs (newFrame cand b t bad) :=
  ⟨b, t, hf, rfl, Or.inl ⟨rfl, [], rfl, rfl, LS_nil⟩⟩

/-! ### One call of `readLine` -/

/-- what one call of `readLine` guarantees, starting from a state that satisfies `Inv` -/
def StepSpec (fs : FS) (L : Nat) (ipath : List Name) (tbl : Table) (st : List Frame) : RL → Prop
  | .panic => False
  | .stop => True
  | .err d => DiagOK fs d ∧ d.kind ≠ .clause
  | .skip st' => Inv fs st' ∧ (Small L fs → phi L st' < phi L st) ∧
      -- a push uses the first existing candidate in the documented order
      (∀ c r' below, st' = c :: r' :: below → st'.length = st.length + 1 →
        ∃ arg pre p post, goDir r'.file :: ipath = pre ++ p :: post ∧
          c.file = goJoin p (preprocReplace tbl arg).1 ∧
          (∀ q ∈ pre, fs (goJoin q (preprocReplace tbl arg).1) = .missing) ∧
          (∃ b t bad, fs c.file = .file b t bad) ∧ (preprocReplace tbl arg).2 = [])
  | .clause text line r' below' => Inv fs (r' :: below') ∧
      (Small L fs → phi L (r' :: below') < phi L st) ∧ ClauseFacts fs text line r' below'

theorem orPanic_spec {fs : FS} {L : Nat} {ipath : List Name} {tbl : Table} {st : List Frame}
    {o : Option Diag} {kind : ErrKind}
    (h : ∃ d, o = some d ∧ DiagOK fs d ∧ d.kind = kind) (hk : kind ≠ .clause) :
    StepSpec fs L ipath tbl st (orPanic o) := by
  obtain ⟨d, rfl, hd, hkd⟩ := h
  exact ⟨hd, by rw [hkd]; exact hk⟩

theorem wrap_weaken {fs : FS} {r : Frame} {below : List Frame} {start : Nat} {kind : ErrKind}
    (h : ∃ d, wrapErr r below start kind = some d ∧ DiagOK fs d ∧ d.file = r.file ∧ d.line = start ∧
      d.chain = chainOf below ∧ d.kind = kind) :
    ∃ d, wrapErr r below start kind = some d ∧ DiagOK fs d ∧ d.kind = kind := by
  obtain ⟨d, a, b, _, _, _, c⟩ := h
  exact ⟨d, a, b, c⟩

theorem readLine_spec {fs : FS} (L : Nat) (ipath : List Name) (tbl : Table) :
    ∀ (st : List Frame), Inv fs st → StepSpec fs L ipath tbl st (readLine fs ipath tbl st) := by
  intro st hinv
  cases st with
  | nil => exact True.intro
  | cons r below =>
    obtain ⟨hdepth, hok, hbelow⟩ := hinv
    show StepSpec fs L ipath tbl (r :: below) (readLineG false fs ipath tbl (r :: below))
    unfold readLineG
    have hok' := hok
    obtain ⟨body, tail0, hfs, hln, hd⟩ := hok'
    cases hg : gather r.tail r.bad [] r.rest 0 with
    | readErr k =>
      simp only [hg]
      obtain ⟨hbad, hk⟩ := gather_readErr _ _ _ _ _ hg
      apply orPanic_spec (kind := .read) _ (by simp)
      apply wrap_weaken
      have hnl : r.lineno ≤ body.length + 1 := by
        rcases hd with ⟨_, pre, hb, hp⟩ | ⟨_, _, hb, _⟩
        · have : body.length = pre.length + r.rest.length := by rw [hb]; simp
          omega
        · rw [hb] at hbad; cases hbad
      exact wrap_ok (r := { r with nl := r.nl + k + 1 }) .read hfs (by omega)
        (by unfold nphys; rw [hbad]; simpa using hnl) (by simp; omega) hbelow
    | eofCont k =>
      simp only [hg]
      obtain ⟨_, hk, hne⟩ := gather_eofCont _ _ _ _ _ hg
      have hrne := hne rfl
      apply orPanic_spec (kind := .eofCont) _ (by simp)
      apply wrap_weaken
      have hnl : r.lineno ≤ body.length := by
        rcases hd with ⟨_, pre, hb, hp⟩ | ⟨hr, _, _, _⟩
        · have : body.length = pre.length + r.rest.length := by rw [hb]; simp
          have : 1 ≤ r.rest.length := by
            cases hrr : r.rest with
            | nil => exact absurd hrr hrne
            | cons a u => simp
          omega
        · exact absurd hr hrne
      exact wrap_ok (r := r.advance [] k true) .eofCont hfs (by omega)
        (by unfold nphys; omega) (by simp [Frame.advance]; omega) hbelow
    | line text rest k eof =>
      simp only [hg]
      have hadv := advance_ok hok hg
      by_cases hign : ignoreLine (trimSpace text) = true
      · rw [if_pos hign]
        cases eof with
        | true =>
          simp only [if_true]
          cases below with
          | nil => exact True.intro
          | cons f below' =>
            simp only [List.isEmpty_cons, Bool.false_eq_true, if_false]
            refine ⟨⟨?_, (hbelow f (by simp)).1, fun g hg' => hbelow g (by simp [hg'])⟩,
              fun _ => phi_pop r (f :: below'), ?_⟩
            · simp at hdepth ⊢; omega
            · intro c r' bl _ hl
              simp at hl
        | false =>
          simp only [Bool.false_eq_true, if_false]
          refine ⟨⟨hdepth, hadv, hbelow⟩,
            fun _ => phi_step below (rem_advance_lt hg (by simp)), ?_⟩
          intro c r' bl _ hl
          simp at hl
      · have hni : ignoreLine (trimSpace text) = false := by simpa using hign
        rw [if_neg hign]
        obtain ⟨body', tail', hfs', hcl, ⟨hk1, hnp, htl⟩, hstart⟩ := line_pos hok hg hni
        have hrem := rem_advance_lt hg htl
        have hwrap : ∀ kind, ∃ d, wrapErr (r.advance rest k eof) below r.lineno kind = some d ∧
            DiagOK fs d ∧ d.file = (r.advance rest k eof).file ∧ d.line = r.lineno ∧
            d.chain = chainOf below ∧ d.kind = kind := fun kind =>
          wrap_ok (r := r.advance rest k eof) kind (by simpa [Frame.advance] using hfs') (by omega)
            (by omega) (by simp [Frame.advance]; omega) hbelow
        unfold dispatch
        cases harg : includeArg (trimSpace text) with
        | none =>
          simp only
          refine ⟨⟨hdepth, hadv, hbelow⟩, fun _ => phi_step below hrem, ?_⟩
          obtain ⟨d, h1, h2, h3, h4, h5, h6⟩ := hwrap .clause
          exact ⟨d, h1, h2, h3, h4, h5, h6, body', tail', r.bad, text, rest, k, eof,
            by simpa [Frame.advance] using hfs', hcl, rfl, hstart⟩
        | some arg =>
          simp only
          split
          · exact orPanic_spec (wrap_weaken (hwrap .depth)) (by simp)
          · rename_i hdep
            split
            · exact orPanic_spec (wrap_weaken (hwrap (.undef _))) (by simp)
            · rename_i hundef
              cases hs : search false fs (preprocReplace tbl arg).1
                  (goDir (r.advance rest k eof).file :: ipath) with
              | notFound => exact orPanic_spec (wrap_weaken (hwrap (.notFound _))) (by simp)
              | openErr c => exact orPanic_spec (wrap_weaken (hwrap (.openErr _))) (by simp)
              | isDir c => exact orPanic_spec (wrap_weaken (hwrap (.isDir _))) (by simp)
              | hit cand b t bad =>
                simp only
                obtain ⟨pre, p, post, e1, e2, e3, e4⟩ := search_hit _ hs
                have hsusp : Susp fs (r.advance rest k eof) := by
                  refine ⟨hadv, body', tail', r.bad, by simpa [Frame.advance] using hfs', ?_, ?_,
                    k, text, rest, eof, hk1, ?_, ?_, by rw [harg]; rfl⟩
                  · simp [Frame.advance]; omega
                  · simp [Frame.advance]; omega
                  · simp [Frame.advance]; omega
                  · have : (r.advance rest k eof).lineno - k = r.lineno := by
                      simp [Frame.advance]
                    rw [this]
                    exact hcl
                refine ⟨⟨?_, new_ok e4, ?_⟩, fun hsm => phi_push below hrem (by omega) (rem_new hsm e4), ?_⟩
                · simp; omega
                · intro g hg'
                  cases hg' with
                  | head => exact hsusp
                  | tail _ hg' => exact hbelow g hg'
                · intro c r' bl hst _
                  injection hst with hc hrest
                  injection hrest with hr' _
                  subst hc hr'
                  exact ⟨arg, pre, p, post, e1, e2, e3, ⟨b, t, bad, e4⟩, by simpa using hundef⟩

end Shk.Reader

namespace Shk.Reader
open Shk.Preproc

/-- "EOF encountered while expecting line continuation" is only said of a file whose last physical line ends in a
backslash-newline with nothing after it: no unterminated remainder, every gathered line ended in a backslash -/
theorem gather_eofCont_truthful (tail : Bytes) (bad : Bool) :
    ∀ (rest : List Bytes) (acc : Bytes) (k0 : Nat) {k : Nat},
      gather tail bad acc rest k0 = .eofCont k → tail = [] ∧ ∀ l ∈ rest, endsBackslash l = true := by
  intro rest
  induction rest with
  | nil =>
    intro acc k0 k h
    unfold gather at h
    split at h
    · cases h
    · split at h
      · rename_i hacc; exact ⟨hacc.2, fun l hl => by cases hl⟩
      · cases h
  | cons l rest ih =>
    intro acc k0 k h
    unfold gather at h
    split at h
    · rename_i hl
      obtain ⟨h1, h2⟩ := ih _ _ h
      exact ⟨h1, fun x hx => by
        rcases List.mem_cons.mp hx with rfl | hx
        · exact hl
        · exact h2 x hx⟩
    · cases h

end Shk.Reader
