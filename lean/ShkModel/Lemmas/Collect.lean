import ShkModel.Lemmas.Sort
/-!
# `collectStep` against `collectSpec`: the one-step lemmas and the fold (helper lemmas for C11)
-/
namespace Shk.Collect
open Shk Shk.FuncSpec Shk.Sort

/-- the successive `collectFn` calls on the values `xs`, starting from the array `a`;
`none` as soon as one call reports an error -/
def collectRun (m : Mode) (n : Nat) (a : List Sc) (xs : List Sc) : Option (List Sc) :=
  xs.foldlM (collectStep m n) a

@[simp] theorem collectRun_nil (m : Mode) (n : Nat) (a : List Sc) : collectRun m n a [] = some a := rfl

@[simp] theorem collectRun_cons (m : Mode) (n : Nat) (a : List Sc) (x : Sc) (xs : List Sc) :
    collectRun m n a (x :: xs) = (collectStep m n a x).bind fun a' => collectRun m n a' xs := by
  simp [collectRun, List.foldlM_cons]

/-- a value a `top`/`bottom` collector accepts: nil, a number or a boolean -/
def Sc.isStr : Sc → Bool
  | .str _ => true
  | _ => false

/-! ## `nonNil`, `numsOfAll` -/

@[simp] theorem nonNil_nil : nonNil [] = [] := rfl

@[simp] theorem nonNil_append (a b : List Sc) : nonNil (a ++ b) = nonNil a ++ nonNil b := by
  simp [nonNil]

@[simp] theorem nonNil_single_nil : nonNil [Sc.nil] = [] := by simp [nonNil]

theorem nonNil_single {x : Sc} (h : x ≠ .nil) : nonNil [x] = [x] := by simp [nonNil, h]

theorem nonNil_cons_nil (l : List Sc) : nonNil (Sc.nil :: l) = nonNil l := by simp [nonNil]

theorem nonNil_cons {x : Sc} (h : x ≠ .nil) (l : List Sc) : nonNil (x :: l) = x :: nonNil l := by
  simp [nonNil, h]

theorem mem_nonNil {x : Sc} {l : List Sc} : x ∈ nonNil l ↔ x ∈ l ∧ x ≠ .nil := by simp [nonNil]

theorem numsOfAll_append (a b : List Sc) : numsOfAll (a ++ b) = numsOfAll a ++ numsOfAll b := by
  simp [numsOfAll]

@[simp] theorem numsOfAll_single_nil : numsOfAll [Sc.nil] = [] := by simp [numsOfAll]

theorem numsOfAll_single {x : Sc} {v : Rat} (h : x.numOf = some v) : numsOfAll [x] = [v] := by
  have : x ≠ .nil := by intro e; subst e; simp [Sc.numOf] at h
  simp [numsOfAll, nonNil_single this, h]

/-! ## one step from the specified value to the specified value -/

theorem step_first (n : Nat) (xs : List Sc) (x : Sc) :
    collectStep .first n (collectSpec .first n xs) x = some (collectSpec .first n (xs ++ [x])) := by
  simp only [collectStep, collectSpec, nonNil_append]
  by_cases hx : x = .nil
  · subst hx; simp
  · rw [nonNil_single hx]
    by_cases hl : n ≤ (nonNil xs).length
    · simp [List.take_append_of_le_length hl]
      intro _; omega
    · have h1 : List.take n (nonNil xs) = nonNil xs := List.take_of_length_le (by omega)
      have h2 : ¬ (nonNil xs).length ≥ n := by omega
      simp [hx, h1, h2, List.take_of_length_le (l := nonNil xs ++ [x]) (i := n) (by simp; omega)]

theorem step_last (n : Nat) (hn : 1 ≤ n) (xs : List Sc) (x : Sc) :
    collectStep .last n (collectSpec .last n xs) x = some (collectSpec .last n (xs ++ [x])) := by
  simp only [collectStep, collectSpec, nonNil_append]
  by_cases hx : x = .nil
  · subst hx; simp
  · rw [nonNil_single hx]
    simp only [beq_iff_eq, hx, if_false, Option.some.injEq, List.length_append, List.length_cons,
      List.length_nil, List.length_drop]
    by_cases hl : n ≤ (nonNil xs).length
    · have h1 : (nonNil xs).length - ((nonNil xs).length - n) ≥ n := by omega
      simp only [h1, if_true, List.drop_drop]
      rw [List.drop_append_of_le_length (by omega)]
      congr 2; omega
    · have h1 : ¬ (nonNil xs).length - ((nonNil xs).length - n) ≥ n := by omega
      have h2 : (nonNil xs).length - n = 0 := by omega
      have h3 : (nonNil xs).length + (0 + 1) - n = 0 := by omega
      simp [h2, h3]
      exact fun h => absurd h hl

theorem step_top (n : Nat) (xs : List Sc) (x : Sc) (hx : Sc.isStr x = false) :
    collectStep .top n (collectSpec .top n xs) x = some (collectSpec .top n (xs ++ [x])) := by
  simp only [collectStep, collectSpec, numsOfAll_append]
  cases x with
  | nil => simp
  | str s => simp [Sc.isStr] at hx
  | num q =>
    simp only [show (Sc.num q == Sc.nil) = false from rfl, Sc.numOf, numsOfAll_single (x := .num q) rfl]
    simp [← List.map_take, insertDesc_map, take_insDesc_take, insDesc_sortDesc]
  | bool b =>
    simp only [show (Sc.bool b == Sc.nil) = false from rfl, Sc.numOf, numsOfAll_single (x := .bool b) rfl]
    simp [← List.map_take, insertDesc_map, take_insDesc_take, insDesc_sortDesc]

theorem step_bottom (n : Nat) (xs : List Sc) (x : Sc) (hx : Sc.isStr x = false) :
    collectStep .bottom n (collectSpec .bottom n xs) x = some (collectSpec .bottom n (xs ++ [x])) := by
  simp only [collectStep, collectSpec, numsOfAll_append]
  cases x with
  | nil => simp
  | str s => simp [Sc.isStr] at hx
  | num q =>
    simp only [show (Sc.num q == Sc.nil) = false from rfl, Sc.numOf, numsOfAll_single (x := .num q) rfl]
    simp [← List.map_take, insertAscSc_map, take_insAsc_take, insAsc_sortAsc]
  | bool b =>
    simp only [show (Sc.bool b == Sc.nil) = false from rfl, Sc.numOf, numsOfAll_single (x := .bool b) rfl]
    simp [← List.map_take, insertAscSc_map, take_insAsc_take, insAsc_sortAsc]

/-- a string is refused by `top` and `bottom`, whatever the array -/
theorem step_top_str (n : Nat) (a : List Sc) (s : String) : collectStep .top n a (.str s) = none := rfl

theorem step_bottom_str (n : Nat) (a : List Sc) (s : String) :
    collectStep .bottom n a (.str s) = none := rfl

/-! ## the fold -/

/-- generic induction: a step lemma valid on a class of values closed under the history gives
the fold -/
theorem run_of_step (m : Mode) (n : Nat) (P : Sc → Prop)
    (hstep : ∀ pre x, P x →
      collectStep m n (collectSpec m n pre) x = some (collectSpec m n (pre ++ [x])))
    (pre xs : List Sc) (hxs : ∀ x ∈ xs, P x) :
    collectRun m n (collectSpec m n pre) xs = some (collectSpec m n (pre ++ xs)) := by
  induction xs generalizing pre with
  | nil => simp
  | cons x xs ih =>
    rw [collectRun_cons, hstep pre x (hxs x (by simp)), Option.bind_some,
      ih (pre ++ [x]) (fun y hy => hxs y (by simp [hy]))]
    simp

/-- once a call failed the whole run fails -/
theorem run_none_of_step_none (m : Mode) (n : Nat) (P : Sc → Prop)
    (hstep : ∀ pre x, P x →
      collectStep m n (collectSpec m n pre) x = some (collectSpec m n (pre ++ [x])))
    (pre xs : List Sc) (hxs : ∀ x ∈ xs, P x) (y : Sc) (ys : List Sc)
    (hy : ∀ a, collectStep m n a y = none) :
    collectRun m n (collectSpec m n pre) (xs ++ y :: ys) = none := by
  induction xs generalizing pre with
  | nil => simp [hy]
  | cons x xs ih =>
    rw [List.cons_append, collectRun_cons, hstep pre x (hxs x (by simp)), Option.bind_some]
    exact ih (pre ++ [x]) (fun z hz => hxs z (by simp [hz]))

/-- the run over a sequence cut in two (two activation periods) is the run over the first part
continued by the run over the second -/
theorem run_append (m : Mode) (n : Nat) (a : List Sc) (xs ys : List Sc) :
    collectRun m n a (xs ++ ys) = (collectRun m n a xs).bind fun a' => collectRun m n a' ys := by
  induction xs generalizing a with
  | nil => simp
  | cons x xs ih =>
    rw [List.cons_append, collectRun_cons, collectRun_cons]
    cases collectStep m n a x with
    | none => rfl
    | some a' => simp [ih]

/-- a string anywhere in the sequence makes a `top` / `bottom` run fail, whatever the start -/
theorem run_none_of_str (m : Mode) (hm : m = .top ∨ m = .bottom) (n : Nat) (a : List Sc)
    (xs : List Sc) (s : String) (hs : Sc.str s ∈ xs) : collectRun m n a xs = none := by
  induction xs generalizing a with
  | nil => cases hs
  | cons x xs ih =>
    rw [collectRun_cons]
    cases hst : collectStep m n a x with
    | none => rfl
    | some a' =>
      rw [Option.bind_some]
      rcases List.mem_cons.1 hs with e | h
      · subst e; rcases hm with rfl | rfl <;> cases hst
      · exact ih a' h

/-! ## length invariants -/

theorem insertDesc_length (x : Rat) (a : List Sc) : (insertDesc x a).length = a.length + 1 := by
  induction a with
  | nil => rfl
  | cons y ys ih =>
    simp only [insertDesc]; split
    · split <;> simp [ih]
    · simp

theorem insertAscSc_length (x : Rat) (a : List Sc) : (insertAscSc x a).length = a.length + 1 := by
  induction a with
  | nil => rfl
  | cons y ys ih =>
    simp only [insertAscSc]; split
    · split <;> simp [ih]
    · simp

/-- every `collectFn` call keeps the array within `n` elements (for every array, specified or not) -/
theorem step_length (m : Mode) (n : Nat) (hn : 1 ≤ n) (a l : List Sc) (x : Sc)
    (ha : a.length ≤ n) (h : collectStep m n a x = some l) : l.length ≤ n := by
  cases m with
  | single => simp [collectStep] at h; subst h; exact ha
  | first =>
    simp only [collectStep] at h; split at h
    · simp at h; subst h; exact ha
    · rename_i hc; simp at h hc; subst h; simp; omega
  | last =>
    simp only [collectStep] at h; split at h
    · simp at h; subst h; exact ha
    · simp at h; subst h; split <;> simp <;> omega
  | top =>
    simp only [collectStep] at h; split at h
    · simp at h; subst h; exact ha
    · split at h
      · simp at h; subst h; simp [List.length_take]; omega
      · simp at h
  | bottom =>
    simp only [collectStep] at h; split at h
    · simp at h; subst h; exact ha
    · split at h
      · simp at h; subst h; simp [List.length_take]; omega
      · simp at h

theorem run_length (m : Mode) (n : Nat) (hn : 1 ≤ n) (a l : List Sc) (xs : List Sc)
    (ha : a.length ≤ n) (h : collectRun m n a xs = some l) : l.length ≤ n := by
  induction xs generalizing a with
  | nil => simp at h; subst h; exact ha
  | cons x xs ih =>
    rw [collectRun_cons] at h
    cases hs : collectStep m n a x with
    | none => simp [hs] at h
    | some a' => rw [hs, Option.bind_some] at h; exact ih a' (step_length m n hn a a' x ha hs) h

theorem spec_length (m : Mode) (n : Nat) (xs : List Sc) : (collectSpec m n xs).length ≤ n := by
  cases m <;> simp [collectSpec, List.length_take] <;> omega

end Shk.Collect
